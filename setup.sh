#!/bin/sh
# MANIFEST.setup_cmd: build the framework from files on disk only (offline).
set -e
cd "$(dirname "$0")"
export CARGO_NET_OFFLINE=true
python3 tools/extract_params.py coq/Params.v > /dev/null
(cd coq && coq_makefile -f _CoqProject -o Makefile > /dev/null && timeout 3000 make -j16 > ../.setup_coq.log 2>&1) || { tail -50 .setup_coq.log; echo "setup: Coq build failed (checks will report it)"; }
(cd harness && cargo build --offline > ../.setup_cargo.log 2>&1) || { tail -50 .setup_cargo.log; echo "setup: harness build failed (checks will report it)"; }
echo "setup done"
