From Coq Require Import ZArith Lia.
Require Import VotesNeeded.
Open Scope Z_scope.

Lemma vn_mono w1 w2 p : 0 <= w1 <= w2 -> 0 <= p -> votes_needed w1 p <= votes_needed w2 p.
Proof.
  intros Hw Hp.
  destruct (Z_le_gt_dec (votes_needed w1 p) (votes_needed w2 p)) as [|Hgt]; [assumption|exfalso].
  assert (H2: votes_needed w2 p >= votes_needed w2 p) by lia.
  rewrite vn_spec in H2 by lia.
  assert (H1: ~ (votes_needed w2 p >= votes_needed w1 p)) by lia.
  rewrite vn_spec in H1 by lia.
  unfold PF, DEN in *. nia.
Qed.

(* AbsolutePercentage, early rejection is sound:
   current tally (y,n,a,v), total T, p in [0, DEN]; rejected-now: n > vn (T-a) (DEN-p).
   completion (y',n',a',v') componentwise >= with sum <= T; then NOT y' >= vn (T-a') p. *)
Theorem pct_reject_sound T y n a v y' n' a' v' p :
  0 <= y -> 0 <= n -> 0 <= a -> 0 <= v -> y + n + a + v <= T ->
  y <= y' -> n <= n' -> a <= a' -> v <= v' -> y' + n' + a' + v' <= T ->
  0 <= p <= DEN ->
  n > votes_needed (T - a) (DEN - p) ->
  ~ (y' >= votes_needed (T - a') p).
Proof.
  intros. intro Hpass.
  rewrite vn_spec in Hpass by lia.
  assert (Hm: votes_needed (T - a') (DEN - p) <= votes_needed (T - a) (DEN - p)) by (apply vn_mono; lia).
  assert (Hr: n - 1 >= votes_needed (T - a') (DEN - p)) by lia.
  rewrite vn_spec in Hr by lia.
  unfold PF, DEN in *. nia.
Qed.

(* never both (percentage): y >= vn B p /\ n > vn B (DEN-p) -> y + n > B *)
Theorem pct_never_both B y n p : 0 <= B -> 0 <= y -> 0 <= n -> 0 <= p <= DEN ->
  y >= votes_needed B p -> n > votes_needed B (DEN - p) -> y + n > B.
Proof.
  intros ? ? ? ? Hy Hn.
  rewrite vn_spec in Hy by lia.
  assert (Hr: n - 1 >= votes_needed B (DEN - p)) by lia.
  rewrite vn_spec in Hr by lia.
  unfold PF, DEN in *. nia.
Qed.
Print Assumptions pct_reject_sound.
