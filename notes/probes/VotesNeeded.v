(* Design probe (round 0): the key arithmetic facts about cw3's votes_needed, proved with nia in < 1 s.
   Not part of the framework; kept as a starting point for coq/Cw3Threshold.v. *)
From Coq Require Import ZArith Lia.
Open Scope Z_scope.

Definition PF : Z := 1000000000.
Definition DEN : Z := 1000000000000000000.
Definition votes_needed (w p : Z) : Z := ((PF * w * p) / DEN + PF - 1) / PF.
Lemma DEN_PF : DEN = PF * PF. Proof. reflexivity. Qed.

Lemma ge_ceil_div y a d : 0 < d -> (y >= (a + d - 1) / d <-> y * d >= a).
Proof.
  intros Hd. split; intros H.
  - assert ((a + d - 1) / d * d > a + d - 1 - d) by (pose proof (Z.mod_pos_bound (a+d-1) d Hd); pose proof (Z.div_mod (a+d-1) d); nia).
    nia.
  - assert (a + d - 1 < (y + 1) * d) by nia.
    assert ((a + d - 1) / d < y + 1) by (apply Z.div_lt_upper_bound; lia). lia.
Qed.

Lemma ge_floor_div x a d : 0 < d -> (x >= a / d <-> (x + 1) * d > a).
Proof.
  intros Hd. split; intros H.
  - pose proof (Z.mod_pos_bound a d Hd); pose proof (Z.div_mod a d); nia.
  - assert (a / d < x + 1) by (apply Z.div_lt_upper_bound; lia). lia.
Qed.

Theorem vn_spec y w p : 0 <= w -> 0 <= p ->
  (y >= votes_needed w p <-> (y * PF + 1) * DEN > PF * w * p).
Proof.
  intros. unfold votes_needed.
  rewrite ge_ceil_div by (unfold PF; lia).
  rewrite ge_floor_div by (unfold DEN; lia). reflexivity.
Qed.

Theorem vn_exact y w k : 0 <= w -> 0 <= k ->
  (y >= votes_needed w (k*PF) <-> y * DEN >= w * (k*PF)).
Proof. intros. rewrite vn_spec by (unfold PF; nia). rewrite DEN_PF. unfold PF. nia. Qed.

Theorem vn_never_stricter y w p : 0 <= w -> 0 <= p ->
  y * DEN >= w * p -> y >= votes_needed w p.
Proof. intros. rewrite vn_spec by lia. rewrite DEN_PF in *. unfold PF in *. nia. Qed.

Theorem vn_within_one y w p : 0 <= w -> 0 <= p ->
  y >= votes_needed w p -> (y + 1) * DEN > w * p.
Proof. intros ? ? Hy. rewrite vn_spec in Hy by lia. rewrite DEN_PF in *. unfold PF in *. nia. Qed.
Print Assumptions vn_exact.
