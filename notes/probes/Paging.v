(* Design probe: pagination completeness over a strictly increasing key list. *)
From Coq Require Import List NArith Lia Bool Arith Sorted.
Import ListNotations.

Section P.
Variable keep : N -> bool.

Definition after (c : option N) (ks : list N) : list N :=
  match c with None => ks | Some k => filter (fun x => N.ltb k x) ks end.

Definition eff (limit : option nat) : nat := Nat.min (match limit with Some l => l | None => 10 end) 30.

Definition page (c : option N) (limit : option nat) (ks : list N) : list N :=
  firstn (eff limit) (filter keep (after c ks)).

Lemma page_bound c l ks : length (page c l ks) <= 30 /\ (forall n, l = Some n -> length (page c l ks) <= n).
Proof.
  unfold page, eff. rewrite firstn_length. split.
  - eapply Nat.le_trans; [apply Nat.le_min_l|apply Nat.le_min_r].
  - intros n ->. eapply Nat.le_trans; [apply Nat.le_min_l|apply Nat.le_min_l].
Qed.

Lemma default_10 c ks : length (page c None ks) <= 10.
Proof. unfold page, eff. rewrite firstn_length. eapply Nat.le_trans; [apply Nat.le_min_l|apply Nat.le_min_l]. Qed.

(* iterate pages with fuel; cursor = last key of previous page *)
Fixpoint collect (fuel : nat) (c : option N) (limit : option nat) (ks : list N) : list N :=
  match fuel with
  | O => []
  | S f => let p := page c limit ks in
           match p with
           | [] => []
           | _ => p ++ collect f (Some (last p 0%N)) limit ks
           end
  end.

Definition incr (ks : list N) := StronglySorted N.lt ks.

Lemma filter_all (f : N -> bool) l : Forall (fun x => f x = true) l -> filter f l = l.
Proof. induction 1 as [|a l Ha _ IH]; simpl; [reflexivity|]. rewrite Ha, IH. reflexivity. Qed.

Lemma filter_gt_skip k ks : incr (k :: ks) -> filter (fun x => N.ltb k x) (k :: ks) = ks.
Proof.
  intros H. inversion H as [|? ? Hs Hall]; subst. simpl. rewrite N.ltb_irrefl.
  apply filter_all. eapply Forall_impl; [|exact Hall]. intros x Hx. now apply N.ltb_lt.
Qed.

(* key lemma: for strictly increasing ks = pre ++ [k] ++ post, the elements > k are exactly post *)
Lemma after_split pre k post : incr (pre ++ k :: post) ->
  filter (fun x => N.ltb k x) (pre ++ k :: post) = post.
Proof.
  induction pre as [|a pre IH]; intros H.
  - simpl app. now apply filter_gt_skip.
  - simpl. inversion H as [|? ? Hs Hall]; subst.
    assert (a < k)%N. { rewrite Forall_forall in Hall. apply Hall. apply in_or_app. right. now left. }
    replace (N.ltb k a) with false by (symmetry; apply N.ltb_ge; lia). now apply IH.
Qed.
End P.

(* completeness without filter (keep = const true) to check the induction shape *)
Lemma filter_true (l : list N) : filter (fun _ => true) l = l.
Proof. induction l; simpl; congruence. Qed.

Lemma last_app_cons (A:Type) (l : list A) x d : last (l ++ [x]) d = x.
Proof. induction l as [|a l IH]; simpl; auto. destruct (l ++ [x]) eqn:E; [destruct l; discriminate|]. exact IH. Qed.

Lemma firstn_split_last (l : list N) n : 0 < n -> l <> [] ->
  exists pre k post, firstn n l = pre ++ [k] /\ l = pre ++ k :: post.
Proof.
  revert l; induction n as [|n IH]; intros l Hn Hl; [lia|].
  destruct l as [|a l]; [congruence|].
  destruct n as [|n'].
  - exists [], a, l. split; reflexivity.
  - destruct l as [|b l].
    + exists [], a, []. split; reflexivity.
    + destruct (IH (b :: l)) as (pre & k & post & H1 & H2); [lia|congruence|].
      exists (a :: pre), k, post. split.
      * change (firstn (S (S n')) (a :: b :: l)) with (a :: firstn (S n') (b :: l)). rewrite H1. reflexivity.
      * rewrite H2. reflexivity.
Qed.

Lemma collect_step keep fuel c limit ks p :
  page keep c limit ks = p -> p <> [] ->
  collect keep (S fuel) c limit ks = p ++ collect keep fuel (Some (last p 0%N)) limit ks.
Proof. intros <- Hp. cbn [collect]. destruct (page keep c limit ks); [congruence|reflexivity]. Qed.

Lemma collect_step_empty keep fuel c limit ks :
  page keep c limit ks = [] -> collect keep (S fuel) c limit ks = [].
Proof. intros H. cbn [collect]. rewrite H. reflexivity. Qed.

Lemma incr_filter f ks : incr ks -> incr (filter f ks).
Proof.
  induction 1 as [|a l Hs IH Hall]; simpl; [constructor|].
  destruct (f a); auto. constructor; auto.
  rewrite Forall_forall in *. intros x Hx. apply filter_In in Hx as [Hx _]. auto.
Qed.

Lemma filter_gt_gt c0 k ks : (c0 < k)%N ->
  filter (fun x => N.ltb k x) ks = filter (fun x => N.ltb k x) (filter (fun x => N.ltb c0 x) ks).
Proof.
  intros Hk. induction ks as [|a r IHr]; simpl; auto.
  destruct (N.ltb c0 a) eqn:E1; simpl; destruct (N.ltb k a) eqn:E2; try rewrite IHr; auto.
  apply N.ltb_lt in E2. apply N.ltb_ge in E1. lia.
Qed.

Theorem collect_complete_nofilter :
  forall (n : nat) (ks suffix : list N) (c : option N) (limit : option nat),
    incr ks -> 0 < eff limit -> length suffix <= n ->
    after c ks = suffix ->
    collect (fun _ => true) (S n) c limit ks = suffix.
Proof.
  induction n as [|n IH]; intros ks suffix c limit Hinc Heff Hlen Haft.
  - destruct suffix; [|simpl in Hlen; lia]. apply collect_step_empty.
    unfold page. rewrite filter_true, Haft. apply firstn_nil.
  - destruct suffix as [|s0 suffix'].
    { apply collect_step_empty. unfold page. rewrite filter_true, Haft. apply firstn_nil. }
    destruct (firstn_split_last (s0 :: suffix') (eff limit) Heff) as (pre & k & post & H1 & H2); [congruence|].
    rewrite (collect_step _ _ _ _ _ (pre ++ [k])).
    + rewrite last_app_cons.
      rewrite (IH ks post (Some k) limit Hinc Heff).
      * rewrite H2. rewrite <- app_assoc. reflexivity.
      * assert (length (s0 :: suffix') = length pre + S (length post)) by (rewrite H2, app_length; reflexivity).
        simpl in *. lia.
      * assert (Hincs: incr (pre ++ k :: post)).
        { rewrite <- H2, <- Haft. unfold after. destruct c; [now apply incr_filter|exact Hinc]. }
        unfold after in *. destruct c as [c0|].
        -- assert (Hk: (c0 < k)%N).
           { assert (Hin: In k (filter (fun x => N.ltb c0 x) ks)) by (rewrite Haft, H2; apply in_or_app; right; now left).
             apply filter_In in Hin as [_ Hin]. now apply N.ltb_lt. }
           rewrite (filter_gt_gt c0 k ks Hk), Haft, H2. now apply after_split.
        -- rewrite Haft, H2. now apply after_split.
    + unfold page. rewrite filter_true, Haft. exact H1.
    + destruct pre; discriminate.
Qed.
Print Assumptions collect_complete_nofilter.
