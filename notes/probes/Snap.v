(* Design probe: single-key snapshot (SnapshotItem / one key of a SnapshotMap), EveryBlock strategy,
   as in cw-storage-plus 2.0.0.  value : option N (None = absent). *)
From Coq Require Import List NArith Lia Bool.
Import ListNotations.
Open Scope N_scope.

Definition val := option N.
(* changelog: list of (height, old) kept in increasing height order (newest last is not needed; we search) *)
Record snap := { cur : val; log : list (N * val) }.

Definition has_log (h : N) (l : list (N * val)) : bool := existsb (fun e => N.eqb (fst e) h) l.

(* write at height h: if no changelog entry for h, record old value; then set primary *)
Definition write (s : snap) (h : N) (v : val) : snap :=
  {| cur := v; log := if has_log h (log s) then log s else log s ++ [(h, cur s)] |}.

(* first entry with height >= h, in increasing height order.  The log is append-only with
   non-decreasing heights, so list order = height order. *)
Fixpoint first_ge (h : N) (l : list (N * val)) : option val :=
  match l with
  | [] => None
  | (g, old) :: r => if N.leb h g then Some old else first_ge h r
  end.

Definition load_at (s : snap) (h : N) : val :=
  match first_ge h (log s) with Some old => old | None => cur s end.

(* history: list of writes (height, value), heights non-decreasing *)
Fixpoint run (s : snap) (ws : list (N * val)) : snap :=
  match ws with [] => s | (h, v) :: r => run (write s h v) r end.

(* the true value at the start of block h: value after all writes with height < h.
   (since heights are non-decreasing, these are a prefix) *)
Fixpoint truth (init : val) (ws : list (N * val)) (h : N) : val :=
  match ws with
  | [] => init
  | (g, v) :: r => if N.ltb g h then truth v r h else init
  end.

Fixpoint nondec (lo : N) (ws : list (N * val)) : Prop :=
  match ws with [] => True | (g, _) :: r => lo <= g /\ nondec g r end.

(* Invariant relating a snapshot to "its past": 
   - log heights strictly increasing and all <= top
   - for every h: load_at s h is "the value at start of block h" for a semantic function past *)
Definition log_sorted (l : list (N * val)) (top : N) : Prop :=
  (forall e, In e l -> fst e <= top) /\
  (forall a b l1 l2 l3, l = l1 ++ a :: l2 ++ b :: l3 -> fst a < fst b).

Lemma first_ge_app_none l e h : first_ge h l = None -> first_ge h (l ++ [e]) = (if N.leb h (fst e) then Some (snd e) else None).
Proof.
  induction l as [|[g o] l IH]; simpl; intros H.
  - destruct e; simpl. reflexivity.
  - destruct (N.leb h g); [discriminate|]. auto.
Qed.

Lemma first_ge_app_some l e h o : first_ge h l = Some o -> first_ge h (l ++ [e]) = Some o.
Proof.
  induction l as [|[g o'] l IH]; simpl; intros H; [discriminate|].
  destruct (N.leb h g); auto.
Qed.

Lemma first_ge_none_all l h : first_ge h l = None <-> (forall e, In e l -> fst e < h).
Proof.
  induction l as [|[g o] l IH]; simpl.
  - split; [intros _ e []|reflexivity].
  - destruct (N.leb_spec h g).
    + split; [discriminate|]. intros H0. specialize (H0 (g,o) (or_introl eq_refl)). simpl in H0. lia.
    + rewrite IH. split.
      * intros H0 e [<-|Hin]; simpl; auto.
      * intros H0 e Hin. apply H0. now right.
Qed.

Lemma has_log_true l h : has_log h l = true <-> exists e, In e l /\ fst e = h.
Proof.
  unfold has_log. rewrite existsb_exists. split; intros [e [Hin He]]; exists e; split; auto.
  - now apply N.eqb_eq. - now apply N.eqb_eq.
Qed.

(* Core invariant, stated semantically:
   I s top f  :=  all log heights <= top
               /\ forall h, h <= top -> load_at s h = f h      (frozen past, incl. current block)
               /\ (has_log top (log s) = false -> f top = cur s)   -- not needed separately
   and for h > top, load_at s h = cur s. *)
Definition Inv (s : snap) (top : N) (f : N -> val) : Prop :=
  (forall e, In e (log s) -> fst e <= top) /\
  (forall h, h <= top -> load_at s h = f h) /\
  (forall h, top < h -> load_at s h = cur s).

Lemma write_inv s top f h v :
  Inv s top f -> top <= h ->
  Inv (write s h v) h (fun x => if N.leb x top then f x else if N.leb x h then cur s else v (* unused *)).
Proof.
  intros (Hle & Hpast & Hfut) Hh. unfold write, Inv, load_at in *; simpl.
  destruct (has_log h (log s)) eqn:Hl; simpl.
  - (* already logged in this block: then h = top necessarily *)
    apply has_log_true in Hl. destruct Hl as [e [Hin He]]. pose proof (Hle e Hin). assert (h = top) by lia. subst h top.
    repeat split.
    + intros e0 H0. now apply Hle.
    + intros x Hx. rewrite (proj2 (N.leb_le x (fst e))) by lia.
      specialize (Hpast x Hx). 
      destruct (first_ge x (log s)) eqn:F; [exact Hpast|].
      exfalso. rewrite first_ge_none_all in F. specialize (F e Hin). lia.
    + intros x Hx. destruct (first_ge x (log s)) eqn:F; [|reflexivity].
      exfalso. assert (HN: first_ge x (log s) <> None) by congruence. apply HN. apply first_ge_none_all.
      intros e0 Hin0. specialize (Hle e0 Hin0). lia.
  - (* new entry (h, cur s) appended *)
    assert (Hlt: forall e, In e (log s) -> fst e < h).
    { intros e Hin. pose proof (Hle e Hin). destruct (N.eq_dec (fst e) h) as [E|E]; [|lia].
      exfalso. assert (has_log h (log s) = true) by (apply has_log_true; eauto). congruence. }
    repeat split.
    + intros e Hin. apply in_app_or in Hin as [Hin|[<-|[]]]; simpl; [specialize (Hlt e Hin)|]; lia.
    + intros x Hx. destruct (N.leb_spec x top).
      * specialize (Hpast x H). destruct (first_ge x (log s)) eqn:F.
        -- erewrite first_ge_app_some by eauto. exact Hpast.
        -- rewrite first_ge_app_none by auto. simpl. rewrite (proj2 (N.leb_le x h)) by lia. exact Hpast.
      * rewrite (proj2 (N.leb_le x h)) by lia.
        specialize (Hfut x H). destruct (first_ge x (log s)) eqn:F.
        -- exfalso. assert (HN: first_ge x (log s) <> None) by congruence. apply HN. apply first_ge_none_all.
           intros e Hin. specialize (Hle e Hin). lia.
        -- rewrite first_ge_app_none by auto. simpl. rewrite (proj2 (N.leb_le x h)) by lia. reflexivity.
    + intros x Hx. assert (F: first_ge x (log s ++ [(h, cur s)]) = None).
      { apply first_ge_none_all. intros e Hin. apply in_app_or in Hin as [Hin|[<-|[]]]; simpl; [specialize (Hlt e Hin)|]; lia. }
      rewrite F. reflexivity.
Qed.
Print Assumptions write_inv.
