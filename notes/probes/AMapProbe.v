(* Design probe: sorted association lists with N keys, and the cw20 "supply = sum of balances" step
   for transfer / mint / burn on top of them.  Goal: measure proof friction of the AMap design. *)
From Coq Require Import List NArith Lia Bool.
Import ListNotations.
Open Scope N_scope.
Arguments N.add : simpl never. Arguments N.sub : simpl never. Arguments N.leb : simpl never.
Arguments N.ltb : simpl never. Arguments N.eqb : simpl never. Arguments N.compare : simpl never.

Definition amap := list (N * N).

Fixpoint get (m : amap) (k : N) : option N :=
  match m with
  | [] => None
  | (k', v) :: r => if k =? k' then Some v else if k <? k' then None else get r k
  end.
Definition getd (m : amap) (k : N) : N := match get m k with Some v => v | None => 0 end.

Fixpoint set (m : amap) (k v : N) : amap :=
  match m with
  | [] => [(k, v)]
  | (k', v') :: r => if k =? k' then (k, v) :: r else if k <? k' then (k, v) :: (k', v') :: r else (k', v') :: set r k v
  end.

Fixpoint sum (m : amap) : N := match m with [] => 0 | (_, v) :: r => v + sum r end.

Inductive sorted : amap -> Prop :=
| s_nil : sorted []
| s_one k v : sorted [(k, v)]
| s_cons k v k' v' r : k < k' -> sorted ((k', v') :: r) -> sorted ((k, v) :: (k', v') :: r).

Lemma get_set_eq m k v : get (set m k v) k = Some v.
Proof.
  induction m as [|[k' v'] r IH]; simpl.
  - now rewrite N.eqb_refl.
  - destruct (k =? k') eqn:E; simpl; [now rewrite N.eqb_refl|].
    destruct (k <? k') eqn:L; simpl; [now rewrite N.eqb_refl|].
    rewrite E, L. exact IH.
Qed.

Lemma get_set_neq m k v j : sorted m -> j <> k -> get (set m k v) j = get m j.
Proof.
  intros Hs Hne. induction Hs as [|k' v'|k1 v1 k2 v2 r Hlt Hs IH]; simpl.
  - destruct (j =? k) eqn:E; [apply N.eqb_eq in E; congruence|]. now destruct (j <? k).
  - destruct (k =? k') eqn:E; simpl.
    + apply N.eqb_eq in E; subst k'. destruct (j =? k) eqn:E2; [apply N.eqb_eq in E2; congruence|]. reflexivity.
    + destruct (k <? k') eqn:L; simpl.
      * destruct (j =? k) eqn:E2; [apply N.eqb_eq in E2; congruence|].
        destruct (j <? k) eqn:L2; [|reflexivity].
        apply N.ltb_lt in L, L2. destruct (j =? k') eqn:E3; [apply N.eqb_eq in E3; lia|].
        replace (j <? k') with true by (symmetry; apply N.ltb_lt; lia). reflexivity.
      * destruct (j =? k') eqn:E3; [reflexivity|]. destruct (j <? k') eqn:L3; [reflexivity|].
        destruct (j =? k) eqn:E2; [apply N.eqb_eq in E2; congruence|].
        destruct (j <? k) eqn:L2; reflexivity.
  - destruct (k =? k1) eqn:E; simpl.
    + apply N.eqb_eq in E; subst k1. destruct (j =? k) eqn:E2; [apply N.eqb_eq in E2; congruence|]. reflexivity.
    + destruct (k <? k1) eqn:L; simpl.
      * destruct (j =? k) eqn:E2; [apply N.eqb_eq in E2; congruence|].
        destruct (j <? k) eqn:L2; [|reflexivity].
        apply N.ltb_lt in L, L2. destruct (j =? k1) eqn:E3; [apply N.eqb_eq in E3; lia|].
        replace (j <? k1) with true by (symmetry; apply N.ltb_lt; lia). reflexivity.
      * destruct (j =? k1) eqn:E3; [reflexivity|]. destruct (j <? k1) eqn:L3; [reflexivity|].
        simpl in IH. exact IH.
Qed.

Lemma set_sorted m k v : sorted m -> sorted (set m k v).
Proof.
  intros Hs. induction Hs as [|k' v'|k1 v1 k2 v2 r Hlt Hs IH]; simpl.
  - constructor.
  - destruct (k =? k') eqn:E; [constructor|]. destruct (k <? k') eqn:L.
    + constructor; [now apply N.ltb_lt|constructor].
    + constructor; [|constructor]. apply N.eqb_neq in E. apply N.ltb_ge in L. lia.
  - destruct (k =? k1) eqn:E.
    + apply N.eqb_eq in E; subst. now constructor.
    + destruct (k <? k1) eqn:L.
      * constructor; [now apply N.ltb_lt|now constructor].
      * simpl in IH. apply N.eqb_neq in E. apply N.ltb_ge in L.
        destruct (k =? k2) eqn:E2.
        -- apply N.eqb_eq in E2; subst. constructor; auto.
        -- destruct (k <? k2) eqn:L2.
           ++ constructor; [lia|]. exact IH.
           ++ constructor; [exact Hlt|exact IH].
Qed.

Lemma sum_set m k v : sorted m -> sum (set m k v) + getd m k = sum m + v.
Proof.
  unfold getd. intros Hs. induction Hs as [|k' v'|k1 v1 k2 v2 r Hlt Hs IH]; simpl.
  - lia.
  - destruct (k =? k') eqn:E; simpl; [lia|]. destruct (k <? k') eqn:L; simpl; lia.
  - destruct (k =? k1) eqn:E; simpl; [lia|]. destruct (k <? k1) eqn:L; simpl; [lia|].
    simpl in IH. lia.
Qed.

(* ---- mini cw20 ---- *)
Definition u128max : N := 340282366920938463463374607431768211455.
Record st := { bal : amap; supply : N }.
Definition add128 (a b : N) : option N := if a + b <=? u128max then Some (a + b) else None.
Definition sub128 (a b : N) : option N := if b <=? a then Some (a - b) else None.

Definition transfer (s : st) (from to n : N) : option st :=
  match sub128 (getd (bal s) from) n with
  | None => None
  | Some fb =>
    let b1 := set (bal s) from fb in
    match add128 (getd b1 to) n with
    | None => None
    | Some tb => Some {| bal := set b1 to tb; supply := supply s |}
    end
  end.

Definition Inv (s : st) := sorted (bal s) /\ sum (bal s) = supply s /\ supply s <= u128max.

Lemma getd_set_eq m k v : getd (set m k v) k = v.
Proof. unfold getd. now rewrite get_set_eq. Qed.
Lemma getd_set_neq m k v j : sorted m -> j <> k -> getd (set m k v) j = getd m j.
Proof. intros. unfold getd. now rewrite get_set_neq. Qed.

Theorem transfer_inv s from to n s' : Inv s -> transfer s from to n = Some s' -> Inv s'.
Proof.
  intros (Hs & Hsum & Hle). unfold transfer, sub128, add128.
  destruct (n <=? getd (bal s) from) eqn:E1; [|discriminate].
  set (b1 := set (bal s) from (getd (bal s) from - n)).
  destruct (getd b1 to + n <=? u128max) eqn:E2; [|discriminate].
  intros H; inversion H; subst; clear H. unfold Inv; simpl.
  assert (Hs1: sorted b1) by (apply set_sorted; exact Hs).
  split; [now apply set_sorted|]. split; [|exact Hle].
  pose proof (sum_set (bal s) from (getd (bal s) from - n) Hs) as A.
  pose proof (sum_set b1 to (getd b1 to + n) Hs1) as B. fold b1 in A.
  apply N.leb_le in E1. lia.
Qed.

(* and the credit can never overflow under the invariant *)
Lemma getd_le_sum m k : getd m k <= sum m.
Proof.
  unfold getd. induction m as [|[k' v'] r IH]; simpl; [lia|].
  destruct (k =? k'); [lia|]. destruct (k <? k'); lia.
Qed.

Theorem transfer_never_overflows s from to n : Inv s -> n <= getd (bal s) from -> exists s', transfer s from to n = Some s'.
Proof.
  intros (Hs & Hsum & Hle) Hn. unfold transfer, sub128, add128.
  replace (n <=? getd (bal s) from) with true by (symmetry; now apply N.leb_le).
  set (b1 := set (bal s) from (getd (bal s) from - n)).
  assert (getd b1 to + n <= u128max).
  { pose proof (sum_set (bal s) from (getd (bal s) from - n) Hs) as A. fold b1 in A.
    pose proof (getd_le_sum b1 to). lia. }
  replace (getd b1 to + n <=? u128max) with true by (symmetry; now apply N.leb_le). eauto.
Qed.
Print Assumptions transfer_never_overflows.
