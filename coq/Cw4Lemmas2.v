(* Cw4Lemmas2.v — C14 over whole histories: the hook registry.  Who is notified is exactly who is registered
   at the time of the call; the registry never lists an address twice; a removed hook hears nothing until
   an admin registers it again.  No invariant is assumed of the starting state unless stated. *)
Require Import CwPlus.Params CwPlus.Base CwPlus.AMap CwPlus.Cw4Model CwPlus.Cw4Snap CwPlus.Cw4Lemmas.
Open Scope N_scope.

Definition recipients_registered (st : state) (ms : list msg) : Prop :=
  forall h ds, In (HookMsg h ds) ms -> In h (hooks st).

Lemma hook_msgs_reg st ds : recipients_registered st (hook_msgs st ds).
Proof.
  intros h d Hin. unfold hook_msgs in Hin. apply in_map_iff in Hin. destruct Hin as (x & E & Hx). inv E. exact Hx.
Qed.
Lemma nil_reg st : recipients_registered st [].
Proof. intros h ds []. Qed.

Lemma um_reg st who ns H st' ms : update_membership st who ns H = Ok (st', ms) ->
  recipients_registered st ms /\ hooks st' = hooks st.
Proof.
  unfold update_membership, rbind. intros Hu. destruct (calc_weight (cfg st) ns) as [new| |]; try discriminate.
  destruct (optN_eqb new (m_cur (members st) who)); [inv Hu; split; [apply nil_reg|reflexivity]|].
  destruct (cur (total_s st)) as [t|]; [|discriminate]. destruct (add64 t (unw new)) as [t1|]; [|discriminate].
  destruct (sub64 t1 (unw (m_cur (members st) who))); [|discriminate]. inv Hu. split; [apply hook_msgs_reg|reflexivity].
Qed.

(* how the registry moves in one accepted call, and who may be told *)
Lemma step_hooks st blk sender o st' ms : step st blk sender o = Ok (st', ms) ->
  recipients_registered st ms /\
  match o with
  | AddHook (Some x) => hooks st' = hooks st ++ [x] /\ mem x (hooks st) = false /\ is_admin st sender = true
  | RemoveHook (Some x) => hooks st' = remove_first x (hooks st) /\ mem x (hooks st) = true /\ is_admin st sender = true
  | _ => hooks st' = hooks st
  end.
Proof.
  intros Hs. destruct o as [a|a|a|add rem|funds|n| |from n pok|tok n pok|n]; cbn [step] in Hs.
  - destruct a as [[x|]|]; try discriminate; destruct (is_admin st sender); try discriminate; inv Hs;
      (split; [apply nil_reg|reflexivity]).
  - destruct a as [x|]; [|discriminate]. destruct (is_admin st sender); [|discriminate]. cbn [negb] in Hs.
    destruct (mem x (hooks st)); [discriminate|]. inv Hs. split; [apply nil_reg|]. cbn [with_core hooks]. auto.
  - destruct a as [x|]; [|discriminate]. destruct (is_admin st sender); [|discriminate]. cbn [negb] in Hs.
    destruct (mem x (hooks st)); [|discriminate]. inv Hs. split; [apply nil_reg|]. cbn [with_core hooks]. auto.
  - destruct (is_stake st) eqn:K; [discriminate|]. unfold update_members in Hs.
    destruct (validate_members add); [|discriminate]. destruct (has_dup (sort_members l)); [discriminate|].
    destruct (is_admin st sender); [|discriminate]. cbn [negb] in Hs.
    destruct (validate_args rem); [|discriminate]. destruct (cur (total_s st)); [|discriminate].
    destruct (add_loop _ _ _ _ _) as [[[? ?] ?]|]; [|discriminate].
    destruct (remove_loop _ _ _ _ _) as [[[? ?] ?]|]; [|discriminate]. inv Hs.
    split; [apply hook_msgs_reg|reflexivity].
  - destruct (is_stake st) eqn:K; [|discriminate]. cbn [negb] in Hs.
    destruct (c_token (cfg st)); [|discriminate]. destruct (must_pay funds d); [|discriminate].
    unfold bond in Hs. destruct (add128 _ _); [|discriminate].
    destruct (um_reg _ _ _ _ _ _ Hs) as (A & B). cbn [with_stake hooks] in *. split; assumption.
  - destruct (is_stake st) eqn:K; [|discriminate]. cbn [negb] in Hs. unfold unbond in Hs.
    destruct (sub128 _ _); [|discriminate]. destruct (duration_after _ _); [|discriminate].
    destruct (um_reg _ _ _ _ _ _ Hs) as (A & B). cbn [with_stake hooks] in *. split; assumption.
  - destruct (is_stake st) eqn:K; [|discriminate]. cbn [negb] in Hs. unfold claim in Hs.
    destruct (u128max <? _); [discriminate|]. destruct (_ =? 0); [discriminate|]. inv Hs.
    split; [|reflexivity]. intros h ds [E|[]]. discriminate.
  - destruct (is_stake st) eqn:K; [|discriminate]. cbn [negb] in Hs.
    destruct pok; [|discriminate]. cbn [negb] in Hs. destruct from; [|discriminate].
    destruct (c_token (cfg st)); [discriminate|]. destruct (a =? sender); [|discriminate].
    unfold bond in Hs. destruct (add128 _ _); [|discriminate].
    destruct (um_reg _ _ _ _ _ _ Hs) as (A & B). cbn [with_stake hooks] in *. split; assumption.
  - discriminate.
  - discriminate.
Qed.

(* list facts *)
Lemma mem_In x l : mem x l = true <-> In x l.
Proof.
  unfold mem. rewrite existsb_exists. split.
  - intros (y & Hy & E). apply N.eqb_eq in E. subst y. exact Hy.
  - intros H. exists x. split; [exact H|apply N.eqb_refl].
Qed.
Lemma remove_first_In x y l : In y (remove_first x l) -> In y l.
Proof.
  induction l as [|z r IH]; cbn [remove_first]; [auto|]. destruct (z =? x); [intros H; right; exact H|].
  intros [E|H]; [left; exact E|right; apply IH; exact H].
Qed.
Lemma remove_first_NoDup x l : NoDup l -> NoDup (remove_first x l) /\ ~ In x (remove_first x l).
Proof.
  induction l as [|z r IH]; cbn [remove_first]; intros Hn; [split; [constructor|intros []]|].
  inversion Hn as [|? ? Hz Hr]; subst. destruct (z =? x) eqn:E.
  - apply N.eqb_eq in E. subst z. split; assumption.
  - apply N.eqb_neq in E. destruct (IH Hr) as (A & B). split.
    + constructor; [|exact A]. intros H. apply Hz. exact (remove_first_In _ _ _ H).
    + intros [H|H]; [exact (E H)|exact (B H)].
Qed.
Lemma NoDup_snoc (x : N) l : NoDup l -> ~ In x l -> NoDup (l ++ [x]).
Proof.
  induction l as [|z r IH]; intros Hn Hx; cbn [app]; [constructor; [intros []|constructor]|].
  inversion Hn as [|? ? Hz Hr]; subst. constructor.
  - rewrite in_app_iff. intros [H|[H|[]]]; [exact (Hz H)|]. subst z. apply Hx. left. reflexivity.
  - apply IH; [exact Hr|]. intros H. apply Hx. right. exact H.
Qed.

Lemma step_hooks_nodup st blk sender o st' ms : step st blk sender o = Ok (st', ms) -> NoDup (hooks st) -> NoDup (hooks st').
Proof.
  intros Hs Hn. destruct (step_hooks _ _ _ _ _ _ Hs) as (_ & Hh).
  destruct o as [a|[x|]|[x|]|add rem|funds|n| |from n pok|tok n pok|n]; try (rewrite Hh; exact Hn).
  - destruct Hh as (-> & M & _). apply NoDup_snoc; [exact Hn|]. intros H. apply mem_In in H. congruence.
  - destruct Hh as (-> & _ & _). apply (remove_first_NoDup x _ Hn).
Qed.

(* one transaction: the registry moves as its handler call moved it, or not at all *)
Definition tx_msgs (st : state) (c : call) : list msg :=
  let '(blk, sender, o, dok) := c in snd (tx st blk sender o dok).
Definition adds_hook (x : N) (c : call) : Prop :=
  let '(_, _, o, _) := c in o = AddHook (Some x).

Lemma tx_hooks st c :
  recipients_registered st (tx_msgs st c) /\
  (NoDup (hooks st) -> NoDup (hooks (tx_state st c))) /\
  (forall x, ~ adds_hook x c -> ~ In x (hooks st) -> ~ In x (hooks (tx_state st c))).
Proof.
  destruct c as [[[blk sender] o] dok]. unfold tx_msgs, tx_state, adds_hook.
  assert (Same: recipients_registered st [] /\ (NoDup (hooks st) -> NoDup (hooks st)) /\
                (forall x, o <> AddHook (Some x) -> ~ In x (hooks st) -> ~ In x (hooks st))).
  { split; [apply nil_reg|]. split; auto. }
  destruct o as [a|a|a|add rem|funds|n| |from n pok|tok n pok|n];
  try (unfold tx;
       match goal with
       | |- context [step st blk ?c ?o'] =>
           destruct (step st blk c o') as [[st' ms]| |] eqn:Hs; try exact Same;
           match goal with |- context [if ?b then _ else _] => destruct b; [|exact Same] end;
           cbn [fst snd with_held hooks];
           destruct (step_hooks _ _ _ _ _ _ Hs) as (R & Hh); split; [exact R|]; split;
           [intros Hn; exact (step_hooks_nodup _ _ _ _ _ _ Hs Hn)|]
       end).
  - intros x _ Hx. rewrite Hh. exact Hx.
  - intros x Hne Hx. destruct a as [y|]; [|rewrite Hh; exact Hx]. destruct Hh as (-> & _ & _).
    rewrite in_app_iff. intros [H|[H|[]]]; [exact (Hx H)|]. subst y. apply Hne. reflexivity.
  - intros x _ Hx. destruct a as [y|]; [|rewrite Hh; exact Hx]. destruct Hh as (-> & _ & _).
    intros H. apply Hx. exact (remove_first_In _ _ _ H).
  - intros x _ Hx. rewrite Hh. exact Hx.
  - intros x _ Hx. rewrite Hh. exact Hx.
  - intros x _ Hx. rewrite Hh. exact Hx.
  - intros x _ Hx. rewrite Hh. exact Hx.
  - intros x _ Hx. rewrite Hh. exact Hx.
  - intros x _ Hx. rewrite Hh. exact Hx.
  - unfold tx. destruct (held st + n <=? u128max); cbn [fst snd with_held hooks]; exact Same.
Qed.

(* over a whole history *)
Fixpoint silent_for (x : N) (st : state) (cs : list call) : Prop :=
  match cs with
  | [] => True
  | c :: r => (forall ds, ~ In (HookMsg x ds) (tx_msgs st c)) /\ silent_for x (tx_state st c) r
  end.

Lemma unregistered_silent x cs : forall st, ~ In x (hooks st) -> Forall (fun c => ~ adds_hook x c) cs -> silent_for x st cs.
Proof.
  induction cs as [|c r IH]; intros st Hx Hf; cbn [silent_for]; [exact I|].
  inversion Hf as [|? ? Hc Hr]; subst. destruct (tx_hooks st c) as (R & _ & K). split.
  - intros ds H. apply Hx. exact (R _ _ H).
  - apply IH; [apply K; assumption|exact Hr].
Qed.

(* a removed hook is no longer notified: from the state right after an accepted RemoveHook{x}, no call of
   any history that does not register x again sends x anything *)
Theorem removed_hook_silent st blk sender x st' ms cs :
  NoDup (hooks st) -> step st blk sender (RemoveHook (Some x)) = Ok (st', ms) ->
  Forall (fun c => ~ adds_hook x c) cs -> silent_for x st' cs.
Proof.
  intros Hn Hs Hf. apply unregistered_silent; [|exact Hf].
  destruct (step_hooks _ _ _ _ _ _ Hs) as (_ & -> & _ & _). apply (remove_first_NoDup x _ Hn).
Qed.

Lemma run_hooks_nodup cs : forall st, NoDup (hooks st) -> NoDup (hooks (run st cs)).
Proof.
  unfold run. induction cs as [|c r IH]; intros st Hn; cbn [fold_left]; [exact Hn|].
  apply IH. destruct (tx_hooks st c) as (_ & K & _). exact (K Hn).
Qed.

Lemma instantiate_hooks m blk st : instantiate m blk = Ok st -> hooks st = [].
Proof.
  unfold instantiate. intros H.
  destruct (i_admin m) as [[a|]|]; try discriminate;
    (destruct (i_stake m); [inv H; reflexivity|]);
    (destruct (validate_members (i_members m)); [|discriminate]);
    (destruct (has_dup _); [discriminate|]);
    (destruct (create_loop _ _ _ _) as [[? ?]|]; [|discriminate]); inv H; reflexivity.
Qed.

(* in every reachable state no address is registered twice ... *)
Theorem hooks_nodup_history m blk st cs : instantiate m blk = Ok st -> NoDup (hooks (run st cs)).
Proof. intros H. apply run_hooks_nodup. rewrite (instantiate_hooks _ _ _ H). constructor. Qed.

(* ... hence every accepted call tells each address at most once, and only registered ones *)
Fixpoint told (ms : list msg) : list N :=
  match ms with [] => [] | HookMsg h _ :: r => h :: told r | _ :: r => told r end.
Lemma told_hook_msgs st ds : told (hook_msgs st ds) = hooks st.
Proof. unfold hook_msgs. induction (hooks st) as [|h r IH]; cbn [map told]; [reflexivity|rewrite IH; reflexivity]. Qed.

Lemma um_told st who ns H st' ms : update_membership st who ns H = Ok (st', ms) -> told ms = [] \/ told ms = hooks st.
Proof.
  unfold update_membership, rbind. intros Hu. destruct (calc_weight (cfg st) ns) as [new| |]; try discriminate.
  destruct (optN_eqb new (m_cur (members st) who)); [inv Hu; left; reflexivity|].
  destruct (cur (total_s st)) as [t|]; [|discriminate]. destruct (add64 t (unw new)) as [t1|]; [|discriminate].
  destruct (sub64 t1 (unw (m_cur (members st) who))); [|discriminate]. inv Hu. right. apply told_hook_msgs.
Qed.

Theorem told_once st blk sender o st' ms : step st blk sender o = Ok (st', ms) ->
  told ms = [] \/ told ms = hooks st.
Proof.
  intros Hs. destruct o as [a|a|a|add rem|funds|n| |from n pok|tok n pok|n]; cbn [step] in Hs.
  - destruct a as [[x|]|]; try discriminate; destruct (is_admin st sender); try discriminate; inv Hs; left; reflexivity.
  - destruct a as [x|]; [|discriminate]. destruct (is_admin st sender); [|discriminate]. cbn [negb] in Hs.
    destruct (mem x (hooks st)); [discriminate|]. inv Hs. left; reflexivity.
  - destruct a as [x|]; [|discriminate]. destruct (is_admin st sender); [|discriminate]. cbn [negb] in Hs.
    destruct (mem x (hooks st)); [|discriminate]. inv Hs. left; reflexivity.
  - destruct (is_stake st) eqn:K; [discriminate|]. unfold update_members in Hs.
    destruct (validate_members add); [|discriminate]. destruct (has_dup (sort_members l)); [discriminate|].
    destruct (is_admin st sender); [|discriminate]. cbn [negb] in Hs.
    destruct (validate_args rem); [|discriminate]. destruct (cur (total_s st)); [|discriminate].
    destruct (add_loop _ _ _ _ _) as [[[? ?] ?]|]; [|discriminate].
    destruct (remove_loop _ _ _ _ _) as [[[? ?] ?]|]; [|discriminate]. inv Hs. right. apply told_hook_msgs.
  - destruct (is_stake st) eqn:K; [|discriminate]. cbn [negb] in Hs.
    destruct (c_token (cfg st)); [|discriminate]. destruct (must_pay funds d); [|discriminate].
    unfold bond in Hs. destruct (add128 _ _); [|discriminate]. exact (um_told _ _ _ _ _ _ Hs).
  - destruct (is_stake st) eqn:K; [|discriminate]. cbn [negb] in Hs. unfold unbond in Hs.
    destruct (sub128 _ _); [|discriminate]. destruct (duration_after _ _); [|discriminate]. exact (um_told _ _ _ _ _ _ Hs).
  - destruct (is_stake st) eqn:K; [|discriminate]. cbn [negb] in Hs. unfold claim in Hs.
    destruct (u128max <? _); [discriminate|]. destruct (_ =? 0); [discriminate|]. inv Hs. left; reflexivity.
  - destruct (is_stake st) eqn:K; [|discriminate]. cbn [negb] in Hs.
    destruct pok; [|discriminate]. cbn [negb] in Hs. destruct from; [|discriminate].
    destruct (c_token (cfg st)); [discriminate|]. destruct (a =? sender); [|discriminate].
    unfold bond in Hs. destruct (add128 _ _); [|discriminate]. exact (um_told _ _ _ _ _ _ Hs).
  - discriminate.
  - discriminate.
Qed.

(* ---------------------------------------------------------------------------------------- *)
(* C10 over whole histories, per user: what a user was paid plus what it can still claim is exactly what it
   unbonded (plus the claims it started with) — a claim is paid once, in full, and to its owner *)
Fixpoint pays (ms : list msg) : list (N * N) :=
  match ms with [] => [] | Pay _ to n :: r => (to, n) :: pays r | _ :: r => pays r end.
Definition paid_to (a : N) (ms : list msg) : N := sumN (map snd (filter (fun p => fst p =? a) (pays ms))).

Lemma pays_hook_msgs st ds : pays (hook_msgs st ds) = [].
Proof. unfold hook_msgs. induction (hooks st) as [|h r IH]; cbn [map pays]; [reflexivity|exact IH]. Qed.
Lemma um_pays st who ns H st' ms : update_membership st who ns H = Ok (st', ms) -> pays ms = [].
Proof.
  unfold update_membership, rbind. intros Hu. destruct (calc_weight (cfg st) ns) as [new| |]; try discriminate.
  destruct (optN_eqb new (m_cur (members st) who)); [inv Hu; reflexivity|].
  destruct (cur (total_s st)) as [t|]; [|discriminate]. destruct (add64 t (unw new)) as [t1|]; [|discriminate].
  destruct (sub64 t1 (unw (m_cur (members st) who))); [|discriminate]. inv Hu. apply pays_hook_msgs.
Qed.
Lemma step_pays st blk sender o st' ms : step st blk sender o = Ok (st', ms) ->
  match o with Claim => True | _ => pays ms = [] end.
Proof.
  intros Hs. destruct o as [a|a|a|add rem|funds|n| |from n pok|tok n pok|n]; cbn [step] in Hs; try exact I.
  - destruct a as [[x|]|]; try discriminate; destruct (is_admin st sender); try discriminate; inv Hs; reflexivity.
  - destruct a as [x|]; [|discriminate]. destruct (is_admin st sender); [|discriminate]. cbn [negb] in Hs.
    destruct (mem x (hooks st)); [discriminate|]. inv Hs. reflexivity.
  - destruct a as [x|]; [|discriminate]. destruct (is_admin st sender); [|discriminate]. cbn [negb] in Hs.
    destruct (mem x (hooks st)); [|discriminate]. inv Hs. reflexivity.
  - destruct (is_stake st) eqn:K; [discriminate|]. unfold update_members in Hs.
    destruct (validate_members add); [|discriminate]. destruct (has_dup (sort_members l)); [discriminate|].
    destruct (is_admin st sender); [|discriminate]. cbn [negb] in Hs.
    destruct (validate_args rem); [|discriminate]. destruct (cur (total_s st)); [|discriminate].
    destruct (add_loop _ _ _ _ _) as [[[? ?] ?]|]; [|discriminate].
    destruct (remove_loop _ _ _ _ _) as [[[? ?] ?]|]; [|discriminate]. inv Hs. apply pays_hook_msgs.
  - destruct (is_stake st) eqn:K; [|discriminate]. cbn [negb] in Hs.
    destruct (c_token (cfg st)); [|discriminate]. destruct (must_pay funds d); [|discriminate].
    unfold bond in Hs. destruct (add128 _ _); [|discriminate]. exact (um_pays _ _ _ _ _ _ Hs).
  - destruct (is_stake st) eqn:K; [|discriminate]. cbn [negb] in Hs. unfold unbond in Hs.
    destruct (sub128 _ _); [|discriminate]. destruct (duration_after _ _); [|discriminate]. exact (um_pays _ _ _ _ _ _ Hs).
  - destruct (is_stake st) eqn:K; [|discriminate]. cbn [negb] in Hs.
    destruct pok; [|discriminate]. cbn [negb] in Hs. destruct from; [|discriminate].
    destruct (c_token (cfg st)); [discriminate|]. destruct (a =? sender); [|discriminate].
    unfold bond in Hs. destruct (add128 _ _); [|discriminate]. exact (um_pays _ _ _ _ _ _ Hs).
  - discriminate.
  - discriminate.
Qed.

Definition tx_ok (st : state) (c : call) : bool :=
  let '(blk, sender, o, dok) := c in snd (fst (tx st blk sender o dok)).
Definition unbonded_by (a : N) (st : state) (c : call) : N :=
  let '(_, sender, o, _) := c in
  match o with Unbond n => if tx_ok st c && (sender =? a) then n else 0 | _ => 0 end.

Lemma paid_to_nil a ms : pays ms = [] -> paid_to a ms = 0.
Proof. unfold paid_to. intros ->. reflexivity. Qed.

Lemma get_claims_held st x a : get_claims (with_held st x) a = get_claims st a.
Proof. reflexivity. Qed.

Lemma tx_claims_ledger st c a :
  paid_to a (tx_msgs st c) + sum_claims (get_claims (tx_state st c) a) = sum_claims (get_claims st a) + unbonded_by a st c.
Proof.
  destruct c as [[[blk sender] o] dok]. unfold tx_msgs, tx_state, unbonded_by, tx_ok.
  assert (Z0: paid_to a [] = 0) by reflexivity.
  destruct o as [x|x|x|add rem|funds|n| |from n pok|tok n pok|n];
  try (unfold tx;
       match goal with
       | |- context [step st blk ?c ?o'] =>
           destruct (step st blk c o') as [[st' ms]| |] eqn:Hs; cbn [fst snd andb]; try (rewrite Z0; lia);
           match goal with |- context [if ?b then _ else _] => destruct b; cbn [fst snd andb]; [|rewrite Z0; lia] end;
           rewrite get_claims_held; pose proof (stake_ops _ _ _ _ _ _ Hs) as So; pose proof (step_pays _ _ _ _ _ _ Hs) as Sp;
           cbv beta iota zeta in So, Sp
       end).
  - destruct So as (_ & E). unfold get_claims. rewrite E, (paid_to_nil _ _ Sp). lia.
  - destruct So as (_ & E). unfold get_claims. rewrite E, (paid_to_nil _ _ Sp). lia.
  - destruct So as (_ & E). unfold get_claims. rewrite E, (paid_to_nil _ _ Sp). lia.
  - destruct So as (_ & E). unfold get_claims. rewrite E, (paid_to_nil _ _ Sp). lia.
  - destruct So as (d & m & _ & _ & _ & E & _). unfold get_claims. rewrite E, (paid_to_nil _ _ Sp). lia.
  - destruct So as (rel & _ & _ & _ & E). rewrite (paid_to_nil _ _ Sp).
    change (get_claims st' a) with (match get ordN (claims st') a with Some l => l | None => [] end). rewrite E.
    destruct (N.eqb_spec sender a) as [->|Ne].
    + rewrite get_set_eq, sum_claims_app. cbn [fst]. lia.
    + rewrite get_set_neq by congruence. fold (get_claims st a). lia.
  - destruct So as (_ & -> & _ & E).
    change (get_claims st' a) with (match get ordN (claims st') a with Some l => l | None => [] end). rewrite E. unfold paid_to. cbn [pays filter fst].
    destruct (N.eqb_spec sender a) as [->|Ne].
    + rewrite get_set_eq. cbn [map snd sumN fold_right].
      pose proof (sum_claims_partition (matured blk) (get_claims st a)) as Ep. lia.
    + rewrite get_set_neq by congruence. fold (get_claims st a). cbn [map sumN fold_right]. lia.
  - destruct So as (u & _ & _ & _ & _ & E). unfold get_claims. rewrite E, (paid_to_nil _ _ Sp). lia.
  - destruct So as (u & _ & _ & _ & _ & E). unfold get_claims. rewrite E, (paid_to_nil _ _ Sp). lia.
  - unfold tx. destruct (held st + n <=? u128max); cbn [fst snd]; rewrite ?get_claims_held, Z0; lia.
Qed.

Fixpoint paid_total (a : N) (st : state) (cs : list call) : N :=
  match cs with [] => 0 | c :: r => paid_to a (tx_msgs st c) + paid_total a (tx_state st c) r end.
Fixpoint unbonded_total (a : N) (st : state) (cs : list call) : N :=
  match cs with [] => 0 | c :: r => unbonded_by a st c + unbonded_total a (tx_state st c) r end.

Theorem claims_ledger a cs : forall st,
  paid_total a st cs + sum_claims (get_claims (run st cs) a) = sum_claims (get_claims st a) + unbonded_total a st cs.
Proof.
  unfold run. induction cs as [|c r IH]; intros st; cbn [fold_left paid_total unbonded_total]; [lia|].
  pose proof (IH (tx_state st c)) as E. pose proof (tx_claims_ledger st c a) as E1. lia.
Qed.

Lemma instantiate_claims m blk st : instantiate m blk = Ok st -> claims st = [].
Proof.
  unfold instantiate. intros H.
  destruct (i_admin m) as [[a|]|]; try discriminate;
    (destruct (i_stake m); [inv H; reflexivity|]);
    (destruct (validate_members (i_members m)); [|discriminate]);
    (destruct (has_dup _); [discriminate|]);
    (destruct (create_loop _ _ _ _) as [[? ?]|]; [|discriminate]); inv H; reflexivity.
Qed.

Theorem claims_ledger_from_instantiate m blk st a cs : instantiate m blk = Ok st ->
  paid_total a st cs + sum_claims (get_claims (run st cs) a) = unbonded_total a st cs.
Proof.
  intros H. pose proof (claims_ledger a cs st) as E.
  assert (Z: sum_claims (get_claims st a) = 0) by (unfold get_claims; rewrite (instantiate_claims _ _ _ H); reflexivity).
  lia.
Qed.

(* ---------------------------------------------------------------------------------------- *)
(* C09: the step-contract clause S_C09/8 (the true history, one UpdateMembers at a time) never fires on
   the model: what the contract computes from the SUBMITTED lists (last entry per address, any removal wins)
   is what the model's sorted, validated lists do *)
Require Import Coq.Sorting.Permutation.
Require Import CwPlus.Cw4Check.

Lemma insert_sorted_perm x s : Permutation (insert_sorted x s) (x :: s).
Proof.
  induction s as [|y r IH]; cbn [insert_sorted]; [apply Permutation_refl|].
  destruct (fst x <=? fst y); [apply Permutation_refl|].
  apply (Permutation_trans (l' := y :: x :: r)); [apply perm_skip; exact IH|apply perm_swap].
Qed.
Lemma sort_members_perm l : Permutation (sort_members l) l.
Proof.
  induction l as [|x r IH]; [apply Permutation_refl|]. cbn [sort_members fold_right].
  apply (Permutation_trans (insert_sorted_perm x _)). apply perm_skip. exact IH.
Qed.
Lemma incr_keys_nodup l : incr l -> NoDup (map fst l).
Proof.
  induction l as [|x r IH]; intros Hi; cbn [map]; [constructor|]. constructor.
  - intros Hin. apply in_map_iff in Hin. destruct Hin as (y & E & Hy).
    pose proof (incr_head_lt x r Hi y Hy) as L. lia.
  - apply IH. exact (incr_tail x r Hi).
Qed.
Lemma lassoc_none l a : lassoc l a = None <-> ~ In a (map fst l).
Proof.
  induction l as [|[x w] r IH]; cbn [lassoc map fst In]; [tauto|].
  destruct (lassoc r a) as [v|].
  - split; [discriminate|]. intros H. exfalso. apply H. right.
    destruct (in_dec N.eq_dec a (map fst r)) as [Hin|Hn]; [exact Hin|]. apply IH in Hn. discriminate.
  - destruct (N.eqb_spec x a) as [->|Ne].
    + split; [discriminate|]. intros H. exfalso. apply H. left. reflexivity.
    + split; [|reflexivity]. intros _ [E|Hin]; [exact (Ne E)|]. apply (proj1 IH); [reflexivity|exact Hin].
Qed.
Lemma lassoc_some l a w : NoDup (map fst l) -> (lassoc l a = Some w <-> In (a, w) l).
Proof.
  induction l as [|[x v] r IH]; intros Hn; cbn [lassoc map fst In] in *; [split; [discriminate|tauto]|].
  inversion Hn as [|? ? Hx Hr]; subst. specialize (IH Hr).
  destruct (lassoc r a) as [u|] eqn:L.
  - split.
    + intros E. inv E. right. apply IH. reflexivity.
    + intros [E|Hin].
      * inv E. exfalso. apply Hx. assert (Hs: lassoc r a = Some u) by exact L.
        destruct (in_dec N.eq_dec a (map fst r)) as [Hi|Hni]; [exact Hi|]. apply lassoc_none in Hni. congruence.
      * apply IH in Hin. exact Hin.
  - destruct (N.eqb_spec x a) as [->|Ne].
    + split.
      * intros E. inv E. left. reflexivity.
      * intros [E|Hin]; [inv E; reflexivity|]. exfalso. apply lassoc_none in L. apply L.
        apply in_map_iff. exists (a, w). split; [reflexivity|exact Hin].
    + split; [discriminate|]. intros [E|Hin]; [inv E; congruence|]. apply IH in Hin. discriminate.
Qed.
Lemma lassoc_perm l1 l2 a : Permutation l1 l2 -> NoDup (map fst l1) -> lassoc l1 a = lassoc l2 a.
Proof.
  intros P N1. assert (N2: NoDup (map fst l2)) by (apply (Permutation_NoDup (Permutation_map fst P)); exact N1).
  destruct (lassoc l1 a) as [w|] eqn:L1.
  - apply (lassoc_some _ _ _ N1) in L1. symmetry. apply (lassoc_some _ _ _ N2). exact (Permutation_in _ P L1).
  - symmetry. apply lassoc_none. apply lassoc_none in L1. intros H. apply L1.
    exact (Permutation_in _ (Permutation_sym (Permutation_map fst P)) H).
Qed.

Lemma last_add_validated add : forall add' a, validate_members add = Some add' -> last_add add a = lassoc add' a.
Proof.
  induction add as [|[[x|] w] r IH]; intros add' a Hv; cbn [validate_members] in Hv; [inv Hv; reflexivity| |discriminate].
  destruct (w <=? u64max); [|discriminate]. unfold obind in Hv.
  destruct (validate_members r) as [r'|]; [|discriminate]. inv Hv. cbn [last_add lassoc]. rewrite (IH r' a eq_refl). reflexivity.
Qed.
Lemma removed_validated rem : forall rem' a, validate_args rem = Some rem' ->
  existsb (fun x => match x with Some y => y =? a | None => false end) rem = existsb (N.eqb a) rem'.
Proof.
  induction rem as [|[x|] r IH]; intros rem' a Hv; cbn [validate_args] in Hv; [inv Hv; reflexivity| |discriminate].
  unfold obind in Hv. destruct (validate_args r) as [r'|]; [|discriminate]. inv Hv. cbn [existsb].
  rewrite (IH r' a eq_refl), (N.eqb_sym x a). reflexivity.
Qed.

Theorem s_c09_update_sound npool pre post st blk sender add rem st' ms top :
  Inv st top -> top <= height blk ->
  (forall a, lookup (ob_now pre) a = m_cur (members st) a) ->
  (forall a, lookup (ob_now post) a = m_cur (members st') a) ->
  update_members st blk sender add rem = Ok (st', ms) ->
  s_c09_update npool pre post (UpdateMembers add rem) true = 0.
Proof.
  intros HI Hle Hpre Hpost Hu.
  destruct (update_members_pointwise _ _ _ _ _ _ _ _ HI Hle Hu) as (add' & rem' & Va & Vr & Hd & Hp).
  unfold s_c09_update. cbn [negb].
  assert (Hinc: incr (sort_members add')) by (apply nodup_incr; [apply sort_nondecr|exact Hd]).
  assert (F: forallb (fun a =>
           optN_eqb (lookup (ob_now post) a)
             (if existsb (fun x => match x with Some y => y =? a | None => false end) rem then None
              else match last_add add a with Some w => Some w | None => lookup (ob_now pre) a end)) (upto npool) = true).
  { apply forallb_forall. intros a _. rewrite Hpost, Hpre, (Hp a), (removed_validated _ _ _ Vr), (last_add_validated _ _ _ Va).
    rewrite <- (lassoc_perm _ _ a (sort_members_perm add') (incr_keys_nodup _ Hinc)).
    unfold optN_eqb. destruct (existsb (N.eqb a) rem'); [reflexivity|].
    destruct (lassoc (sort_members add') a) as [w|]; [cbn; apply N.eqb_refl|].
    destruct (m_cur (members st) a); cbn; [apply N.eqb_refl|reflexivity]. }
  rewrite F. reflexivity.
Qed.

(* ---------------------------------------------------------------------------------------- *)
(* C10: the operation clauses of the step contract S_C10 never fire on the model *)
Definition stake_obs (o : obs) (st : state) : Prop :=
  (forall a, staked_of o a = getd ordN (stake st) a) /\
  (forall a, lookup_claims (ob_claims o) a = get_claims st a) /\
  ob_held o = held st.

Lemma claim_eqb_refl x : claim_eqb x x = true.
Proof. unfold claim_eqb. rewrite N.eqb_refl, (proj2 (exp_eqb_eq _ _) eq_refl). reflexivity. Qed.
Lemma claims_eqb_refl l : claims_eqb l l = true.
Proof. induction l as [|x r IH]; cbn; [reflexivity|]. fold (claim_eqb x x). rewrite claim_eqb_refl. exact IH. Qed.
Lemma getd4_set_eq (m : amap N N) k v : getd ordN (set ordN m k v) k = v.
Proof. unfold getd, getf. rewrite get_set_eq. reflexivity. Qed.
Lemma getd4_set_neq (m : amap N N) k v j : j <> k -> getd ordN (set ordN m k v) j = getd ordN m j.
Proof. intros H. unfold getd, getf. rewrite get_set_neq by exact H. reflexivity. Qed.
Lemma pays_pay_part ms : pays ms = [] -> pay_part ms = [] /\ paid_out ms = 0.
Proof.
  induction ms as [|m r IH]; cbn [pays pay_part paid_out]; [auto|]. destruct m; [exact IH|discriminate].
Qed.

Lemma others_same_ok npool pre post st st' who : stake_obs pre st -> stake_obs post st' ->
  (forall a, a <> who -> getd ordN (stake st') a = getd ordN (stake st) a /\ get_claims st' a = get_claims st a) ->
  forallb (fun a => (a =? who) || ((staked_of post a =? staked_of pre a) &&
                     claims_eqb (lookup_claims (ob_claims post) a) (lookup_claims (ob_claims pre) a))) (upto npool) = true.
Proof.
  intros (P1 & P2 & _) (Q1 & Q2 & _) H. apply forallb_forall. intros a _.
  destruct (N.eqb_spec a who) as [->|Ne]; [reflexivity|]. cbn [orb].
  destruct (H a Ne) as (E1 & E2). rewrite P1, P2, Q1, Q2, E1, E2, N.eqb_refl, claims_eqb_refl. reflexivity.
Qed.

Ltac same_case :=
  match goal with
  | Sp : pays ?ms = [], So : stake ?s1 = stake ?st /\ claims ?s1 = claims ?st, Rp : stake_obs ?pre ?st, Rq : stake_obs ?post _,
    Q3 : ob_held ?post = _, P3 : ob_held ?pre = _ |- context [upto ?npool] =>
      let Pp := fresh "Pp" in let Po := fresh "Po" in let E1 := fresh "E1" in let E2 := fresh "E2" in
      destruct (pays_pay_part _ Sp) as (Pp & Po); rewrite Pp; cbn [negb];
      destruct So as (E1 & E2);
      rewrite (others_same_ok npool pre post st _ npool Rp Rq)
        by (intros a _; cbn [with_held stake]; unfold get_claims; cbn [with_held claims]; rewrite E1, E2; auto);
      rewrite Q3, P3; cbn [with_held held]; rewrite Po;
      replace (held st + 0 - 0) with (held st) by lia; rewrite N.eqb_refl; cbn [andb]; lia
  end.
Ltac first3 :=
  match goal with |- (if ?b then 1 else _) < 4 => destruct b; [lia|] end;
  match goal with |- (if ?b then 2 else _) < 4 => destruct b; [lia|] end;
  match goal with |- (if ?b then 3 else _) < 4 => destruct b; [lia|] end.

(* clauses 4..12 of S_C10 (which operation may pay, whose stake and claims move and by how much, what a
   refused call leaves behind) never fire on an accepted transaction of the model; clauses 1..3 are the
   state predicates proved over histories by c10_backed and c10_weight *)
Theorem s_c10_ops_sound_partial npool pure pre post st blk sender o dok st' ms :
  stake_obs pre st -> stake_obs post st' -> honest_call (cfg st) (blk, sender, o, dok) -> tx st blk sender o dok = (st', true, ms) ->
  s_c10 (cfg st) npool pure pre post blk sender o true true ms < 4.
Proof.
  intros Rp Rq Hon Ht. pose proof Rp as (P1 & P2 & P3). pose proof Rq as (Q1 & Q2 & Q3).
  unfold s_c10. cbv zeta. first3.
  destruct o as [x|x|x|add rem|funds|n| |from n pok|tok n pok|n];
  try (unfold tx in Ht;
       match type of Ht with
       | context [step st blk ?c ?o'] =>
           destruct (step st blk c o') as [[s1 ms1]| |] eqn:Hs; try discriminate Ht;
           match type of Ht with context [if ?b then _ else _] => destruct b eqn:Cond; [|discriminate Ht] end;
           inversion Ht; subst st' ms1; clear Ht;
           pose proof (stake_ops _ _ _ _ _ _ Hs) as So; pose proof (step_pays _ _ _ _ _ _ Hs) as Sp;
           cbv beta iota zeta in So, Sp
       end).
  - same_case.
  - same_case.
  - same_case.
  - same_case.
  - (* Bond *)
    destruct (pays_pay_part _ Sp) as (Pp & Po). rewrite Pp. cbn [negb].
    destruct So as (d & n & Tk & -> & E1 & E2 & _). rewrite Tk.
    rewrite N.eqb_refl. cbn [negb].
    rewrite (others_same_ok npool pre post st _ sender Rp Rq)
      by (intros a Ne; cbn [with_held stake]; unfold get_claims; cbn [with_held claims]; rewrite E1, E2, getd4_set_neq by exact Ne; auto).
    rewrite Q1, Q2, Q3, P1, P2, P3. cbn [with_held stake held]. unfold get_claims. cbn [with_held claims].
    rewrite E1, E2, getd4_set_eq, Po, N.eqb_refl, claims_eqb_refl.
    rewrite Tk. cbn [must_pay]. rewrite N.eqb_refl. cbn [unw].
    replace (held st + n - 0) with (held st + n) by lia. rewrite N.eqb_refl. cbn [andb negb]. lia.
  - (* Unbond *)
    destruct (pays_pay_part _ Sp) as (Pp & Po). rewrite Pp. cbn [negb].
    destruct So as (rel0 & Du & Le & E1 & E2). rewrite Du.
    rewrite (others_same_ok npool pre post st _ sender Rp Rq)
      by (intros a Ne; cbn [with_held stake]; unfold get_claims; cbn [with_held claims]; rewrite E1, E2, getd4_set_neq, get_set_neq by exact Ne; auto).
    rewrite Q1, Q2, Q3, P1, P2, P3. cbn [with_held stake held]. unfold get_claims at 1. cbn [with_held claims].
    rewrite E1, E2, getd4_set_eq, get_set_eq, Po, N.eqb_refl, claims_eqb_refl, (proj2 (N.leb_le _ _) Le).
    replace (held st + 0 - 0) with (held st) by lia. rewrite N.eqb_refl. cbn [andb negb]. lia.
  - (* Claim *)
    cbn [negb]. destruct So as (Pos & -> & E1 & E2).
    rewrite (others_same_ok npool pre post st _ sender Rp Rq)
      by (intros a Ne; cbn [with_held stake]; unfold get_claims; cbn [with_held claims]; rewrite E1, E2, get_set_neq by exact Ne; auto).
    rewrite Q1, Q2, Q3, P1, P2, P3. cbn [with_held stake held]. unfold get_claims at 1. cbn [with_held claims].
    rewrite E1, E2, get_set_eq, N.eqb_refl, claims_eqb_refl. cbn [andb negb pay_part paid_out].
    apply andb_prop in Cond. destruct Cond as (_ & Cp). cbn [paid_out credit_of] in Cp. apply N.leb_le in Cp.
    set (r := sum_claims (filter (matured blk) (get_claims st sender))) in *.
    rewrite (proj2 (N.ltb_lt _ _) Pos).
    replace (held st + 0 - (r + 0) + r) with (held st) by lia. rewrite !N.eqb_refl.
    assert (Tq: token_eqb (c_token (cfg st)) (c_token (cfg st)) = true) by (destruct (c_token (cfg st)); cbn; apply N.eqb_refl).
    rewrite Tq. replace (r + 0 =? r) with true by (symmetry; apply N.eqb_eq; lia). cbn [andb negb]. lia.
  - (* Receive as a top-level call: excluded by honesty of the token *)
    exfalso. destruct So as (u & Tk & _). cbn in Hon. exact (Hon Tk).
  - (* SendCw20 *)
    destruct (pays_pay_part _ Sp) as (Pp & Po). rewrite Pp. cbn [negb].
    destruct So as (u & Tk & Eu & _ & E1 & E2). inversion Eu; subst u. rewrite Tk. cbn [token_eqb]. rewrite N.eqb_refl. cbn [negb].
    rewrite (others_same_ok npool pre post st _ sender Rp Rq)
      by (intros a Ne; cbn [with_held stake]; unfold get_claims; cbn [with_held claims]; rewrite E1, E2, getd4_set_neq by exact Ne; auto).
    rewrite Q1, Q2, Q3, P1, P2, P3. cbn [with_held stake held]. unfold get_claims. cbn [with_held claims].
    rewrite E1, E2, getd4_set_eq, Po, N.eqb_refl, claims_eqb_refl.
    replace (held st + n - 0) with (held st + n) by lia. rewrite N.eqb_refl. cbn [andb negb]. lia.
  - (* Donate *)
    unfold tx in Ht. destruct (held st + n <=? u128max); [|discriminate Ht]. inversion Ht; subst st' ms; clear Ht.
    cbn [pay_part negb].
    rewrite (others_same_ok npool pre post st _ npool Rp Rq) by (intros a _; cbn [with_held stake]; unfold get_claims; cbn [with_held claims]; auto).
    rewrite Q3, P3. cbn [with_held held]. rewrite N.eqb_refl. cbn [andb]. lia.
Qed.

(* a refused transaction leaves the state as it is: clause 5 does not fire *)
Theorem s_c10_refused_sound_partial npool pure pre post st blk sender o hok ms :
  stake_obs pre st -> stake_obs post st -> pay_part ms = [] ->
  s_c10 (cfg st) npool pure pre post blk sender o hok false ms < 4.
Proof.
  intros Rp Rq Hm. pose proof Rp as (P1 & P2 & P3). pose proof Rq as (Q1 & Q2 & Q3).
  unfold s_c10. cbv zeta. first3. rewrite Hm.
  rewrite (others_same_ok npool pre post st st npool Rp Rq) by (intros a _; auto).
  rewrite Q3, P3, N.eqb_refl. destruct o; cbn [negb andb]; lia.
Qed.

(* ---------------------------------------------------------------------------------------- *)
(* C14: the step contract S_C14 (all 9 clauses) never fires on the model *)
(* listing and point value of the member map agree *)
Lemma lookup_above k r : above ordN k r -> lookup (m_list r) k = None.
Proof.
  induction r as [|[k' s] r IH]; intros Ha; cbn [m_list]; [reflexivity|].
  assert (L: k < k') by (apply N.ltb_lt; apply (Ha k' s); left; reflexivity).
  assert (Ha': above ordN k r) by (intros k2 v2 Hin; apply (Ha k2 v2); right; exact Hin).
  destruct (cur s) as [w|]; [|exact (IH Ha')].
  unfold lookup. cbn [find fst]. rewrite (proj2 (N.eqb_neq k' k)) by lia. exact (IH Ha').
Qed.
Lemma lookup_m_list ms a : sorted ordN ms -> lookup (m_list ms) a = m_cur ms a.
Proof.
  intros Hs. induction Hs as [|k s r Ha Hr IH]; [reflexivity|].
  unfold m_cur, getm. cbn [m_list].
  assert (G: get ordN ((k, s) :: r) a = if a =? k then Some s else get ordN r a) by reflexivity. rewrite G. clear G.
  fold (getm r a). fold (m_cur r a).
  destruct (N.eqb_spec a k) as [->|Ne].
  - destruct (cur s) as [w|] eqn:C.
    + unfold lookup. cbn [find fst]. rewrite N.eqb_refl. reflexivity.
    + rewrite (lookup_above k r Ha). reflexivity.
  - destruct (cur s) as [w|] eqn:C.
    + unfold lookup. cbn [find fst]. rewrite (proj2 (N.eqb_neq k a)) by congruence. exact IH.
    + exact IH.
Qed.

(* replaying a diff list over a listing = the functional `explains` of the model *)
Lemma lookup_filter_ne l a b :
  lookup (filter (fun kv : N * N => negb (fst kv =? a)) l) b = if b =? a then None else lookup l b.
Proof.
  unfold lookup. induction l as [|[k w] r IH]; cbn [filter find fst]; [destruct (b =? a); reflexivity|].
  destruct (k =? a) eqn:Ka; cbn [negb].
  - apply N.eqb_eq in Ka. subst k. rewrite IH. destruct (b =? a) eqn:Ba; [reflexivity|].
    rewrite N.eqb_sym, Ba. reflexivity.
  - cbn [find fst]. destruct (k =? b) eqn:Kb; [|exact IH].
    apply N.eqb_eq in Kb. subst k. rewrite Ka. reflexivity.
Qed.
Lemma lookup_set_w l a v b : lookup (set_w l a v) b = upd (lookup l) a v b.
Proof.
  unfold set_w, upd. destruct v as [w|].
  - unfold lookup at 1. cbn [find fst]. destruct (N.eqb_spec a b) as [->|Ne].
    + rewrite N.eqb_refl. reflexivity.
    + rewrite (proj2 (N.eqb_neq b a)) by congruence. fold (lookup (filter (fun kv : N * N => negb (fst kv =? a)) l) b).
      rewrite lookup_filter_ne. rewrite (proj2 (N.eqb_neq b a)) by congruence. reflexivity.
  - rewrite lookup_filter_ne. reflexivity.
Qed.
Lemma apply_diffs_explains ds f g : explains ds f g -> forall l, (forall a, lookup l a = f a) ->
  exists l', apply_diffs ds l = Some l' /\ forall a, lookup l' a = g a.
Proof.
  intros H. induction H as [f g E|a o n r f g Ha Hr IH]; intros l Hl; cbn [apply_diffs].
  - exists l. split; [reflexivity|]. intros a. rewrite Hl, E. reflexivity.
  - rewrite Hl, Ha, (proj2 (optN_eqb_eq o o) eq_refl).
    apply IH. intros b. rewrite lookup_set_w. unfold upd. destruct (b =? a); [reflexivity|apply Hl].
Qed.

Definition group_obs (o : obs) (st : state) : Prop :=
  ob_admin o = admin st /\ ob_hooks o = hooks st /\ ob_list o = q_list_all st /\ ob_total o = q_total st None.

Lemma optN_eqb_refl o : optN_eqb o o = true.
Proof. apply optN_eqb_eq. reflexivity. Qed.
Lemma nlist4_eqb_refl l : nlist_eqb l l = true.
Proof. induction l as [|x r IH]; cbn; [reflexivity|]. rewrite N.eqb_refl. exact IH. Qed.
Lemma nn_list_eqb_refl l : nn_list_eqb l l = true.
Proof. induction l as [|x r IH]; cbn; [reflexivity|]. fold (pair_eqb x x). unfold pair_eqb at 1. rewrite !N.eqb_refl. exact IH. Qed.
Lemma perm_eqb_refl l : perm_eqb l l = true.
Proof. apply nlist4_eqb_refl. Qed.
Lemma diff_eqb_refl d : diff_eqb d d = true.
Proof. destruct d as [[a o] n]. unfold diff_eqb. rewrite N.eqb_refl, !optN_eqb_refl. reflexivity. Qed.
Lemma diffs_eqb_refl l : list_eqb diff_eqb l l = true.
Proof. induction l as [|x r IH]; cbn [list_eqb]; [reflexivity|]. rewrite diff_eqb_refl. exact IH. Qed.
Lemma same_weights_ok npool l1 l2 : (forall a, lookup l1 a = lookup l2 a) -> same_weights npool l1 l2 = true.
Proof. intros H. unfold same_weights. apply forallb_forall. intros a _. rewrite H. apply optN_eqb_refl. Qed.
Lemma hook_part_hook_msgs st ds : hook_part (hook_msgs st ds) = map (fun h => (h, ds)) (hooks st).
Proof. unfold hook_msgs. induction (hooks st) as [|h r IH]; cbn [map hook_part]; [reflexivity|rewrite IH; reflexivity]. Qed.
Lemma is_admin_obs pre st sender : ob_admin pre = admin st -> is_admin st sender = true -> optN_eqb (ob_admin pre) (Some sender) = true.
Proof.
  intros -> H. unfold is_admin in H. destruct (admin st) as [a|]; [|discriminate]. apply N.eqb_eq in H. subst. apply optN_eqb_refl.
Qed.

(* the tail of S_C14 once the notifications are hook_msgs st ds with ds explaining the change *)
Lemma s_c14_notified npool pre post st st' ds (stake_c ok : bool) :
  group_obs pre st -> group_obs post st' -> sorted ordN (members st) -> sorted ordN (members st') ->
  explains ds (m_cur (members st)) (m_cur (members st')) ->
  (stake_c = true -> exists a o n, ds = [(a, o, n)] /\ o <> n) ->
  hooks st <> [] ->
  match hook_part (hook_msgs st ds) with
  | [] => match ob_hooks pre with [] => 0 | _ => if negb (negb (same_weights npool (ob_list pre) (ob_list post))) then 0 else 4 end
  | (_, ds0) :: _ =>
      if negb (perm_eqb (map fst (hook_part (hook_msgs st ds))) (ob_hooks pre)) then 5
      else if negb (forallb (fun x => list_eqb diff_eqb (snd x) ds0) (hook_part (hook_msgs st ds))) then 6
      else match apply_diffs ds0 (ob_list pre) with
           | None => 7
           | Some l => if ok && negb (same_weights npool l (ob_list post)) then 8
                       else if stake_c && negb (match ds0 with [(a, o', n')] => negb (optN_eqb o' n') | _ => false end) then 9
                       else 0
           end
  end = 0.
Proof.
  intros (P1 & P2 & P3 & P4) (Q1 & Q2 & Q3 & Q4) S1 S2 Hex Hst Hne.
  rewrite hook_part_hook_msgs. destruct (hooks st) as [|h r] eqn:Hk; [exfalso; apply Hne; reflexivity|].
  cbn [map]. rewrite P2. change (h :: map fst (map (fun h0 => (h0, ds)) r)) with (map fst (map (fun h0 : N => (h0, ds)) (h :: r))).
  rewrite map_map. cbn [fst]. rewrite map_id. rewrite (perm_eqb_refl (h :: r)). cbn [negb].
  assert (F: forallb (fun x : N * list diff => list_eqb diff_eqb (snd x) ds) ((h, ds) :: map (fun h0 => (h0, ds)) r) = true).
  { apply forallb_forall. intros x Hin. change ((h, ds) :: map (fun h0 => (h0, ds)) r) with (map (fun h0 : N => (h0, ds)) (h :: r)) in Hin.
    apply in_map_iff in Hin. destruct Hin as (y & <- & _). apply diffs_eqb_refl. }
  rewrite F. cbn [negb].
  destruct (apply_diffs_explains _ _ _ Hex (ob_list pre)) as (l' & -> & Hl').
  { intros a. rewrite P3. apply lookup_m_list. exact S1. }
  rewrite (same_weights_ok npool l' (ob_list post)) by (intros a; rewrite Hl', Q3; symmetry; apply lookup_m_list; exact S2).
  cbn [negb]. rewrite andb_false_r.
  destruct stake_c; [|reflexivity]. destruct (Hst eq_refl) as (a & o & n & -> & Hon). cbn [andb].
  destruct (optN_eqb o n) eqn:E; [apply optN_eqb_eq in E; contradiction|reflexivity].
Qed.

Lemma step_admin_frame st blk sender o st' ms : step st blk sender o = Ok (st', ms) ->
  match o with UpdateAdmin _ => True | _ => admin st' = admin st end.
Proof.
  intros Hs. destruct o as [a|a|a|add rem|funds|n| |from n pok|tok n pok|n]; cbn [step] in Hs; try exact I.
  - destruct a as [x|]; [|discriminate]. destruct (is_admin st sender); [|discriminate]. cbn [negb] in Hs.
    destruct (mem x (hooks st)); [discriminate|]. inv Hs. reflexivity.
  - destruct a as [x|]; [|discriminate]. destruct (is_admin st sender); [|discriminate]. cbn [negb] in Hs.
    destruct (mem x (hooks st)); [|discriminate]. inv Hs. reflexivity.
  - destruct (is_stake st) eqn:K; [discriminate|]. unfold update_members in Hs.
    destruct (validate_members add); [|discriminate]. destruct (has_dup (sort_members l)); [discriminate|].
    destruct (is_admin st sender); [|discriminate]. cbn [negb] in Hs.
    destruct (validate_args rem); [|discriminate]. destruct (cur (total_s st)); [|discriminate].
    destruct (add_loop _ _ _ _ _) as [[[? ?] ?]|]; [|discriminate].
    destruct (remove_loop _ _ _ _ _) as [[[? ?] ?]|]; [|discriminate]. inv Hs. reflexivity.
  - destruct (is_stake st) eqn:K; [|discriminate]. cbn [negb] in Hs.
    destruct (c_token (cfg st)); [|discriminate]. destruct (must_pay funds d); [|discriminate].
    unfold bond in Hs. destruct (add128 _ _); [|discriminate]. exact (proj1 (um_frame _ _ _ _ _ _ Hs)).
  - destruct (is_stake st) eqn:K; [|discriminate]. cbn [negb] in Hs. unfold unbond in Hs.
    destruct (sub128 _ _); [|discriminate]. destruct (duration_after _ _); [|discriminate]. exact (proj1 (um_frame _ _ _ _ _ _ Hs)).
  - destruct (is_stake st) eqn:K; [|discriminate]. cbn [negb] in Hs. unfold claim in Hs.
    destruct (u128max <? _); [discriminate|]. destruct (_ =? 0); [discriminate|]. inv Hs. reflexivity.
  - destruct (is_stake st) eqn:K; [|discriminate]. cbn [negb] in Hs.
    destruct pok; [|discriminate]. cbn [negb] in Hs. destruct from; [|discriminate].
    destruct (c_token (cfg st)); [discriminate|]. destruct (a =? sender); [|discriminate].
    unfold bond in Hs. destruct (add128 _ _); [|discriminate]. exact (proj1 (um_frame _ _ _ _ _ _ Hs)).
  - discriminate.
  - discriminate.
Qed.
Lemma no_hook_part ms : no_hook_msg ms -> hook_part ms = [].
Proof.
  induction ms as [|m r IH]; intros H; cbn [hook_part]; [reflexivity|]. destruct m as [h ds|t to n].
  - exfalso. apply (H h ds). left. reflexivity.
  - apply IH. intros h ds Hin. apply (H h ds). right. exact Hin.
Qed.

Lemma members_same_ok pre post st st' : group_obs pre st -> group_obs post st' ->
  members st' = members st -> total_s st' = total_s st -> members_same pre post = true.
Proof.
  intros (_ & _ & P3 & P4) (_ & _ & Q3 & Q4) Hm Ht. unfold members_same.
  rewrite P3, Q3, P4, Q4. unfold q_list_all, q_total. rewrite Hm, Ht, nn_list_eqb_refl, N.eqb_refl. reflexivity.
Qed.

Lemma s_c14_stake_op npool pre post st st' who sender o ms :
  group_obs pre st -> group_obs post st' -> sorted ordN (members st) -> sorted ordN (members st') ->
  admin st' = admin st -> hooks st' = hooks st ->
  hook_shape st st' who ms -> (forall b, b <> who -> m_cur (members st') b = m_cur (members st) b) ->
  match o with Bond _ | Unbond _ | Receive _ _ _ => True | _ => False end ->
  s_c14 true npool pre post sender o true true ms = 0.
Proof.
  intros Rp Rq S1 S2 AF HH Sh Oth Ho. pose proof Rp as (P1 & P2 & P3 & P4). pose proof Rq as (Q1 & Q2 & Q3 & Q4).
  unfold s_c14. cbv zeta.
  assert (HQ: nlist_eqb (ob_hooks pre) (ob_hooks post) = true) by (rewrite P2, Q2, HH; apply nlist4_eqb_refl).
  assert (HA: optN_eqb (ob_admin pre) (ob_admin post) = true) by (rewrite P1, Q1, AF; apply optN_eqb_refl).
  rewrite HQ, HA. cbn [andb orb negb].
  assert (Tail:
    match hook_part ms with
    | [] => match ob_hooks pre with [] => 0 | _ => if negb (negb (same_weights npool (ob_list pre) (ob_list post))) then 0 else 4 end
    | (_, ds0) :: _ =>
        if negb (perm_eqb (map fst (hook_part ms)) (ob_hooks pre)) then 5
        else if negb (forallb (fun x => list_eqb diff_eqb (snd x) ds0) (hook_part ms)) then 6
        else match apply_diffs ds0 (ob_list pre) with
             | None => 7
             | Some l => if true && negb (same_weights npool l (ob_list post)) then 8
                         else if true && negb (match ds0 with [(a, o', n')] => negb (optN_eqb o' n') | _ => false end) then 9
                         else 0
             end
    end = 0).
  { destruct Sh as [(-> & Hm & Ht)|(Hne & ->)].
    - cbn [hook_part]. destruct (ob_hooks pre); [reflexivity|].
      rewrite (same_weights_ok npool (ob_list pre) (ob_list post)); [reflexivity|].
      intros a. rewrite P3, Q3. unfold q_list_all. rewrite Hm. reflexivity.
    - destruct (list_eq_dec N.eq_dec (hooks st) []) as [E|NE].
      + unfold hook_msgs. rewrite P2, E. cbn [map hook_part]. reflexivity.
      + apply (s_c14_notified npool pre post st st' _ true true Rp Rq S1 S2); [| |exact NE].
        * constructor; [reflexivity|]. constructor. intros a. unfold upd.
          destruct (N.eqb_spec a who) as [->|Na]; [reflexivity|apply Oth; exact Na].
        * intros _. eexists _, _, _. split; [reflexivity|]. intros C. apply Hne. symmetry. exact C. }
  destruct o; try contradiction; exact Tail.
Qed.

Theorem s_c14_sound npool pre post st blk sender o st' ms top :
  WInv st top -> top <= height blk -> group_obs pre st -> group_obs post st' ->
  step st blk sender o = Ok (st', ms) ->
  s_c14 (is_stake st) npool pre post sender o true true ms = 0.
Proof.
  intros HW Hle Rp Rq Hs.
  pose proof (step_spec _ _ _ _ _ _ _ HW Hle Hs) as SO. destruct (so_inv _ _ _ _ _ SO) as (HI' & _).
  pose proof (hooks_spec _ _ _ _ _ _ _ HW Hle Hs) as HK.
  destruct (step_hooks _ _ _ _ _ _ Hs) as (_ & HH).
  assert (S1: sorted ordN (members st)) by (destruct HW as (HI & _); apply (i_sorted _ _ HI)).
  assert (S2: sorted ordN (members st')) by (apply (i_sorted _ _ HI')).
  pose proof Rp as (P1 & P2 & P3 & P4). pose proof Rq as (Q1 & Q2 & Q3 & Q4).
  unfold s_c14. cbv zeta.
  destruct o as [a|a|a|add rem|funds|n| |from n pok|tok n pok|n].
  - (* UpdateAdmin *)
    destruct HK as (Hn & Hm & Ht). rewrite (members_same_ok pre post st st' Rp Rq Hm Ht).
    rewrite P2, Q2, HH, nlist4_eqb_refl.
    cbn [step] in Hs.
    destruct a as [[x|]|]; try discriminate; destruct (is_admin st sender) eqn:IA; try discriminate; inv Hs;
      rewrite (is_admin_obs pre st sender P1 IA); rewrite Q1; cbn [with_core admin]; rewrite ?optN_eqb_refl;
      rewrite ?orb_true_r; cbn [andb negb]; rewrite ?andb_false_r; cbn [hook_part]; reflexivity.
  - (* AddHook *)
    destruct HK as (Hn & Hm & Ht). rewrite (members_same_ok pre post st st' Rp Rq Hm Ht).
    cbn [step] in Hs. destruct a as [x|]; [|discriminate]. destruct (is_admin st sender) eqn:IA; [|discriminate]. cbn [negb] in Hs.
    destruct (mem x (hooks st)) eqn:M; [discriminate|]. inv Hs.
    rewrite (is_admin_obs pre st sender P1 IA), P1, P2, Q1, Q2. cbn [with_core admin hooks].
    rewrite optN_eqb_refl, M, perm_eqb_refl, orb_true_r. cbn [andb negb]. rewrite andb_false_r. cbn [hook_part]. reflexivity.
  - (* RemoveHook *)
    destruct HK as (Hn & Hm & Ht). rewrite (members_same_ok pre post st st' Rp Rq Hm Ht).
    cbn [step] in Hs. destruct a as [x|]; [|discriminate]. destruct (is_admin st sender) eqn:IA; [|discriminate]. cbn [negb] in Hs.
    destruct (mem x (hooks st)) eqn:M; [|discriminate]. inv Hs.
    rewrite (is_admin_obs pre st sender P1 IA), P1, P2, Q1, Q2. cbn [with_core admin hooks].
    rewrite optN_eqb_refl, M, perm_eqb_refl, orb_true_r. cbn [andb negb]. rewrite andb_false_r. cbn [hook_part]. reflexivity.
  - (* UpdateMembers *)
    pose proof (step_admin_frame _ _ _ _ _ _ Hs) as AF. cbv beta iota in AF.
    cbn [step] in Hs. destruct (is_stake st) eqn:K; [discriminate|].
    destruct HW as (HI & HSt).
    destruct (update_members_spec _ _ _ _ _ _ _ top HI Hle Hs) as (_ & IA & _).
    destruct HK as (ds & -> & X).
    assert (HQ: nlist_eqb (ob_hooks pre) (ob_hooks post) = true) by (rewrite P2, Q2, HH; apply nlist4_eqb_refl).
    rewrite (is_admin_obs pre st sender P1 IA), P1, Q1, AF, HQ, optN_eqb_refl.
    cbn [andb negb orb]. rewrite andb_false_r.
    destruct (list_eq_dec N.eq_dec (hooks st) []) as [E|NE].
    + unfold hook_msgs. rewrite P2, E. cbn [map hook_part]. reflexivity.
    + apply (s_c14_notified npool pre post st st' ds false true Rp Rq S1 S2 X); [intros C; discriminate C|exact NE].
  - (* Bond *)
    pose proof (step_admin_frame _ _ _ _ _ _ Hs) as AF. cbv beta iota in AF. destruct HK as (Sh & Oth).
    cbn [step] in Hs. destruct (is_stake st) eqn:K; [|discriminate].
    exact (s_c14_stake_op npool pre post st st' sender sender (Bond funds) ms Rp Rq S1 S2 AF HH Sh Oth I).
  - (* Unbond *)
    pose proof (step_admin_frame _ _ _ _ _ _ Hs) as AF. cbv beta iota in AF. destruct HK as (Sh & Oth).
    cbn [step] in Hs. destruct (is_stake st) eqn:K; [|discriminate].
    exact (s_c14_stake_op npool pre post st st' sender sender (Unbond n) ms Rp Rq S1 S2 AF HH Sh Oth I).
  - (* Claim *)
    pose proof (step_admin_frame _ _ _ _ _ _ Hs) as AF. cbv beta iota in AF. destruct HK as (Hn & Hm & Ht).
    cbn [step] in Hs. destruct (is_stake st) eqn:K; [|discriminate].
    assert (HQ: nlist_eqb (ob_hooks pre) (ob_hooks post) = true) by (rewrite P2, Q2, HH; apply nlist4_eqb_refl).
    rewrite P1, Q1, AF, HQ, optN_eqb_refl, (no_hook_part _ Hn). reflexivity.
  - (* Receive *)
    pose proof (step_admin_frame _ _ _ _ _ _ Hs) as AF. cbv beta iota in AF.
    cbn [step] in Hs. destruct (is_stake st) eqn:K; [|discriminate]. cbn [negb] in Hs.
    destruct pok; [|discriminate]. cbn [negb] in Hs. destruct from as [u|]; [|discriminate]. destruct HK as (Sh & Oth).
    exact (s_c14_stake_op npool pre post st st' u sender (Receive (Some u) n true) ms Rp Rq S1 S2 AF HH Sh Oth I).
  - cbn [step] in Hs. discriminate.
  - cbn [step] in Hs. discriminate.
Qed.

Theorem s_c14_sound_refused npool pre post st sender o stake_c :
  group_obs pre st -> group_obs post st -> s_c14 stake_c npool pre post sender o false false [] = 0.
Proof.
  intros Rp Rq. pose proof Rp as (P1 & P2 & P3 & P4). pose proof Rq as (Q1 & Q2 & Q3 & Q4).
  unfold s_c14. cbv zeta. rewrite (members_same_ok pre post st st Rp Rq eq_refl eq_refl).
  rewrite P1, P2, Q1, Q2, optN_eqb_refl, nlist4_eqb_refl, orb_true_r. reflexivity.
Qed.
