(* Cw1CheckLemmas.v — the step contracts of family F4 never fire on the model: for every state
   satisfying the invariant, every block, sender and operation, the contracts S_C07, S_C08, S_C16, S_C17
   evaluate to 0 on the model's own transition (accepted or refused).  Hence a violation reported by
   one of these contracts is always a difference between the implementation and the model's behaviour,
   never an artefact of the contract being stricter than the model the theorems are about. *)
Require Import CwPlus.Params CwPlus.Base CwPlus.AMap CwPlus.Cw1Model CwPlus.Cw1Lemmas CwPlus.Cw1Check.
Open Scope N_scope.

(* ---- reflexivity of the boolean equalities ---- *)
Lemma list_eqb_refl {A} (eqb : A -> A -> bool) : (forall x, eqb x x = true) -> forall l, list_eqb eqb l l = true.
Proof. intros H l. induction l as [|x r IH]; cbn [list_eqb]; [reflexivity|]. rewrite H, IH. reflexivity. Qed.
Lemma opt_eqb_refl {A} (eqb : A -> A -> bool) : (forall x, eqb x x = true) -> forall o, opt_eqb eqb o o = true.
Proof. intros H [x|]; cbn; [apply H|reflexivity]. Qed.
Lemma exp_eqb_refl e : exp_eqb e e = true.
Proof. apply exp_eqb_eq. reflexivity. Qed.
Lemma coin_eqb_refl c : coin_eqb c c = true.
Proof. unfold coin_eqb. rewrite !N.eqb_refl. reflexivity. Qed.
Lemma nbal_eqb_refl b : nbal_eqb b b = true.
Proof. apply list_eqb_refl. exact coin_eqb_refl. Qed.
Lemma allow_eqb_refl a : allow_eqb a a = true.
Proof. unfold allow_eqb. rewrite nbal_eqb_refl, exp_eqb_refl. reflexivity. Qed.
Lemma perms_eqb_refl p : perms_eqb p p = true.
Proof. unfold perms_eqb. destruct p as [[|] [|] [|] [|]]; reflexivity. Qed.
Lemma cmsg_eqb_refl m : cmsg_eqb m m = true.
Proof. destruct m; cbn [cmsg_eqb]; try reflexivity; rewrite ?N.eqb_refl, ?nbal_eqb_refl; reflexivity. Qed.
Lemma nlist_eqb_refl l : nlist_eqb l l = true.
Proof. apply list_eqb_refl. exact N.eqb_refl. Qed.
Lemma nset_eqb_refl l : nset_eqb l l = true.
Proof.
  unfold nset_eqb. assert (F: forallb (fun x => nmem x l) l = true).
  { apply forallb_forall. intros x Hx. unfold nmem. apply existsb_exists. exists x. split; [exact Hx|apply N.eqb_refl]. }
  rewrite F. reflexivity.
Qed.

(* the two files define the same projections *)
Lemma stored_same st s : Cw1Check.stored st s = Cw1Lemmas.stored st s.
Proof. reflexivity. Qed.
Lemma amount_same o d : Cw1Check.amount_of o d = Cw1Lemmas.amount_of o d.
Proof. destruct o; reflexivity. Qed.
Lemma coins_total_same cs d : Cw1Check.coins_total cs d = Cw1Lemmas.coins_total cs d.
Proof. induction cs as [|[d' a] r IH]; cbn; [reflexivity|]. rewrite IH. reflexivity. Qed.
Lemma spent_same ms d : Cw1Check.spent_total ms d = Cw1Lemmas.spent_total ms d.
Proof.
  induction ms as [|m r IH]; [reflexivity|]. destruct m; cbn [Cw1Check.spent_total Cw1Lemmas.spent_total]; try exact IH.
  rewrite IH, coins_total_same. reflexivity.
Qed.

(* ---------------------------------------------------------------------------------------- *)
(* S_C07 and S_C16 *)
Theorem s_c07_sound st blk sender o :
  match step st blk sender o with
  | Ok (_, rel) => s_c07 st blk sender o true rel true = 0
  | _ => s_c07 st blk sender o false [] true = 0
  end.
Proof.
  destruct (step st blk sender o) as [[st' rel]| |] eqn:E; [|destruct o; reflexivity|destruct o; reflexivity].
  destruct o as [msgs| |l|sp c e|sp c e|sp p].
  - rewrite (execute_relays_exactly _ _ _ _ _ _ E). cbn [s_c07].
    rewrite (list_eqb_refl cmsg_eqb cmsg_eqb_refl). cbn [andb negb].
    cbn [step] in E. destruct (is_admin st sender); [reflexivity|]. cbn [orb].
    destruct (subkeys st); [|discriminate]. destruct (check_msgs st blk sender msgs); cbn [rbind] in E; try discriminate. reflexivity.
  - rewrite (other_ops_relay_nothing _ _ _ _ _ _ E I). reflexivity.
  - rewrite (other_ops_relay_nothing _ _ _ _ _ _ E I). reflexivity.
  - rewrite (other_ops_relay_nothing _ _ _ _ _ _ E I). reflexivity.
  - rewrite (other_ops_relay_nothing _ _ _ _ _ _ E I). reflexivity.
  - rewrite (other_ops_relay_nothing _ _ _ _ _ _ E I). reflexivity.
Qed.

Theorem s_c16_sound st blk sender m :
  s_c16 (Some (can_execute st blk sender m)) (is_ok (step st blk sender (Execute [m]))) = 0.
Proof. unfold s_c16. rewrite can_execute_predicts. rewrite Bool.eqb_reflx. reflexivity. Qed.

(* ---------------------------------------------------------------------------------------- *)
(* S_C17 *)
Lemma check_msgs_nosend ms : forall st blk sender st1, has_send ms = false ->
  check_msgs st blk sender ms = Ok st1 -> st1 = st.
Proof.
  induction ms as [|m r IH]; intros st blk sender st1 Hs H; cbn [check_msgs] in H; [inversion H; reflexivity|].
  unfold has_send in Hs. cbn [existsb] in Hs. apply orb_false_iff in Hs. destruct Hs as [Hm Hr].
  destruct (check_msg st blk sender m) as [st2| |] eqn:E; cbn [rbind] in H; try discriminate.
  assert (st2 = st).
  { destruct m; try discriminate; cbn [check_msg] in E;
      destruct (get ordN (permissions st) sender); try discriminate;
      match type of E with (if ?c then _ else _) = _ => destruct c end; inversion E; reflexivity. }
  subst st2. apply (IH st blk sender st1 Hr H).
Qed.

Lemma c17_unchanged st blk sender o b : Cw1Lemmas.Inv st ->
  (b = false \/ match o with Execute _ | IncreaseAllowance _ _ _ | DecreaseAllowance _ _ _ | SetPermissions _ _ => True | _ => False end) ->
  s_c17 st st blk sender o b = 0.
Proof.
  intros _ Hb. unfold s_c17. rewrite nlist_eqb_refl, Bool.eqb_reflx. cbn [andb negb].
  assert (F: forallb (fun s =>
            (opt_eqb allow_eqb (Cw1Check.stored st s) (Cw1Check.stored st s) &&
             opt_eqb perms_eqb (get ordN (permissions st) s) (get ordN (permissions st) s))
            || (b && is_admin st sender &&
                match o with
                | IncreaseAllowance (Some x) _ _ | DecreaseAllowance (Some x) _ _ =>
                    (x =? s) && opt_eqb perms_eqb (get ordN (permissions st) s) (get ordN (permissions st) s)
                | SetPermissions (Some x) _ => (x =? s) && opt_eqb allow_eqb (Cw1Check.stored st s) (Cw1Check.stored st s)
                | _ => false
                end)
            || (b && negb (is_admin st sender) && (s =? sender) &&
                opt_eqb perms_eqb (get ordN (permissions st) s) (get ordN (permissions st) s) &&
                match o with Execute ms => has_send ms | _ => false end))
          (all_keys st st) = true).
  { apply forallb_forall. intros s _. rewrite (opt_eqb_refl allow_eqb allow_eqb_refl), (opt_eqb_refl perms_eqb perms_eqb_refl). reflexivity. }
  rewrite F. cbn [negb].
  destruct Hb as [->|Ho]; [reflexivity|]. destruct o; try contradiction; rewrite ?andb_false_r; reflexivity.
Qed.

Theorem s_c17_sound st blk sender o : Cw1Lemmas.Inv st ->
  match step st blk sender o with
  | Ok (st', _) => s_c17 st st' blk sender o true = 0
  | _ => True
  end /\ s_c17 st st blk sender o false = 0.
Proof.
  intros HI. split; [|apply c17_unchanged; [exact HI|left; reflexivity]].
  destruct (step st blk sender o) as [[st' rel]| |] eqn:E; [|exact I|exact I].
  destruct o as [msgs| |l|sp [d n] e|sp [d n] e|sp p].
  - (* Execute *)
    destruct (is_admin st sender) eqn:Ea.
    + cbn [step] in E. rewrite Ea in E. inversion E; subst. apply c17_unchanged; [exact HI|right; exact I].
    + destruct (subkey_execute_spec _ _ _ _ _ _ HI Ea E) as (Hs & _ & A1 & A2 & A3 & A4 & _ & _).
      destruct (has_send msgs) eqn:Hsend.
      * unfold s_c17. rewrite A1, A2, nlist_eqb_refl, Bool.eqb_reflx. cbn [andb negb].
        match goal with |- (if negb (forallb ?f ?l) then _ else _) = _ => assert (F: forallb f l = true) end.
        { apply forallb_forall. intros s _. rewrite A3, (opt_eqb_refl perms_eqb perms_eqb_refl), Ea. cbn [negb andb].
          destruct (N.eq_dec s sender) as [->|Hn].
          - rewrite N.eqb_refl. cbn [andb]. rewrite Hsend. apply orb_true_r.
          - pose proof (A4 _ Hn) as A5. unfold Cw1Lemmas.stored in A5. unfold Cw1Check.stored. rewrite A5, (opt_eqb_refl allow_eqb allow_eqb_refl). reflexivity. }
        rewrite F. reflexivity.
      * cbn [step] in E. rewrite Ea, Hs in E. destruct (check_msgs st blk sender msgs) as [st1| |] eqn:C; cbn [rbind] in E; try discriminate.
        inversion E; subst. rewrite (check_msgs_nosend _ _ _ _ _ Hsend C). apply c17_unchanged; [exact HI|right; exact I].
  - (* Freeze *)
    destruct (admin_ops_spec _ _ _ _ _ _ (or_introl eq_refl) E) as (Hm & Ha & _ & B1 & B2 & _ & [(_ & C1 & C2)|(l & xs & C & _)]); [|discriminate].
    unfold s_c17. rewrite Hm, Ha, C1, C2, nlist_eqb_refl. cbn [andb negb Bool.eqb].
    match goal with |- (if negb (forallb ?f ?l) then _ else _) = _ => assert (F: forallb f l = true) end.
    { apply forallb_forall. intros s _. unfold Cw1Check.stored. rewrite B1, B2, (opt_eqb_refl allow_eqb allow_eqb_refl), (opt_eqb_refl perms_eqb perms_eqb_refl). reflexivity. }
    rewrite F. reflexivity.
  - (* UpdateAdmins *)
    destruct (admin_ops_spec _ _ _ _ _ _ (or_intror (ex_intro _ l eq_refl)) E) as (Hm & Ha & _ & B1 & B2 & _ & [(C & _)|(l0 & xs & C & Hv & C1 & C2)]); [discriminate|].
    inversion C; subst l0. unfold s_c17. rewrite Hm, Ha, Hv, C1, C2, nset_eqb_refl. cbn [andb negb]. rewrite andb_false_r.
    match goal with |- (if negb (forallb ?f ?l) then _ else _) = _ => assert (F: forallb f l = true) end.
    { apply forallb_forall. intros s _. unfold Cw1Check.stored. rewrite B1, B2, (opt_eqb_refl allow_eqb allow_eqb_refl), (opt_eqb_refl perms_eqb perms_eqb_refl). reflexivity. }
    rewrite F. reflexivity.
  - (* IncreaseAllowance *)
    destruct (increase_spec _ _ _ _ _ _ _ _ _ HI E) as (_ & Ha & _ & s & -> & Hne & _ & A1 & A2 & A3 & A4 & _).
    unfold s_c17. rewrite A1, A2, nlist_eqb_refl, Bool.eqb_reflx, Ha. cbn [andb negb].
    match goal with |- (if negb (forallb ?f ?l) then _ else _) = _ => assert (F: forallb f l = true) end.
    { apply forallb_forall. intros k _. rewrite A3, (opt_eqb_refl perms_eqb perms_eqb_refl).
      destruct (N.eq_dec k s) as [->|Hn].
      - rewrite N.eqb_refl. cbn [andb]. rewrite orb_true_r. reflexivity.
      - pose proof (A4 _ Hn) as A5. unfold Cw1Lemmas.stored in A5. unfold Cw1Check.stored. rewrite A5, (opt_eqb_refl allow_eqb allow_eqb_refl). reflexivity. }
    rewrite F. reflexivity.
  - (* DecreaseAllowance *)
    destruct (decrease_spec _ _ _ _ _ _ _ _ _ HI E) as (_ & Ha & _ & s & a & -> & Hne & _ & _ & _ & A1 & A2 & A3 & A4 & _).
    unfold s_c17. rewrite A1, A2, nlist_eqb_refl, Bool.eqb_reflx, Ha. cbn [andb negb].
    match goal with |- (if negb (forallb ?f ?l) then _ else _) = _ => assert (F: forallb f l = true) end.
    { apply forallb_forall. intros k _. rewrite A3, (opt_eqb_refl perms_eqb perms_eqb_refl).
      destruct (N.eq_dec k s) as [->|Hn].
      - rewrite N.eqb_refl. cbn [andb]. rewrite orb_true_r. reflexivity.
      - pose proof (A4 _ Hn) as A5. unfold Cw1Lemmas.stored in A5. unfold Cw1Check.stored. rewrite A5, (opt_eqb_refl allow_eqb allow_eqb_refl). reflexivity. }
    rewrite F. reflexivity.
  - (* SetPermissions *)
    destruct (set_permissions_spec _ _ _ _ _ _ _ E) as (_ & Ha & _ & s & -> & Hne & ->).
    unfold s_c17. cbn [set_permissions admins mutable_ permissions allowances]. rewrite nlist_eqb_refl, Bool.eqb_reflx, Ha. cbn [andb negb].
    match goal with |- (if negb (forallb ?f ?l) then _ else _) = _ => assert (F: forallb f l = true) end.
    { apply forallb_forall. intros k _. unfold Cw1Check.stored. cbn [set_permissions allowances permissions].
      rewrite (opt_eqb_refl allow_eqb allow_eqb_refl).
      destruct (N.eq_dec k s) as [->|Hn].
      - rewrite N.eqb_refl. cbn [andb]. rewrite orb_true_r. reflexivity.
      - rewrite get_set_neq by exact Hn. rewrite (opt_eqb_refl perms_eqb perms_eqb_refl). reflexivity. }
    rewrite F. reflexivity.
Qed.

(* ---------------------------------------------------------------------------------------- *)
(* S_C08 *)
Lemma unchanged_refl st who ks :
  forallb (fun s => (s =? who) || opt_eqb allow_eqb (Cw1Check.stored st s) (Cw1Check.stored st s)) ks = true.
Proof. apply forallb_forall. intros s _. rewrite (opt_eqb_refl allow_eqb allow_eqb_refl). apply orb_true_r. Qed.

Lemma c08_unchanged st blk sender o b :
  (b = false \/ match o with
                | Execute ms => is_admin st sender || negb (has_send ms) = true
                | IncreaseAllowance _ _ _ | DecreaseAllowance _ _ _ => False
                | _ => True end) ->
  s_c08 st st blk sender o b = 0.
Proof.
  intros Hb. unfold s_c08. destruct Hb as [->|Ho]; cbn [negb]; [rewrite unchanged_refl; reflexivity|].
  destruct b; cbn [negb]; [|rewrite unchanged_refl; reflexivity].
  destruct o; try contradiction; try (rewrite unchanged_refl; reflexivity).
  rewrite Ho. rewrite unchanged_refl. reflexivity.
Qed.

Lemma unchanged_except_of st st' who ks : (forall k, k <> who -> Cw1Lemmas.stored st' k = Cw1Lemmas.stored st k) ->
  forallb (fun s => (s =? who) || opt_eqb allow_eqb (Cw1Check.stored st s) (Cw1Check.stored st' s)) ks = true.
Proof.
  intros H. apply forallb_forall. intros s _. destruct (N.eq_dec s who) as [->|Hn]; [rewrite N.eqb_refl; reflexivity|].
  pose proof (H _ Hn) as A. unfold Cw1Lemmas.stored in A. unfold Cw1Check.stored. rewrite A, (opt_eqb_refl allow_eqb allow_eqb_refl). apply orb_true_r.
Qed.

Lemma unchanged_allow_eq st st' who ks : allowances st' = allowances st ->
  forallb (fun s => (s =? who) || opt_eqb allow_eqb (Cw1Check.stored st s) (Cw1Check.stored st' s)) ks = true.
Proof. intros H. apply unchanged_except_of. intros k _. unfold Cw1Lemmas.stored. rewrite H. reflexivity. Qed.

Lemma has_send_in ms : has_send ms = true -> exists t cs, In (BankSend t cs) ms.
Proof.
  unfold has_send. intros H. apply existsb_exists in H. destruct H as (m & Hin & Hm). destruct m; try discriminate. eexists _, _. exact Hin.
Qed.

Lemma increase_expiry st blk sender s c e st' rel :
  step st blk sender (IncreaseAllowance (Some s) c e) = Ok (st', rel) ->
  exp_of (Cw1Check.stored st' s) =
  match e with Some x => x | None => exp_of (match Cw1Check.stored st s with
                                             | Some x => if is_expired (a_exp x) blk then None else Some x
                                             | None => None end) end.
Proof.
  intros H. cbn [step] in H.
  destruct (negb (subkeys st)); [discriminate|]. destruct (negb (is_admin st sender)); [discriminate|].
  cbn [validate rbind] in H. destruct (s =? sender); [discriminate|].
  unfold Cw1Check.stored. destruct (get ordN (allowances st) s) as [a|] eqn:G.
  - destruct e as [x|].
    + destruct (is_expired x blk); cbn [rbind] in H; [discriminate|].
      match type of H with rbind ?y _ = _ => destruct y as [b'| |] end; cbn [rbind] in H; try discriminate.
      inversion H. cbn [allowances set_allowances]. rewrite get_set_eq. reflexivity.
    + destruct (is_expired (a_exp a) blk) eqn:Ee; cbn [rbind] in H; [discriminate|].
      match type of H with rbind ?y _ = _ => destruct y as [b'| |] end; cbn [rbind] in H; try discriminate.
      inversion H. cbn [allowances set_allowances]. rewrite get_set_eq. reflexivity.
  - destruct e as [x|].
    + destruct (is_expired x blk); cbn [rbind] in H; [discriminate|].
      match type of H with rbind ?y _ = _ => destruct y as [b'| |] end; cbn [rbind] in H; try discriminate.
      inversion H. cbn [allowances set_allowances]. rewrite get_set_eq. reflexivity.
    + cbn [is_expired rbind] in H.
      match type of H with rbind ?y _ = _ => destruct y as [b'| |] end; cbn [rbind] in H; try discriminate.
      inversion H. cbn [allowances set_allowances]. rewrite get_set_eq. reflexivity.
Qed.

Lemma decrease_expiry st blk sender s c e st' rel a : Cw1Lemmas.Inv st ->
  step st blk sender (DecreaseAllowance (Some s) c e) = Ok (st', rel) -> Cw1Check.stored st s = Some a ->
  match Cw1Check.stored st' s with
  | Some x => a_exp x = match e with Some y => y | None => a_exp a end
  | None => True
  end.
Proof.
  intros (HA & _) H G. cbn [step] in H.
  destruct (negb (subkeys st)); [discriminate|]. destruct (negb (is_admin st sender)); [discriminate|].
  cbn [validate rbind] in H. destruct (s =? sender); [discriminate|].
  unfold Cw1Check.stored in *. rewrite G in H. destruct (is_expired (a_exp a) blk); [discriminate|].
  assert (X: forall ex, match nb_sub_sat (a_bal a) c with
             | Some b' => if nb_is_empty b' then Ok (set_allowances st (remove ordN (allowances st) s), [])
                          else Ok (set_allowances st (set ordN (allowances st) s (mkAllow b' ex)), [])
             | None => Err end = Ok (st', rel) ->
             match get ordN (allowances st') s with Some x => a_exp x = ex | None => True end).
  { intros ex H1. destruct (nb_sub_sat (a_bal a) c) as [b'|]; [|discriminate].
    destruct (nb_is_empty b'); inversion H1; cbn [allowances set_allowances].
    - rewrite get_remove_eq by exact HA. exact I.
    - rewrite get_set_eq. reflexivity. }
  destruct e as [y|].
  - destruct (is_expired y blk); cbn [rbind] in H; [discriminate|]. apply (X y H).
  - cbn [rbind] in H. apply (X (a_exp a) H).
Qed.

Lemma increase_accept_unexpired st blk sender s c e st' rel :
  step st blk sender (IncreaseAllowance (Some s) c e) = Ok (st', rel) ->
  match e with Some x => is_expired x blk | None => is_expired (exp_of (Cw1Check.stored st s)) blk end = false.
Proof.
  intros H. cbn [step] in H.
  destruct (negb (subkeys st)); [discriminate|]. destruct (negb (is_admin st sender)); [discriminate|].
  cbn [validate rbind] in H. destruct (s =? sender); [discriminate|].
  unfold Cw1Check.stored. destruct e as [x|].
  - destruct (is_expired x blk); [|reflexivity]. cbn [rbind] in H. discriminate.
  - destruct (get ordN (allowances st) s) as [a|]; cbn [exp_of]; [|reflexivity].
    destruct (is_expired (a_exp a) blk); [|reflexivity]. cbn [rbind] in H. discriminate.
Qed.

Lemma decrease_accept_unexpired st blk sender s c e st' rel :
  step st blk sender (DecreaseAllowance (Some s) c e) = Ok (st', rel) ->
  match e with Some x => is_expired x blk | None => false end = false.
Proof.
  intros H. cbn [step] in H.
  destruct (negb (subkeys st)); [discriminate|]. destruct (negb (is_admin st sender)); [discriminate|].
  cbn [validate rbind] in H. destruct (s =? sender); [discriminate|].
  destruct (get ordN (allowances st) s) as [a|]; [|discriminate]. destruct (is_expired (a_exp a) blk); [discriminate|].
  destruct e as [x|]; [|reflexivity]. destruct (is_expired x blk); [|reflexivity]. cbn [rbind] in H. discriminate.
Qed.

Theorem s_c08_sound st blk sender o : Cw1Lemmas.Inv st ->
  match step st blk sender o with
  | Ok (st', _) => s_c08 st st' blk sender o true = 0
  | _ => True
  end /\ s_c08 st st blk sender o false = 0.
Proof.
  intros HI. split; [|apply c08_unchanged; left; reflexivity].
  destruct (step st blk sender o) as [[st' rel]| |] eqn:E; [|exact I|exact I].
  destruct o as [msgs| |l|sp [d n] e|sp [d n] e|sp p].
  - (* Execute *)
    destruct (is_admin st sender) eqn:Ea.
    + cbn [step] in E. rewrite Ea in E. inversion E; subst. apply c08_unchanged. right. rewrite Ea. reflexivity.
    + destruct (subkey_execute_spec _ _ _ _ _ _ HI Ea E) as (Hs & Hall & A1 & A2 & A3 & A4 & A5 & A6).
      destruct (has_send msgs) eqn:Hsend.
      * unfold s_c08. cbn [negb]. rewrite Ea, Hsend. cbn [orb negb].
        rewrite (unchanged_except_of st st' sender _ A4). cbn [negb].
        destruct (has_send_in _ Hsend) as (t & cs & Hin).
        rewrite Forall_forall in Hall. destruct (Hall _ Hin) as (a & Ga & Ex). cbn [msg_allowed] in *.
        unfold Cw1Lemmas.stored in Ga. unfold Cw1Check.stored at 1. rewrite Ga, Ex. cbn [negb].
        match goal with |- (if negb (forallb ?f ?l) then _ else _) = _ => assert (F: forallb f l = true) end.
        { apply forallb_forall. intros d' _. destruct (A5 d') as [L Q].
          rewrite !spent_same, !amount_same.
          change (Cw1Check.stored st sender) with (Cw1Lemmas.stored st sender).
          change (Cw1Check.stored st' sender) with (Cw1Lemmas.stored st' sender).
          rewrite <- (amount_same (Cw1Lemmas.stored st' sender) d') in Q. rewrite Q. apply andb_true_iff. split; [apply N.leb_le; exact L|apply N.eqb_refl]. }
        rewrite F. cbn [negb].
        unfold exp_rel in A6. unfold Cw1Lemmas.stored in A6. unfold Cw1Check.stored. rewrite Ga in A6.
        destruct (get ordN (allowances st') sender) as [a1|]; [|contradiction]. rewrite Ga. cbn [exp_of]. rewrite A6, exp_eqb_refl. reflexivity.
      * cbn [step] in E. rewrite Ea, Hs in E. destruct (check_msgs st blk sender msgs) as [st1| |] eqn:C; cbn [rbind] in E; try discriminate.
        inversion E; subst. rewrite (check_msgs_nosend _ _ _ _ _ Hsend C). apply c08_unchanged. right. rewrite Hsend. apply orb_true_r.
  - (* Freeze *)
    destruct (admin_ops_spec _ _ _ _ _ _ (or_introl eq_refl) E) as (_ & _ & _ & B1 & _).
    unfold s_c08. cbn [negb]. rewrite (unchanged_allow_eq st st' _ _ B1). reflexivity.
  - (* UpdateAdmins *)
    destruct (admin_ops_spec _ _ _ _ _ _ (or_intror (ex_intro _ l eq_refl)) E) as (_ & _ & _ & B1 & _).
    unfold s_c08. cbn [negb]. rewrite (unchanged_allow_eq st st' _ _ B1). reflexivity.
  - (* IncreaseAllowance *)
    destruct (increase_spec _ _ _ _ _ _ _ _ _ HI E) as (_ & _ & _ & s & -> & Hne & _ & _ & _ & _ & A4 & A5).
    unfold s_c08. cbn [negb]. rewrite (unchanged_except_of st st' s _ A4). cbn [negb].
    rewrite (increase_accept_unexpired _ _ _ _ _ _ _ _ E).
    match goal with |- (if negb (forallb ?f ?l) then _ else _) = _ => assert (F: forallb f l = true) end.
    { apply forallb_forall. intros d' _. rewrite !amount_same.
      change (Cw1Check.stored st' s) with (Cw1Lemmas.stored st' s). rewrite ?amount_same. rewrite (A5 d').
      unfold live, Cw1Lemmas.stored, Cw1Check.stored. apply N.eqb_refl. }
    rewrite F. cbn [negb]. rewrite (increase_expiry _ _ _ _ _ _ _ _ E), exp_eqb_refl. reflexivity.
  - (* DecreaseAllowance *)
    destruct (decrease_spec _ _ _ _ _ _ _ _ _ HI E) as (_ & _ & _ & s & a & -> & Hne & _ & Ga & Ex & _ & _ & _ & A4 & A5).
    unfold s_c08. cbn [negb]. rewrite (unchanged_except_of st st' s _ A4). cbn [negb].
    rewrite (decrease_accept_unexpired _ _ _ _ _ _ _ _ E).
    change (Cw1Lemmas.stored st s) with (Cw1Check.stored st s) in Ga.
    match goal with |- context [negb (forallb ?f ?l)] => assert (F: forallb f l = true) end.
    { apply forallb_forall. intros d' _. rewrite !amount_same.
      change (Cw1Check.stored st' s) with (Cw1Lemmas.stored st' s). change (Cw1Check.stored st s) with (Cw1Lemmas.stored st s).
      rewrite ?amount_same. rewrite (A5 d'). apply N.eqb_refl. }
    rewrite F. clear F. rewrite Ga, Ex. cbn [negb].
    pose proof (decrease_expiry _ _ _ _ _ _ _ _ a HI E Ga) as X.
    destruct (Cw1Check.stored st' s) as [x|]; [|reflexivity].
    rewrite X. cbn [exp_of]. rewrite exp_eqb_refl. reflexivity.
  - (* SetPermissions *)
    destruct (set_permissions_spec _ _ _ _ _ _ _ E) as (_ & _ & _ & s & -> & _ & ->).
    unfold s_c08. cbn [negb]. rewrite unchanged_allow_eq by reflexivity. reflexivity.
Qed.
