(* Cw1Check.v — step contracts S_C07, S_C08, S_C16, S_C17 and the trace checker of family F4. *)
Require Import CwPlus.Params CwPlus.Base CwPlus.AMap CwPlus.Cw1Model.
Open Scope N_scope.

Record obs := mkObs {
  ob_admins : list N;                   (* AdminList.admins *)
  ob_mutable : bool;                    (* AdminList.mutable *)
  ob_stored : list (N * allowance);     (* raw storage read of ALLOWANCES[a], every pool address, present entries *)
  ob_query : list (N * allowance);      (* Allowance{spender}, every pool address at the current block, non-default answers *)
  ob_list : list (N * allowance);       (* AllAllowances paged to the end at the current block *)
  ob_perms : list (N * perms);          (* AllPermissions paged to the end *)
  ob_perm_q : list (N * perms)          (* Permissions{spender}, every pool address, non-default answers *)
}.

Definition state_of_obs (sk : bool) (o : obs) : state :=
  mkSt sk (ob_admins o) (ob_mutable o) (ob_stored o) (ob_perms o).

Definition coin_eqb (x y : coin) : bool := (fst x =? fst y) && (snd x =? snd y).
Definition nbal_eqb : nbal -> nbal -> bool := list_eqb coin_eqb.
Definition allow_eqb (a b : allowance) : bool := nbal_eqb (a_bal a) (a_bal b) && exp_eqb (a_exp a) (a_exp b).
Definition perms_eqb (a b : perms) : bool :=
  Bool.eqb (p_delegate a) (p_delegate b) && Bool.eqb (p_redelegate a) (p_redelegate b) &&
  Bool.eqb (p_undelegate a) (p_undelegate b) && Bool.eqb (p_withdraw a) (p_withdraw b).
Definition cmsg_eqb (a b : cmsg) : bool :=
  match a, b with
  | BankSend t1 c1, BankSend t2 c2 => (t1 =? t2) && nbal_eqb c1 c2
  | BankBurn c1, BankBurn c2 => nbal_eqb c1 c2
  | Delegate, Delegate | Undelegate, Undelegate | Redelegate, Redelegate
  | SetWithdrawAddress, SetWithdrawAddress | WithdrawReward, WithdrawReward => true
  | OtherMsg x, OtherMsg y => x =? y
  | _, _ => false
  end.
Definition entry_eqb (x y : N * allowance) : bool := (fst x =? fst y) && allow_eqb (snd x) (snd y).
Definition pentry_eqb (x y : N * perms) : bool := (fst x =? fst y) && perms_eqb (snd x) (snd y).

(* amount of denom d an allowance (or its absence) holds *)
Definition amount_of (o : option allowance) (d : N) : N :=
  match o with Some a => match nb_find (a_bal a) d with Some x => x | None => 0 end | None => 0 end.
Definition stored (st : state) (s : N) : option allowance := get ordN (allowances st) s.

(* total of denom d over all bank sends of a message list *)
Fixpoint coins_total (cs : list coin) (d : N) : N :=
  match cs with [] => 0 | (d', a) :: r => (if d' =? d then a else 0) + coins_total r d end.
Fixpoint spent_total (ms : list cmsg) (d : N) : N :=
  match ms with
  | [] => 0
  | BankSend _ cs :: r => coins_total cs d + spent_total r d
  | _ :: r => spent_total r d
  end.
Definition has_send (ms : list cmsg) : bool :=
  existsb (fun m => match m with BankSend _ _ => true | _ => false end) ms.

Definition denoms_of (a : option allowance) : list N :=
  match a with Some x => map fst (a_bal x) | None => [] end.
Fixpoint msg_denoms (ms : list cmsg) : list N :=
  match ms with
  | [] => []
  | BankSend _ cs :: r => map fst cs ++ msg_denoms r
  | _ :: r => msg_denoms r
  end.

(* ---------------------------------------------------------------------------------------- *)
(* S_C07: relays exactly the submitted messages, only when authorised *)
Definition s_c07 (p : state) (blk : block) (sender : N) (o : op) (hok : bool) (relayed : list cmsg)
           (exact : bool) : N :=
  match o with
  | Execute msgs =>
      if hok then
        if negb (list_eqb cmsg_eqb relayed msgs && exact) then 1            (* relayed <> submitted *)
        else if negb (is_admin p sender || (subkeys p && is_ok (check_msgs p blk sender msgs))) then 2
        else 0
      else if negb (match relayed with [] => true | _ => false end) then 3  (* failed call relayed something *)
      else 0
  | _ => if negb (match relayed with [] => true | _ => false end) then 4 else 0
  end.

(* S_C16: the prediction (when one was taken just before the call) equals the outcome *)
Definition s_c16 (pred : option bool) (hok : bool) : N :=
  match pred with Some b => if Bool.eqb b hok then 0 else 1 | None => 0 end.

(* ---------------------------------------------------------------------------------------- *)
(* S_C17: admin set / frozen flag; grants only by admins *)
Definition nlist_eqb : list N -> list N -> bool := list_eqb N.eqb.
(* the admin list as a set: who is an admin (order and repetitions in storage are not the property's concern) *)
Definition nmem (x : N) (l : list N) : bool := existsb (fun y => y =? x) l.
Definition nset_eqb (a b : list N) : bool := forallb (fun x => nmem x b) a && forallb (fun x => nmem x a) b.

Definition all_keys (p q : state) : list N :=
  keys (allowances p) ++ keys (allowances q) ++ keys (permissions p) ++ keys (permissions q).

Definition s_c17 (p q : state) (blk : block) (sender : N) (o : op) (ok : bool) : N :=
  let changed := negb (nlist_eqb (admins p) (admins q) && Bool.eqb (mutable_ p) (mutable_ q)) in
  if changed &&
     negb (ok && mutable_ p && is_admin p sender &&
           match o with
           | Freeze => nlist_eqb (admins p) (admins q) && negb (mutable_ q)
           | UpdateAdmins l => match map_validate l with
                               | Ok xs => nset_eqb xs (admins q) && mutable_ q
                               | _ => false
                               end
           | _ => false
           end) then 1
  else if negb (forallb (fun s =>
            (opt_eqb allow_eqb (stored p s) (stored q s) &&
             opt_eqb perms_eqb (get ordN (permissions p) s) (get ordN (permissions q) s))
            || (ok && is_admin p sender &&
                match o with
                | IncreaseAllowance (Some x) _ _ | DecreaseAllowance (Some x) _ _ =>
                    (x =? s) && opt_eqb perms_eqb (get ordN (permissions p) s) (get ordN (permissions q) s)
                | SetPermissions (Some x) _ => (x =? s) && opt_eqb allow_eqb (stored p s) (stored q s)
                | _ => false
                end)
            || (ok && negb (is_admin p sender) && (s =? sender) &&
                opt_eqb perms_eqb (get ordN (permissions p) s) (get ordN (permissions q) s) &&
                match o with Execute ms => has_send ms | _ => false end))
          (all_keys p q)) then 2
  else if ok && match o with
                | UpdateAdmins l => match map_validate l with
                                    | Ok xs => negb (nset_eqb xs (admins q))
                                    | _ => true
                                    end
                | Freeze => mutable_ q
                | _ => false
                end then 3     (* an accepted UpdateAdmins / Freeze did not take effect exactly as submitted *)
  else 0.

(* ---------------------------------------------------------------------------------------- *)
(* S_C08: spending is deducted exactly; grants change only as allowed *)
Definition exp_of (o : option allowance) : expiration := match o with Some a => a_exp a | None => Never end.

Definition s_c08 (p q : state) (blk : block) (sender : N) (o : op) (ok : bool) : N :=
  let ks := keys (allowances p) ++ keys (allowances q) in
  let unchanged_except (who : N) :=
    forallb (fun s => (s =? who) || opt_eqb allow_eqb (stored p s) (stored q s)) ks in
  if negb ok then (if unchanged_except 1000000000 then 0 else 1)            (* failed call changed an allowance *)
  else match o with
  | Execute ms =>
      if is_admin p sender || negb (has_send ms) then (if unchanged_except 1000000000 then 0 else 2)
      else
        let a := stored p sender in
        let ds := denoms_of a ++ denoms_of (stored q sender) ++ msg_denoms ms in
        if negb (unchanged_except sender) then 3                              (* another subkey's allowance moved *)
        else if negb (match a with Some x => negb (is_expired (a_exp x) blk) | None => false end) then 4 (* no / expired allowance *)
        else if negb (forallb (fun d => (spent_total ms d <=? amount_of a d) &&
                                        (amount_of (stored q sender) d =? amount_of a d - spent_total ms d)) ds) then 5
        else if negb (exp_eqb (exp_of (stored q sender)) (exp_of a)) then 6
        else 0
  | IncreaseAllowance (Some s) (d, n) e =>
      let a := stored p s in
      let base := match a with Some x => if is_expired (a_exp x) blk then None else Some x | None => None end in
      let ds := d :: denoms_of a ++ denoms_of (stored q s) in
      if negb (unchanged_except s) then 7
      else if match e with
              | Some x => is_expired x blk
              | None => is_expired (exp_of a) blk
              end then 15   (* accepted with an expiry already past (requested one, else that of the previous grant) *)
      else if negb (forallb (fun d' => amount_of (stored q s) d' =? amount_of base d' + (if d' =? d then n else 0)) ds) then 8
      else if negb (exp_eqb (exp_of (stored q s)) (match e with Some x => x | None => exp_of base end)) then 12
           (* expiry after an increase: the requested one, else that of the unexpired previous grant, else Never *)
      else 0
  | DecreaseAllowance (Some s) (d, n) e =>
      let a := stored p s in
      let ds := d :: denoms_of a ++ denoms_of (stored q s) in
      if negb (unchanged_except s) then 9
      else if negb (match a with Some x => negb (is_expired (a_exp x) blk) | None => false end) then 14
           (* DecreaseAllowance accepted on a missing or expired allowance *)
      else if match e with Some x => is_expired x blk | None => false end then 15
      else if negb (forallb (fun d' => amount_of (stored q s) d' =? amount_of a d' - (if d' =? d then n else 0)) ds) then 10
      else if match stored q s with
              | Some x => negb (exp_eqb (a_exp x) (match e with Some y => y | None => exp_of a end))
              | None => false end then 13     (* expiry after a decrease: the requested one, else unchanged *)
      else 0
  | _ => if unchanged_except 1000000000 then 0 else 11
  end.

(* ---------------------------------------------------------------------------------------- *)
(* view consistency used by the correspondence (queries vs stored state), at the observation block *)
Definition views_ok (o : obs) (blk : block) : bool :=
  let st := state_of_obs true o in
  list_eqb entry_eqb (ob_list o) (q_all_allowances st blk) &&
  list_eqb entry_eqb (ob_query o)
    (filter (fun kv => negb (allow_eqb (snd kv) allow_default))
            (map (fun kv => (fst kv, q_allowance st blk (fst kv))) (ob_stored o))) &&
  list_eqb pentry_eqb (ob_perm_q o)
    (filter (fun kv => negb (perms_eqb (snd kv) perm_default)) (ob_perms o)).

(* ---------------------------------------------------------------------------------------- *)
Inductive tstep :=
| TCall (blk : block) (sender : N) (o : op)
        (pred : option bool)        (* CanExecute{sender, m} asked just before an Execute{[m]} *)
        (hok : bool)                (* the proxy's handler returned Ok *)
        (ok : bool)                 (* the whole transaction committed *)
        (relayed : list cmsg) (exact : bool)  (* Response.messages of the handler; Rust == with the submitted vector *)
        (after : obs).

Record trace := mkTrace { t_init : init_msg; t_init_ok : bool; t_init_obs : obs; t_steps : list tstep }.

Definition same_admins (st : state) (o : obs) : bool :=
  nset_eqb (admins st) (ob_admins o) && Bool.eqb (mutable_ st) (ob_mutable o).   (* who is an admin, not how the list is stored *)
Definition same_allow (st : state) (o : obs) : bool := list_eqb entry_eqb (allowances st) (ob_stored o).
Definition same_perms (st : state) (o : obs) : bool := list_eqb pentry_eqb (permissions st) (ob_perms o).

Definition corr (prop : N) (st : state) (o : obs) (blk : block) : bool :=
  match prop with
  | 7 => true
  | 8 => same_allow st o && (negb (subkeys st) || views_ok o blk)
  | 16 => same_admins st o && same_allow st o && same_perms st o
  | 17 => same_admins st o && same_allow st o && same_perms st o
  | _ => true
  end.

(* mst: the state the history of accepted calls implies (the model's), against which authorisation is
   judged for C07: who is an admin and what each grant still covers is a fact of the history, not of
   what the contract happens to have stored *)
Definition contract (prop : N) (mst : state) (sk : bool) (pre post : obs) (blk : block) (sender : N) (o : op)
           (pred : option bool) (hok ok : bool) (relayed : list cmsg) (exact : bool) : N :=
  let p := state_of_obs sk pre in let q := state_of_obs sk post in
  match prop with
  | 7 => s_c07 mst blk sender o hok relayed exact
  | 8 => s_c08 p q blk sender o ok
  | 16 => s_c16 pred hok
  | 17 => s_c17 p q blk sender o ok
  | _ => 0
  end.

(* result codes as in Cw20Check: 100+c contract clause; 50 projection differs; 51 relayed differs;
   52 model and implementation disagree on the CanExecute answer (C16) *)
Fixpoint check_steps (prop : N) (i : N) (st : state) (prev : obs) (l : list tstep) : list (N * N) :=
  match l with
  | [] => []
  | TCall blk sender o pred hok ok relayed exact after :: r =>
      let c := contract prop st (subkeys st) prev after blk sender o pred hok ok relayed exact in
      if negb (c =? 0) then [(i, 100 + c)] else
      let pred_m := match o with Execute [m] => Some (can_execute st blk sender m) | _ => None end in
      if (prop =? 16) && match pred with Some b => negb (opt_eqb Bool.eqb pred_m (Some b)) | None => false end
      then [(i, 52)] else
      let hok_m := is_ok (step st blk sender o) in
      let '(st', ok_m, ms_m) := tx st blk sender o (Bool.eqb ok hok) in
      if negb (Bool.eqb hok hok_m) then
        (* accept/reject divergence with the contract holding: continue from the observed state; for C07, whose
           authorisation is judged on the state the history implies, from the model's state before the call (a
           call the specification refuses grants nothing, whatever the contract stored) *)
        check_steps prop (i + 1) (if prop =? 7 then st else state_of_obs (subkeys st) after) after r
      else if negb (corr prop st' after blk)
      then (i, 50) :: check_steps prop (i + 1) (state_of_obs (subkeys st) after) after r   (* go on from the observed state *)
      else if (prop =? 7) && hok && negb (list_eqb cmsg_eqb relayed (match step st blk sender o with Ok (_, ms) => ms | _ => [] end))
           then [(i, 51)]
      else check_steps prop (i + 1) st' after r
  end.

Definition check_trace (prop : N) (t : trace) : list (N * N) :=
  if negb (t_init_ok t) then [] else
  match instantiate (t_init t) with
  | Ok st =>
      if negb (same_admins st (t_init_obs t)) then (if (prop =? 17) then [(0, 50)] else
        check_steps prop 1 (state_of_obs (subkeys st) (t_init_obs t)) (t_init_obs t) (t_steps t))
      else check_steps prop 1 st (t_init_obs t) (t_steps t)
  | _ => check_steps prop 1 (state_of_obs (i_subkeys (t_init t)) (t_init_obs t)) (t_init_obs t) (t_steps t)
  end.

Fixpoint check_traces (prop : N) (i : N) (ts : list trace) : list (N * N) :=
  match ts with
  | [] => []
  | t :: r =>
      match prefer_clause (check_trace prop t) with
      | [] => check_traces prop (i + 1) r
      | (s, c) :: _ => (i, s * 1000 + c) :: check_traces prop (i + 1) r
      end
  end.
