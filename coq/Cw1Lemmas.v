(* Cw1Lemmas.v — proofs about model F4 (C07, C08, C16, C17). *)
Require Import CwPlus.Params CwPlus.Base CwPlus.AMap CwPlus.Cw1Model.
From Coq Require Import Lia ZifyBool ZifyN.
Open Scope N_scope.

(* ---- NativeBalance ---- *)
Definition amt (b : nbal) (d : N) : N := match nb_find b d with Some x => x | None => 0 end.
Definition nodup (b : nbal) : Prop := NoDup (map fst b).

Lemma find_in b d a : nb_find b d = Some a -> In d (map fst b).
Proof.
  induction b as [|[d' x] r IH]; cbn [nb_find map fst]; [discriminate|].
  destruct (d' =? d) eqn:E; [apply N.eqb_eq in E; left; exact E|]. intros H. right. apply IH. exact H.
Qed.
Lemma notin_find b d : ~ In d (map fst b) -> nb_find b d = None.
Proof.
  intros H. destruct (nb_find b d) eqn:E; [|reflexivity]. exfalso. apply H. eapply find_in. exact E.
Qed.

Lemma find_set_eq b d x a : nb_find b d = Some a -> nb_find (nb_set b d x) d = Some x.
Proof.
  induction b as [|[d' y] r IH]; cbn [nb_find nb_set]; [discriminate|].
  destruct (d' =? d) eqn:E; cbn [nb_find]; rewrite E; [reflexivity|exact IH].
Qed.
Lemma find_set_neq b d x d' : d' <> d -> nb_find (nb_set b d x) d' = nb_find b d'.
Proof.
  intros Hne. induction b as [|[d2 y] r IH]; cbn [nb_find nb_set]; [reflexivity|].
  destruct (d2 =? d) eqn:E; cbn [nb_find].
  - apply N.eqb_eq in E. subst d2. replace (d =? d') with false by lia. reflexivity.
  - destruct (d2 =? d'); [reflexivity|exact IH].
Qed.
Lemma map_fst_set b d x : map fst (nb_set b d x) = map fst b.
Proof.
  induction b as [|[d2 y] r IH]; cbn [nb_set map fst]; [reflexivity|].
  destruct (d2 =? d); cbn [map fst]; [reflexivity|f_equal; exact IH].
Qed.
Lemma nodup_set b d x : nodup b -> nodup (nb_set b d x).
Proof. unfold nodup. rewrite map_fst_set. tauto. Qed.

Lemma in_remove b d d' : In d' (map fst (nb_remove b d)) -> In d' (map fst b).
Proof.
  induction b as [|[d2 y] r IH]; cbn [nb_remove map fst]; [tauto|].
  destruct (d2 =? d); cbn [map fst In]; [tauto|]. intros [H|H]; [left; exact H|right; apply IH; exact H].
Qed.
Lemma nodup_remove b d : nodup b -> nodup (nb_remove b d).
Proof.
  unfold nodup. induction b as [|[d2 y] r IH]; cbn [nb_remove map fst]; [tauto|].
  intros H. inversion H as [|? ? Hn Hr]; subst. destruct (d2 =? d); [exact Hr|].
  cbn [map fst]. constructor; [|apply IH; exact Hr]. intros Hin. apply Hn. eapply in_remove. exact Hin.
Qed.
Lemma find_remove_eq b d : nodup b -> nb_find (nb_remove b d) d = None.
Proof.
  unfold nodup. induction b as [|[d2 y] r IH]; cbn [nb_remove map fst nb_find]; [reflexivity|].
  intros H. inversion H as [|? ? Hn Hr]; subst. destruct (d2 =? d) eqn:E.
  - apply N.eqb_eq in E. subst d2. apply notin_find. exact Hn.
  - cbn [nb_find]. rewrite E. apply IH. exact Hr.
Qed.
Lemma find_remove_neq b d d' : d' <> d -> nb_find (nb_remove b d) d' = nb_find b d'.
Proof.
  intros Hne. induction b as [|[d2 y] r IH]; cbn [nb_remove nb_find]; [reflexivity|].
  destruct (d2 =? d) eqn:E.
  - apply N.eqb_eq in E. subst d2. replace (d =? d') with false by lia. reflexivity.
  - cbn [nb_find]. destruct (d2 =? d'); [reflexivity|exact IH].
Qed.

Lemma in_insert b d x d' : In d' (map fst (nb_insert b d x)) -> d' = d \/ In d' (map fst b).
Proof.
  induction b as [|[d2 y] r IH]; cbn [nb_insert map fst In].
  - intros [H|[]]. left. symmetry. exact H.
  - destruct (d <=? d2); cbn [map fst In].
    + intros [H|H]; [left; symmetry; exact H|right; exact H].
    + intros [H|H]; [right; left; exact H|]. destruct (IH H) as [H1|H1]; [left; exact H1|right; right; exact H1].
Qed.
Lemma nodup_insert b d x : nodup b -> ~ In d (map fst b) -> nodup (nb_insert b d x).
Proof.
  unfold nodup. induction b as [|[d2 y] r IH]; cbn [nb_insert map fst]; intros H Hn.
  - constructor; [tauto|constructor].
  - inversion H as [|? ? Hn2 Hr]; subst. destruct (d <=? d2); cbn [map fst].
    + constructor; [exact Hn|exact H].
    + constructor.
      * intros Hin. apply in_insert in Hin. destruct Hin as [->|Hin]; [apply Hn; left; reflexivity|apply Hn2; exact Hin].
      * apply IH; [exact Hr|]. intros Hin. apply Hn. right. exact Hin.
Qed.
Lemma find_insert_eq b d x : nb_find b d = None -> nb_find (nb_insert b d x) d = Some x.
Proof.
  induction b as [|[d2 y] r IH]; cbn [nb_insert nb_find].
  - rewrite N.eqb_refl. reflexivity.
  - destruct (d2 =? d) eqn:E; [discriminate|]. intros H.
    destruct (d <=? d2); cbn [nb_find]; [rewrite N.eqb_refl; reflexivity|rewrite E; apply IH; exact H].
Qed.
Lemma find_insert_neq b d x d' : d' <> d -> nb_find (nb_insert b d x) d' = nb_find b d'.
Proof.
  intros Hne. induction b as [|[d2 y] r IH]; cbn [nb_insert nb_find].
  - replace (d =? d') with false by lia. reflexivity.
  - destruct (d <=? d2); cbn [nb_find].
    + replace (d =? d') with false by lia. reflexivity.
    + destruct (d2 =? d'); [reflexivity|exact IH].
Qed.

Lemma nb_sub_spec b d x b' : nodup b -> nb_sub b (d, x) = Some b' ->
  x <= amt b d /\ nodup b' /\ forall d', amt b' d' = amt b d' - (if d' =? d then x else 0).
Proof.
  intros Hn. unfold nb_sub, amt. cbn [fst snd]. destruct (nb_find b d) as [a|] eqn:Ef; [|discriminate].
  destruct (x <=? a) eqn:El; [|discriminate].
  destruct (a - x =? 0) eqn:Ez; intros H; inversion H; subst b'; clear H.
  - split; [lia|]. split; [apply nodup_remove; exact Hn|]. intros d'. destruct (d' =? d) eqn:E.
    + apply N.eqb_eq in E. subst d'. rewrite find_remove_eq by exact Hn. rewrite Ef. lia.
    + apply N.eqb_neq in E. rewrite find_remove_neq by exact E. destruct (nb_find b d'); lia.
  - split; [lia|]. split; [apply nodup_set; exact Hn|]. intros d'. destruct (d' =? d) eqn:E.
    + apply N.eqb_eq in E. subst d'. rewrite (find_set_eq _ _ _ _ Ef), Ef. reflexivity.
    + apply N.eqb_neq in E. rewrite find_set_neq by exact E. destruct (nb_find b d'); lia.
Qed.

Fixpoint coins_total (cs : list coin) (d : N) : N :=
  match cs with [] => 0 | (d', a) :: r => (if d' =? d then a else 0) + coins_total r d end.

Lemma nb_sub_all_spec cs : forall b b', nodup b -> nb_sub_all b cs = Some b' ->
  nodup b' /\ forall d, coins_total cs d <= amt b d /\ amt b' d = amt b d - coins_total cs d.
Proof.
  induction cs as [|[d0 x] r IH]; intros b b' Hn H; cbn [nb_sub_all coins_total] in *.
  - inversion H. subst. split; [exact Hn|]. intros d. split; lia.
  - destruct (nb_sub b (d0, x)) as [b1|] eqn:E1; [|discriminate].
    destruct (nb_sub_spec _ _ _ _ Hn E1) as (Hle & Hn1 & Hamt).
    destruct (IH _ _ Hn1 H) as (Hn' & Hall). split; [exact Hn'|].
    intros d. destruct (Hall d) as [H1 H2]. rewrite (Hamt d) in *.
    rewrite (N.eqb_sym d0 d). destruct (d =? d0) eqn:E.
    + apply N.eqb_eq in E. subst. split; lia.
    + split; lia.
Qed.

Lemma nb_add_spec b d n b' : nodup b -> nb_add b (d, n) = Ok b' ->
  nodup b' /\ forall d', amt b' d' = amt b d' + (if d' =? d then n else 0).
Proof.
  intros Hn. unfold nb_add, amt. cbn [fst snd]. destruct (nb_find b d) as [a|] eqn:Ef.
  - unfold add128. destruct (a + n <=? u128max); [|discriminate]. intros H. inversion H. subst b'.
    split; [apply nodup_set; exact Hn|]. intros d'. destruct (d' =? d) eqn:E.
    + apply N.eqb_eq in E. subst d'. rewrite (find_set_eq _ _ _ _ Ef), Ef. reflexivity.
    + apply N.eqb_neq in E. rewrite find_set_neq by exact E. destruct (nb_find b d'); lia.
  - intros H. inversion H. subst b'.
    assert (Hni: ~ In d (map fst b)).
    { intros Hin. apply in_map_iff in Hin. destruct Hin as ([d2 y] & Hd & Hin). cbn in Hd. subst d2.
      clear - Ef Hin. induction b as [|[d3 z] r IH]; [destruct Hin|]. cbn [nb_find] in Ef.
      destruct (d3 =? d) eqn:E; [discriminate|]. destruct Hin as [Hin|Hin]; [inversion Hin; subst; lia|].
      apply IH; assumption. }
    split; [apply nodup_insert; assumption|]. intros d'. destruct (d' =? d) eqn:E.
    + apply N.eqb_eq in E. subst d'. rewrite (find_insert_eq _ _ _ Ef), Ef. lia.
    + apply N.eqb_neq in E. rewrite find_insert_neq by exact E. destruct (nb_find b d'); lia.
Qed.

Lemma nb_sub_sat_spec b d n b' : nodup b -> nb_sub_sat b (d, n) = Some b' ->
  nodup b' /\ forall d', amt b' d' = amt b d' - (if d' =? d then n else 0).
Proof.
  intros Hn. unfold nb_sub_sat, amt. cbn [fst snd]. destruct (nb_find b d) as [a|] eqn:Ef; [|discriminate].
  destruct (a <=? n) eqn:El; intros H; inversion H; subst b'; clear H.
  - split; [apply nodup_remove; exact Hn|]. intros d'. destruct (d' =? d) eqn:E.
    + apply N.eqb_eq in E. subst d'. rewrite find_remove_eq by exact Hn. rewrite Ef. lia.
    + apply N.eqb_neq in E. rewrite find_remove_neq by exact E. destruct (nb_find b d'); lia.
  - split; [apply nodup_set; exact Hn|]. intros d'. destruct (d' =? d) eqn:E.
    + apply N.eqb_eq in E. subst d'. rewrite (find_set_eq _ _ _ _ Ef), Ef. reflexivity.
    + apply N.eqb_neq in E. rewrite find_set_neq by exact E. destruct (nb_find b d'); lia.
Qed.

(* ---- state invariant: maps sorted, every stored balance has distinct denoms ---- *)
Definition Inv (st : state) : Prop :=
  sorted ordN (allowances st) /\ sorted ordN (permissions st) /\
  forall s a, get ordN (allowances st) s = Some a -> nodup (a_bal a).

Definition stored (st : state) (s : N) : option allowance := get ordN (allowances st) s.
Definition amount_of (o : option allowance) (d : N) : N := match o with Some a => amt (a_bal a) d | None => 0 end.

Fixpoint spent_total (ms : list cmsg) (d : N) : N :=
  match ms with
  | [] => 0
  | BankSend _ cs :: r => coins_total cs d + spent_total r d
  | _ :: r => spent_total r d
  end.

(* what one message of a non-admin's Execute is allowed to be, relative to the state it meets *)
Definition msg_allowed (st : state) (blk : block) (sender : N) (m : cmsg) : Prop :=
  match m with
  | BankSend _ _ => exists a, stored st sender = Some a /\ is_expired (a_exp a) blk = false
  | Delegate => exists p, get ordN (permissions st) sender = Some p /\ p_delegate p = true
  | Undelegate => exists p, get ordN (permissions st) sender = Some p /\ p_undelegate p = true
  | Redelegate => exists p, get ordN (permissions st) sender = Some p /\ p_redelegate p = true
  | SetWithdrawAddress | WithdrawReward => exists p, get ordN (permissions st) sender = Some p /\ p_withdraw p = true
  | _ => False
  end.

Lemma check_msg_spec st blk sender m st1 : Inv st -> check_msg st blk sender m = Ok st1 ->
  Inv st1 /\ msg_allowed st blk sender m /\
  admins st1 = admins st /\ mutable_ st1 = mutable_ st /\ subkeys st1 = subkeys st /\
  permissions st1 = permissions st /\
  (forall k, k <> sender -> stored st1 k = stored st k) /\
  (forall d, spent_total [m] d <= amount_of (stored st sender) d /\
             amount_of (stored st1 sender) d = amount_of (stored st sender) d - spent_total [m] d) /\
  (match stored st1 sender, stored st sender with
   | Some a1, Some a0 => a_exp a1 = a_exp a0 | None, None => True | _, _ => False end).
Proof.
  intros (HA & HP & Hnd) H. unfold check_msg in H.
  assert (Hsame: forall x, x = st -> Inv x /\ admins x = admins st /\ mutable_ x = mutable_ st /\
            subkeys x = subkeys st /\ permissions x = permissions st /\
            (forall k, k <> sender -> stored x k = stored st k) /\
            (forall d, 0 <= amount_of (stored st sender) d /\
                       amount_of (stored x sender) d = amount_of (stored st sender) d - 0) /\
            (match stored x sender, stored st sender with
             | Some a1, Some a0 => a_exp a1 = a_exp a0 | None, None => True | _, _ => False end)).
  { intros x ->. repeat split; try assumption; try reflexivity; try lia.
    destruct (stored st sender); [reflexivity|exact I]. }
  destruct m as [to amount|amount| | | | | |tag]; try discriminate.
  - (* BankSend *)
    destruct (get ordN (allowances st) sender) as [a|] eqn:Eg; [|discriminate].
    destruct (is_expired (a_exp a) blk) eqn:Ee; [discriminate|].
    destruct (nb_sub_all (a_bal a) amount) as [b'|] eqn:Es; [|discriminate].
    inversion H. subst st1. clear H.
    destruct (nb_sub_all_spec amount _ _ (Hnd _ _ Eg) Es) as (Hn' & Hall).
    split.
    { unfold Inv. cbn. repeat split; [apply set_sorted; exact HA|exact HP|].
      intros s a0 G. destruct (N.eq_dec s sender) as [->|Hne].
      - rewrite get_set_eq in G. inversion G. subst. exact Hn'.
      - rewrite get_set_neq in G by exact Hne. eapply Hnd. exact G. }
    split; [exists a; split; [exact Eg|exact Ee]|].
    cbn. repeat split.
    + intros k Hk. unfold stored. cbn. apply get_set_neq. exact Hk.
    + unfold stored. cbn. rewrite Eg. cbn. destruct (Hall d) as [H1 _]. lia.
    + unfold stored. cbn. rewrite get_set_eq, Eg. cbn. destruct (Hall d) as [_ H2]. rewrite H2. lia.
    + unfold stored. cbn. rewrite get_set_eq, Eg. reflexivity.
  - (* Delegate *)
    destruct (get ordN (permissions st) sender) as [p|] eqn:Eg; [|discriminate].
    destruct (check_staking Delegate p) eqn:Ec; [|discriminate]. inversion H. subst st1.
    destruct (Hsame st eq_refl) as (I1 & I2 & I3 & I4 & I5 & I6 & I7 & I8).
    split; [exact I1|]. split; [exists p; split; [exact Eg|exact Ec]|].
    repeat split; try assumption; try reflexivity; cbn [spent_total]; apply I7.
  - destruct (get ordN (permissions st) sender) as [p|] eqn:Eg; [|discriminate].
    destruct (check_staking Undelegate p) eqn:Ec; [|discriminate]. inversion H. subst st1.
    destruct (Hsame st eq_refl) as (I1 & I2 & I3 & I4 & I5 & I6 & I7 & I8).
    split; [exact I1|]. split; [exists p; split; [exact Eg|exact Ec]|].
    repeat split; try assumption; try reflexivity; cbn [spent_total]; apply I7.
  - destruct (get ordN (permissions st) sender) as [p|] eqn:Eg; [|discriminate].
    destruct (check_staking Redelegate p) eqn:Ec; [|discriminate]. inversion H. subst st1.
    destruct (Hsame st eq_refl) as (I1 & I2 & I3 & I4 & I5 & I6 & I7 & I8).
    split; [exact I1|]. split; [exists p; split; [exact Eg|exact Ec]|].
    repeat split; try assumption; try reflexivity; cbn [spent_total]; apply I7.
  - destruct (get ordN (permissions st) sender) as [p|] eqn:Eg; [|discriminate].
    destruct (check_distribution SetWithdrawAddress p) eqn:Ec; [|discriminate]. inversion H. subst st1.
    destruct (Hsame st eq_refl) as (I1 & I2 & I3 & I4 & I5 & I6 & I7 & I8).
    split; [exact I1|]. split; [exists p; split; [exact Eg|exact Ec]|].
    repeat split; try assumption; try reflexivity; cbn [spent_total]; apply I7.
  - destruct (get ordN (permissions st) sender) as [p|] eqn:Eg; [|discriminate].
    destruct (check_distribution WithdrawReward p) eqn:Ec; [|discriminate]. inversion H. subst st1.
    destruct (Hsame st eq_refl) as (I1 & I2 & I3 & I4 & I5 & I6 & I7 & I8).
    split; [exact I1|]. split; [exists p; split; [exact Eg|exact Ec]|].
    repeat split; try assumption; try reflexivity; cbn [spent_total]; apply I7.
Qed.

Definition exp_rel (o1 o0 : option allowance) : Prop :=
  match o1, o0 with Some a1, Some a0 => a_exp a1 = a_exp a0 | None, None => True | _, _ => False end.

Lemma exp_rel_refl o : exp_rel o o.
Proof. destruct o; cbn; auto. Qed.
Lemma exp_rel_trans a b c : exp_rel a b -> exp_rel b c -> exp_rel a c.
Proof. destruct a, b, c; cbn; intros; try contradiction; try congruence; auto. Qed.

Lemma msg_allowed_transport st st1 blk sender m :
  permissions st1 = permissions st -> exp_rel (stored st1 sender) (stored st sender) ->
  msg_allowed st1 blk sender m -> msg_allowed st blk sender m.
Proof.
  intros Hp He H. destruct m; cbn [msg_allowed] in *; try (rewrite Hp in H; exact H); try exact H.
  destruct H as (a & Ha & Hx). unfold exp_rel in He. rewrite Ha in He.
  destruct (stored st sender) as [a0|]; [|contradiction]. exists a0. split; [reflexivity|]. rewrite <- He. exact Hx.
Qed.

Lemma check_msgs_spec ms : forall st blk sender st1, Inv st -> check_msgs st blk sender ms = Ok st1 ->
  Inv st1 /\ Forall (msg_allowed st blk sender) ms /\
  admins st1 = admins st /\ mutable_ st1 = mutable_ st /\ subkeys st1 = subkeys st /\
  permissions st1 = permissions st /\
  (forall k, k <> sender -> stored st1 k = stored st k) /\
  (forall d, spent_total ms d <= amount_of (stored st sender) d /\
             amount_of (stored st1 sender) d = amount_of (stored st sender) d - spent_total ms d) /\
  exp_rel (stored st1 sender) (stored st sender).
Proof.
  induction ms as [|m r IH]; intros st blk sender st1 Hi H; cbn [check_msgs] in H.
  - inversion H. subst. split; [exact Hi|]. split; [constructor|].
    repeat split; try reflexivity; try (cbn [spent_total]; lia). apply exp_rel_refl.
  - destruct (check_msg st blk sender m) as [st2| |] eqn:E1; cbn [rbind] in H; try discriminate.
    destruct (check_msg_spec _ _ _ _ _ Hi E1) as (Hi2 & Hal & A1 & A2 & A3 & A4 & A5 & A6 & A7).
    destruct (IH _ _ _ _ Hi2 H) as (Hi1 & Hall & B1 & B2 & B3 & B4 & B5 & B6 & B7).
    split; [exact Hi1|]. split.
    { constructor; [exact Hal|]. eapply Forall_impl; [|exact Hall].
      intros m0 Hm0. eapply msg_allowed_transport; [exact A4|exact A7|exact Hm0]. }
    repeat split; try congruence.
    + intros k Hk. rewrite B5 by exact Hk. apply A5. exact Hk.
    + destruct (A6 d) as [X1 X2]. destruct (B6 d) as [Y1 Y2].
      assert (spent_total (m :: r) d = spent_total [m] d + spent_total r d).
      { destruct m; cbn [spent_total]; lia. }
      lia.
    + destruct (A6 d) as [X1 X2]. destruct (B6 d) as [Y1 Y2].
      assert (spent_total (m :: r) d = spent_total [m] d + spent_total r d).
      { destruct m; cbn [spent_total]; lia. }
      lia.
    + eapply exp_rel_trans; eassumption.
Qed.

(* ---- C07 ---- *)
Theorem execute_relays_exactly st blk sender msgs st' rel :
  step st blk sender (Execute msgs) = Ok (st', rel) -> rel = msgs.
Proof.
  cbn [step]. destruct (is_admin st sender); [intros H; inversion H; reflexivity|].
  destruct (subkeys st); [|discriminate].
  destruct (check_msgs st blk sender msgs); cbn [rbind]; intros H; inversion H. reflexivity.
Qed.

Theorem other_ops_relay_nothing st blk sender o st' rel :
  step st blk sender o = Ok (st', rel) -> (match o with Execute _ => False | _ => True end) -> rel = [].
Proof.
  intros H Hno. destruct o; try contradiction; cbn [step] in H.
  - destruct (can_modify st sender); inversion H. reflexivity.
  - destruct (can_modify st sender); [|discriminate].
    destruct (map_validate l); cbn [rbind] in H; inversion H. reflexivity.
  - destruct (negb (subkeys st)); [discriminate|]. destruct (negb (is_admin st sender)); [discriminate|].
    destruct (validate spender) as [s| |]; cbn [rbind] in H; try discriminate.
    destruct (s =? sender); [discriminate|].
    match type of H with rbind ?e _ = _ => destruct e end; cbn [rbind] in H; try discriminate.
    match type of H with rbind ?e _ = _ => destruct e end; cbn [rbind] in H; try discriminate.
    inversion H. reflexivity.
  - destruct (negb (subkeys st)); [discriminate|]. destruct (negb (is_admin st sender)); [discriminate|].
    destruct (validate spender) as [s| |]; cbn [rbind] in H; try discriminate.
    destruct (s =? sender); [discriminate|].
    destruct (get ordN (allowances st) s) as [a|]; [|discriminate].
    destruct (is_expired (a_exp a) blk); [discriminate|].
    match type of H with rbind ?e _ = _ => destruct e end; cbn [rbind] in H; try discriminate.
    destruct (nb_sub_sat (a_bal a) c); [|discriminate].
    destruct (nb_is_empty n); inversion H; reflexivity.
  - destruct (negb (subkeys st)); [discriminate|]. destruct (negb (is_admin st sender)); [discriminate|].
    destruct (validate spender) as [s| |]; cbn [rbind] in H; try discriminate.
    destruct (s =? sender); [discriminate|]. inversion H. reflexivity.
Qed.

Theorem whitelist_execute_iff st blk sender msgs : subkeys st = false ->
  is_ok (step st blk sender (Execute msgs)) = is_admin st sender.
Proof. intros Hs. cbn [step]. rewrite Hs. destruct (is_admin st sender); reflexivity. Qed.

Theorem subkeys_execute_iff st blk sender msgs : subkeys st = true ->
  is_ok (step st blk sender (Execute msgs)) = is_admin st sender || is_ok (check_msgs st blk sender msgs).
Proof.
  intros Hs. cbn [step]. rewrite Hs. destruct (is_admin st sender); [reflexivity|]. cbn [orb].
  destruct (check_msgs st blk sender msgs); reflexivity.
Qed.

(* a non-admin's accepted Execute: every message is a bank send under a stored unexpired allowance
   or a staking/distribution message matching a permission flag; spending is deducted exactly and
   cumulatively per denomination; nothing else in the state moves *)
Theorem subkey_execute_spec st blk sender msgs st' rel : Inv st ->
  is_admin st sender = false -> step st blk sender (Execute msgs) = Ok (st', rel) ->
  subkeys st = true /\ Forall (msg_allowed st blk sender) msgs /\
  admins st' = admins st /\ mutable_ st' = mutable_ st /\ permissions st' = permissions st /\
  (forall k, k <> sender -> stored st' k = stored st k) /\
  (forall d, spent_total msgs d <= amount_of (stored st sender) d /\
             amount_of (stored st' sender) d = amount_of (stored st sender) d - spent_total msgs d) /\
  exp_rel (stored st' sender) (stored st sender).
Proof.
  intros Hi Hna H. cbn [step] in H. rewrite Hna in H.
  destruct (subkeys st) eqn:Hs; [|discriminate].
  destruct (check_msgs st blk sender msgs) as [st1| |] eqn:E; cbn [rbind] in H; try discriminate.
  inversion H. subst st' rel.
  destruct (check_msgs_spec _ _ _ _ _ Hi E) as (_ & Hall & B1 & B2 & B3 & B4 & B5 & B6 & B7).
  repeat split; try assumption; apply B6.
Qed.

(* ---- C16 ---- *)
Theorem can_execute_predicts st blk sender m :
  can_execute st blk sender m = is_ok (step st blk sender (Execute [m])).
Proof.
  unfold can_execute. cbn [step]. destruct (is_admin st sender); [reflexivity|].
  destruct (subkeys st); cbn [negb]; [|reflexivity].
  cbn [check_msgs]. unfold check_msg.
  destruct m as [to amount|amount| | | | | |tag]; try reflexivity.
  - destruct (get ordN (allowances st) sender) as [a|]; [|reflexivity].
    destruct (is_expired (a_exp a) blk); [reflexivity|]. cbn [negb andb].
    destruct (nb_sub_all (a_bal a) amount); reflexivity.
  - destruct (get ordN (permissions st) sender) as [p|]; [|reflexivity]. destruct (check_staking Delegate p); reflexivity.
  - destruct (get ordN (permissions st) sender) as [p|]; [|reflexivity]. destruct (check_staking Undelegate p); reflexivity.
  - destruct (get ordN (permissions st) sender) as [p|]; [|reflexivity]. destruct (check_staking Redelegate p); reflexivity.
  - destruct (get ordN (permissions st) sender) as [p|]; [|reflexivity]. destruct (check_distribution SetWithdrawAddress p); reflexivity.
  - destruct (get ordN (permissions st) sender) as [p|]; [|reflexivity]. destruct (check_distribution WithdrawReward p); reflexivity.
Qed.

(* ---- grant operations ---- *)
Definition live (o : option allowance) (blk : block) : option allowance :=
  match o with Some a => if is_expired (a_exp a) blk then None else Some a | None => None end.

Lemma increase_spec st blk sender sp d n e st' rel : Inv st ->
  step st blk sender (IncreaseAllowance sp (d, n) e) = Ok (st', rel) ->
  subkeys st = true /\ is_admin st sender = true /\ rel = [] /\
  exists s, sp = Some s /\ s <> sender /\ Inv st' /\
    admins st' = admins st /\ mutable_ st' = mutable_ st /\ permissions st' = permissions st /\
    (forall k, k <> s -> stored st' k = stored st k) /\
    (forall d', amount_of (stored st' s) d' = amount_of (live (stored st s) blk) d' + (if d' =? d then n else 0)).
Proof.
  intros (HA & HP & Hnd) H. cbn [step] in H.
  destruct (subkeys st) eqn:Hs; cbn [negb] in H; [|discriminate].
  destruct (is_admin st sender) eqn:Had; cbn [negb] in H; [|discriminate].
  destruct sp as [s|]; cbn [validate rbind] in H; [|discriminate].
  destruct (s =? sender) eqn:Es; [discriminate|]. apply N.eqb_neq in Es.
  set (cur := get ordN (allowances st) s) in *.
  set (base := match cur with
               | Some a => if is_expired (a_exp a) blk then allow_default else a
               | None => allow_default end) in *.
  match type of H with rbind ?x _ = _ => destruct x as [ex| |] end; cbn [rbind] in H; try discriminate.
  destruct (nb_add (a_bal base) (d, n)) as [b'| |] eqn:Eadd; cbn [rbind] in H; try discriminate.
  inversion H. subst st' rel. clear H.
  assert (Hnb: nodup (a_bal base)).
  { subst base. destruct cur as [a|] eqn:Ec; [|constructor].
    destruct (is_expired (a_exp a) blk); [constructor|]. eapply Hnd. exact Ec. }
  destruct (nb_add_spec _ _ _ _ Hnb Eadd) as [Hn' Hamt].
  repeat split; try reflexivity. exists s. repeat split; try assumption; try reflexivity.
  - cbn. apply set_sorted. exact HA.
  - cbn. intros k a G. destruct (N.eq_dec k s) as [->|Hne].
    + rewrite get_set_eq in G. inversion G. subst. exact Hn'.
    + rewrite get_set_neq in G by exact Hne. eapply Hnd. exact G.
  - intros k Hk. unfold stored. cbn. apply get_set_neq. exact Hk.
  - intros d'. unfold stored. cbn. rewrite get_set_eq. cbn [amount_of a_bal]. rewrite Hamt.
    f_equal. subst base. fold cur. unfold live. destruct cur as [a|]; [|reflexivity].
    destruct (is_expired (a_exp a) blk); reflexivity.
Qed.

Lemma is_empty_amt b : nb_is_empty b = true -> forall d, amt b d = 0.
Proof.
  unfold nb_is_empty, amt. intros H d. induction b as [|[d' x] r IH]; cbn [nb_find]; [reflexivity|].
  cbn [forallb snd] in H. apply andb_true_iff in H. destruct H as [H1 H2].
  destruct (d' =? d); [lia|apply IH; exact H2].
Qed.

Lemma decrease_spec st blk sender sp d n e st' rel : Inv st ->
  step st blk sender (DecreaseAllowance sp (d, n) e) = Ok (st', rel) ->
  subkeys st = true /\ is_admin st sender = true /\ rel = [] /\
  exists s a, sp = Some s /\ s <> sender /\ Inv st' /\ stored st s = Some a /\ is_expired (a_exp a) blk = false /\
    admins st' = admins st /\ mutable_ st' = mutable_ st /\ permissions st' = permissions st /\
    (forall k, k <> s -> stored st' k = stored st k) /\
    (forall d', amount_of (stored st' s) d' = amount_of (stored st s) d' - (if d' =? d then n else 0)).
Proof.
  intros (HA & HP & Hnd) H. cbn [step] in H.
  destruct (subkeys st) eqn:Hs; cbn [negb] in H; [|discriminate].
  destruct (is_admin st sender) eqn:Had; cbn [negb] in H; [|discriminate].
  destruct sp as [s|]; cbn [validate rbind] in H; [|discriminate].
  destruct (s =? sender) eqn:Es; [discriminate|]. apply N.eqb_neq in Es.
  destruct (get ordN (allowances st) s) as [a|] eqn:Eg; [|discriminate].
  destruct (is_expired (a_exp a) blk) eqn:Ee; [discriminate|].
  match type of H with rbind ?x _ = _ => destruct x as [ex| |] end; cbn [rbind] in H; try discriminate.
  destruct (nb_sub_sat (a_bal a) (d, n)) as [b'|] eqn:Esub; [|discriminate].
  destruct (nb_sub_sat_spec _ _ _ _ (Hnd _ _ Eg) Esub) as [Hn' Hamt].
  repeat split; try reflexivity; try (destruct (nb_is_empty b'); inversion H; reflexivity).
  exists s, a. split; [reflexivity|]. split; [exact Es|].
  destruct (nb_is_empty b') eqn:Eem; inversion H; subst st' rel; clear H.
  - repeat split; try assumption; try reflexivity.
    + cbn. apply remove_sorted. exact HA.
    + cbn. intros k a0 G. destruct (N.eq_dec k s) as [->|Hne].
      * rewrite get_remove_eq in G by exact HA. discriminate.
      * rewrite get_remove_neq in G by exact Hne. eapply Hnd. exact G.
    + intros k Hk. unfold stored. cbn. apply get_remove_neq. exact Hk.
    + intros d'. unfold stored. cbn. rewrite get_remove_eq by exact HA. rewrite Eg. cbn [amount_of].
      rewrite <- Hamt. symmetry. apply is_empty_amt. exact Eem.
  - repeat split; try assumption; try reflexivity.
    + cbn. apply set_sorted. exact HA.
    + cbn. intros k a0 G. destruct (N.eq_dec k s) as [->|Hne].
      * rewrite get_set_eq in G. inversion G. subst. exact Hn'.
      * rewrite get_set_neq in G by exact Hne. eapply Hnd. exact G.
    + intros k Hk. unfold stored. cbn. apply get_set_neq. exact Hk.
    + intros d'. unfold stored. cbn. rewrite get_set_eq, Eg. cbn [amount_of a_bal]. apply Hamt.
Qed.

Lemma set_permissions_spec st blk sender sp p st' rel :
  step st blk sender (SetPermissions sp p) = Ok (st', rel) ->
  subkeys st = true /\ is_admin st sender = true /\ rel = [] /\
  exists s, sp = Some s /\ s <> sender /\ st' = set_permissions st (set ordN (permissions st) s p).
Proof.
  intros H. cbn [step] in H.
  destruct (subkeys st) eqn:Hs; cbn [negb] in H; [|discriminate].
  destruct (is_admin st sender) eqn:Had; cbn [negb] in H; [|discriminate].
  destruct sp as [s|]; cbn [validate rbind] in H; [|discriminate].
  destruct (s =? sender) eqn:Es; [discriminate|]. apply N.eqb_neq in Es.
  inversion H. repeat split. exists s. repeat split. exact Es.
Qed.

Lemma admin_ops_spec st blk sender o st' rel :
  (o = Freeze \/ exists l, o = UpdateAdmins l) -> step st blk sender o = Ok (st', rel) ->
  mutable_ st = true /\ is_admin st sender = true /\ rel = [] /\
  allowances st' = allowances st /\ permissions st' = permissions st /\ subkeys st' = subkeys st /\
  ((o = Freeze /\ admins st' = admins st /\ mutable_ st' = false) \/
   (exists l xs, o = UpdateAdmins l /\ map_validate l = Ok xs /\ admins st' = xs /\ mutable_ st' = true)).
Proof.
  intros [->|[l ->]] H; cbn [step] in H; unfold can_modify in H;
    destruct (mutable_ st) eqn:Em; cbn [andb] in H; try discriminate;
    destruct (is_admin st sender) eqn:Ea; try discriminate.
  - inversion H. subst. cbn. repeat split. left. repeat split.
  - destruct (map_validate l) as [xs| |] eqn:Ev; cbn [rbind] in H; try discriminate. inversion H. subst. cbn.
    repeat split. right. exists l, xs. repeat split. exact Ev. exact Em.
Qed.

Theorem step_inv st blk sender o st' rel : Inv st -> step st blk sender o = Ok (st', rel) -> Inv st'.
Proof.
  intros Hi H. destruct o as [msgs| |l|sp [d n] e|sp [d n] e|sp p].
  - cbn [step] in H. destruct (is_admin st sender); [inversion H; subst; exact Hi|].
    destruct (subkeys st); [|discriminate].
    destruct (check_msgs st blk sender msgs) as [st1| |] eqn:E; cbn [rbind] in H; try discriminate.
    inversion H. subst. apply (check_msgs_spec _ _ _ _ _ Hi E).
  - apply admin_ops_spec in H; [|left; reflexivity]. destruct H as (_ & _ & _ & Ea & Ep & _).
    unfold Inv. rewrite Ea, Ep. exact Hi.
  - apply admin_ops_spec in H; [|right; exists l; reflexivity]. destruct H as (_ & _ & _ & Ea & Ep & _).
    unfold Inv. rewrite Ea, Ep. exact Hi.
  - apply (increase_spec _ _ _ _ _ _ _ _ _ Hi) in H. destruct H as (_ & _ & _ & s & _ & _ & Hi' & _). exact Hi'.
  - apply (decrease_spec _ _ _ _ _ _ _ _ _ Hi) in H. destruct H as (_ & _ & _ & s & a & _ & _ & Hi' & _). exact Hi'.
  - apply set_permissions_spec in H. destruct H as (_ & _ & _ & s & _ & _ & Hst). subst st'.
    destruct Hi as (HA & HP & Hnd). unfold Inv. cbn. repeat split; [exact HA|apply set_sorted; exact HP|exact Hnd].
Qed.

Theorem instantiate_inv m st : instantiate m = Ok st -> Inv st.
Proof.
  unfold instantiate. destruct (map_validate (i_admins m)); cbn [rbind]; intros H; inversion H.
  unfold Inv. cbn. repeat split; try constructor. intros s0 a0 G. discriminate.
Qed.

(* ---- histories ---- *)
Definition call := (block * N * op * bool)%type.
Definition tx_state (st : state) (c : call) : state :=
  let '(blk, sender, o, dok) := c in fst (fst (tx st blk sender o dok)).
Definition run (st : state) (cs : list call) : state := fold_left tx_state cs st.

Lemma tx_cases st blk sender o dok :
  (exists st' ms, step st blk sender o = Ok (st', ms) /\ tx st blk sender o dok = (st', true, ms)) \/
  tx st blk sender o dok = (st, false, []).
Proof.
  unfold tx. destruct (step st blk sender o) as [[st' ms]| |]; [|right; reflexivity|right; reflexivity].
  destruct dok; [left; exists st', ms; split; reflexivity|right; reflexivity].
Qed.

Lemma run_invariant (P : state -> Prop) :
  (forall st blk sender o st' ms, P st -> step st blk sender o = Ok (st', ms) -> P st') ->
  forall cs st, P st -> P (run st cs).
Proof.
  intros Hstep cs. induction cs as [|[[[blk sender] o] dok] cs IH]; intros st HP; [exact HP|].
  cbn [run fold_left]. apply IH. unfold tx_state.
  destruct (tx_cases st blk sender o dok) as [(st' & ms & Hs & Ht)|Ht]; rewrite Ht; cbn [fst].
  - eapply Hstep; eassumption.
  - exact HP.
Qed.

Theorem reachable_inv m st cs : instantiate m = Ok st -> Inv (run st cs).
Proof.
  intros H. apply run_invariant; [intros; eapply step_inv; eassumption|eapply instantiate_inv; exact H].
Qed.

(* ---- C17 ---- *)
Theorem admin_change_guard st blk sender o st' rel : Inv st ->
  step st blk sender o = Ok (st', rel) ->
  (admins st' <> admins st \/ mutable_ st' <> mutable_ st) ->
  mutable_ st = true /\ is_admin st sender = true /\ (o = Freeze \/ exists l, o = UpdateAdmins l).
Proof.
  intros Hi H Hch. destruct o as [msgs| |l|sp [d n] e|sp [d n] e|sp p].
  - exfalso. destruct (is_admin st sender) eqn:Ea.
    + cbn [step] in H. rewrite Ea in H. inversion H. subst. destruct Hch as [C|C]; apply C; reflexivity.
    + destruct (subkey_execute_spec _ _ _ _ _ _ Hi Ea H) as (_ & _ & E1 & E2 & _). destruct Hch as [C|C]; congruence.
  - pose proof H as H'. apply admin_ops_spec in H'; [|left; reflexivity]. destruct H' as (Hm & Ha & _).
    repeat split; try assumption. left. reflexivity.
  - pose proof H as H'. apply admin_ops_spec in H'; [|right; exists l; reflexivity]. destruct H' as (Hm & Ha & _).
    repeat split; try assumption. right. exists l. reflexivity.
  - exfalso. apply (increase_spec _ _ _ _ _ _ _ _ _ Hi) in H. destruct H as (_ & _ & _ & s & _ & _ & _ & E1 & E2 & _).
    destruct Hch as [C|C]; congruence.
  - exfalso. apply (decrease_spec _ _ _ _ _ _ _ _ _ Hi) in H.
    destruct H as (_ & _ & _ & s & a & _ & _ & _ & _ & _ & E1 & E2 & _). destruct Hch as [C|C]; congruence.
  - exfalso. apply set_permissions_spec in H. destruct H as (_ & _ & _ & s & _ & _ & Hst). subst st'.
    destruct Hch as [C|C]; apply C; reflexivity.
Qed.

Theorem frozen_forever cs : forall st, Inv st -> mutable_ st = false ->
  admins (run st cs) = admins st /\ mutable_ (run st cs) = false.
Proof.
  induction cs as [|[[[blk sender] o] dok] cs IH]; intros st Hi Hf; [split; [reflexivity|exact Hf]|].
  cbn [run fold_left].
  destruct (tx_cases st blk sender o dok) as [(st' & ms & Hs & Ht)|Ht].
  - assert (E: tx_state st (blk, sender, o, dok) = st') by (unfold tx_state; rewrite Ht; reflexivity).
    rewrite E.
    assert (Hsame: admins st' = admins st /\ mutable_ st' = mutable_ st).
    { destruct (list_eq_dec N.eq_dec (admins st') (admins st)) as [Ea|Ea];
        [destruct (Bool.bool_dec (mutable_ st') (mutable_ st)) as [Em|Em]; [split; assumption|]|].
      - exfalso. destruct (admin_change_guard _ _ _ _ _ _ Hi Hs (or_intror Em)) as (Hm & _). congruence.
      - exfalso. destruct (admin_change_guard _ _ _ _ _ _ Hi Hs (or_introl Ea)) as (Hm & _). congruence. }
    destruct Hsame as [Ea Em].
    assert (Hi': Inv st') by (eapply step_inv; eassumption).
    destruct (IH st' Hi' (eq_trans Em Hf)) as [A B]. unfold run in *. split; [congruence|exact B].
  - assert (E: tx_state st (blk, sender, o, dok) = st) by (unfold tx_state; rewrite Ht; reflexivity).
    rewrite E. apply IH; assumption.
Qed.

(* allowance and permission entries are created or altered only by current admins, except that a
   subkey's own accepted Execute lowers its own allowance *)
Theorem grants_admin_only st blk sender o st' rel k : Inv st ->
  step st blk sender o = Ok (st', rel) ->
  (stored st' k <> stored st k \/ get ordN (permissions st') k <> get ordN (permissions st) k) ->
  is_admin st sender = true \/
  (k = sender /\ (exists msgs, o = Execute msgs) /\ get ordN (permissions st') k = get ordN (permissions st) k).
Proof.
  intros Hi H Hch. destruct (is_admin st sender) eqn:Ea; [left; reflexivity|right].
  destruct o as [msgs| |l|sp [d n] e|sp [d n] e|sp p].
  - destruct (subkey_execute_spec _ _ _ _ _ _ Hi Ea H) as (_ & _ & _ & _ & Ep & Hfr & _).
    destruct (N.eq_dec k sender) as [->|Hne].
    + repeat split; [exists msgs; reflexivity|rewrite Ep; reflexivity].
    + exfalso. destruct Hch as [C|C]; [apply C; apply Hfr; exact Hne|apply C; rewrite Ep; reflexivity].
  - exfalso. apply admin_ops_spec in H; [|left; reflexivity]. destruct H as (_ & Ha & _). congruence.
  - exfalso. apply admin_ops_spec in H; [|right; exists l; reflexivity]. destruct H as (_ & Ha & _). congruence.
  - exfalso. apply (increase_spec _ _ _ _ _ _ _ _ _ Hi) in H. destruct H as (_ & Ha & _). congruence.
  - exfalso. apply (decrease_spec _ _ _ _ _ _ _ _ _ Hi) in H. destruct H as (_ & Ha & _). congruence.
  - exfalso. apply set_permissions_spec in H. destruct H as (_ & Ha & _). congruence.
Qed.

(* ---- C08: cumulative bound ---- *)
Definition grant_now (st : state) (sender : N) (o : op) (s d : N) : N :=
  match o with
  | IncreaseAllowance (Some x) (d', n) _ => if is_admin st sender && (x =? s) && (d' =? d) then n else 0
  | _ => 0
  end.
Definition spent_now (st : state) (sender : N) (o : op) (s d : N) : N :=
  match o with
  | Execute ms => if negb (is_admin st sender) && (sender =? s) then spent_total ms d else 0
  | _ => 0
  end.

Theorem allowance_step st blk sender o st' rel s d : Inv st ->
  step st blk sender o = Ok (st', rel) ->
  amount_of (stored st' s) d + spent_now st sender o s d <= amount_of (stored st s) d + grant_now st sender o s d.
Proof.
  intros Hi H. destruct o as [msgs| |l|sp [d0 n] e|sp [d0 n] e|sp p]; cbn [spent_now grant_now].
  - destruct (is_admin st sender) eqn:Ea; cbn [negb andb].
    + cbn [step] in H. rewrite Ea in H. inversion H. subst. lia.
    + destruct (subkey_execute_spec _ _ _ _ _ _ Hi Ea H) as (_ & _ & _ & _ & _ & Hfr & Hamt & _).
      destruct (sender =? s) eqn:Es.
      * apply N.eqb_eq in Es. subst s. destruct (Hamt d) as [X1 X2]. lia.
      * apply N.eqb_neq in Es. rewrite Hfr by congruence. lia.
  - apply admin_ops_spec in H; [|left; reflexivity]. destruct H as (_ & _ & _ & E & _). unfold stored. rewrite E. lia.
  - apply admin_ops_spec in H; [|right; exists l; reflexivity]. destruct H as (_ & _ & _ & E & _). unfold stored. rewrite E. lia.
  - apply (increase_spec _ _ _ _ _ _ _ _ _ Hi) in H.
    destruct H as (_ & Ha & _ & x & -> & _ & _ & _ & _ & _ & Hfr & Hamt). rewrite Ha. cbn [andb].
    destruct (x =? s) eqn:Ex.
    + apply N.eqb_eq in Ex. subst x. rewrite (Hamt d). cbn [andb].
      assert (amount_of (live (stored st s) blk) d <= amount_of (stored st s) d).
      { unfold live. destruct (stored st s) as [a|]; [|cbn; lia]. destruct (is_expired (a_exp a) blk); cbn; lia. }
      rewrite (N.eqb_sym d d0). destruct (d0 =? d); lia.
    + apply N.eqb_neq in Ex. cbn [andb]. rewrite Hfr by congruence. lia.
  - apply (decrease_spec _ _ _ _ _ _ _ _ _ Hi) in H.
    destruct H as (_ & _ & _ & x & a & -> & _ & _ & _ & _ & _ & _ & _ & Hfr & Hamt).
    destruct (N.eq_dec x s) as [->|Hne].
    + rewrite (Hamt d). lia.
    + rewrite Hfr by congruence. lia.
  - apply set_permissions_spec in H. destruct H as (_ & _ & _ & x & _ & _ & Hst). subst st'. unfold stored. cbn. lia.
Qed.

(* (granted, spent, final state) over a history, counting committed calls only *)
Fixpoint ghost (st : state) (cs : list call) (s d : N) : N * N * state :=
  match cs with
  | [] => (0, 0, st)
  | (blk, sender, o, dok) :: r =>
      let '(st', ok, _) := tx st blk sender o dok in
      let '(g, sp, stf) := ghost st' r s d in
      ((if ok then grant_now st sender o s d else 0) + g, (if ok then spent_now st sender o s d else 0) + sp, stf)
  end.

Theorem cumulative_bound cs : forall st s d, Inv st ->
  let '(g, sp, stf) := ghost st cs s d in
  stf = run st cs /\ sp + amount_of (stored stf s) d <= g + amount_of (stored st s) d.
Proof.
  induction cs as [|[[[blk sender] o] dok] cs IH]; intros st s d Hi; cbn [ghost].
  - split; [reflexivity|lia].
  - destruct (tx_cases st blk sender o dok) as [(st' & ms & Hs & Ht)|Ht]; rewrite Ht.
    + assert (Hi': Inv st') by (eapply step_inv; eassumption).
      specialize (IH st' s d Hi'). destruct (ghost st' cs s d) as [[g sp] stf]. destruct IH as [Hr Hb].
      assert (E: tx_state st (blk, sender, o, dok) = st') by (unfold tx_state; rewrite Ht; reflexivity).
      split; [cbn [run fold_left]; rewrite E; exact Hr|].
      pose proof (allowance_step st blk sender o st' ms s d Hi Hs). lia.
    + specialize (IH st s d Hi). destruct (ghost st cs s d) as [[g sp] stf]. destruct IH as [Hr Hb].
      assert (E: tx_state st (blk, sender, o, dok) = st) by (unfold tx_state; rewrite Ht; reflexivity).
      split; [cbn [run fold_left]; rewrite E; exact Hr|lia].
Qed.

Theorem spent_le_granted m st cs s d : instantiate m = Ok st ->
  let '(g, sp, stf) := ghost st cs s d in sp + amount_of (stored stf s) d <= g.
Proof.
  intros H. pose proof (instantiate_inv _ _ H) as Hi.
  pose proof (cumulative_bound cs st s d Hi) as Hc.
  destruct (ghost st cs s d) as [[g sp] stf]. destruct Hc as [_ Hb].
  assert (amount_of (stored st s) d = 0).
  { unfold instantiate in H. destruct (map_validate (i_admins m)); cbn [rbind] in H; inversion H. reflexivity. }
  lia.
Qed.
