(* Ics20Lemmas5.v — C18 over whole histories of the world (calls, cw20 sends, packets, acknowledgements,
   timeouts, donations and migrations): the allow list only ever loosens, and the governance data move only
   by the governance address's own calls or the V1 migration. *)
Require Import CwPlus.Params CwPlus.Base CwPlus.AMap CwPlus.Ics20Model CwPlus.Ics20Lemmas CwPlus.Ics20Lemmas2
               CwPlus.Ics20Lemmas3.
Open Scope N_scope.

Definition gov_frame (st st' : state) : Prop :=
  allow st' = allow st /\ admin st' = admin st /\ default_gas st' = default_gas st.

(* what one world operation may do to the governance data *)
Definition gov_step (w : world) (o : wop) (st' : state) : Prop :=
  let st := w_st w in
  match o with
  | WExec sender (Allow _ _) | WExec sender (UpdateAdmin _) =>
      loosens (allow st) (allow st') /\ default_gas st' = default_gas st /\
      ((allow st' <> allow st \/ admin st' <> admin st) -> admin st = Some sender)
  | WMigrate g =>
      allow st' = allow st /\ (ver st <> V1 -> admin st' = admin st) /\
      (st' = st \/ (ver st = V1 -> admin st' = v1_gov st /\ default_gas st' = g) /\
                   (ver st <> V1 -> default_gas st' = match g with Some x => Some x | None => default_gas st end))
  | _ => gov_frame st st'
  end.

Lemma recv_state w blk p pay_ok :
  w_st (wstep w blk (WRecv p pay_ok)) = w_st w \/
  exists b a ms, tx_receive (w_st w) p b = Some (w_st (wstep w blk (WRecv p pay_ok)), a, ms).
Proof.
  cbn [wstep]. unfold tx_receive. destruct (do_receive (w_st w) p) as [[st1 a] ms].
  destruct a.
  - destruct (paid ms) as [[k n]|].
    + destruct (pay_ok && (n <=? hold w k)).
      * right. exists true, AckOk, ms. reflexivity.
      * destruct (reply_receive_err st1) as [st2|] eqn:R.
        -- right. exists false, AckErr, ms. reflexivity.
        -- left. reflexivity.
    + right. exists true, AckOk, ms. reflexivity.
  - right. exists true, AckErr, ms. destruct (paid ms) as [[k n]|]; reflexivity.
Qed.

Theorem wstep_gov w blk o : Inv (w_st w) ->
  Inv (w_st (wstep w blk o)) /\ gov_step w o (w_st (wstep w blk o)).
Proof.
  intros HI. split.
  - destruct o as [sender x|tok user n t|p pay_ok|p|p pay_ok|k n|g];
      try (apply (wi_inv (fun _ => false)); apply wstep_solvent;
           [constructor; [exact HI|intros k0 Hk; discriminate Hk]|cbn [honest_call snd]; try exact I; destruct x; try exact I; reflexivity]).
    cbn [wstep]. destruct (migrate (w_st w) g _ _) as [st'| |] eqn:M; [|exact HI|exact HI].
    cbn [w_st]. exact (migrate_inv _ _ _ _ _ HI M).
  - assert (Fr: gov_frame (w_st w) (w_st w)) by (repeat split).
    destruct o as [sender x|tok user n t|p pay_ok|p|p pay_ok|k n|g]; unfold gov_step; cbv zeta.
    + cbn [wstep]. destruct (step (w_st w) blk sender x) as [[st' ms]| |] eqn:Es.
      * destruct (governance_only _ _ _ _ _ _ HI Es) as (L & G & Dg & _).
        destruct x as [chan remote timeout memo funds|from n tmsg fa|contract gas|a].
        -- assert (E: w_st (match funds with [(DPlain d, n)] => credit (mkW st' (w_hold w)) (nat_key d) n | _ => mkW st' (w_hold w) end) = st').
           { destruct funds as [|[[d|] n] [|? ?]]; reflexivity. }
           rewrite E. destruct (step_spec _ _ _ _ _ _ HI Es) as (_ & (d & n & _ & Ht)).
           destruct (do_transfer_gov _ _ _ _ _ _ _ _ _ _ _ HI Ht) as (_ & B & C & D & _). repeat split; assumption.
        -- cbn [w_st]. destruct (step_spec _ _ _ _ _ _ HI Es) as (_ & (u & chan & remote & timeout & memo & _ & _ & _ & Ht)).
           destruct (do_transfer_gov _ _ _ _ _ _ _ _ _ _ _ HI Ht) as (_ & B & C & D & _). repeat split; assumption.
        -- cbn [w_st]. split; [exact L|]. split; [exact Dg|exact G].
        -- cbn [w_st]. split; [exact L|]. split; [exact Dg|exact G].
      * destruct x; try exact Fr; (split; [apply loosens_refl|split; [reflexivity|intros [X|X]; exfalso; apply X; reflexivity]]).
      * destruct x; try exact Fr; (split; [apply loosens_refl|split; [reflexivity|intros [X|X]; exfalso; apply X; reflexivity]]).
    + cbn [wstep]. destruct (step (w_st w) blk tok (Receive (Some user) n t false)) as [[st' ms]| |] eqn:Es; [|exact Fr|exact Fr].
      cbn [credit w_st]. destruct (step_spec _ _ _ _ _ _ HI Es) as (_ & (u & chan & remote & timeout & memo & _ & _ & _ & Ht)).
      destruct (do_transfer_gov _ _ _ _ _ _ _ _ _ _ _ HI Ht) as (_ & B & C & D & _). repeat split; assumption.
    + destruct (recv_state w blk p pay_ok) as [E|(b & a & ms & T)]; [rewrite E; exact Fr|].
      exact (ibc_keeps_governance _ _ _ _ _ _ HI T).
    + exact Fr.
    + cbn [wstep]. destruct (on_failure (w_st w) p) as [[st1 ms]| |] eqn:F; [|exact Fr|exact Fr].
      destruct (failure_spec _ _ _ _ HI F) as (gas & _ & _ & _ & _ & _ & _ & (_ & B & C & D & _)).
      assert (E: w_st (match paid ms with
                       | Some (k, n) => if pay_ok && (n <=? hold w k) then debit (mkW st1 (w_hold w)) k n else mkW st1 (w_hold w)
                       | None => mkW st1 (w_hold w) end) = st1).
      { destruct (paid ms) as [[k n]|]; [destruct (pay_ok && _)|]; reflexivity. }
      rewrite E. repeat split; assumption.
    + exact Fr.
    + cbn [wstep]. destruct (migrate (w_st w) g _ _) as [st'| |] eqn:M.
      * cbn [w_st]. destruct (migrate_governance _ _ _ _ _ M) as (A & B & C & D). split; [exact A|]. split; [exact B|]. right. split; assumption.
      * split; [reflexivity|]. split; [reflexivity|left; reflexivity].
      * split; [reflexivity|]. split; [reflexivity|left; reflexivity].
Qed.

Lemma gov_step_loosens w o st' : gov_step w o st' -> loosens (allow (w_st w)) (allow st').
Proof.
  unfold gov_step. cbv zeta. intros H.
  assert (Eq: forall a b : amap N (option N), b = a -> loosens a b) by (intros a b ->; apply loosens_refl).
  destruct o as [sender x|tok user n t|p pay_ok|p|p pay_ok|k n|g]; try (apply Eq; apply H).
  destruct x; try (apply Eq; apply H); apply H.
Qed.

(* over every history of world operations the allow list only ever loosens: a token once allowed stays allowed,
   with a gas limit that never gets tighter *)
Theorem allow_only_loosens cs : forall w, Inv (w_st w) ->
  Inv (w_st (wrun w cs)) /\ loosens (allow (w_st w)) (allow (w_st (wrun w cs))).
Proof.
  induction cs as [|[blk o] r IH]; intros w HI; [split; [exact HI|apply loosens_refl]|].
  cbn [wrun fold_left fst snd].
  change (fold_left (fun x c => wstep x (fst c) (snd c)) r (wstep w blk o)) with (wrun (wstep w blk o) r).
  destruct (wstep_gov w blk o HI) as (I1 & G1). destruct (IH _ I1) as (I2 & L2). split; [exact I2|].
  eapply loosens_trans; [exact (gov_step_loosens _ _ _ G1)|exact L2].
Qed.

(* histories without governance calls and migrations leave allow list, governance address and default gas alone *)
Definition not_gov (c : wcall) : Prop :=
  match snd c with WExec _ (Allow _ _) | WExec _ (UpdateAdmin _) | WMigrate _ => False | _ => True end.
Theorem no_gov_call_no_change cs : forall w, Inv (w_st w) -> Forall not_gov cs -> gov_frame (w_st w) (w_st (wrun w cs)).
Proof.
  induction cs as [|[blk o] r IH]; intros w HI Hf; [repeat split|].
  cbn [wrun fold_left fst snd].
  change (fold_left (fun x c => wstep x (fst c) (snd c)) r (wstep w blk o)) with (wrun (wstep w blk o) r).
  inversion Hf as [|? ? H1 Hr]; subst. destruct (wstep_gov w blk o HI) as (I1 & G1).
  destruct (IH _ I1 Hr) as (A & B & C).
  assert (G: gov_frame (w_st w) (w_st (wstep w blk o))).
  { unfold not_gov in H1. cbn [snd] in H1. unfold gov_step in G1. cbv zeta in G1.
    destruct o as [sender x|tok user n t|p pay_ok|p|p pay_ok|k n|g]; try exact G1; [destruct x; try exact G1; contradiction|contradiction]. }
  destruct G as (A1 & B1 & C1). split; [congruence|split; congruence].
Qed.
