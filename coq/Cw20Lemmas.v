(* Cw20Lemmas.v — proofs about model F1 (C01, C02, C13, C19). *)
Require Import CwPlus.Params CwPlus.Base CwPlus.AMap CwPlus.Cw20Model.
From Coq Require Import Lia ZifyBool ZifyN.
Open Scope N_scope.

(* destructs the result monad in a hypothesis `... = Ok _` *)
Ltac inv_ok :=
  repeat match goal with
  | H : Ok _ = Ok _ |- _ => inversion H; subst; clear H
  | H : Err = Ok _ |- _ => discriminate H
  | H : Abort = Ok _ |- _ => discriminate H
  | H : rbind ?e _ = Ok _ |- _ => let E := fresh "E" in destruct e eqn:E; cbn [rbind] in H; try discriminate H
  | H : (if ?c then _ else _) = Ok _ |- _ => let E := fresh "E" in destruct c eqn:E; try discriminate H
  | H : match ?x with _ => _ end = Ok _ |- _ => let E := fresh "E" in destruct x eqn:E; try discriminate H
  end.

(* ---- balances ---- *)
Lemma getd_set_eq (m : amap addr N) k v : getd ordN (set ordN m k v) k = v.
Proof. unfold getd, getf. rewrite get_set_eq. reflexivity. Qed.
Lemma getd_set_neq (m : amap addr N) k v j : j <> k -> getd ordN (set ordN m k v) j = getd ordN m j.
Proof. intros H. unfold getd, getf. rewrite get_set_neq by exact H. reflexivity. Qed.
Lemma sum_set (m : amap addr N) k v : sorted ordN m -> sum (set ordN m k v) + getd ordN m k = sum m + v.
Proof. intros H. unfold sum, getd. apply (sumf_set (fun x => x) ordN m k v H). Qed.
Lemma getd_le_sum (m : amap addr N) k : getd ordN m k <= sum m.
Proof. unfold getd, sum. apply getf_le_sumf. Qed.

Lemma validate_ok a x : validate a = Ok x -> a = Some x.
Proof. destruct a; cbn; intros H; inversion H; reflexivity. Qed.

Lemma debit_spec b a n b' : debit b a n = Ok b' ->
  n <= getd ordN b a /\ b' = set ordN b a (getd ordN b a - n).
Proof.
  unfold debit, sub128. intros H.
  destruct (n <=? getd ordN b a) eqn:E; [|discriminate]. inversion H. split; [lia|reflexivity].
Qed.

Lemma credit_spec b a n b' : credit b a n = Ok b' ->
  getd ordN b a + n <= u128max /\ b' = set ordN b a (getd ordN b a + n).
Proof.
  unfold credit, add128. intros H.
  destruct (getd ordN b a + n <=? u128max) eqn:E; [|discriminate]. inversion H. split; [lia|reflexivity].
Qed.

(* ---- C01: supply = sum of balances ---- *)
Definition Inv01 (st : state) : Prop :=
  sorted ordN (balances st) /\ supply st = sum (balances st) /\ supply st <= u128max.

Lemma move_spec st from to n st' : move st from to n = Ok st' ->
  n <= bal st from /\
  balances st' = set ordN (set ordN (balances st) from (bal st from - n)) to
                     (getd ordN (set ordN (balances st) from (bal st from - n)) to + n) /\
  allow st' = allow st /\ allow_sp st' = allow_sp st /\ supply st' = supply st /\
  minter st' = minter st /\ ver_old st' = ver_old st.
Proof.
  unfold move. intros H. inv_ok.
  apply debit_spec in E. destruct E as [Hle Hb]. apply credit_spec in E0. destruct E0 as [_ Hb2].
  subst. unfold bal. cbn. repeat split; try reflexivity. exact Hle.
Qed.

Lemma move_sum st from to n st' : sorted ordN (balances st) -> move st from to n = Ok st' ->
  sorted ordN (balances st') /\ sum (balances st') = sum (balances st).
Proof.
  intros Hs H. apply move_spec in H. destruct H as (Hle & Hb & _).
  set (b1 := set ordN (balances st) from (bal st from - n)) in *.
  assert (Hs1: sorted ordN b1) by (apply set_sorted; exact Hs).
  rewrite Hb. split; [apply set_sorted; exact Hs1|].
  pose proof (sum_set (balances st) from (bal st from - n) Hs) as A. fold b1 in A.
  pose proof (sum_set b1 to (getd ordN b1 to + n) Hs1) as B.
  unfold bal in *. lia.
Qed.

(* pointwise effect of a move on every account *)
Lemma move_bal st from to n st' a : move st from to n = Ok st' ->
  bal st' a = (let b0 := bal st a in
               let b1 := if a =? from then b0 - n else b0 in
               if a =? to then b1 + n else b1).
Proof.
  intros H. apply move_spec in H. destruct H as (Hle & Hb & _).
  unfold bal in *. rewrite Hb. cbn zeta.
  destruct (a =? to) eqn:Eto.
  - apply N.eqb_eq in Eto. subst a. rewrite getd_set_eq.
    destruct (to =? from) eqn:Ef.
    + apply N.eqb_eq in Ef. subst. rewrite getd_set_eq. reflexivity.
    + apply N.eqb_neq in Ef. rewrite getd_set_neq by exact Ef. reflexivity.
  - apply N.eqb_neq in Eto. rewrite getd_set_neq by exact Eto.
    destruct (a =? from) eqn:Ef.
    + apply N.eqb_eq in Ef. subst. rewrite getd_set_eq. reflexivity.
    + apply N.eqb_neq in Ef. rewrite getd_set_neq by exact Ef. reflexivity.
Qed.

Lemma deduct_allowance_frame st blk ow sp n st' : deduct_allowance st blk ow sp n = Ok st' ->
  balances st' = balances st /\ supply st' = supply st /\ minter st' = minter st /\ ver_old st' = ver_old st.
Proof. unfold deduct_allowance. intros H. inv_ok. cbn. repeat split. Qed.

Lemma burn_supply_spec st n st' : burn_supply st n = Ok st' ->
  n <= supply st /\ st' = set_supply st (supply st - n).
Proof.
  unfold burn_supply, sub128. intros H. destruct (n <=? supply st) eqn:E; [|discriminate].
  inversion H. split; [lia|reflexivity].
Qed.

(* ---- characterising lemmas: what a successful call of each operation did ---- *)
Lemma deduct_update_spec blk cur n a' : deduct_update blk cur n = Ok a' ->
  exists a, cur = Some a /\ is_expired (al_exp a) blk = false /\ n <= al_amt a /\
            a' = mkAl (al_amt a - n) (al_exp a).
Proof.
  unfold deduct_update, sub128. intros H. destruct cur as [a|]; [|discriminate].
  destruct (is_expired (al_exp a) blk) eqn:Ee; [discriminate|].
  destruct (n <=? al_amt a) eqn:El; [|discriminate]. inversion H.
  exists a. repeat split; try reflexivity; try assumption. lia.
Qed.

Lemma deduct_allowance_spec st blk ow sp n st' : deduct_allowance st blk ow sp n = Ok st' ->
  exists a a2,
    get ordNN (allow st) (ow, sp) = Some a /\ is_expired (al_exp a) blk = false /\ n <= al_amt a /\
    get ordNN (allow_sp st) (sp, ow) = Some a2 /\ is_expired (al_exp a2) blk = false /\ n <= al_amt a2 /\
    st' = set_allow_sp (set_allow st (set ordNN (allow st) (ow, sp) (mkAl (al_amt a - n) (al_exp a))))
                       (set ordNN (allow_sp st) (sp, ow) (mkAl (al_amt a2 - n) (al_exp a2))).
Proof.
  unfold deduct_allowance. intros H.
  destruct (deduct_update blk (get ordNN (allow st) (ow, sp)) n) as [a1| |] eqn:E1; cbn [rbind] in H; try discriminate.
  apply deduct_update_spec in E1. destruct E1 as (a & Ha & He & Hn & Ha1).
  cbn [allow_sp set_allow] in H.
  destruct (deduct_update blk (get ordNN (allow_sp st) (sp, ow)) n) as [a2'| |] eqn:E2; cbn [rbind] in H; try discriminate.
  apply deduct_update_spec in E2. destruct E2 as (a2 & Ha2 & He2 & Hn2 & Ha2').
  inversion H. subst. exists a, a2. repeat split; assumption.
Qed.

Lemma transfer_spec st blk sender rcpt n st' ms :
  step st blk sender (Transfer rcpt n) = Ok (st', ms) ->
  exists r, rcpt = Some r /\ move st sender r n = Ok st' /\ ms = [].
Proof.
  cbn [step]. intros H. destruct rcpt as [r|]; cbn in H; [|discriminate].
  destruct (move st sender r n) eqn:E; cbn in H; try discriminate. inversion H. subst.
  exists r. repeat split; try assumption; try reflexivity.
Qed.

Lemma send_spec st blk sender c n payload st' ms :
  step st blk sender (Send c n payload) = Ok (st', ms) ->
  exists r, c = Some r /\ move st sender r n = Ok st' /\ ms = [(r, sender, n, payload)].
Proof.
  cbn [step]. intros H. destruct c as [r|]; cbn in H; [|discriminate].
  destruct (move st sender r n) eqn:E; cbn in H; try discriminate. inversion H. subst.
  exists r. repeat split; try assumption; try reflexivity.
Qed.

Lemma burn_spec st blk sender n st' ms :
  step st blk sender (Burn n) = Ok (st', ms) ->
  n <= bal st sender /\ n <= supply st /\ ms = [] /\
  st' = set_supply (set_balances st (set ordN (balances st) sender (bal st sender - n))) (supply st - n).
Proof.
  cbn [step]. intros H.
  destruct (debit (balances st) sender n) as [b1| |] eqn:E; cbn [rbind] in H; try discriminate.
  apply debit_spec in E. destruct E as [Hle Hb].
  destruct (burn_supply (set_balances st b1) n) as [st2| |] eqn:E2; cbn [rbind] in H; try discriminate.
  apply burn_supply_spec in E2. destruct E2 as [Hle2 Hst]. inversion H. subst.
  unfold bal. cbn. repeat split; assumption.
Qed.

Lemma mint_spec st blk sender rcpt n st' ms :
  step st blk sender (Mint rcpt n) = Ok (st', ms) ->
  exists r cap, rcpt = Some r /\ minter st = Some (sender, cap) /\ supply st + n <= u128max /\
    (forall c, cap = Some c -> supply st + n <= c) /\ bal st r + n <= u128max /\ ms = [] /\
    st' = set_balances (set_supply st (supply st + n)) (set ordN (balances st) r (bal st r + n)).
Proof.
  cbn [step]. intros H.
  destruct (minter st) as [[m cap]|] eqn:Em; [|discriminate].
  destruct (m =? sender) eqn:Es; cbn [negb] in H; [|discriminate].
  apply N.eqb_eq in Es. subst m.
  unfold add128 in H. destruct (supply st + n <=? u128max) eqn:Eo; [|discriminate].
  destruct (match cap with Some limit => limit <? supply st + n | None => false end) eqn:Ec; [discriminate|].
  destruct rcpt as [r|]; cbn in H; [|discriminate].
  destruct (credit (balances st) r n) as [b1| |] eqn:E; cbn [rbind] in H; try discriminate.
  apply credit_spec in E. destruct E as [Hc Hb]. inversion H. subst.
  exists r, cap. unfold bal. repeat split; try reflexivity; try lia.
  intros c Hcap. subst cap. lia.
Qed.

Lemma draw_spec_common st blk sender ow n st1 :
  deduct_allowance st blk ow sender n = Ok st1 ->
  balances st1 = balances st /\ supply st1 = supply st /\ minter st1 = minter st /\ ver_old st1 = ver_old st.
Proof. apply deduct_allowance_frame. Qed.

Lemma transfer_from_spec st blk sender owner rcpt n st' ms :
  step st blk sender (TransferFrom owner rcpt n) = Ok (st', ms) ->
  exists ow r st1, owner = Some ow /\ rcpt = Some r /\ deduct_allowance st blk ow sender n = Ok st1 /\
                   move st1 ow r n = Ok st' /\ ms = [].
Proof.
  cbn [step]. intros H. destruct rcpt as [r|]; cbn in H; [|discriminate].
  destruct owner as [ow|]; cbn in H; [|discriminate].
  destruct (deduct_allowance st blk ow sender n) as [st1| |] eqn:E1; cbn [rbind] in H; try discriminate.
  destruct (move st1 ow r n) as [st2| |] eqn:E2; cbn [rbind] in H; try discriminate.
  inversion H. subst. exists ow, r, st1. repeat split; assumption.
Qed.

Lemma send_from_spec st blk sender owner c n payload st' ms :
  step st blk sender (SendFrom owner c n payload) = Ok (st', ms) ->
  exists ow r st1, owner = Some ow /\ c = Some r /\ deduct_allowance st blk ow sender n = Ok st1 /\
                   move st1 ow r n = Ok st' /\ ms = [(r, sender, n, payload)].
Proof.
  cbn [step]. intros H. destruct c as [r|]; cbn in H; [|discriminate].
  destruct owner as [ow|]; cbn in H; [|discriminate].
  destruct (deduct_allowance st blk ow sender n) as [st1| |] eqn:E1; cbn [rbind] in H; try discriminate.
  destruct (move st1 ow r n) as [st2| |] eqn:E2; cbn [rbind] in H; try discriminate.
  inversion H. subst. exists ow, r, st1. repeat split; assumption.
Qed.

Lemma burn_from_spec st blk sender owner n st' ms :
  step st blk sender (BurnFrom owner n) = Ok (st', ms) ->
  exists ow st1, owner = Some ow /\ deduct_allowance st blk ow sender n = Ok st1 /\
    n <= bal st1 ow /\ n <= supply st1 /\ ms = [] /\
    st' = set_supply (set_balances st1 (set ordN (balances st1) ow (bal st1 ow - n))) (supply st1 - n).
Proof.
  cbn [step]. intros H. destruct owner as [ow|]; cbn in H; [|discriminate].
  destruct (deduct_allowance st blk ow sender n) as [st1| |] eqn:E1; cbn [rbind] in H; try discriminate.
  destruct (debit (balances st1) ow n) as [b1| |] eqn:E; cbn [rbind] in H; try discriminate.
  apply debit_spec in E. destruct E as [Hle Hb].
  destruct (burn_supply (set_balances st1 b1) n) as [st2| |] eqn:E2; cbn [rbind] in H; try discriminate.
  apply burn_supply_spec in E2. destruct E2 as [Hle2 Hst]. inversion H. subst.
  exists ow, st1. unfold bal. cbn. repeat split; assumption.
Qed.

(* operations that leave balances and supply alone *)
Definition bal_neutral (o : op) : bool :=
  match o with
  | IncreaseAllowance _ _ _ | DecreaseAllowance _ _ _ | UpdateMinter _ | Migrate | Other => true
  | _ => false
  end.

Lemma neutral_spec st blk sender o st' ms :
  bal_neutral o = true -> step st blk sender o = Ok (st', ms) ->
  balances st' = balances st /\ supply st' = supply st /\ ms = [].
Proof.
  intros Hn H. destruct o; try discriminate Hn; cbn [step] in H; inv_ok; cbn; repeat split.
Qed.

Theorem step_inv01 st blk sender o st' ms :
  Inv01 st -> step st blk sender o = Ok (st', ms) -> Inv01 st'.
Proof.
  intros (Hs & Hsum & Hmax) H. unfold Inv01.
  destruct o.
  - apply transfer_spec in H. destruct H as (r & _ & Hm & _).
    pose proof (move_sum _ _ _ _ _ Hs Hm) as [S1 S2].
    apply move_spec in Hm. destruct Hm as (_ & _ & _ & _ & Hsup & _).
    repeat split; [exact S1|lia|lia].
  - apply burn_spec in H. destruct H as (Hle & Hle2 & _ & Hst). subst st'. cbn. unfold bal in *.
    pose proof (sum_set (balances st) sender (getd ordN (balances st) sender - n) Hs) as A.
    repeat split; [apply set_sorted; exact Hs|lia|lia].
  - apply send_spec in H. destruct H as (r & _ & Hm & _).
    pose proof (move_sum _ _ _ _ _ Hs Hm) as [S1 S2].
    apply move_spec in Hm. destruct Hm as (_ & _ & _ & _ & Hsup & _).
    repeat split; [exact S1|lia|lia].
  - apply mint_spec in H. destruct H as (r & cap & _ & _ & Hle & _ & _ & _ & Hst). subst st'. cbn. unfold bal in *.
    pose proof (sum_set (balances st) r (getd ordN (balances st) r + n) Hs) as A.
    repeat split; [apply set_sorted; exact Hs|lia|lia].
  - apply neutral_spec in H; [|reflexivity]. destruct H as (Hb & Hsu & _). rewrite Hb, Hsu. repeat split; assumption.
  - apply neutral_spec in H; [|reflexivity]. destruct H as (Hb & Hsu & _). rewrite Hb, Hsu. repeat split; assumption.
  - apply transfer_from_spec in H. destruct H as (ow & r & st1 & _ & _ & Hd & Hm & _).
    apply deduct_allowance_frame in Hd. destruct Hd as (Hb & Hsu & _).
    assert (Hs1: sorted ordN (balances st1)) by (rewrite Hb; exact Hs).
    pose proof (move_sum _ _ _ _ _ Hs1 Hm) as [S1 S2].
    apply move_spec in Hm. destruct Hm as (_ & _ & _ & _ & Hsup & _).
    repeat split; [exact S1|rewrite S2, Hb, Hsup, Hsu; exact Hsum|rewrite Hsup, Hsu; exact Hmax].
  - apply burn_from_spec in H. destruct H as (ow & st1 & _ & Hd & Hle & Hle2 & _ & Hst).
    apply deduct_allowance_frame in Hd. destruct Hd as (Hb & Hsu & _).
    subst st'. cbn. unfold bal in *. rewrite Hb, Hsu in *.
    pose proof (sum_set (balances st) ow (getd ordN (balances st) ow - n) Hs) as A.
    repeat split; [apply set_sorted; exact Hs|lia|lia].
  - apply send_from_spec in H. destruct H as (ow & r & st1 & _ & _ & Hd & Hm & _).
    apply deduct_allowance_frame in Hd. destruct Hd as (Hb & Hsu & _).
    assert (Hs1: sorted ordN (balances st1)) by (rewrite Hb; exact Hs).
    pose proof (move_sum _ _ _ _ _ Hs1 Hm) as [S1 S2].
    apply move_spec in Hm. destruct Hm as (_ & _ & _ & _ & Hsup & _).
    repeat split; [exact S1|rewrite S2, Hb, Hsup, Hsu; exact Hsum|rewrite Hsup, Hsu; exact Hmax].
  - apply neutral_spec in H; [|reflexivity]. destruct H as (Hb & Hsu & _). rewrite Hb, Hsu. repeat split; assumption.
  - apply neutral_spec in H; [|reflexivity]. destruct H as (Hb & Hsu & _). rewrite Hb, Hsu. repeat split; assumption.
  - apply neutral_spec in H; [|reflexivity]. destruct H as (Hb & Hsu & _). rewrite Hb, Hsu. repeat split; assumption.
Qed.

(* histories: any list of calls, failed ones included *)
Definition call := (block * addr * op * bool)%type.
Definition tx_state (st : state) (c : call) : state :=
  let '(blk, sender, o, recv_ok) := c in fst (fst (tx st blk sender o recv_ok)).
Definition run (st : state) (cs : list call) : state := fold_left tx_state cs st.

Lemma tx_cases st blk sender o recv_ok :
  (exists st' ms, step st blk sender o = Ok (st', ms) /\ tx st blk sender o recv_ok = (st', true, ms)) \/
  tx st blk sender o recv_ok = (st, false, []).
Proof.
  unfold tx. destruct (step st blk sender o) as [[st' ms]| |] eqn:E; [|right; reflexivity|right; reflexivity].
  destruct (match ms with [] => true | _ => recv_ok end); [left; exists st', ms; split; reflexivity|right; reflexivity].
Qed.

Lemma run_invariant (P : state -> Prop) :
  (forall st blk sender o st' ms, P st -> step st blk sender o = Ok (st', ms) -> P st') ->
  forall cs st, P st -> P (run st cs).
Proof.
  intros Hstep cs. induction cs as [|[[[blk sender] o] rok] cs IH]; intros st HP; [exact HP|].
  cbn [run fold_left]. apply IH. unfold tx_state.
  destruct (tx_cases st blk sender o rok) as [(st' & ms & Hs & Ht)|Ht]; rewrite Ht; cbn [fst].
  - eapply Hstep; eassumption.
  - exact HP.
Qed.

Lemma create_accounts_inv l : forall b tot b' tot',
  sorted ordN b -> tot = sum b -> tot <= u128max ->
  (forall x n, In (Some x, n) l -> get ordN b x = None) -> has_dup_args l = false ->
  create_accounts l b tot = Ok (b', tot') ->
  sorted ordN b' /\ tot' = sum b' /\ tot' <= u128max.
Proof.
  induction l as [|[a n] r IH]; intros b tot b' tot' Hs Hsum Hmax Hfresh Hdup H; cbn [create_accounts] in H.
  - inversion H. subst. repeat split; assumption.
  - destruct a as [x|]; cbn in H; [|discriminate].
    unfold add128 in H. destruct (tot + n <=? u128max) eqn:Eo; [|discriminate].
    cbn [has_dup_args] in Hdup. apply orb_false_iff in Hdup. destruct Hdup as [Hd1 Hd2].
    assert (Gx: get ordN b x = None) by (apply (Hfresh x n); left; reflexivity).
    eapply IH in H; try eassumption.
    + apply set_sorted. exact Hs.
    + pose proof (sum_set b x n Hs) as A. unfold getd, getf in A. rewrite Gx in A. lia.
    + lia.
    + intros y m Hin. destruct (N.eq_dec y x) as [->|Hne].
      * exfalso. apply not_true_iff_false in Hd1. apply Hd1.
        apply existsb_exists. exists (Some x, m). split; [exact Hin|]. cbn. apply N.eqb_refl.
      * rewrite get_set_neq by exact Hne. apply (Hfresh y m). right. exact Hin.
Qed.

Theorem instantiate_inv01 m st : instantiate m = Ok st -> Inv01 st.
Proof.
  unfold instantiate. intros H.
  destruct (has_dup_args (i_balances m)) eqn:Ed; [discriminate|].
  destruct (create_accounts (i_balances m) [] 0) as [[b tot]| |] eqn:Ec; cbn [rbind] in H; try discriminate.
  destruct (match i_minter m with Some (_, Some limit) => limit <? tot | _ => false end); [discriminate|].
  destruct (match i_minter m with Some (a, cap) => dor x <- validate a; Ok (Some (x, cap)) | None => Ok None end)
    as [mt| |]; cbn [rbind] in H; try discriminate.
  inversion H. subst. unfold Inv01. cbn.
  eapply create_accounts_inv in Ec; try eassumption.
  - constructor.
  - reflexivity.
  - unfold u128max. lia.
  - intros. reflexivity.
Qed.

Theorem reachable_inv01 m st cs : instantiate m = Ok st -> Inv01 (run st cs).
Proof.
  intros H. apply run_invariant.
  - intros. eapply step_inv01; eassumption.
  - eapply instantiate_inv01. exact H.
Qed.

(* ---------------------------------------------------------------------------------------- *)
(* C13: minting *)
Definition InvCap (st : state) : Prop :=
  forall m c, minter st = Some (m, Some c) -> supply st <= c.

Lemma update_minter_spec st blk sender nm st' ms :
  step st blk sender (UpdateMinter nm) = Ok (st', ms) ->
  exists cap, minter st = Some (sender, cap) /\ ms = [] /\
    ((nm = None /\ st' = set_minter st None) \/
     (exists x, nm = Some (Some x) /\ st' = set_minter st (Some (x, cap)))).
Proof.
  cbn [step]. intros H. destruct (minter st) as [[m cap]|] eqn:Em; [|discriminate].
  destruct (m =? sender) eqn:Es; cbn [negb] in H; [|discriminate].
  apply N.eqb_eq in Es. subst m. exists cap. split; [reflexivity|].
  destruct nm as [[x|]|]; cbn in H; try discriminate; inversion H; subst.
  - split; [reflexivity|]. right. exists x. split; reflexivity.
  - split; [reflexivity|]. left. split; reflexivity.
Qed.

(* which fields an operation other than Mint / UpdateMinter can touch *)
Lemma step_minter_frame st blk sender o st' ms :
  step st blk sender o = Ok (st', ms) ->
  (match o with UpdateMinter _ => False | _ => True end) -> minter st' = minter st.
Proof.
  intros H Hno. destruct o; try contradiction.
  - apply transfer_spec in H. destruct H as (r & _ & Hm & _). apply move_spec in Hm. tauto.
  - apply burn_spec in H. destruct H as (_ & _ & _ & Hst). subst. reflexivity.
  - apply send_spec in H. destruct H as (r & _ & Hm & _). apply move_spec in Hm. tauto.
  - apply mint_spec in H. destruct H as (r & cap & _ & _ & _ & _ & _ & _ & Hst). subst. reflexivity.
  - cbn [step] in H. inv_ok. reflexivity.
  - cbn [step] in H. inv_ok; reflexivity.
  - apply transfer_from_spec in H. destruct H as (ow & r & st1 & _ & _ & Hd & Hm & _).
    apply deduct_allowance_frame in Hd. apply move_spec in Hm.
    destruct Hd as (_ & _ & Hd & _). destruct Hm as (_ & _ & _ & _ & _ & Hm & _). congruence.
  - apply burn_from_spec in H. destruct H as (ow & st1 & _ & Hd & _ & _ & _ & Hst).
    apply deduct_allowance_frame in Hd. destruct Hd as (_ & _ & Hd & _). subst. exact Hd.
  - apply send_from_spec in H. destruct H as (ow & r & st1 & _ & _ & Hd & Hm & _).
    apply deduct_allowance_frame in Hd. apply move_spec in Hm.
    destruct Hd as (_ & _ & Hd & _). destruct Hm as (_ & _ & _ & _ & _ & Hm & _). congruence.
  - cbn [step] in H. inv_ok; reflexivity.
  - cbn [step] in H. inv_ok. reflexivity.
Qed.

Lemma step_supply_le st blk sender o st' ms :
  step st blk sender o = Ok (st', ms) ->
  (match o with Mint _ _ => False | _ => True end) -> supply st' <= supply st.
Proof.
  intros H Hno. destruct o; try contradiction.
  - apply transfer_spec in H. destruct H as (r & _ & Hm & _). apply move_spec in Hm.
    destruct Hm as (_ & _ & _ & _ & Hs & _). lia.
  - apply burn_spec in H. destruct H as (_ & _ & _ & Hst). subst. cbn. lia.
  - apply send_spec in H. destruct H as (r & _ & Hm & _). apply move_spec in Hm.
    destruct Hm as (_ & _ & _ & _ & Hs & _). lia.
  - apply neutral_spec in H; [|reflexivity]. destruct H as (_ & Hs & _). lia.
  - apply neutral_spec in H; [|reflexivity]. destruct H as (_ & Hs & _). lia.
  - apply transfer_from_spec in H. destruct H as (ow & r & st1 & _ & _ & Hd & Hm & _).
    apply deduct_allowance_frame in Hd. apply move_spec in Hm.
    destruct Hd as (_ & Hd & _). destruct Hm as (_ & _ & _ & _ & Hm & _). lia.
  - apply burn_from_spec in H. destruct H as (ow & st1 & _ & Hd & _ & _ & _ & Hst).
    apply deduct_allowance_frame in Hd. destruct Hd as (_ & Hd & _). subst. cbn. lia.
  - apply send_from_spec in H. destruct H as (ow & r & st1 & _ & _ & Hd & Hm & _).
    apply deduct_allowance_frame in Hd. apply move_spec in Hm.
    destruct Hd as (_ & Hd & _). destruct Hm as (_ & _ & _ & _ & Hm & _). lia.
  - apply neutral_spec in H; [|reflexivity]. destruct H as (_ & Hs & _). lia.
  - apply neutral_spec in H; [|reflexivity]. destruct H as (_ & Hs & _). lia.
  - apply neutral_spec in H; [|reflexivity]. destruct H as (_ & Hs & _). lia.
Qed.

(* tokens are created only by a Mint from the registered minter *)
Theorem mint_guard st blk sender o st' ms :
  step st blk sender o = Ok (st', ms) -> supply st < supply st' ->
  exists rcpt n cap, o = Mint rcpt n /\ minter st = Some (sender, cap) /\ supply st' = supply st + n.
Proof.
  intros H Hlt. destruct o; try (pose proof (step_supply_le _ _ _ _ _ _ H I); lia).
  pose proof H as H'. apply mint_spec in H'. destruct H' as (r & cap & _ & Hm & _ & _ & _ & _ & Hst).
  exists rcpt, n, cap. subst st'. cbn. repeat split; assumption.
Qed.

Theorem step_inv_cap st blk sender o st' ms :
  InvCap st -> step st blk sender o = Ok (st', ms) -> InvCap st'.
Proof.
  intros Hc H m c Hm.
  destruct o;
    try (pose proof (step_supply_le _ _ _ _ _ _ H I) as Hle;
         pose proof (step_minter_frame _ _ _ _ _ _ H I) as Hfr; rewrite Hfr in Hm;
         specialize (Hc m c Hm); lia).
  - (* Mint *) apply mint_spec in H. destruct H as (r & cap & _ & Hmi & _ & Hcap & _ & _ & Hst).
    subst st'. cbn in *. rewrite Hmi in Hm. inversion Hm; subst. apply Hcap. reflexivity.
  - (* UpdateMinter *) pose proof (step_supply_le _ _ _ _ _ _ H I) as Hle.
    apply update_minter_spec in H. destruct H as (cap & Hmi & _ & [[_ Hst]|(x & _ & Hst)]); subst st'; cbn in Hm.
    + discriminate.
    + inversion Hm; subst. specialize (Hc sender c Hmi). cbn in *. lia.
Qed.

(* the role (and its cap) changes only by the current minter's UpdateMinter; the cap survives *)
Theorem minter_change_guard st blk sender o st' ms :
  step st blk sender o = Ok (st', ms) -> minter st' <> minter st ->
  exists nm cap, o = UpdateMinter nm /\ minter st = Some (sender, cap) /\
    (minter st' = None \/ exists x, minter st' = Some (x, cap)).
Proof.
  intros H Hne. destruct o; try (exfalso; apply Hne; eapply step_minter_frame; [exact H|exact I]).
  apply update_minter_spec in H. destruct H as (cap & Hmi & _ & [[_ Hst]|(x & _ & Hst)]); subst st';
    exists new_minter, cap; repeat split; try assumption; cbn.
  - left. reflexivity.
  - right. exists x. reflexivity.
Qed.

Theorem renounced_step st blk sender o st' ms :
  minter st = None -> step st blk sender o = Ok (st', ms) ->
  minter st' = None /\ supply st' <= supply st.
Proof.
  intros Hn H. destruct o;
    try (split; [rewrite (step_minter_frame _ _ _ _ _ _ H I); exact Hn|exact (step_supply_le _ _ _ _ _ _ H I)]).
  - apply mint_spec in H. destruct H as (r & cap & _ & Hmi & _). congruence.
  - apply update_minter_spec in H. destruct H as (cap & Hmi & _). congruence.
Qed.

Theorem renounced_forever st cs : minter st = None ->
  minter (run st cs) = None /\ supply (run st cs) <= supply st.
Proof.
  revert st. induction cs as [|[[[blk sender] o] rok] cs IH]; intros st Hn; [split; [exact Hn|cbn; lia]|].
  cbn [run fold_left].
  destruct (tx_cases st blk sender o rok) as [(st' & ms & Hs & Ht)|Ht].
  - assert (E: tx_state st (blk, sender, o, rok) = st') by (unfold tx_state; rewrite Ht; reflexivity).
    rewrite E. destruct (renounced_step _ _ _ _ _ _ Hn Hs) as [Hn' Hle].
    destruct (IH st' Hn') as [A B]. unfold run in *. split; [exact A|lia].
  - assert (E: tx_state st (blk, sender, o, rok) = st) by (unfold tx_state; rewrite Ht; reflexivity).
    rewrite E. apply IH. exact Hn.
Qed.

Theorem instantiate_inv_cap m st : instantiate m = Ok st -> InvCap st.
Proof.
  unfold instantiate. intros H.
  destruct (has_dup_args (i_balances m)); [discriminate|].
  destruct (create_accounts (i_balances m) [] 0) as [[b tot]| |]; cbn [rbind] in H; try discriminate.
  destruct (i_minter m) as [[a [limit|]]|] eqn:Em.
  - destruct (limit <? tot) eqn:El; [discriminate|].
    destruct a as [x|]; cbn in H; [|discriminate]. inversion H. subst.
    intros m0 c Hm. cbn in Hm. inversion Hm. subst. cbn. lia.
  - destruct a as [x|]; cbn in H; [|discriminate]. inversion H. subst.
    intros m0 c Hm. cbn in Hm. discriminate.
  - cbn in H. inversion H. subst. intros m0 c Hm. cbn in Hm. discriminate.
Qed.

Theorem reachable_inv_cap m st cs : instantiate m = Ok st -> InvCap (run st cs).
Proof.
  intros H. apply run_invariant.
  - intros. eapply step_inv_cap; eassumption.
  - eapply instantiate_inv_cap. exact H.
Qed.

(* ---------------------------------------------------------------------------------------- *)
(* C19: the two allowance maps mirror each other *)
Definition mirror (A B : amap (addr * addr) allowance) : Prop :=
  forall o s, get ordNN A (o, s) = get ordNN B (s, o).

Definition Inv19 (st : state) : Prop :=
  sorted ordNN (allow st) /\ sorted ordNN (allow_sp st) /\ mirror (allow st) (allow_sp st) /\
  ver_old st = false.

Lemma pair_neq_flip (o s o' s' : addr) : (o', s') <> (o, s) -> (s', o') <> (s, o).
Proof. intros H E. inversion E. subst. apply H. reflexivity. Qed.

Lemma mirror_set A B o s v : mirror A B -> mirror (set ordNN A (o, s) v) (set ordNN B (s, o) v).
Proof.
  intros Hm o' s'. destruct (N.eq_dec o' o) as [->|Ho]; [destruct (N.eq_dec s' s) as [->|Hs]|].
  - rewrite !get_set_eq. reflexivity.
  - rewrite !get_set_neq by congruence. apply Hm.
  - rewrite !get_set_neq by congruence. apply Hm.
Qed.

Lemma mirror_remove A B o s : sorted ordNN A -> sorted ordNN B -> mirror A B ->
  mirror (remove ordNN A (o, s)) (remove ordNN B (s, o)).
Proof.
  intros HA HB Hm o' s'. destruct (N.eq_dec o' o) as [->|Ho]; [destruct (N.eq_dec s' s) as [->|Hs]|].
  - rewrite !get_remove_eq by assumption. reflexivity.
  - rewrite !get_remove_neq by congruence. apply Hm.
  - rewrite !get_remove_neq by congruence. apply Hm.
Qed.

Lemma increase_spec st blk sender sp n e st' ms :
  step st blk sender (IncreaseAllowance sp n e) = Ok (st', ms) ->
  exists s a1 a2, sp = Some s /\ s <> sender /\ ms = [] /\
    inc_update blk (get ordNN (allow st) (sender, s)) n e = Ok a1 /\
    inc_update blk (get ordNN (allow_sp st) (s, sender)) n e = Ok a2 /\
    st' = set_allow_sp (set_allow st (set ordNN (allow st) (sender, s) a1))
                       (set ordNN (allow_sp st) (s, sender) a2).
Proof.
  cbn [step]. intros H. destruct sp as [s|]; cbn in H; [|discriminate].
  destruct (s =? sender) eqn:Es; [discriminate|]. apply N.eqb_neq in Es.
  destruct (inc_update blk (get ordNN (allow st) (sender, s)) n e) as [a1| |] eqn:E1; cbn [rbind] in H; try discriminate.
  cbn [allow_sp set_allow] in H.
  destruct (inc_update blk (get ordNN (allow_sp st) (s, sender)) n e) as [a2| |] eqn:E2; cbn [rbind] in H; try discriminate.
  inversion H. subst. exists s, a1, a2. repeat split; try assumption; reflexivity.
Qed.

Lemma inc_update_spec blk cur n e a' : inc_update blk cur n e = Ok a' ->
  let val := match cur with Some v => v | None => al_default end in
  al_amt a' = al_amt val + n /\ al_amt val + n <= u128max /\
  al_exp a' = match e with Some ex => ex | None => al_exp val end /\
  (forall ex, e = Some ex -> is_expired ex blk = false).
Proof.
  unfold inc_update. cbn zeta. set (val := match cur with Some v => v | None => al_default end).
  intros H. destruct e as [ex|].
  - destruct (is_expired ex blk) eqn:Ee; cbn [rbind] in H; [discriminate|].
    cbn [al_amt al_exp] in H. unfold add128 in H.
    destruct (al_amt val + n <=? u128max) eqn:Eo; [|discriminate]. inversion H. cbn.
    repeat split; try reflexivity; try lia. intros ex0 Hex. inversion Hex. subst. exact Ee.
  - cbn [rbind] in H. unfold add128 in H.
    destruct (al_amt val + n <=? u128max) eqn:Eo; [|discriminate]. inversion H. cbn.
    repeat split; try reflexivity; try lia. intros ex0 Hex. discriminate.
Qed.

Lemma decrease_spec st blk sender sp n e st' ms :
  step st blk sender (DecreaseAllowance sp n e) = Ok (st', ms) ->
  exists s a, sp = Some s /\ s <> sender /\ ms = [] /\ get ordNN (allow st) (sender, s) = Some a /\
    ((n < al_amt a /\
      exists ex, ex = match e with Some x => x | None => al_exp a end /\
      (forall x, e = Some x -> is_expired x blk = false) /\
      st' = set_allow_sp (set_allow st (set ordNN (allow st) (sender, s) (mkAl (al_amt a - n) ex)))
                         (set ordNN (allow_sp st) (s, sender) (mkAl (al_amt a - n) ex))) \/
     (al_amt a <= n /\
      st' = set_allow_sp (set_allow st (remove ordNN (allow st) (sender, s)))
                         (remove ordNN (allow_sp st) (s, sender)))).
Proof.
  cbn [step]. intros H. destruct sp as [s|]; cbn in H; [|discriminate].
  destruct (s =? sender) eqn:Es; [discriminate|]. apply N.eqb_neq in Es.
  destruct (get ordNN (allow st) (sender, s)) as [a|] eqn:Eg; [|discriminate].
  exists s, a. destruct (n <? al_amt a) eqn:El.
  - destruct e as [x|].
    + destruct (is_expired x blk) eqn:Ee; cbn [rbind] in H; [discriminate|]. inversion H. subst.
      repeat split; try assumption; try reflexivity. left. split; [lia|].
      exists x. repeat split. intros x0 Hx. inversion Hx. subst. exact Ee.
    + cbn [rbind] in H. inversion H. subst.
      repeat split; try assumption; try reflexivity. left. split; [lia|].
      exists (al_exp a). repeat split. intros x0 Hx. discriminate.
  - inversion H. subst. repeat split; try assumption; try reflexivity. right. split; [lia|reflexivity].
Qed.

(* operations that leave both allowance maps alone *)
Definition al_neutral (o : op) : bool :=
  match o with
  | Transfer _ _ | Burn _ | Send _ _ _ | Mint _ _ | UpdateMinter _ | Other => true
  | _ => false
  end.

Lemma al_neutral_spec st blk sender o st' ms :
  al_neutral o = true -> step st blk sender o = Ok (st', ms) ->
  allow st' = allow st /\ allow_sp st' = allow_sp st /\ ver_old st' = ver_old st.
Proof.
  intros Hn H. destruct o; try discriminate Hn.
  - apply transfer_spec in H. destruct H as (r & _ & Hm & _). apply move_spec in Hm. tauto.
  - apply burn_spec in H. destruct H as (_ & _ & _ & Hst). subst. cbn. repeat split.
  - apply send_spec in H. destruct H as (r & _ & Hm & _). apply move_spec in Hm. tauto.
  - apply mint_spec in H. destruct H as (r & cap & _ & _ & _ & _ & _ & _ & Hst). subst. cbn. repeat split.
  - apply update_minter_spec in H. destruct H as (cap & _ & _ & [[_ Hst]|(x & _ & Hst)]); subst; cbn; repeat split.
  - cbn [step] in H. inversion H. subst. repeat split.
Qed.

Lemma deduct_allowance_inv19 st blk ow sp n st1 :
  Inv19 st -> deduct_allowance st blk ow sp n = Ok st1 -> Inv19 st1.
Proof.
  intros (HA & HB & Hm & Hv) H. apply deduct_allowance_spec in H.
  destruct H as (a & a2 & Ga & _ & _ & Ga2 & _ & _ & Hst).
  assert (a2 = a) by (rewrite Hm in Ga; congruence). subst a2. subst st1. unfold Inv19. cbn.
  repeat split; [apply set_sorted; exact HA|apply set_sorted; exact HB|apply mirror_set; exact Hm|exact Hv].
Qed.

Lemma move_al_frame st from to n st' : move st from to n = Ok st' ->
  allow st' = allow st /\ allow_sp st' = allow_sp st /\ ver_old st' = ver_old st.
Proof. intros H. apply move_spec in H. tauto. Qed.

Lemma inv19_of_frame st st' :
  Inv19 st -> allow st' = allow st -> allow_sp st' = allow_sp st -> ver_old st' = ver_old st -> Inv19 st'.
Proof. unfold Inv19. intros H E1 E2 E3. rewrite E1, E2, E3. exact H. Qed.

Theorem step_inv19 st blk sender o st' ms :
  Inv19 st -> step st blk sender o = Ok (st', ms) -> Inv19 st'.
Proof.
  intros Hi H. pose proof Hi as (HA & HB & Hm & Hv).
  destruct o;
    try (apply al_neutral_spec in H; [|reflexivity]; destruct H as (E1 & E2 & E3);
         eapply inv19_of_frame; eassumption).
  - (* Increase *) apply increase_spec in H. destruct H as (s & a1 & a2 & _ & _ & _ & H1 & H2 & Hst).
    rewrite <- Hm in H2. assert (a2 = a1) by congruence. subst a2. subst st'. unfold Inv19. cbn.
    repeat split; [apply set_sorted; exact HA|apply set_sorted; exact HB|apply mirror_set; exact Hm|exact Hv].
  - (* Decrease *) apply decrease_spec in H.
    destruct H as (s & a & _ & _ & _ & _ & [(_ & ex & _ & _ & Hst)|(_ & Hst)]); subst st'; unfold Inv19; cbn.
    + repeat split; [apply set_sorted; exact HA|apply set_sorted; exact HB|apply mirror_set; exact Hm|exact Hv].
    + repeat split; [apply remove_sorted; exact HA|apply remove_sorted; exact HB|
                     apply mirror_remove; assumption|exact Hv].
  - (* TransferFrom *) apply transfer_from_spec in H. destruct H as (ow & r & st1 & _ & _ & Hd & Hmv & _).
    pose proof (deduct_allowance_inv19 _ _ _ _ _ _ Hi Hd) as H1.
    apply move_al_frame in Hmv. destruct Hmv as (E1 & E2 & E3). eapply inv19_of_frame; eassumption.
  - (* BurnFrom *) apply burn_from_spec in H. destruct H as (ow & st1 & _ & Hd & _ & _ & _ & Hst).
    pose proof (deduct_allowance_inv19 _ _ _ _ _ _ Hi Hd) as H1. subst st'.
    eapply inv19_of_frame; [exact H1|reflexivity|reflexivity|reflexivity].
  - (* SendFrom *) apply send_from_spec in H. destruct H as (ow & r & st1 & _ & _ & Hd & Hmv & _).
    pose proof (deduct_allowance_inv19 _ _ _ _ _ _ Hi Hd) as H1.
    apply move_al_frame in Hmv. destruct Hmv as (E1 & E2 & E3). eapply inv19_of_frame; eassumption.
  - (* Migrate: current version, nothing to do *)
    cbn [step] in H. rewrite Hv in H. inversion H. subst. exact Hi.
Qed.

Theorem instantiate_inv19 m st : instantiate m = Ok st -> Inv19 st.
Proof.
  unfold instantiate. intros H.
  destruct (has_dup_args (i_balances m)); [discriminate|].
  destruct (create_accounts (i_balances m) [] 0) as [[b tot]| |]; cbn [rbind] in H; try discriminate.
  destruct (match i_minter m with Some (_, Some limit) => limit <? tot | _ => false end); [discriminate|].
  destruct (match i_minter m with Some (a, cap) => dor x <- validate a; Ok (Some (x, cap)) | None => Ok None end)
    as [mt| |]; cbn [rbind] in H; try discriminate.
  inversion H. subst. unfold Inv19. cbn.
  repeat split; try constructor.
Qed.

Theorem reachable_inv19 m st cs : instantiate m = Ok st -> Inv19 (run st cs).
Proof.
  intros H. apply run_invariant.
  - intros. eapply step_inv19; eassumption.
  - eapply instantiate_inv19. exact H.
Qed.

(* migration from the pre-0.14 layout: whatever the allowance table, rebuilding establishes the mirror *)
Lemma get_cons {K V} (O : ord K) k (v : V) r j :
  get O ((k, v) :: r) j = if o_eqb O j k then Some v else get O r j.
Proof. reflexivity. Qed.
Lemma ordNN_eqb (a b c d : N) : o_eqb ordNN (a, b) (c, d) = (a =? c) && (b =? d).
Proof. reflexivity. Qed.

Lemma rebuild_get (l : amap (N * N) allowance) : forall (acc : amap (N * N) allowance),
  sorted ordNN l -> forall o s,
  get ordNN (fold_left (fun acc kv => set ordNN acc (snd (fst kv), fst (fst kv)) (snd kv)) l acc) (s, o) =
  match get ordNN l (o, s) with Some v => Some v | None => get ordNN acc (s, o) end.
Proof.
  induction l as [|[[o1 s1] v1] r IH]; intros acc Hs o s; cbn [fold_left fst snd].
  - reflexivity.
  - inversion Hs as [|k v r' Ha Hs' Heq]. subst.
    rewrite IH by exact Hs'. rewrite get_cons, ordNN_eqb.
    destruct (o =? o1) eqn:Eo; [destruct (s =? s1) eqn:Es|]; cbn [andb].
    + apply N.eqb_eq in Eo, Es. subst. rewrite (above_get_none ordNN _ _ Ha). apply get_set_eq.
    + apply N.eqb_neq in Es. rewrite get_set_neq by congruence. reflexivity.
    + apply N.eqb_neq in Eo. rewrite get_set_neq by congruence. reflexivity.
Qed.

Lemma rebuild_sorted (l : amap (N * N) allowance) : forall (acc : amap (N * N) allowance), sorted ordNN acc ->
  sorted ordNN (fold_left (fun acc kv => set ordNN acc (snd (fst kv), fst (fst kv)) (snd kv)) l acc).
Proof.
  induction l as [|kv r IH]; intros acc Hs; cbn [fold_left]; [exact Hs|].
  apply IH. apply set_sorted. exact Hs.
Qed.

Theorem migrate_legacy_inv19 st blk sender :
  sorted ordNN (allow st) ->
  exists st', step (downgrade st) blk sender Migrate = Ok (st', []) /\ Inv19 st'.
Proof.
  intros HA. cbn [step downgrade ver_old set_ver_old].
  eexists. split; [reflexivity|]. unfold Inv19. cbn. unfold rebuild_sp. cbn.
  repeat split.
  - exact HA.
  - apply rebuild_sorted. constructor.
  - intros o s. rewrite rebuild_get by exact HA.
    destruct (get ordNN (allow st) (o, s)); reflexivity.
Qed.

(* the whole life of a token that was once a pre-0.14 one: any history, the upgrade, any history *)
Theorem lifecycle19 m st cs1 blk sender cs2 : instantiate m = Ok st ->
  exists st2, step (downgrade (run st cs1)) blk sender Migrate = Ok (st2, []) /\ Inv19 (run st2 cs2).
Proof.
  intros H. destruct (reachable_inv19 m st cs1 H) as (HA & _).
  destruct (migrate_legacy_inv19 (run st cs1) blk sender HA) as (st2 & Hm & Hi).
  exists st2. split; [exact Hm|]. apply run_invariant; [|exact Hi].
  intros. eapply step_inv19; eassumption.
Qed.
