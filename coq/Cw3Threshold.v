(* Cw3Threshold.v — model F2: packages/cw3/src/proposal.rs (votes_needed, Votes, is_passed,
   is_rejected, current_status) and cw-utils Threshold::validate.
   Transliteration: same order of checks, same arithmetic; None = the Rust code panics. *)
Require Import CwPlus.Params CwPlus.Base.
Open Scope N_scope.

Definition PF : N := precision_factor.            (* PRECISION_FACTOR, re-read from the source *)
Definition DEN : N := 1000000000000000000.        (* Decimal::DECIMAL_FRACTIONAL = 10^18 *)

(* Decimal = its atomics over DEN *)
Inductive threshold :=
| AbsCount (weight : N)
| AbsPct (percentage : N)
| ThQuorum (thr quorum : N).

Record votes := mkVotes { yes : N; no : N; abstain : N; veto : N }.

Inductive status := Pending | Open | Rejected | Passed | Executed.
Definition status_eqb (a b : status) : bool :=
  match a, b with
  | Pending, Pending | Open, Open | Rejected, Rejected | Passed, Passed | Executed, Executed => true
  | _, _ => false
  end.

Inductive vote := VYes | VNo | VAbstain | VVeto.

(* Votes::total — plain u64 additions *)
Definition votes_total (v : votes) : option N :=
  do a <- add64 (yes v) (no v); do b <- add64 a (abstain v); add64 b (veto v).

Definition add_vote (v : votes) (x : vote) (w : N) : option votes :=
  match x with
  | VYes => do y <- add64 (yes v) w; Some (mkVotes y (no v) (abstain v) (veto v))
  | VNo => do y <- add64 (no v) w; Some (mkVotes (yes v) y (abstain v) (veto v))
  | VAbstain => do y <- add64 (abstain v) w; Some (mkVotes (yes v) (no v) y (veto v))
  | VVeto => do y <- add64 (veto v) w; Some (mkVotes (yes v) (no v) (abstain v) y)
  end.

(* fn votes_needed(weight: u64, percentage: Decimal) -> u64
     let applied = Uint128::new(PRECISION_FACTOR * weight as u128).mul_floor(percentage);
     ((applied.u128() + PRECISION_FACTOR - 1) / PRECISION_FACTOR) as u64
   mul_floor = full_mul (256 bit) / 10^18, then try_into Uint128 (panics when it does not fit). *)
Definition votes_needed (weight p : N) : option N :=
  let scaled := PF * weight in
  if u128max <? scaled then None else
  let applied := (scaled * p) / DEN in
  if u128max <? applied then None else
  do s <- add128 applied PF;
  Some (((s - 1) / PF) mod two64).

(* Decimal::one() - p : panics on underflow *)
Definition one_minus (p : N) : option N := sub128 DEN p.

(* Proposal::is_passed (with the zero-Yes guard of the D1 repair) *)
Definition is_passed (th : threshold) (total_weight : N) (v : votes) (expired : bool) : option bool :=
  if yes v =? 0 then Some false else
  match th with
  | AbsCount w => Some (w <=? yes v)
  | AbsPct p =>
      do base <- sub64 total_weight (abstain v);
      do n <- votes_needed base p;
      Some (n <=? yes v)
  | ThQuorum t q =>
      do tot <- votes_total v;
      do qn <- votes_needed total_weight q;
      if tot <? qn then Some false else
      if expired then
        do tot2 <- votes_total v;
        do opinions <- sub64 tot2 (abstain v);
        do n <- votes_needed opinions t;
        Some (n <=? yes v)
      else
        do possible <- sub64 total_weight (abstain v);
        do n <- votes_needed possible t;
        Some (n <=? yes v)
  end.

(* Proposal::is_rejected (with the saturating subtraction of the D8 repair) *)
Definition is_rejected (th : threshold) (total_weight : N) (v : votes) (expired : bool) : option bool :=
  match th with
  | AbsCount w => Some (total_weight - w <? no v)      (* N subtraction saturates at 0 *)
  | AbsPct p =>
      do base <- sub64 total_weight (abstain v);
      do q <- one_minus p;
      do n <- votes_needed base q;
      Some (n <? no v)
  | ThQuorum t _ =>
      if expired then
        do tot <- votes_total v;
        do opinions <- sub64 tot (abstain v);
        do q <- one_minus t;
        do n <- votes_needed opinions q;
        Some (n <? no v)
      else
        do possible <- sub64 total_weight (abstain v);
        do q <- one_minus t;
        do n <- votes_needed possible q;
        Some (n <? no v)
  end.

(* Proposal::current_status; `&&` and `||` short-circuit exactly as in the Rust *)
Definition current_status (st : status) (th : threshold) (total_weight : N) (v : votes)
           (expired : bool) : option status :=
  do st1 <- (if status_eqb st Open then
               do p <- is_passed th total_weight v expired;
               Some (if p then Passed else st)
             else Some st);
  if status_eqb st1 Open then
    do r <- is_rejected th total_weight v expired;
    Some (if r || expired then Rejected else st1)
  else Some st1.

(* cw_utils::Threshold::validate *)
Definition valid_pct (p : N) : bool := (p <=? DEN) && (DEN / 2 <=? p).
Definition valid_quorum (q : N) : bool := negb (q =? 0) && (q <=? DEN).
Definition threshold_validate (th : threshold) (total_weight : N) : bool :=
  match th with
  | AbsCount w => negb (w =? 0) && (w <=? total_weight)
  | AbsPct p => valid_pct p
  | ThQuorum t q => valid_pct t && valid_quorum q
  end.

(* the rule as far as the arithmetic theorems need it: percentages in range; the AbsoluteCount
   weight is arbitrary (count > total is reachable in flex when the group shrinks) *)
Definition threshold_wf (th : threshold) : bool :=
  match th with
  | AbsCount _ => true
  | AbsPct p => valid_pct p
  | ThQuorum t q => valid_pct t && valid_quorum q
  end.

(* ---------------------------------------------------------------------------------------- *)
(* Specification side (exact arithmetic, no division): the documented formulas of
   cw_utils::ThresholdResponse, with the required Yes weight rounded up:
   y >= ceil(p * w)  <=>  y * 10^18 >= p_atomics * w. *)

Definition tally (v : votes) : N := yes v + no v + abstain v + veto v.

Definition spec_pass_expired (th : threshold) (total_weight : N) (v : votes) : bool :=
  (0 <? yes v) &&
  match th with
  | AbsCount w => w <=? yes v
  | AbsPct p => p * (total_weight - abstain v) <=? yes v * DEN
  | ThQuorum t q =>
      (q * total_weight <=? tally v * DEN) && (t * (tally v - abstain v) <=? yes v * DEN)
  end.

(* v' is a completion of v: componentwise at least v, still within the total *)
Definition completes (total_weight : N) (v v' : votes) : Prop :=
  yes v <= yes v' /\ no v <= no v' /\ abstain v <= abstain v' /\ veto v <= veto v' /\
  tally v' <= total_weight.
