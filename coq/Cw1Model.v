(* Cw1Model.v — model F4: contracts/cw1-whitelist and contracts/cw1-subkeys (contract.rs, state.rs)
   together with cw-utils' NativeBalance as the code uses it (first-match find, sorted insert,
   removal at zero, sub_saturating).  Transliteration of the handlers. *)
Require Import CwPlus.Params CwPlus.Base CwPlus.AMap.
Open Scope N_scope.

Notation addr := N (only parsing).
Notation denom := N (only parsing).     (* ids of the denom pool, in string order *)
Definition aarg := option N.
Definition coin := (N * N)%type.        (* (denom, amount) *)

(* ---- cw_utils::NativeBalance over Vec<Coin> ---- *)
Definition nbal := list coin.

Fixpoint nb_find (b : nbal) (d : denom) : option N :=      (* amount of the first coin of denom d *)
  match b with
  | [] => None
  | (d', a) :: r => if d' =? d then Some a else nb_find r d
  end.

(* replace the amount of the first coin of denom d *)
Fixpoint nb_set (b : nbal) (d : denom) (x : N) : nbal :=
  match b with
  | [] => []
  | (d', a) :: r => if d' =? d then (d', x) :: r else (d', a) :: nb_set r d x
  end.
(* remove the first coin of denom d *)
Fixpoint nb_remove (b : nbal) (d : denom) : nbal :=
  match b with
  | [] => []
  | (d', a) :: r => if d' =? d then r else (d', a) :: nb_remove r d
  end.
(* insert at the first position whose denom is >= d, else append *)
Fixpoint nb_insert (b : nbal) (d : denom) (x : N) : nbal :=
  match b with
  | [] => [(d, x)]
  | (d', a) :: r => if d <=? d' then (d, x) :: (d', a) :: r else (d', a) :: nb_insert r d x
  end.

(* Sub<Coin>: checked; removes the coin when the remainder is 0; Err when the denom is absent *)
Definition nb_sub (b : nbal) (c : coin) : option nbal :=
  match nb_find b (fst c) with
  | Some a => if snd c <=? a then
                (if a - snd c =? 0 then Some (nb_remove b (fst c)) else Some (nb_set b (fst c) (a - snd c)))
              else None
  | None => None
  end.
Fixpoint nb_sub_all (b : nbal) (cs : list coin) : option nbal :=
  match cs with
  | [] => Some b
  | c :: r => match nb_sub b c with Some b' => nb_sub_all b' r | None => None end
  end.
(* sub_saturating *)
Definition nb_sub_sat (b : nbal) (c : coin) : option nbal :=
  match nb_find b (fst c) with
  | Some a => if a <=? snd c then Some (nb_remove b (fst c)) else Some (nb_set b (fst c) (a - snd c))
  | None => None
  end.
(* AddAssign<Coin>: Uint128 `+` panics on overflow *)
Definition nb_add (b : nbal) (c : coin) : result nbal :=
  match nb_find b (fst c) with
  | Some a => match add128 a (snd c) with
              | Some s => Ok (nb_set b (fst c) s)
              | None => Abort
              end
  | None => Ok (nb_insert b (fst c) (snd c))
  end.
Definition nb_is_empty (b : nbal) : bool := forallb (fun c => snd c =? 0) b.

(* ---- state ---- *)
Record allowance := mkAllow { a_bal : nbal; a_exp : expiration }.
Definition allow_default : allowance := mkAllow [] Never.
Record perms := mkPerm { p_delegate : bool; p_redelegate : bool; p_undelegate : bool; p_withdraw : bool }.
Definition perm_default : perms := mkPerm false false false false.

Record state := mkSt {
  subkeys : bool;                       (* false: cw1-whitelist, true: cw1-subkeys *)
  admins : list addr;                   (* AdminList.admins: order and duplicates as stored *)
  mutable_ : bool;                      (* AdminList.mutable *)
  allowances : amap addr allowance;     (* ALLOWANCES *)
  permissions : amap addr perms         (* PERMISSIONS *)
}.
Definition set_admins st a := mkSt (subkeys st) a (mutable_ st) (allowances st) (permissions st).
Definition set_mutable st m := mkSt (subkeys st) (admins st) m (allowances st) (permissions st).
Definition set_allowances st a := mkSt (subkeys st) (admins st) (mutable_ st) a (permissions st).
Definition set_permissions st p := mkSt (subkeys st) (admins st) (mutable_ st) (allowances st) p.

Definition is_admin (st : state) (a : addr) : bool := existsb (fun x => x =? a) (admins st).
Definition can_modify (st : state) (a : addr) : bool := mutable_ st && is_admin st a.

(* ---- messages a proxy is asked to relay (CosmosMsg) ---- *)
Inductive cmsg :=
| BankSend (to : N) (amount : list coin)
| BankBurn (amount : list coin)
| Delegate | Undelegate | Redelegate
| SetWithdrawAddress | WithdrawReward
| OtherMsg (tag : N).      (* wasm, ibc, gov, stargate/any, custom, ... *)

Inductive op :=
| Execute (msgs : list cmsg)
| Freeze
| UpdateAdmins (l : list aarg)
| IncreaseAllowance (spender : aarg) (c : coin) (e : option expiration)
| DecreaseAllowance (spender : aarg) (c : coin) (e : option expiration)
| SetPermissions (spender : aarg) (p : perms).

Definition validate (a : aarg) : result N := match a with Some x => Ok x | None => Err end.
Fixpoint map_validate (l : list aarg) : result (list N) :=
  match l with
  | [] => Ok []
  | a :: r => dor x <- validate a; dor xs <- map_validate r; Ok (x :: xs)
  end.

Definition check_staking (m : cmsg) (p : perms) : bool :=
  match m with
  | Delegate => p_delegate p
  | Undelegate => p_undelegate p
  | Redelegate => p_redelegate p
  | _ => false
  end.
Definition check_distribution (m : cmsg) (p : perms) : bool :=
  match m with
  | SetWithdrawAddress | WithdrawReward => p_withdraw p
  | _ => false
  end.

(* the per-message check of a non-admin caller in cw1-subkeys::execute_execute; bank sends
   update the stored allowance, so the state is threaded *)
Definition check_msg (st : state) (blk : block) (sender : addr) (m : cmsg) : result state :=
  match m with
  | Delegate | Undelegate | Redelegate =>
      match get ordN (permissions st) sender with
      | None => Err
      | Some p => if check_staking m p then Ok st else Err
      end
  | SetWithdrawAddress | WithdrawReward =>
      match get ordN (permissions st) sender with
      | None => Err
      | Some p => if check_distribution m p then Ok st else Err
      end
  | BankSend _ amount =>
      match get ordN (allowances st) sender with
      | None => Err
      | Some a =>
          if is_expired (a_exp a) blk then Err else
          match nb_sub_all (a_bal a) amount with
          | None => Err
          | Some b' => Ok (set_allowances st (set ordN (allowances st) sender (mkAllow b' (a_exp a))))
          end
      end
  | _ => Err
  end.

Fixpoint check_msgs (st : state) (blk : block) (sender : addr) (ms : list cmsg) : result state :=
  match ms with
  | [] => Ok st
  | m :: r => dor st1 <- check_msg st blk sender m; check_msgs st1 blk sender r
  end.

(* one handler call: new state and relayed messages *)
Definition step (st : state) (blk : block) (sender : addr) (o : op) : result (state * list cmsg) :=
  match o with
  | Execute msgs =>
      if is_admin st sender then Ok (st, msgs)
      else if subkeys st then (dor st1 <- check_msgs st blk sender msgs; Ok (st1, msgs))
      else Err
  | Freeze =>
      if can_modify st sender then Ok (set_mutable st false, []) else Err
  | UpdateAdmins l =>
      if can_modify st sender then (dor xs <- map_validate l; Ok (set_admins st xs, [])) else Err
  | IncreaseAllowance sp c e =>
      if negb (subkeys st) then Err else
      if negb (is_admin st sender) then Err else
      dor s <- validate sp;
      if s =? sender then Err else
      let cur := get ordN (allowances st) s in
      let prev_expires := match cur with Some a => a_exp a | None => Never end in
      let base := match cur with
                  | Some a => if is_expired (a_exp a) blk then allow_default else a
                  | None => allow_default
                  end in
      dor ex <- (match e with
                 | Some x => if is_expired x blk then Err else Ok x
                 | None => if is_expired prev_expires blk then Err else Ok (a_exp base)
                 end);
      dor b' <- nb_add (a_bal base) c;
      Ok (set_allowances st (set ordN (allowances st) s (mkAllow b' ex)), [])
  | DecreaseAllowance sp c e =>
      if negb (subkeys st) then Err else
      if negb (is_admin st sender) then Err else
      dor s <- validate sp;
      if s =? sender then Err else
      match get ordN (allowances st) s with
      | None => Err
      | Some a =>
          if is_expired (a_exp a) blk then Err else
          dor ex <- (match e with
                     | Some x => if is_expired x blk then Err else Ok x
                     | None => Ok (a_exp a)
                     end);
          match nb_sub_sat (a_bal a) c with
          | None => Err
          | Some b' =>
              if nb_is_empty b' then Ok (set_allowances st (remove ordN (allowances st) s), [])
              else Ok (set_allowances st (set ordN (allowances st) s (mkAllow b' ex)), [])
          end
      end
  | SetPermissions sp p =>
      if negb (subkeys st) then Err else
      if negb (is_admin st sender) then Err else
      dor s <- validate sp;
      if s =? sender then Err else
      Ok (set_permissions st (set ordN (permissions st) s p), [])
  end.

(* the CanExecute query: cw1-whitelist ignores the message; cw1-subkeys::can_execute *)
Definition can_execute (st : state) (blk : block) (sender : addr) (m : cmsg) : bool :=
  if is_admin st sender then true
  else if negb (subkeys st) then false
  else match m with
       | BankSend _ amount =>
           match get ordN (allowances st) sender with
           | Some a => negb (is_expired (a_exp a) blk) &&
                       match nb_sub_all (a_bal a) amount with Some _ => true | None => false end
           | None => false
           end
       | Delegate | Undelegate | Redelegate =>
           match get ordN (permissions st) sender with Some p => check_staking m p | None => false end
       | SetWithdrawAddress | WithdrawReward =>
           match get ordN (permissions st) sender with Some p => check_distribution m p | None => false end
       | _ => false
       end.

Record init_msg := mkInit { i_subkeys : bool; i_admins : list aarg; i_mutable : bool }.
Definition instantiate (m : init_msg) : result state :=
  dor xs <- map_validate (i_admins m);
  Ok (mkSt (i_subkeys m) xs (i_mutable m) [] []).

(* a transaction: the handler, then the chain dispatches the relayed messages; if one of them
   fails the whole call is rolled back (chain atomicity). dispatch_ok is the environment's answer. *)
Definition tx (st : state) (blk : block) (sender : addr) (o : op) (dispatch_ok : bool)
  : state * bool * list cmsg :=
  match step st blk sender o with
  | Ok (st', ms) => if dispatch_ok then (st', true, ms) else (st, false, [])
  | _ => (st, false, [])
  end.

(* ---- queries ---- *)
Definition q_allowance (st : state) (blk : block) (s : addr) : allowance :=
  match get ordN (allowances st) s with
  | Some a => if is_expired (a_exp a) blk then allow_default else a
  | None => allow_default
  end.
Definition q_all_allowances (st : state) (blk : block) : list (addr * allowance) :=
  filter (fun kv => negb (is_expired (a_exp (snd kv)) blk)) (allowances st).
Definition q_permissions (st : state) (s : addr) : perms :=
  match get ordN (permissions st) s with Some p => p | None => perm_default end.
