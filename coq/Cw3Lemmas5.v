(* Cw3Lemmas5.v — C03 / C05 over whole histories, with the range condition discharged:
   - cw3-fixed: from instantiate, over every history of handler calls with blocks not going backwards,
     every stored proposal is in range and its latched status is justified, hence every status a
     query reports at any later block is the outcome the ballots imply;
   - cw3-flex with its cw4 group (both models), over every interleaving of multisig and group calls
     outside the known class D3: the same. *)
Require Import CwPlus.Params CwPlus.Base CwPlus.AMap CwPlus.Cw3Threshold CwPlus.Cw3ThresholdLemmas
  CwPlus.Cw4Model CwPlus.Cw4Snap CwPlus.Cw4Lemmas CwPlus.Cw3Model CwPlus.Cw3Lemmas CwPlus.Cw3Lemmas2
  CwPlus.Cw3Lemmas3 CwPlus.Cw3Lemmas4.
Open Scope N_scope.

Lemma validate_wf th T : threshold_validate th T = true -> threshold_wf th = true.
Proof. destruct th as [w|p|t q]; cbn [threshold_validate threshold_wf]; auto. Qed.

Lemma block_le_refl b : block_le b b.
Proof. split; lia. Qed.
Lemma block_le_trans a b c : block_le a b -> block_le b c -> block_le a c.
Proof. intros [A1 A2] [B1 B2]. split; lia. Qed.

(* ---------------------------------------------------------------------------------------- *)
(* the rule of every proposal is a validated one and its total fits u64 *)
Definition WfInv (ms : mstate) : Prop :=
  threshold_wf (cfg_threshold ms) = true /\ (flex ms = false -> cfg_total ms <= u64max) /\
  forall id p, getp ms id = Some p -> threshold_wf (p_threshold p) = true /\ p_total p <= u64max.

Lemma wf_step ms gv blk sender o ms' out : MInv ms -> WfInv ms -> (flex ms = true -> g_total gv <= u64max) ->
  step ms gv blk sender o = Ok (ms', out) -> WfInv ms'.
Proof.
  intros HI (W1 & W2 & W3) Hg Hst.
  destruct (step_frame _ _ _ _ _ _ _ HI Hst) as ((Ef & _ & Et & Eth & _) & _).
  split; [rewrite Eth; exact W1|]. split; [rewrite Ef, Et; exact W2|].
  intros id q Gq.
  destruct o as [title msgs latest funds|vid v|xid|cid]; cbn [step] in Hst.
  - destruct (propose_spec _ _ _ _ _ _ _ _ _ _ Hst) as (power & mx & ex & st0 & nid & _ & _ & _ & _ & _ & Hz).
    cbv zeta in Hz. destruct Hz as (_ & _ & E). subst ms'.
    unfold getp in Gq. cbn [proposals] in Gq. destruct (N.eq_dec id nid) as [->|Hn].
    + rewrite get_set_eq in Gq. inversion Gq; subst q; clear Gq. cbn [with_status p_threshold p_total].
      split; [exact W1|]. destruct (flex ms) eqn:F; [apply Hg; reflexivity|apply W2; reflexivity].
    + rewrite get_set_neq in Gq by exact Hn. fold (getp ms id) in Gq. apply (W3 _ _ Gq).
  - destruct (vote_spec _ _ _ _ _ _ _ _ Hst) as (p0 & w & vs & st0 & Gp0 & _ & _ & _ & _ & _ & _ & _ & Hz).
    cbv zeta in Hz. destruct Hz as (_ & E). subst ms'.
    destruct (N.eq_dec id vid) as [->|Hn].
    + rewrite getp_set_eq in Gq. inversion Gq; subst q; clear Gq. cbn [with_status p_threshold p_total]. apply (W3 _ _ Gp0).
    + rewrite getp_set_neq in Gq by exact Hn. apply (W3 _ _ Gq).
  - destruct (execute_spec _ _ _ _ _ _ _ Hst) as (p0 & Gp0 & _ & _ & _ & E). subst ms'.
    destruct (N.eq_dec id xid) as [->|Hn].
    + rewrite getp_set_eq in Gq. inversion Gq; subst q; clear Gq. cbn [with_status p_threshold p_total]. apply (W3 _ _ Gp0).
    + rewrite getp_set_neq in Gq by exact Hn. apply (W3 _ _ Gq).
  - destruct (close_spec _ _ _ _ _ Hst) as (p0 & st0 & Gp0 & _ & _ & _ & _ & _ & E). subst ms'.
    destruct (N.eq_dec id cid) as [->|Hn].
    + rewrite getp_set_eq in Gq. inversion Gq; subst q; clear Gq. cbn [with_status p_threshold p_total]. apply (W3 _ _ Gp0).
    + rewrite getp_set_neq in Gq by exact Hn. apply (W3 _ _ Gq).
Qed.

Lemma instantiate_wf m gv ms : instantiate m gv = Ok ms -> WfInv ms.
Proof.
  intros Hi. destruct (instantiate_inv _ _ _ Hi) as [HI Hc].
  assert (X: threshold_wf (cfg_threshold ms) = true /\ (flex ms = false -> cfg_total ms <= u64max)).
  { unfold instantiate in Hi. destruct (i_flex m).
    - destruct (negb (i_group_ok m)); [discriminate|].
      destruct (threshold_validate (i_threshold m) (g_total gv)) eqn:V; cbn [negb] in Hi; [|discriminate].
      destruct (match i_deposit m with Some d => d_amount d =? 0 | None => false end); [discriminate|].
      inversion Hi; subst ms. cbn [cfg_threshold flex]. split; [eapply validate_wf; exact V|discriminate].
    - destruct (i_voters m) as [|x r]; [discriminate|].
      destruct (u64max <? sumN (map snd (x :: r))) eqn:L; [discriminate|].
      destruct (threshold_validate (i_threshold m) (sumN (map snd (x :: r)))) eqn:V; cbn [negb] in Hi; [|discriminate].
      destruct (save_voters (x :: r) []); [|discriminate]. inversion Hi; subst ms. cbn [cfg_threshold flex cfg_total].
      apply N.ltb_ge in L. split; [eapply validate_wf; exact V|intros _; exact L]. }
  destruct X as [X1 X2]. split; [exact X1|]. split; [exact X2|].
  intros id p G. exfalso. pose proof (mi_ids _ HI _ _ G). lia.
Qed.

(* ---------------------------------------------------------------------------------------- *)
(* the latch invariant over a state: every proposal in range and its stored status justified at b *)
Definition LInv (ms : mstate) (b : block) : Prop :=
  forall id p, getp ms id = Some p -> prange p /\ latched_ok p b.

Lemma linv_time ms b b' : LInv ms b -> block_le b b' -> LInv ms b'.
Proof. intros H B id p G. destruct (H _ _ G) as [R L]. split; [exact R|eapply latched_time; eassumption]. Qed.

Lemma linv_step ms gv b0 b sender o ms' out : MInv ms -> LInv ms b0 -> block_le b0 b ->
  step ms gv b sender o = Ok (ms', out) -> (forall id q, getp ms' id = Some q -> prange q) -> LInv ms' b.
Proof.
  intros HI HL B Hst HR id q Gq. split; [apply (HR _ _ Gq)|].
  eapply latched_step; [exact HI|exact Hst|exact Gq|apply (HR _ _ Gq)|].
  intros j p Gp. apply (linv_time ms b0 b HL B _ _ Gp).
Qed.

(* what every query reports, given the invariant *)
Definition outcome_ok (p : proposal) (b : block) (s : status) : Prop :=
  let ps := pass_fn (p_threshold p) (p_total p) (p_votes p) (expired_at p b) in
  match s with
  | Passed => ps = true
  | Rejected => ps = false /\ (expired_at p b = true \/ rej_fn (p_threshold p) (p_total p) (p_votes p) false = true \/
                               rej_fn (p_threshold p) (p_total p) (p_votes p) (expired_at p b) = true)
  | Open => ps = false /\ expired_at p b = false
  | Executed => p_status p = Executed
  | Pending => False
  end.

Lemma linv_outcome ms b b' id p s : MInv ms -> LInv ms b -> block_le b b' -> getp ms id = Some p ->
  q_status ms b' id = Some s -> outcome_ok p b' s.
Proof.
  intros HI HL B G Q. destruct (linv_time ms b b' HL B _ _ G) as [R L].
  unfold q_status in Q. fold (getp ms id) in Q. rewrite G in Q.
  apply (status_is_outcome p b' s R L (pi_not_pending _ (mi_props _ HI _ _ G)) Q).
Qed.

(* ---------------------------------------------------------------------------------------- *)
(* cw3-fixed: histories with blocks not going backwards *)
Definition h_blk (c : hcall) : block := let '(_, blk, _, _) := c in blk.
Fixpoint hmono (b : block) (cs : list hcall) : Prop :=
  match cs with [] => True | c :: r => block_le b (h_blk c) /\ hmono (h_blk c) r end.
Fixpoint hlast (b : block) (cs : list hcall) : block :=
  match cs with [] => b | c :: r => hlast (h_blk c) r end.

Record XInv (ms : mstate) (b : block) : Prop := {
  x_m : MInv ms; x_flex : flex ms = false; x_f : Cw3Lemmas2.FInv ms; x_b : fixed_ballots_ok ms; x_w : WfInv ms; x_l : LInv ms b }.

Lemma fixed_prange ms : MInv ms -> Cw3Lemmas2.FInv ms -> fixed_ballots_ok ms -> WfInv ms ->
  forall id p, getp ms id = Some p -> prange p.
Proof.
  intros HI HF HB (_ & _ & W3) id p G. destruct (W3 _ _ G) as [T1 T2]. destruct (HB _ _ G) as [T W].
  split; [exact T1|]. split; [eapply fixed_ballots_le_total; eassumption|exact T2].
Qed.

Lemma xinv_step ms b c : XInv ms b -> block_le b (h_blk c) -> XInv (hstep ms c) (h_blk c).
Proof.
  intros [HI F HF HB HW HL] B. destruct (hstep_fixed ms c HI F HF HB) as (F' & HF' & HB').
  pose proof (hstep_inv ms c HI) as HI'.
  destruct c as [[[gv blk] sender] o]. cbn [h_blk] in *. unfold hstep in *.
  destruct (step ms gv blk sender o) as [[ms' out]| |] eqn:E.
  - assert (HW': WfInv ms') by (eapply wf_step; [exact HI|exact HW|intros X; congruence|exact E]).
    constructor; auto. eapply linv_step; [exact HI|exact HL|exact B|exact E|]. apply fixed_prange; assumption.
  - constructor; auto. apply (linv_time ms b blk HL B).
  - constructor; auto. apply (linv_time ms b blk HL B).
Qed.

Lemma xinv_run cs : forall ms b, XInv ms b -> hmono b cs -> XInv (hrun ms cs) (hlast b cs).
Proof.
  induction cs as [|c r IH]; intros ms b HX Hm; [exact HX|].
  cbn [hrun hlast]. destruct Hm as [B Hm]. apply IH; [apply (xinv_step ms b c HX B)|exact Hm].
Qed.

Lemma instantiate_xinv m gv ms b : instantiate m gv = Ok ms -> i_flex m = false -> XInv ms b.
Proof.
  intros Hi Hf. destruct (instantiate_fixed _ _ _ Hi Hf) as [HF F]. destruct (instantiate_inv _ _ _ Hi) as [HI Hc].
  constructor; auto.
  - intros id p G. exfalso. pose proof (mi_ids _ HI _ _ G). lia.
  - eapply instantiate_wf; exact Hi.
  - intros id p G. exfalso. pose proof (mi_ids _ HI _ _ G). lia.
Qed.

Theorem fixed_status_history m gv ms cs b0 b' id p s :
  instantiate m gv = Ok ms -> i_flex m = false -> hmono b0 cs -> block_le (hlast b0 cs) b' ->
  getp (hrun ms cs) id = Some p -> q_status (hrun ms cs) b' id = Some s ->
  p_votes p = tally_m (p_ballots p) /\ tally (p_votes p) <= p_total p /\ outcome_ok p b' s.
Proof.
  intros Hi Hf Hm B G Q. destruct (xinv_run cs ms b0 (instantiate_xinv _ _ _ b0 Hi Hf) Hm) as [HI F HF HB HW HL].
  split; [apply (pi_tally _ (mi_props _ HI _ _ G))|].
  split; [apply (proj1 (proj2 (fixed_prange _ HI HF HB HW _ _ G)))|].
  eapply linv_outcome; eassumption.
Qed.

(* ---------------------------------------------------------------------------------------- *)
(* cw3-flex with its group *)
Definition f_blk (c : fcall) : block := match c with FMs blk _ _ => blk | FGroup gc => c_blk gc end.
Fixpoint fbmono (b : block) (cs : list fcall) : Prop :=
  match cs with [] => True | c :: r => block_le b (f_blk c) /\ fbmono (f_blk c) r end.
Fixpoint flast (b : block) (cs : list fcall) : block :=
  match cs with [] => b | c :: r => flast (f_blk c) r end.

Lemma f_height_blk c : f_height c = height (f_blk c).
Proof. destruct c; reflexivity. Qed.

Lemma fbmono_fmono cs : forall b, fbmono b cs -> fmono (height b) cs.
Proof.
  induction cs as [|c r IH]; intros b H; [exact I|]. destruct H as [[B1 B2] H]. cbn [fmono].
  rewrite f_height_blk. split; [exact B1|apply IH; exact H].
Qed.

Record YInv (w : mstate * Cw4Model.state) (b : block) : Prop := {
  y_f : FInv w (height b); y_w : WfInv (fst w); y_l : LInv (fst w) b }.

Lemma flex_prange w top : FInv w top -> WfInv (fst w) -> forall id p, getp (fst w) id = Some p -> prange p.
Proof.
  intros [HM _ _ HP] (_ & _ & W3) id p G. destruct (W3 _ _ G) as [T1 T2]. destruct (HP _ _ G) as [_ (gh & Sn)].
  split; [exact T1|]. split; [eapply snap_in_range; [apply (mi_props _ HM _ _ G)|exact Sn]|exact T2].
Qed.

Lemma yinv_step w b c : YInv w b -> block_le b (f_blk c) ->
  (match c with FMs blk _ (Propose _ _ _ _) => unchanged_in_block (snd w) (height blk) | _ => True end) ->
  YInv (fstep w c) (f_blk c).
Proof.
  intros [HF HW HL] B Hd.
  assert (HF': FInv (fstep w c) (height (f_blk c))).
  { rewrite <- f_height_blk. apply (fstep_inv w (height b) c HF); [rewrite f_height_blk; apply B|exact Hd]. }
  destruct w as [ms g]. destruct c as [blk sender o|gc]; cbn [fstep f_blk fst snd] in *.
  - destruct (Cw3Model.step ms (gview_of g) blk sender o) as [[ms' out]| |] eqn:E.
    + assert (HW': WfInv ms').
      { eapply wf_step; [apply (fi_ms _ _ HF)|exact HW| |exact E].
        intros _. cbn [gview_of g_total]. destruct (fi_g _ _ HF) as [[_ _ _ It Iu] _]. cbn [snd] in It, Iu. rewrite It. exact Iu. }
      constructor; cbn [fst snd]; auto.
      eapply linv_step; [apply (fi_ms _ _ HF)|exact HL|exact B|exact E|].
      apply (flex_prange (ms', g) _ HF' HW').
    + constructor; cbn [fst snd]; auto. eapply linv_time; eassumption.
    + constructor; cbn [fst snd]; auto. eapply linv_time; eassumption.
  - constructor; cbn [fst snd]; auto. eapply linv_time; eassumption.
Qed.

Lemma yinv_run cs : forall w b, YInv w b -> fbmono b cs -> outside_d3 w cs -> YInv (frun w cs) (flast b cs).
Proof.
  induction cs as [|c r IH]; intros w b HY Hm Hd; [exact HY|].
  cbn [frun flast]. destruct Hm as [B Hm]. destruct Hd as [Hd1 Hd].
  apply IH; [apply (yinv_step w b c HY B Hd1)|exact Hm|exact Hd].
Qed.

Lemma flex_initial_y m gv ms g b : Cw3Model.instantiate m gv = Ok ms -> i_flex m = true ->
  Cw4Lemmas.WInv g (height b) -> YInv (ms, g) b.
Proof.
  intros Hi Hf HG. destruct (instantiate_inv _ _ _ Hi) as [HI Hc]. constructor; cbn [fst].
  - eapply flex_initial; eassumption.
  - eapply instantiate_wf; exact Hi.
  - intros id p G. exfalso. pose proof (mi_ids _ HI _ _ G). lia.
Qed.

Theorem flex_status_history m gv ms g cs b0 b' id p s :
  Cw3Model.instantiate m gv = Ok ms -> i_flex m = true -> Cw4Lemmas.WInv g (height b0) ->
  fbmono b0 cs -> outside_d3 (ms, g) cs -> block_le (flast b0 cs) b' ->
  getp (fst (frun (ms, g) cs)) id = Some p -> q_status (fst (frun (ms, g) cs)) b' id = Some s ->
  p_votes p = tally_m (p_ballots p) /\ tally (p_votes p) <= p_total p /\ outcome_ok p b' s.
Proof.
  intros Hi Hf HG Hm Hd B G Q.
  destruct (yinv_run cs (ms, g) b0 (flex_initial_y _ _ _ _ b0 Hi Hf HG) Hm Hd) as [HF HW HL].
  pose proof (fi_ms _ _ HF) as HI.
  split; [apply (pi_tally _ (mi_props _ HI _ _ G))|].
  split; [apply (proj1 (proj2 (flex_prange _ _ HF HW _ _ G)))|].
  eapply linv_outcome; eassumption.
Qed.

(* ---------------------------------------------------------------------------------------- *)
(* C05 over whole histories: what the queries report for one proposal at an earlier and at a later
   point of a history only moves forward *)
Definition good (ms : mstate) : Prop := MInv ms /\ forall id p, getp ms id = Some p -> prange p.

Inductive chain : mstate -> block -> mstate -> block -> Prop :=
| ch_nil ms b : chain ms b ms b
| ch_same ms b b1 ms' b' : block_le b b1 -> good ms -> chain ms b1 ms' b' -> chain ms b ms' b'
| ch_step ms b gv b1 sender o ms1 out ms' b' : block_le b b1 -> good ms -> good ms1 ->
    step ms gv b1 sender o = Ok (ms1, out) -> chain ms1 b1 ms' b' -> chain ms b ms' b'.

Lemma forward_trans a b c : forward a b = true -> forward b c = true -> forward a c = true.
Proof. destruct a, b, c; cbn; auto. Qed.

Lemma chain_forward ms b ms' b' : chain ms b ms' b' -> forall id p q s s' b'',
  good ms' -> getp ms id = Some p -> getp ms' id = Some q -> prop_status p b = Some s ->
  block_le b' b'' -> prop_status q b'' = Some s' -> forward s s' = true.
Proof.
  induction 1 as [ms b|ms b b1 ms' b' B [HI HR] Hc IH|ms b gv b1 sender o ms1 out ms' b' B [HI HR] [HI1 HR1] Hst Hc IH];
    intros id p q s s' b'' Hg' Gp Gq Es B' Es'.
  - rewrite Gp in Gq. inversion Gq; subst q; clear Gq. destruct Hg' as [HI HR].
    rewrite (prop_status_fn p b (HR _ _ Gp)) in Es. rewrite (prop_status_fn p b'' (HR _ _ Gp)) in Es'.
    inversion Es; inversion Es'; subst. apply untouched_forward; [apply (mi_props _ HI _ _ Gp)|apply (HR _ _ Gp)|exact B'].
  - pose proof (prop_status_fn p b1 (HR _ _ Gp)) as Em.
    apply (forward_trans s (status_fn (p_status p) (p_threshold p) (p_total p) (p_votes p) (is_expired (p_expires p) b1)) s').
    + rewrite (prop_status_fn p b (HR _ _ Gp)) in Es. inversion Es; subst.
      apply untouched_forward; [apply (mi_props _ HI _ _ Gp)|apply (HR _ _ Gp)|exact B].
    + eapply IH; eassumption.
  - destruct (step_frame _ _ _ _ _ _ _ HI Hst) as (_ & Fr). destruct (Fr _ _ Gp) as (q1 & Gq1 & _).
    pose proof (prop_status_fn q1 b1 (HR1 _ _ Gq1)) as Em.
    apply (forward_trans s (status_fn (p_status q1) (p_threshold q1) (p_total q1) (p_votes q1) (is_expired (p_expires q1) b1)) s').
    + eapply (status_moves_forward ms gv b b1 b1); [exact HI|exact Hst|exact Gp|exact Gq1|apply (HR _ _ Gp)|apply (HR1 _ _ Gq1)|exact B|apply block_le_refl|exact Es|exact Em].
    + eapply IH; eassumption.
Qed.

Lemma xinv_good ms b : XInv ms b -> good ms.
Proof. intros [HI F HF HB HW HL]. split; [exact HI|apply fixed_prange; assumption]. Qed.

Lemma xinv_chain cs : forall ms b, XInv ms b -> hmono b cs -> chain ms b (hrun ms cs) (hlast b cs).
Proof.
  induction cs as [|c r IH]; intros ms b HX Hm; [apply ch_nil|].
  cbn [hrun hlast]. destruct Hm as [B Hm]. pose proof (xinv_step ms b c HX B) as HX'.
  specialize (IH _ _ HX' Hm). destruct c as [[[gv blk] sender] o]. cbn [h_blk] in *. unfold hstep in *.
  destruct (step ms gv blk sender o) as [[ms1 out]| |] eqn:E.
  - eapply ch_step; [exact B|apply (xinv_good _ _ HX)|apply (xinv_good _ _ HX')|exact E|exact IH].
  - eapply ch_same; [exact B|apply (xinv_good _ _ HX)|exact IH].
  - eapply ch_same; [exact B|apply (xinv_good _ _ HX)|exact IH].
Qed.

Theorem fixed_forward_history m gv ms cs1 cs2 b0 bq bq' id p q s s' :
  instantiate m gv = Ok ms -> i_flex m = false -> hmono b0 cs1 -> block_le (hlast b0 cs1) bq -> hmono bq cs2 ->
  block_le (hlast bq cs2) bq' ->
  getp (hrun ms cs1) id = Some p -> getp (hrun (hrun ms cs1) cs2) id = Some q ->
  prop_status p bq = Some s -> prop_status q bq' = Some s' -> forward s s' = true.
Proof.
  intros Hi Hf Hm1 B1 Hm2 B2 Gp Gq Es Es'.
  pose proof (xinv_run cs1 ms b0 (instantiate_xinv _ _ _ b0 Hi Hf) Hm1) as HX.
  assert (HXq: XInv (hrun ms cs1) bq).
  { destruct HX as [HI F HF HB HW HL]. constructor; auto. eapply linv_time; eassumption. }
  pose proof (xinv_chain cs2 _ _ HXq Hm2) as Hc.
  eapply (chain_forward _ _ _ _ Hc); [apply (xinv_good _ _ (xinv_run cs2 _ _ HXq Hm2))|exact Gp|exact Gq|exact Es|exact B2|exact Es'].
Qed.

Lemma yinv_good w b : YInv w b -> good (fst w).
Proof. intros [HF HW HL]. split; [apply (fi_ms _ _ HF)|apply (flex_prange _ _ HF HW)]. Qed.

Lemma yinv_chain cs : forall w b, YInv w b -> fbmono b cs -> outside_d3 w cs ->
  chain (fst w) b (fst (frun w cs)) (flast b cs).
Proof.
  induction cs as [|c r IH]; intros w b HY Hm Hd; [apply ch_nil|].
  cbn [frun flast]. destruct Hm as [B Hm]. destruct Hd as [Hd1 Hd]. pose proof (yinv_step w b c HY B Hd1) as HY'.
  specialize (IH _ _ HY' Hm Hd). destruct w as [ms g]. destruct c as [blk sender o|gc]; cbn [fstep f_blk fst snd] in *.
  - destruct (Cw3Model.step ms (gview_of g) blk sender o) as [[ms1 out]| |] eqn:E.
    + eapply ch_step; [exact B|apply (yinv_good _ _ HY)|apply (yinv_good _ _ HY')|exact E|exact IH].
    + eapply ch_same; [exact B|apply (yinv_good _ _ HY)|exact IH].
    + eapply ch_same; [exact B|apply (yinv_good _ _ HY)|exact IH].
  - eapply ch_same; [exact B|apply (yinv_good _ _ HY)|exact IH].
Qed.

Theorem flex_forward_history m gv ms g cs1 cs2 b0 bq bq' id p q s s' :
  Cw3Model.instantiate m gv = Ok ms -> i_flex m = true -> Cw4Lemmas.WInv g (height b0) ->
  fbmono b0 cs1 -> outside_d3 (ms, g) (cs1 ++ cs2) ->
  block_le (flast b0 cs1) bq -> fbmono bq cs2 -> block_le (flast bq cs2) bq' ->
  getp (fst (frun (ms, g) cs1)) id = Some p -> getp (fst (frun (frun (ms, g) cs1) cs2)) id = Some q ->
  prop_status p bq = Some s -> prop_status q bq' = Some s' -> forward s s' = true.
Proof.
  intros Hi Hf HG Hm Hd B1 Hm2 B2 Gp Gq Es Es'.
  assert (Sd: forall cs w, outside_d3 w (cs ++ cs2) -> outside_d3 w cs /\ outside_d3 (frun w cs) cs2).
  { induction cs as [|c r IH]; intros w H; [split; [exact I|exact H]|]. destruct H as [X H].
    destruct (IH _ H) as [H1 H2]. split; [split; assumption|exact H2]. }
  destruct (Sd cs1 _ Hd) as [Hd1 Hd2].
  pose proof (yinv_run cs1 (ms, g) b0 (flex_initial_y _ _ _ _ b0 Hi Hf HG) Hm Hd1) as HY.
  assert (HYq: YInv (frun (ms, g) cs1) bq).
  { destruct HY as [HF HW HL]. constructor; auto.
    - destruct HF as [A1 A2 [A3 A4] A5]. constructor; auto.
      + split; [eapply Cw4Lemmas.Inv_mono; [exact A3|apply B1]|exact A4].
      + intros i pp G. destruct (A5 _ _ G) as [L X]. split; [destruct B1; lia|exact X].
    - eapply linv_time; eassumption. }
  pose proof (yinv_chain cs2 _ _ HYq Hm2 Hd2) as Hc.
  eapply (chain_forward _ _ _ _ Hc); [apply (yinv_good _ _ (yinv_run cs2 _ _ HYq Hm2 Hd2))|exact Gp|exact Gq|exact Es|exact B2|exact Es'].
Qed.

(* ---------------------------------------------------------------------------------------- *)
(* decidable forms of the side conditions, for concrete histories (non-vacuity examples) *)
Definition optN_eqb (a b : option N) : bool :=
  match a, b with Some x, Some y => x =? y | None, None => true | _, _ => false end.
Lemma optN_eqb_eq a b : optN_eqb a b = true -> a = b.
Proof. destruct a, b; cbn; try discriminate; auto. intros H. apply N.eqb_eq in H. congruence. Qed.

Definition unchanged_b (g : Cw4Model.state) (h : N) : bool :=
  forallb (fun e : N * snapv => optN_eqb (snap_at (snd e) h) (cur (snd e))) (members g).
Lemma unchanged_b_sound g h : unchanged_b g h = true -> unchanged_in_block g h.
Proof.
  unfold unchanged_b, unchanged_in_block. intros H a. unfold m_at, m_cur, getm.
  destruct (get ordN (members g) a) as [s|] eqn:E; [|reflexivity].
  rewrite forallb_forall in H. apply optN_eqb_eq. apply (H (a, s)). eapply get_in. exact E.
Qed.

Fixpoint outside_d3_b (w : mstate * Cw4Model.state) (cs : list fcall) : bool :=
  match cs with
  | [] => true
  | c :: r =>
      (match c with
       | FMs blk _ (Propose _ _ _ _) => unchanged_b (snd w) (height blk)
       | _ => true
       end) && outside_d3_b (fstep w c) r
  end.
Lemma outside_d3_b_sound cs : forall w, outside_d3_b w cs = true -> outside_d3 w cs.
Proof.
  induction cs as [|c r IH]; intros w H; [exact I|]. cbn [outside_d3_b] in H. apply andb_true_iff in H. destruct H as [H1 H2].
  split; [|apply IH; exact H2]. destruct c as [blk sender o|gc]; [|exact I]. destruct o; try exact I. apply unchanged_b_sound. exact H1.
Qed.

Definition block_leb (a b : block) : bool := (height a <=? height b) && (time a <=? time b).
Lemma block_leb_sound a b : block_leb a b = true -> block_le a b.
Proof. unfold block_leb. intros H. apply andb_true_iff in H. destruct H as [H1 H2]. apply N.leb_le in H1, H2. split; assumption. Qed.
Fixpoint fbmono_b (b : block) (cs : list fcall) : bool :=
  match cs with [] => true | c :: r => block_leb b (f_blk c) && fbmono_b (f_blk c) r end.
Lemma fbmono_b_sound cs : forall b, fbmono_b b cs = true -> fbmono b cs.
Proof.
  induction cs as [|c r IH]; intros b H; [exact I|]. cbn [fbmono_b] in H. apply andb_true_iff in H. destruct H as [H1 H2].
  split; [apply block_leb_sound; exact H1|apply IH; exact H2].
Qed.
Fixpoint hmono_b (b : block) (cs : list hcall) : bool :=
  match cs with [] => true | c :: r => block_leb b (h_blk c) && hmono_b (h_blk c) r end.
Lemma hmono_b_sound cs : forall b, hmono_b b cs = true -> hmono b cs.
Proof.
  induction cs as [|c r IH]; intros b H; [exact I|]. cbn [hmono_b] in H. apply andb_true_iff in H. destruct H as [H1 H2].
  split; [apply block_leb_sound; exact H1|apply IH; exact H2].
Qed.
