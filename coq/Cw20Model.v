(* Cw20Model.v — model F1: contracts/cw20-base (contract.rs, allowances.rs, enumerable.rs).
   Transliteration of the handlers: same order of checks and writes, same arithmetic
   (Uint128 `+` panics on overflow = Abort; checked_sub = Err), the two allowance maps are two
   maps updated by separate statements, exactly as in the Rust. *)
Require Import CwPlus.Params CwPlus.Base CwPlus.AMap.
Open Scope N_scope.

Notation addr := N (only parsing).
(* an address argument as submitted: Some a = a string that addr_validate accepts *)
Definition aarg := option addr.

Record allowance := mkAl { al_amt : N; al_exp : expiration }.
Definition al_default : allowance := mkAl 0 Never.
Definition al_eqb (a b : allowance) : bool := (al_amt a =? al_amt b) && exp_eqb (al_exp a) (al_exp b).

Record state := mkSt {
  balances : amap addr N;               (* BALANCES *)
  allow : amap (addr * addr) allowance; (* ALLOWANCES, key (owner, spender) *)
  allow_sp : amap (addr * addr) allowance; (* ALLOWANCES_SPENDER, key (spender, owner) *)
  supply : N;                           (* TOKEN_INFO.total_supply *)
  minter : option (addr * option N);    (* TOKEN_INFO.mint = (minter, cap) *)
  ver_old : bool                        (* stored cw2 version is older than 0.14.0 *)
}.

Definition set_balances st b := mkSt b (allow st) (allow_sp st) (supply st) (minter st) (ver_old st).
Definition set_allow st a := mkSt (balances st) a (allow_sp st) (supply st) (minter st) (ver_old st).
Definition set_allow_sp st a := mkSt (balances st) (allow st) a (supply st) (minter st) (ver_old st).
Definition set_supply st s := mkSt (balances st) (allow st) (allow_sp st) s (minter st) (ver_old st).
Definition set_minter st m := mkSt (balances st) (allow st) (allow_sp st) (supply st) m (ver_old st).
Definition set_ver_old st v := mkSt (balances st) (allow st) (allow_sp st) (supply st) (minter st) v.

Definition bal st (a : addr) : N := getd ordN (balances st) a.

(* Cw20ReceiveMsg sent to `contract`: (contract, sender, amount, payload) *)
Definition msg := (addr * addr * N * N)%type.

Inductive op :=
| Transfer (rcpt : aarg) (n : N)
| Burn (n : N)
| Send (contract : aarg) (n : N) (payload : N)
| Mint (rcpt : aarg) (n : N)
| IncreaseAllowance (spender : aarg) (n : N) (e : option expiration)
| DecreaseAllowance (spender : aarg) (n : N) (e : option expiration)
| TransferFrom (owner rcpt : aarg) (n : N)
| BurnFrom (owner : aarg) (n : N)
| SendFrom (owner contract : aarg) (n : N) (payload : N)
| UpdateMinter (new_minter : option aarg)
| Migrate
| Other.   (* UpdateMarketing / UploadLogo: never touch the state modelled here *)

Definition validate (a : aarg) : result addr := match a with Some x => Ok x | None => Err end.

(* BALANCES.update(k, |b| b.unwrap_or_default().checked_sub(n)) *)
Definition debit (b : amap addr N) (a : addr) (n : N) : result (amap addr N) :=
  match sub128 (getd ordN b a) n with
  | Some x => Ok (set ordN b a x)
  | None => Err
  end.
(* BALANCES.update(k, |b| b.unwrap_or_default() + n) : panics on overflow *)
Definition credit (b : amap addr N) (a : addr) (n : N) : result (amap addr N) :=
  match add128 (getd ordN b a) n with
  | Some x => Ok (set ordN b a x)
  | None => Abort
  end.

Definition move (st : state) (from to : addr) (n : N) : result state :=
  dor b1 <- debit (balances st) from n;
  dor b2 <- credit b1 to n;
  Ok (set_balances st b2).

(* the update_fn of execute_increase_allowance, applied to one map *)
Definition inc_update (blk : block) (cur : option allowance) (n : N) (e : option expiration)
  : result allowance :=
  let val := match cur with Some v => v | None => al_default end in
  dor val1 <- (match e with
               | Some ex => if is_expired ex blk then Err else Ok (mkAl (al_amt val) ex)
               | None => Ok val
               end);
  match add128 (al_amt val1) n with
  | Some x => Ok (mkAl x (al_exp val1))
  | None => Abort
  end.

(* the update_fn of deduct_allowance, applied to one map *)
Definition deduct_update (blk : block) (cur : option allowance) (n : N) : result allowance :=
  match cur with
  | Some a =>
      if is_expired (al_exp a) blk then Err
      else match sub128 (al_amt a) n with
           | Some x => Ok (mkAl x (al_exp a))
           | None => Err
           end
  | None => Err
  end.

Definition deduct_allowance (st : state) (blk : block) (owner spender : addr) (n : N) : result state :=
  dor a1 <- deduct_update blk (get ordNN (allow st) (owner, spender)) n;
  let st1 := set_allow st (set ordNN (allow st) (owner, spender) a1) in
  dor a2 <- deduct_update blk (get ordNN (allow_sp st1) (spender, owner)) n;
  Ok (set_allow_sp st1 (set ordNN (allow_sp st1) (spender, owner) a2)).

Definition burn_supply (st : state) (n : N) : result state :=
  match sub128 (supply st) n with
  | Some x => Ok (set_supply st x)
  | None => Err
  end.

(* migrate: rebuild the reverse map from ALLOWANCES when coming from < 0.14.0 *)
Definition rebuild_sp (st : state) : amap (addr * addr) allowance :=
  fold_left (fun acc kv => set ordNN acc (snd (fst kv), fst (fst kv)) (snd kv)) (allow st) (allow_sp st).

(* one handler call: new state and emitted messages *)
Definition step (st : state) (blk : block) (sender : addr) (o : op) : result (state * list msg) :=
  match o with
  | Transfer rcpt n =>
      dor r <- validate rcpt;
      dor st1 <- move st sender r n;
      Ok (st1, [])
  | Burn n =>
      dor b1 <- debit (balances st) sender n;
      dor st2 <- burn_supply (set_balances st b1) n;
      Ok (st2, [])
  | Send c n payload =>
      dor r <- validate c;
      dor st1 <- move st sender r n;
      Ok (st1, [(r, sender, n, payload)])
  | Mint rcpt n =>
      match minter st with
      | None => Err
      | Some (m, cap) =>
          if negb (m =? sender) then Err else
          match add128 (supply st) n with
          | None => Abort
          | Some s1 =>
              if (match cap with Some limit => limit <? s1 | None => false end) then Err else
              dor r <- validate rcpt;
              dor b1 <- credit (balances st) r n;
              Ok (set_balances (set_supply st s1) b1, [])
          end
      end
  | IncreaseAllowance sp n e =>
      dor s <- validate sp;
      if s =? sender then Err else
      dor a1 <- inc_update blk (get ordNN (allow st) (sender, s)) n e;
      let st1 := set_allow st (set ordNN (allow st) (sender, s) a1) in
      dor a2 <- inc_update blk (get ordNN (allow_sp st1) (s, sender)) n e;
      Ok (set_allow_sp st1 (set ordNN (allow_sp st1) (s, sender) a2), [])
  | DecreaseAllowance sp n e =>
      dor s <- validate sp;
      if s =? sender then Err else
      match get ordNN (allow st) (sender, s) with
      | None => Err
      | Some a =>
          if n <? al_amt a then
            dor ex <- (match e with
                       | Some ex => if is_expired ex blk then Err else Ok ex
                       | None => Ok (al_exp a)
                       end);
            let a1 := mkAl (al_amt a - n) ex in
            Ok (set_allow_sp (set_allow st (set ordNN (allow st) (sender, s) a1))
                             (set ordNN (allow_sp st) (s, sender) a1), [])
          else
            Ok (set_allow_sp (set_allow st (remove ordNN (allow st) (sender, s)))
                             (remove ordNN (allow_sp st) (s, sender)), [])
      end
  | TransferFrom owner rcpt n =>
      dor r <- validate rcpt;
      dor ow <- validate owner;
      dor st1 <- deduct_allowance st blk ow sender n;
      dor st2 <- move st1 ow r n;
      Ok (st2, [])
  | BurnFrom owner n =>
      dor ow <- validate owner;
      dor st1 <- deduct_allowance st blk ow sender n;
      dor b1 <- debit (balances st1) ow n;
      dor st2 <- burn_supply (set_balances st1 b1) n;
      Ok (st2, [])
  | SendFrom owner c n payload =>
      dor r <- validate c;
      dor ow <- validate owner;
      dor st1 <- deduct_allowance st blk ow sender n;
      dor st2 <- move st1 ow r n;
      Ok (st2, [(r, sender, n, payload)])
  | UpdateMinter nm =>
      match minter st with
      | None => Err
      | Some (m, cap) =>
          if negb (m =? sender) then Err else
          match nm with
          | None => Ok (set_minter st None, [])
          | Some a => dor x <- validate a; Ok (set_minter st (Some (x, cap)), [])
          end
      end
  | Migrate =>
      if ver_old st then Ok (set_ver_old (set_allow_sp st (rebuild_sp st)) false, [])
      else Ok (st, [])
  | Other => Ok (st, [])
  end.

(* instantiate: initial balances (addresses as submitted), optional minter and cap *)
Record init_msg := mkInit { i_balances : list (aarg * N); i_minter : option (aarg * option N) }.

Fixpoint has_dup_args (l : list (aarg * N)) : bool :=
  match l with
  | [] => false
  | (a, _) :: r => existsb (fun x => opt_eqb N.eqb (fst x) a) r || has_dup_args r
  end.

(* create_accounts: save each row, total_supply += amount (panics on overflow) *)
Fixpoint create_accounts (l : list (aarg * N)) (b : amap addr N) (tot : N) : result (amap addr N * N) :=
  match l with
  | [] => Ok (b, tot)
  | (a, n) :: r =>
      dor x <- validate a;
      match add128 tot n with
      | None => Abort
      | Some t1 => create_accounts r (set ordN b x n) t1
      end
  end.

Definition instantiate (m : init_msg) : result state :=
  if has_dup_args (i_balances m) then Err else
  dor bt <- create_accounts (i_balances m) [] 0;
  let '(b, tot) := bt in
  if (match i_minter m with Some (_, Some limit) => limit <? tot | _ => false end) then Err else
  dor mt <- (match i_minter m with
             | Some (a, cap) => dor x <- validate a; Ok (Some (x, cap))
             | None => Ok None
             end);
  Ok (mkSt b [] [] tot mt false).

(* a transaction = the handler plus the fate of the messages it emitted: the receiving
   contract of Send/SendFrom may fail, which rolls the whole call back (chain atomicity) *)
Definition tx (st : state) (blk : block) (sender : addr) (o : op) (recv_ok : bool)
  : state * bool * list msg :=
  match step st blk sender o with
  | Ok (st', ms) =>
      if (match ms with [] => true | _ => recv_ok end) then (st', true, ms) else (st, false, [])
  | _ => (st, false, [])
  end.

(* the legacy (pre-0.14) storage a migration starts from: no spender map, old version *)
Definition downgrade (st : state) : state := set_ver_old (set_allow_sp st []) true.

(* ---- queries ---- *)
Definition q_allowance (st : state) (o s : addr) : allowance :=
  match get ordNN (allow st) (o, s) with Some a => a | None => al_default end.
Definition q_owner_list (st : state) (o : addr) : list (addr * allowance) :=
  map (fun kv => (snd (fst kv), snd kv)) (filter (fun kv => fst (fst kv) =? o) (allow st)).
Definition q_spender_list (st : state) (s : addr) : list (addr * allowance) :=
  map (fun kv => (snd (fst kv), snd kv)) (filter (fun kv => fst (fst kv) =? s) (allow_sp st)).
Definition q_accounts (st : state) : list addr := keys (balances st).
