(* AMap.v — finite maps as strictly sorted association lists over an explicitly ordered key type
   (DESIGN.md section 4).  The key list of a map is directly the storage iteration order, which is
   what the list queries (C20) walk.  No axioms, no sections with variables: the order is a record. *)
Require Import CwPlus.Base.
Open Scope N_scope.

Record ord (K : Type) := mkOrd {
  o_ltb : K -> K -> bool;
  o_eqb : K -> K -> bool;
  o_eqb_eq : forall a b, o_eqb a b = true <-> a = b;
  o_lt_irrefl : forall a, o_ltb a a = false;
  o_lt_trans : forall a b c, o_ltb a b = true -> o_ltb b c = true -> o_ltb a c = true;
  o_total : forall a b, o_ltb a b = false -> o_eqb a b = false -> o_ltb b a = true }.
Arguments o_ltb {K} _ _ _.
Arguments o_eqb {K} _ _ _.
Arguments o_eqb_eq {K} _ _ _.
Arguments o_lt_irrefl {K} _ _.
Arguments o_lt_trans {K} _ _ _ _.
Arguments o_total {K} _ _ _.

Lemma o_eqb_refl {K} (O : ord K) a : o_eqb O a a = true.
Proof. apply o_eqb_eq. reflexivity. Qed.
Lemma o_eqb_neq {K} (O : ord K) a b : o_eqb O a b = false <-> a <> b.
Proof.
  split; intros H.
  - intros E. apply (o_eqb_eq O) in E. congruence.
  - destruct (o_eqb O a b) eqn:E; [|reflexivity]. apply o_eqb_eq in E. contradiction.
Qed.
Lemma o_eqb_sym {K} (O : ord K) a b : o_eqb O a b = o_eqb O b a.
Proof.
  destruct (o_eqb O a b) eqn:E.
  - apply o_eqb_eq in E. subst. symmetry. apply o_eqb_refl.
  - symmetry. apply o_eqb_neq. apply o_eqb_neq in E. congruence.
Qed.
Lemma o_lt_neq {K} (O : ord K) a b : o_ltb O a b = true -> a <> b.
Proof. intros H E. subst. rewrite o_lt_irrefl in H. discriminate. Qed.
Lemma o_lt_asym {K} (O : ord K) a b : o_ltb O a b = true -> o_ltb O b a = false.
Proof.
  intros H. destruct (o_ltb O b a) eqn:E; [|reflexivity].
  pose proof (o_lt_trans O _ _ _ H E) as C. rewrite o_lt_irrefl in C. discriminate.
Qed.

(* ---- the order on N and the lexicographic order on pairs ---- *)
Definition ordN : ord N.
Proof.
  refine (mkOrd N N.ltb N.eqb _ _ _ _).
  - intros a b. apply N.eqb_eq.
  - intros a. apply N.ltb_irrefl.
  - intros a b c H1 H2. apply N.ltb_lt in H1, H2. apply N.ltb_lt. lia.
  - intros a b H1 H2. apply N.ltb_ge in H1. apply N.eqb_neq in H2. apply N.ltb_lt. lia.
Defined.

Definition pair_ltb {A B} (OA : ord A) (OB : ord B) (x y : A * B) : bool :=
  o_ltb OA (fst x) (fst y) || (o_eqb OA (fst x) (fst y) && o_ltb OB (snd x) (snd y)).
Definition pair_eqb {A B} (OA : ord A) (OB : ord B) (x y : A * B) : bool :=
  o_eqb OA (fst x) (fst y) && o_eqb OB (snd x) (snd y).

Definition ordPair {A B} (OA : ord A) (OB : ord B) : ord (A * B).
Proof.
  refine (mkOrd (A * B) (pair_ltb OA OB) (pair_eqb OA OB) _ _ _ _).
  - intros [a1 b1] [a2 b2]. unfold pair_eqb. cbn [fst snd]. split.
    + intros H. apply andb_true_iff in H. destruct H as [H1 H2].
      apply o_eqb_eq in H1. apply o_eqb_eq in H2. subst. reflexivity.
    + intros H. inversion H; subst. rewrite !o_eqb_refl. reflexivity.
  - intros [a b]. unfold pair_ltb. cbn [fst snd]. rewrite !o_lt_irrefl, andb_false_r. reflexivity.
  - intros [a1 b1] [a2 b2] [a3 b3]. unfold pair_ltb. cbn [fst snd]. intros H1 H2.
    apply orb_true_iff in H1. apply orb_true_iff in H2. apply orb_true_iff.
    destruct H1 as [H1|H1], H2 as [H2|H2].
    + left. eapply o_lt_trans; eassumption.
    + apply andb_true_iff in H2. destruct H2 as [E _]. apply o_eqb_eq in E. subst. left. exact H1.
    + apply andb_true_iff in H1. destruct H1 as [E _]. apply o_eqb_eq in E. subst. left. exact H2.
    + apply andb_true_iff in H1. destruct H1 as [E1 L1]. apply andb_true_iff in H2. destruct H2 as [E2 L2].
      apply o_eqb_eq in E1. apply o_eqb_eq in E2. subst. right. rewrite o_eqb_refl. cbn [andb].
      eapply o_lt_trans; eassumption.
  - intros [a1 b1] [a2 b2]. unfold pair_ltb, pair_eqb. cbn [fst snd]. intros H1 H2.
    apply orb_false_iff in H1. destruct H1 as [L1 H1].
    destruct (o_eqb OA a1 a2) eqn:E.
    + apply o_eqb_eq in E. subst. cbn [andb] in *. rewrite o_eqb_refl. cbn [andb].
      apply orb_true_iff. right. apply o_total; assumption.
    + apply orb_true_iff. left. apply o_total; [exact L1|exact E].
Defined.

Definition ordNN : ord (N * N) := ordPair ordN ordN.

(* ---- maps ---- *)
Definition amap (K V : Type) := list (K * V).

Section Ops.
Context {K V : Type}.
Implicit Types (O : ord K) (m : amap K V).

Fixpoint get O m (k : K) : option V :=
  match m with
  | [] => None
  | (k', v) :: r => if o_eqb O k k' then Some v else get O r k
  end.

Fixpoint set O m (k : K) (v : V) : amap K V :=
  match m with
  | [] => [(k, v)]
  | (k', v') :: r =>
      if o_eqb O k k' then (k, v) :: r
      else if o_ltb O k k' then (k, v) :: (k', v') :: r
      else (k', v') :: set O r k v
  end.

Fixpoint remove O m (k : K) : amap K V :=
  match m with
  | [] => []
  | (k', v') :: r => if o_eqb O k k' then r else (k', v') :: remove O r k
  end.

Definition keys m : list K := map fst m.

Definition has O m (k : K) : bool := match get O m k with Some _ => true | None => false end.

(* every key of m is strictly above k *)
Definition above O (k : K) m : Prop := forall k' v', In (k', v') m -> o_ltb O k k' = true.

Inductive sorted O : amap K V -> Prop :=
| sorted_nil : sorted O []
| sorted_cons k v r : above O k r -> sorted O r -> sorted O ((k, v) :: r).

Lemma above_get_none O k m : above O k m -> get O m k = None.
Proof.
  induction m as [|[k' v'] r IH]; intros H; cbn [get]; [reflexivity|].
  assert (L: o_ltb O k k' = true) by (apply (H k' v'); left; reflexivity).
  rewrite (proj2 (o_eqb_neq O k k') (o_lt_neq O _ _ L)).
  apply IH. intros k2 v2 Hin. apply (H k2 v2). right. exact Hin.
Qed.

Lemma above_trans O k k' m : o_ltb O k k' = true -> above O k' m -> above O k m.
Proof. intros L H k2 v2 Hin. eapply o_lt_trans; [exact L|]. eapply H; eassumption. Qed.

Lemma get_set_eq O m k v : get O (set O m k v) k = Some v.
Proof.
  induction m as [|[k' v'] r IH]; cbn [set get].
  - rewrite o_eqb_refl. reflexivity.
  - destruct (o_eqb O k k') eqn:E; cbn [get]; [rewrite o_eqb_refl; reflexivity|].
    destruct (o_ltb O k k') eqn:L; cbn [get]; [rewrite o_eqb_refl; reflexivity|].
    rewrite E. exact IH.
Qed.

Lemma get_set_neq O m k v j : j <> k -> get O (set O m k v) j = get O m j.
Proof.
  intros Hne. apply (o_eqb_neq O) in Hne.
  induction m as [|[k' v'] r IH]; cbn [set get].
  - rewrite Hne. reflexivity.
  - destruct (o_eqb O k k') eqn:E; cbn [get].
    + apply o_eqb_eq in E. subst k'. rewrite Hne. reflexivity.
    + destruct (o_ltb O k k') eqn:L; cbn [get].
      * rewrite Hne. reflexivity.
      * destruct (o_eqb O j k'); [reflexivity|exact IH].
Qed.

Lemma in_set O m k v k2 v2 : In (k2, v2) (set O m k v) -> (k2 = k /\ v2 = v) \/ In (k2, v2) m.
Proof.
  induction m as [|[k' v'] r IH]; cbn [set]; intros H.
  - destruct H as [H|[]]. inversion H. left. split; reflexivity.
  - destruct (o_eqb O k k') eqn:E.
    + destruct H as [H|H]; [inversion H; left; split; reflexivity|right; right; exact H].
    + destruct (o_ltb O k k') eqn:L.
      * destruct H as [H|H]; [inversion H; left; split; reflexivity|right; exact H].
      * destruct H as [H|H]; [right; left; exact H|].
        destruct (IH H) as [H1|H1]; [left; exact H1|right; right; exact H1].
Qed.

Lemma set_sorted O m k v : sorted O m -> sorted O (set O m k v).
Proof.
  intros Hs. induction Hs as [|k' v' r Ha Hs IH]; cbn [set].
  - constructor; [intros ? ? []|constructor].
  - destruct (o_eqb O k k') eqn:E.
    + apply o_eqb_eq in E. subst k'. constructor; assumption.
    + destruct (o_ltb O k k') eqn:L.
      * constructor; [|constructor; assumption].
        intros k2 v2 [H|H]; [inversion H; subst; exact L|].
        eapply o_lt_trans; [exact L|]. eapply Ha. exact H.
      * constructor; [|exact IH].
        intros k2 v2 H. destruct (in_set O _ _ _ _ _ H) as [[H1 _]|H1].
        -- subst k2. apply o_total; [exact L|exact E].
        -- eapply Ha. exact H1.
Qed.

Lemma in_remove O m k k2 v2 : In (k2, v2) (remove O m k) -> In (k2, v2) m.
Proof.
  induction m as [|[k' v'] r IH]; cbn [remove]; intros H; [exact H|].
  destruct (o_eqb O k k'); [right; exact H|].
  destruct H as [H|H]; [left; exact H|right; apply IH; exact H].
Qed.

Lemma remove_sorted O m k : sorted O m -> sorted O (remove O m k).
Proof.
  intros Hs. induction Hs as [|k' v' r Ha Hs IH]; cbn [remove]; [constructor|].
  destruct (o_eqb O k k'); [exact Hs|].
  constructor; [|exact IH]. intros k2 v2 H. eapply Ha. eapply in_remove. exact H.
Qed.

Lemma get_remove_eq O m k : sorted O m -> get O (remove O m k) k = None.
Proof.
  intros Hs. induction Hs as [|k' v' r Ha Hs IH]; cbn [remove get]; [reflexivity|].
  destruct (o_eqb O k k') eqn:E.
  - apply o_eqb_eq in E. subst k'. apply above_get_none. exact Ha.
  - cbn [get]. rewrite E. exact IH.
Qed.

Lemma get_remove_neq O m k j : j <> k -> get O (remove O m k) j = get O m j.
Proof.
  intros Hne. apply (o_eqb_neq O) in Hne.
  induction m as [|[k' v'] r IH]; cbn [remove get]; [reflexivity|].
  destruct (o_eqb O k k') eqn:E.
  - apply o_eqb_eq in E. subst k'. rewrite Hne. reflexivity.
  - cbn [get]. destruct (o_eqb O j k'); [reflexivity|exact IH].
Qed.

Lemma get_in O m k v : get O m k = Some v -> In (k, v) m.
Proof.
  induction m as [|[k' v'] r IH]; cbn [get]; [discriminate|].
  destruct (o_eqb O k k') eqn:E.
  - intros H. inversion H; subst. apply o_eqb_eq in E. subst. left. reflexivity.
  - intros H. right. apply IH. exact H.
Qed.

Lemma in_get O m k v : sorted O m -> In (k, v) m -> get O m k = Some v.
Proof.
  intros Hs. induction Hs as [|k' v' r Ha Hs IH]; intros Hin; [destruct Hin|].
  cbn [get]. destruct Hin as [H|H].
  - inversion H; subst. rewrite o_eqb_refl. reflexivity.
  - assert (L: o_ltb O k' k = true) by (eapply Ha; exact H).
    rewrite (o_eqb_sym O k k').
    rewrite (proj2 (o_eqb_neq O k' k) (o_lt_neq O _ _ L)). apply IH. exact H.
Qed.

(* two sorted maps with the same lookups are equal *)
Lemma sorted_ext O m1 m2 : sorted O m1 -> sorted O m2 ->
  (forall k, get O m1 k = get O m2 k) -> m1 = m2.
Proof.
  intros H1. revert m2. induction H1 as [|k1 v1 r1 Ha1 Hs1 IH]; intros m2 H2 Hext.
  - destruct m2 as [|[k2 v2] r2]; [reflexivity|].
    specialize (Hext k2). cbn [get] in Hext. rewrite o_eqb_refl in Hext. discriminate.
  - destruct H2 as [|k2 v2 r2 Ha2 Hs2].
    + specialize (Hext k1). cbn [get] in Hext. rewrite o_eqb_refl in Hext. discriminate.
    + assert (Ek: k1 = k2).
      { pose proof (Hext k1) as E1. pose proof (Hext k2) as E2. cbn [get] in E1, E2.
        rewrite o_eqb_refl in E1, E2.
        destruct (o_eqb O k1 k2) eqn:E; [apply o_eqb_eq in E; exact E|].
        rewrite (o_eqb_sym O k2 k1), E in E2.
        symmetry in E1. apply get_in in E1. apply get_in in E2.
        pose proof (Ha2 _ _ E1) as L1. pose proof (Ha1 _ _ E2) as L2.
        rewrite (o_lt_asym O _ _ L1) in L2. discriminate. }
      subst k2.
      assert (Ev: v1 = v2).
      { pose proof (Hext k1) as E1. cbn [get] in E1. rewrite o_eqb_refl in E1. congruence. }
      subst v2. f_equal. apply IH; [exact Hs2|].
      intros k. pose proof (Hext k) as E. cbn [get] in E.
      destruct (o_eqb O k k1) eqn:Ek; [|exact E].
      apply o_eqb_eq in Ek. subst k.
      rewrite (above_get_none O _ _ Ha1), (above_get_none O _ _ Ha2). reflexivity.
Qed.

End Ops.

(* ---- sums of N-valued projections ---- *)
Section Sum.
Context {K V : Type}.
Context (f : V -> N).
Implicit Types (O : ord K) (m : amap K V).

Fixpoint sumf m : N := match m with [] => 0 | (_, v) :: r => f v + sumf r end.
Definition getf O m k : N := match get O m k with Some v => f v | None => 0 end.

Lemma sumf_set O m k v : sorted O m -> sumf (set O m k v) + getf O m k = sumf m + f v.
Proof.
  unfold getf. intros Hs. induction Hs as [|k' v' r Ha Hs IH]; cbn [set sumf get].
  - lia.
  - destruct (o_eqb O k k') eqn:E; cbn [sumf]; [lia|].
    destruct (o_ltb O k k') eqn:L; cbn [sumf].
    + assert (A: above O k r) by (eapply above_trans; eassumption).
      assert (G: get O r k = None) by (apply above_get_none; exact A).
      rewrite G. lia.
    + lia.
Qed.

Lemma sumf_remove O m k : sorted O m -> sumf (remove O m k) + getf O m k = sumf m.
Proof.
  unfold getf. intros Hs. induction Hs as [|k' v' r Ha Hs IH]; cbn [remove sumf get]; [lia|].
  destruct (o_eqb O k k') eqn:E; cbn [sumf]; lia.
Qed.

Lemma getf_le_sumf O m k : getf O m k <= sumf m.
Proof.
  unfold getf. induction m as [|[k' v'] r IH]; cbn [get sumf]; [lia|].
  destruct (o_eqb O k k'); lia.
Qed.
End Sum.

Definition getd {K} (O : ord K) (m : amap K N) (k : K) : N := getf (fun x => x) O m k.
Definition sum {K} (m : amap K N) : N := sumf (fun x => x) m.
Global Arguments sum {K} m : simpl never.
Global Arguments getd {K} O m k : simpl never.
Global Arguments get {K V} O m k : simpl never.
Global Arguments set {K V} O m k v : simpl never.
Global Arguments remove {K V} O m k : simpl never.
