(* Cw3ThresholdContract.v — the step contract S_C04: what property C04 demands of one call of the
   library on one input tuple, phrased over the *outputs* (so it can be evaluated on what the
   Rust implementation returned), and the correspondence check model = implementation. *)
Require Import CwPlus.Params CwPlus.Base CwPlus.Cw3Threshold.
Open Scope N_scope.

Definition is_nine_decimals (th : threshold) : bool :=
  match th with
  | AbsCount _ => true
  | AbsPct p => p mod PF =? 0
  | ThQuorum t q => (t mod PF =? 0) && (q mod PF =? 0)
  end.

(* exact "passes now whatever the outstanding votes do" (documented rule, worst completions) *)
Definition spec_certain_pass (th : threshold) (T : N) (v : votes) : bool :=
  (0 <? yes v) &&
  match th with
  | AbsCount w => w <=? yes v
  | AbsPct p => p * (T - abstain v) <=? yes v * DEN
  | ThQuorum t q => (q * T <=? tally v * DEN) && (t * (T - abstain v) <=? yes v * DEN)
  end.

(* the same with the one-vote slack allowed for 18-decimal percentages *)
Definition spec_certain_pass_plus1 (th : threshold) (T : N) (v : votes) : bool :=
  (0 <? yes v) &&
  match th with
  | AbsCount w => w <=? yes v
  | AbsPct p => p * (T - abstain v) <? (yes v + 1) * DEN
  | ThQuorum t q => (q * T <? (tally v + 1) * DEN) && (t * (T - abstain v) <? (yes v + 1) * DEN)
  end.

Definition spec_pass_expired_plus1b (th : threshold) (T : N) (v : votes) : bool :=
  (0 <? yes v) &&
  match th with
  | AbsCount w => w <=? yes v
  | AbsPct p => p * (T - abstain v) <? (yes v + 1) * DEN
  | ThQuorum t q =>
      (q * T <? (tally v + 1) * DEN) && (t * (tally v - abstain v) <? (yes v + 1) * DEN)
  end.

(* exact "some completion passes at expiry": the best one is everybody outstanding voting Yes *)
Definition spec_can_pass (th : threshold) (T : N) (v : votes) : bool :=
  let y' := yes v + (T - tally v) in
  (0 <? y') &&
  match th with
  | AbsCount w => w <=? y'
  | AbsPct p => p * (T - abstain v) <=? y' * DEN
  | ThQuorum t q => t * (T - abstain v) <=? y' * DEN
  end.

(* S_C04: 0 = the outputs satisfy the property on this tuple; otherwise the failing clause *)
Definition s_c04 (th : threshold) (T : N) (v : votes) (expired : bool)
           (p r : option bool) (st : option status) : N :=
  match p, r, st with
  | Some p, Some r, Some st =>
      if p && (yes v =? 0) then 2                                    (* passed without Yes *)
      else if p && r then 3                                          (* both *)
      else if expired && negb (implb (spec_pass_expired th T v) p) then 4   (* stricter than exact *)
      else if expired && negb (implb p (spec_pass_expired_plus1b th T v)) then 5 (* beyond one vote *)
      else if expired && is_nine_decimals th && negb (eqb p (spec_pass_expired th T v)) then 6
      else if negb expired && negb (implb (spec_certain_pass th T v) p) then 7   (* early pass incomplete *)
      else if negb expired && negb (implb p (spec_certain_pass_plus1 th T v)) then 8 (* early pass unsound *)
      else if negb expired && is_nine_decimals th && negb (eqb p (spec_certain_pass th T v)) then 9
      else if negb expired && r && spec_can_pass th T v then 10      (* early reject unsound *)
      else if negb (status_eqb st (if p then Passed else if r || expired then Rejected else Open))
           then 11                                                   (* status inconsistent *)
      else 0
  | _, _, _ => 1                                                     (* abort *)
  end.

Definition obool_eqb (a b : option bool) : bool := opt_eqb Bool.eqb a b.

(* correspondence: does the model return what the implementation returned? *)
Definition corr_c04 (th : threshold) (T : N) (v : votes) (expired : bool)
           (p r : option bool) (st : option status) : bool :=
  obool_eqb p (is_passed th T v expired) &&
  obool_eqb r (is_rejected th T v expired) &&
  opt_eqb status_eqb st (current_status Open th T v expired).

(* one differential case as written by the harness: input tuple + implementation outputs.
   Result: 0 ok; 100+c = S_C04 clause c fails on the implementation's outputs;
   50 = contract holds but model and implementation differ. *)
Record c04_case := mkC04 {
  c_th : threshold; c_T : N; c_v : votes; c_exp : bool;
  c_p : option bool; c_r : option bool; c_st : option status }.

Definition c04_in_range (c : c04_case) : bool :=
  threshold_wf (c_th c) && (tally (c_v c) <=? c_T c) && (c_T c <=? u64max).

Definition check_c04 (c : c04_case) : N :=
  if negb (c04_in_range c) then 0 else
  let s := s_c04 (c_th c) (c_T c) (c_v c) (c_exp c) (c_p c) (c_r c) (c_st c) in
  if negb (s =? 0) then 100 + s
  else if corr_c04 (c_th c) (c_T c) (c_v c) (c_exp c) (c_p c) (c_r c) (c_st c) then 0 else 50.

(* indices (from 0) and codes of the failing cases of a batch *)
Fixpoint check_c04_all (i : N) (cs : list c04_case) : list (N * N) :=
  match cs with
  | [] => []
  | c :: cs' => let r := check_c04 c in
                if r =? 0 then check_c04_all (i + 1) cs' else (i, r) :: check_c04_all (i + 1) cs'
  end.
