(* Cw20Check.v — step contracts S_C01, S_C02, S_C13, S_C19 over what the public API shows before
   and after one call, and the trace checker that the differential run evaluates by vm_compute. *)
Require Import CwPlus.Params CwPlus.Base CwPlus.AMap CwPlus.Cw20Model.
Open Scope N_scope.

(* what the harness records after every call (all through queries of the real contract) *)
Record obs := mkObs {
  ob_supply : N;                                (* TokenInfo.total_supply *)
  ob_accounts : list (addr * N);                (* AllAccounts paged to the end, each with its Balance *)
  ob_unlisted : list (addr * N);                (* pool addresses not listed whose Balance is non-zero *)
  ob_minter : option (addr * option N);         (* Minter *)
  ob_owner : list ((addr * addr) * allowance);  (* AllAllowances of every pool owner, key (owner, spender) *)
  ob_spender : list ((addr * addr) * allowance);(* AllSpenderAllowances of every pool spender, key (spender, owner) *)
  ob_point : list ((addr * addr) * allowance)   (* Allowance{o,s} for all ordered pool pairs, non-default answers *)
}.

Definition state_of_obs (o : obs) (ver : bool) : state :=
  mkSt (ob_accounts o) (ob_owner o) (ob_spender o) (ob_supply o) (ob_minter o) ver.

Definition is_default (a : allowance) : bool := al_eqb a al_default.

Definition key_eqb (x y : addr * addr) : bool := (fst x =? fst y) && (snd x =? snd y).
Definition entry_eqb (x y : (addr * addr) * allowance) : bool :=
  key_eqb (fst x) (fst y) && al_eqb (snd x) (snd y).
Definition bal_entry_eqb (x y : addr * N) : bool := (fst x =? fst y) && (snd x =? snd y).
Definition minter_eqb (x y : option (addr * option N)) : bool :=
  opt_eqb (fun a b => (fst a =? fst b) && opt_eqb N.eqb (snd a) (snd b)) x y.
Definition msg_eqb (x y : msg) : bool :=
  let '(c1, s1, n1, p1) := x in let '(c2, s2, n2, p2) := y in
  (c1 =? c2) && (s1 =? s2) && (n1 =? n2) && (p1 =? p2).

(* ---------------------------------------------------------------------------------------- *)
(* S_C01: supply = sum of listed balances; exact deltas per operation *)

Definition addrs_of (pre post : state) (extra : list addr) : list addr :=
  keys (balances pre) ++ keys (balances post) ++ extra.

Definition arg_list (a : aarg) : list addr := match a with Some x => [x] | None => [] end.

(* expected balance of a after moving n from `from` to `to` *)
Definition moved (pre : state) (from to : addr) (n : N) (a : addr) : N :=
  let b0 := bal pre a in
  let b1 := if a =? from then b0 - n else b0 in
  if a =? to then b1 + n else b1.

Definition bal_all (post : state) (expected : addr -> N) (l : list addr) : bool :=
  forallb (fun a => bal post a =? expected a) l.

Definition s_c01_delta (pre post : state) (sender : addr) (o : op) : bool :=
  let l := addrs_of pre post [sender] in
  match o with
  | Transfer (Some r) n | Send (Some r) n _ =>
      (supply post =? supply pre) && (n <=? bal pre sender) &&
      bal_all post (moved pre sender r n) (r :: l)
  | TransferFrom (Some ow) (Some r) n | SendFrom (Some ow) (Some r) n _ =>
      (supply post =? supply pre) && (n <=? bal pre ow) &&
      bal_all post (moved pre ow r n) (ow :: r :: l)
  | Burn n =>
      (n <=? supply pre) && (supply post =? supply pre - n) && (n <=? bal pre sender) &&
      bal_all post (fun a => if a =? sender then bal pre a - n else bal pre a) l
  | BurnFrom (Some ow) n =>
      (n <=? supply pre) && (supply post =? supply pre - n) && (n <=? bal pre ow) &&
      bal_all post (fun a => if a =? ow then bal pre a - n else bal pre a) (ow :: l)
  | Mint (Some r) n =>
      (supply post =? supply pre + n) &&
      bal_all post (fun a => if a =? r then bal pre a + n else bal pre a) (r :: l)
  | IncreaseAllowance (Some _) _ _ | DecreaseAllowance (Some _) _ _
  | UpdateMinter _ | Migrate | Other =>
      (supply post =? supply pre) && bal_all post (bal pre) l
  | _ => false    (* a call with an invalid address argument must not succeed *)
  end.

(* 0 = holds; otherwise the failing clause *)
Definition s_c01 (pre post : obs) (sender : addr) (o : op) (ok : bool) : N :=
  let p := state_of_obs pre false in let q := state_of_obs post false in
  if negb (supply q =? sum (balances q)) then 1                       (* supply <> sum of listed balances *)
  else if negb (match ob_unlisted post with [] => true | _ => false end) then 2  (* a holder is not listed *)
  else if negb (supply q <=? u128max) then 3
  else if ok then (if s_c01_delta p q sender o then 0 else 4)         (* wrong delta for the operation *)
  else if (supply q =? supply p) && bal_all q (bal p) (addrs_of p q []) then 0 else 5. (* failed call changed something *)

(* ---------------------------------------------------------------------------------------- *)
(* S_C13: minting only by the minter, within the cap; role changes only by the minter *)
Definition s_c13 (pre post : obs) (sender : addr) (o : op) (ok : bool) : N :=
  let p := state_of_obs pre false in let q := state_of_obs post false in
  let by_minter := match minter p with Some (m, _) => m =? sender | None => false end in
  if (supply p <? supply q) && negb (ok && by_minter && match o with Mint _ _ => true | _ => false end) then 1
  else if (match minter q with Some (_, Some c) => c <? supply q | _ => false end) then 2  (* cap exceeded *)
  else if negb (minter_eqb (minter p) (minter q)) &&
          negb (ok && by_minter &&
                match o, minter p with
                | UpdateMinter None, Some _ => minter_eqb (minter q) None
                | UpdateMinter (Some (Some a)), Some (_, cap) => minter_eqb (minter q) (Some (a, cap))
                | _, _ => false
                end) then 3                                             (* role changed improperly *)
  else if ok && negb by_minter && match o with Mint _ _ | UpdateMinter _ => true | _ => false end then 4
  else if (match minter q with Some (_, Some c) => c <? sum (balances q) | _ => false end) then 5
       (* the tokens that exist (listed balances) add up to more than the cap, whatever supply is reported *)
  else 0.

(* ---------------------------------------------------------------------------------------- *)
(* S_C19: the three allowance views agree *)
Definition flip (x : (addr * addr) * allowance) : (addr * addr) * allowance :=
  ((snd (fst x), fst (fst x)), snd x).

Definition s_c19 (post : obs) : N :=
  (* owner listings, restricted to non-default answers, are exactly the point-query table *)
  if negb (list_eqb entry_eqb (filter (fun e => negb (is_default (snd e))) (ob_owner post)) (ob_point post)) then 1
  (* every spender-listing entry appears, flipped, in the owner listings with the same value ... *)
  else if negb (forallb (fun e => match get ordNN (ob_owner post) (fst (flip e)) with
                                  | Some a => al_eqb a (snd e) | None => false end) (ob_spender post)) then 2
  (* ... and vice versa *)
  else if negb (forallb (fun e => match get ordNN (ob_spender post) (fst (flip e)) with
                                  | Some a => al_eqb a (snd e) | None => false end) (ob_owner post)) then 3
  else 0.

(* ---------------------------------------------------------------------------------------- *)
(* S_C02: debits are authorised; allowances change only as allowed; notifications are exact *)
Definition q_al (st : state) (o s : addr) : allowance := q_allowance st o s.

Definition is_self_debit (o : op) : bool :=
  match o with Transfer _ _ | Send _ _ _ | Burn _ => true | _ => false end.
Definition draw_of (o : op) : option (addr * N) :=
  match o with
  | TransferFrom (Some ow) _ n | SendFrom (Some ow) _ n _ | BurnFrom (Some ow) n => Some (ow, n)
  | _ => None
  end.

(* a debit of `a` is authorised *)
Definition debit_ok (p q : state) (blk : block) (sender : addr) (o : op) (a : addr) : bool :=
  ((a =? sender) && is_self_debit o) ||
  match draw_of o with
  | Some (ow, n) =>
      (a =? ow) &&
      let al := q_al p ow sender in
      has ordNN (allow p) (ow, sender) &&
      negb (is_expired (al_exp al) blk) && (n <=? al_amt al) &&
      ((sender =? ow) || al_eqb (q_al q ow sender) (mkAl (al_amt al - n) (al_exp al))) &&
      (bal p a - bal q a =? n)
  | None => false
  end.

(* the entry (ow, sp) changed between p and q: is the change one the property allows? *)
Definition al_change_ok (p q : state) (blk : block) (sender : addr) (o : op) (ow sp : addr) : bool :=
  let before := get ordNN (allow p) (ow, sp) in
  let after := get ordNN (allow q) (ow, sp) in
  match o with
  | IncreaseAllowance (Some s) n e =>
      (sender =? ow) && (s =? sp) &&
      let cur := match before with Some v => v | None => al_default end in
      opt_eqb al_eqb after (Some (mkAl (al_amt cur + n) (match e with Some x => x | None => al_exp cur end)))
  | DecreaseAllowance (Some s) n e =>
      (sender =? ow) && (s =? sp) &&
      match before with
      | Some cur =>
          if n <? al_amt cur
          then opt_eqb al_eqb after (Some (mkAl (al_amt cur - n) (match e with Some x => x | None => al_exp cur end)))
          else opt_eqb al_eqb after None
      | None => false
      end
  | _ =>
      match draw_of o, before with
      | Some (o1, n), Some cur =>
          (o1 =? ow) && (sender =? sp) && (n <=? al_amt cur) &&
          opt_eqb al_eqb after (Some (mkAl (al_amt cur - n) (al_exp cur)))
      | _, _ => false
      end
  end.

Definition expected_msgs (sender : addr) (o : op) : list msg :=
  match o with
  | Send (Some c) n payload => [(c, sender, n, payload)]
  | SendFrom _ (Some c) n payload => [(c, sender, n, payload)]
  | _ => []
  end.

Definition pair_keys (p q : state) : list (addr * addr) := keys (allow p) ++ keys (allow q).

Definition s_c02 (pre post : obs) (blk : block) (sender : addr) (o : op) (ok : bool) (ms : list msg) : N :=
  let p := state_of_obs pre false in let q := state_of_obs post false in
  let l := addrs_of p q [] in
  if negb (forallb (fun a => (bal p a <=? bal q a) || (ok && debit_ok p q blk sender o a)) l) then 1
  else if negb (forallb (fun k => opt_eqb al_eqb (get ordNN (allow p) k) (get ordNN (allow q) k)
                                  || (ok && al_change_ok p q blk sender o (fst k) (snd k))) (pair_keys p q)) then 2
  else if ok && negb (list_eqb msg_eqb ms (expected_msgs sender o)) then 3
  else if negb ok && negb (match ms with [] => true | _ => false end) then 4
  else if ok && match draw_of o with Some _ => negb (s_c01_delta p q sender o) | None => false end then 5
       (* a draw did not move exactly the amount: debit of the owner, credit of the recipient, nothing else *)
  else 0.

(* ---------------------------------------------------------------------------------------- *)
(* trace checking *)
Inductive tstep :=
| TCall (blk : block) (sender : addr) (o : op) (recv_ok : bool) (ok : bool) (ms : list msg) (after : obs)
| TLegacy (after : obs).  (* the harness strips the spender map and downgrades the stored version *)

Record trace := mkTrace {
  t_init : init_msg; t_init_ok : bool; t_init_obs : obs; t_steps : list tstep }.

(* projections compared between model and implementation, per property *)
Definition same_balances (st : state) (o : obs) : bool :=
  (supply st =? ob_supply o) && list_eqb bal_entry_eqb (balances st) (ob_accounts o).
Definition same_allow (st : state) (o : obs) : bool :=
  list_eqb entry_eqb (allow st) (ob_owner o).
Definition same_allow_sp (st : state) (o : obs) : bool :=
  list_eqb entry_eqb (allow_sp st) (ob_spender o).
Definition same_minter (st : state) (o : obs) : bool := minter_eqb (minter st) (ob_minter o).

Definition corr (prop : N) (st : state) (o : obs) : bool :=
  match prop with
  | 1 => same_balances st o
  | 2 => same_balances st o && same_allow st o
  | 13 => (supply st =? ob_supply o) && same_minter st o
  | 19 => same_allow st o && same_allow_sp st o
  | _ => same_balances st o && same_allow st o && same_allow_sp st o && same_minter st o
  end.

Definition contract (prop : N) (pre post : obs) (blk : block) (sender : addr) (o : op) (ok : bool)
           (ms : list msg) : N :=
  match prop with
  | 1 => s_c01 pre post sender o ok
  | 2 => s_c02 pre post blk sender o ok ms
  | 13 => s_c13 pre post sender o ok
  | 19 => s_c19 post
  | _ => 0
  end.

(* result codes: 100+c = step contract clause c fails on the implementation step;
   50 = both sides agree on success/failure but differ on the property's projection;
   51 = messages differ (C02 only). First offending step only. *)
Fixpoint check_steps (prop : N) (i : N) (st : state) (prev : obs) (l : list tstep) : list (N * N) :=
  match l with
  | [] => []
  | TLegacy after :: r =>
      check_steps prop (i + 1) (downgrade st) after r
  | TCall blk sender o recv_ok ok ms after :: r =>
      let c := contract prop prev after blk sender o ok ms in
      if negb (c =? 0) then [(i, 100 + c)] else
      let '(st', ok_m, ms_m) := tx st blk sender o recv_ok in
      if negb (Bool.eqb ok ok_m) then
        (* pure accept/reject divergence on which the contract holds: not this property's alarm;
           continue from the implementation's observed state *)
        check_steps prop (i + 1) (state_of_obs after (ver_old st)) after r
      else if negb (corr prop st' after)
      then (i, 50) :: check_steps prop (i + 1) (state_of_obs after (ver_old st)) after r   (* go on from the observed state *)
      else if (prop =? 2) && negb (list_eqb msg_eqb ms ms_m)
      then (i, 51) :: check_steps prop (i + 1) (state_of_obs after (ver_old st)) after r
      else check_steps prop (i + 1) st' after r
  end.

Definition init_contract (prop : N) (t : trace) : N :=
  let o := t_init_obs t in
  if negb (t_init_ok t) then 0 else
  match prop with
  | 1 => if negb (ob_supply o =? sum (ob_accounts o)) then 1
         else if negb (match ob_unlisted o with [] => true | _ => false end) then 2 else 0
  | 13 => if (match ob_minter o with Some (_, Some c) => c <? ob_supply o | _ => false end) then 2 else 0
  | 19 => s_c19 o
  | _ => 0
  end.

Definition check_trace (prop : N) (t : trace) : list (N * N) :=
  let c := init_contract prop t in
  if negb (c =? 0) then [(0, 100 + c)] else
  if negb (t_init_ok t) then [] else
  match instantiate (t_init t) with
  | Ok st =>
      if negb (corr prop st (t_init_obs t)) then [(0, 50)]
      else check_steps prop 1 st (t_init_obs t) (t_steps t)
  | _ =>
      (* the implementation accepted an instantiation the model rejects and the contract holds on
         what it shows: a pure accept/reject divergence; continue from the observed state *)
      check_steps prop 1 (state_of_obs (t_init_obs t) false) (t_init_obs t) (t_steps t)
  end.

(* (trace number, step, code) of the first offending step of each trace of a batch *)
Fixpoint check_traces (prop : N) (i : N) (ts : list trace) : list (N * N) :=
  match ts with
  | [] => []
  | t :: r =>
      match prefer_clause (check_trace prop t) with
      | [] => check_traces prop (i + 1) r
      | (s, c) :: _ => (i, s * 1000 + c) :: check_traces prop (i + 1) r
      end
  end.
