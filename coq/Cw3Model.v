(* Cw3Model.v — family F3: cw3-fixed-multisig and cw3-flex-multisig (C03 C05 C06 C15),
   transliterated from contracts/cw3-fixed-multisig/src/{contract,state}.rs,
   contracts/cw3-flex-multisig/src/{contract,state}.rs and packages/cw3/src/{proposal,deposit}.rs.
   The threshold arithmetic is Cw3Threshold.v (F2); the group behind a flex multisig is Cw4Model.v. *)
Require Import CwPlus.Params CwPlus.Base CwPlus.AMap CwPlus.Cw3Threshold CwPlus.Cw4Model.
Open Scope N_scope.

(* messages a proposal can carry (a small language; arbitrary CosmosMsg payloads are opaque tags) *)
Inductive pmsg :=
| PBank (to : N) (n : N)                 (* BankMsg::Send of the native denom 0 from the multisig *)
| PSelfExec (id : N)                     (* WasmMsg::Execute{self, Execute{id}}: re-entrancy *)
| PSelfClose (id : N)
| POk (tag : N)                          (* a message its target accepts *)
| PFail (tag : N).                       (* a message its target rejects *)

Record deposit := mkDep { d_amount : N; d_token : token; d_refund_failed : bool }.

(* what a handler's Response carries *)
Inductive emsg :=
| ETake (tok : N) (owner : N) (n : N)    (* cw20 TransferFrom{owner, recipient: self, amount} *)
| ERefund (tok : token) (to : N) (n : N) (* BankMsg::Send / cw20 Transfer of a deposit back *)
| EUser (m : pmsg).

Record proposal := mkProp {
  p_title : N;                           (* title/description: an opaque id *)
  p_start : N;
  p_expires : expiration;
  p_msgs : list pmsg;
  p_status : status;
  p_votes : votes;
  p_threshold : threshold;
  p_total : N;
  p_proposer : N;
  p_deposit : option deposit;
  p_ballots : amap N (N * vote)          (* BALLOTS.prefix(id): voter -> (weight, vote) *)
}.

Inductive executor := ExMember | ExOnly (a : N).

Record mstate := mkMs {
  flex : bool;
  voters : amap N N;                     (* fixed: VOTERS *)
  cfg_total : N;                         (* fixed: Config.total_weight *)
  cfg_threshold : threshold;
  cfg_period : duration;
  cfg_executor : option executor;        (* flex *)
  cfg_deposit : option deposit;          (* flex *)
  proposals : amap N proposal;
  pcount : N                             (* PROPOSAL_COUNT *)
}.

(* what a flex multisig reads from its group during one call *)
Record gview := mkGv {
  g_now : N -> option N;                 (* raw read of members[a] *)
  g_total : N;                           (* raw read of total *)
  g_at : N -> N -> option N              (* smart query Member{a, at_height} *)
}.
Definition gview_of (g : Cw4Model.state) : gview :=
  mkGv (fun a => m_cur (members g) a) (unw (cur (total_s g))) (fun a h => m_at (members g) a h).
Definition gview_none : gview := mkGv (fun _ => None) 0 (fun _ _ => None).

Inductive op :=
| Propose (title : N) (msgs : list pmsg) (latest : option expiration) (funds : list (N * N))
| Vote (id : N) (v : vote)
| Execute (id : N)
| Close (id : N).

(* Expiration::partial_cmp *)
Inductive cmp := Lt | Eq | Gt.
Definition ncmp (a b : N) : cmp := if a <? b then Lt else if a =? b then Eq else Gt.
Definition exp_cmp (a b : expiration) : option cmp :=
  match a, b with
  | AtHeight x, AtHeight y => Some (ncmp x y)
  | AtTime x, AtTime y => Some (ncmp x y)
  | Never, Never => Some Eq
  | Never, _ => Some Gt
  | _, Never => Some Lt
  | _, _ => None
  end.

Definition vote_eqb (a b : vote) : bool :=
  match a, b with VYes, VYes | VNo, VNo | VAbstain, VAbstain | VVeto, VVeto => true | _, _ => false end.

Definition set_prop (ms : mstate) (id : N) (p : proposal) : mstate :=
  mkMs (flex ms) (voters ms) (cfg_total ms) (cfg_threshold ms) (cfg_period ms) (cfg_executor ms) (cfg_deposit ms)
       (set ordN (proposals ms) id p) (pcount ms).
Definition with_status (p : proposal) (s : status) : proposal :=
  mkProp (p_title p) (p_start p) (p_expires p) (p_msgs p) s (p_votes p) (p_threshold p) (p_total p)
         (p_proposer p) (p_deposit p) (p_ballots p).

(* Proposal::current_status at a block; None = the arithmetic aborts *)
Definition prop_status (p : proposal) (blk : block) : option status :=
  current_status (p_status p) (p_threshold p) (p_total p) (p_votes p) (is_expired (p_expires p) blk).

(* cw_utils::must_pay + DepositInfo::check_native_deposit_paid *)
Definition native_deposit_paid (d : deposit) (funds : list (N * N)) : bool :=
  match d_token d with
  | Native dn =>
      match funds with
      | [(dn', n)] => negb (n =? 0) && (dn' =? dn) && (n =? d_amount d)
      | _ => false
      end
  | Cw20 _ => true
  end.
Definition take_msgs (d : option deposit) (who : N) : list emsg :=
  match d with
  | Some dp => match d_token dp with
               | Cw20 t => if d_amount dp =? 0 then [] else [ETake t who (d_amount dp)]
               | Native _ => []
               end
  | None => []
  end.
Definition refund_msg (d : deposit) (who : N) : emsg := ERefund (d_token d) who (d_amount d).

Definition propose (ms : mstate) (gv : gview) (blk : block) (sender : N) (title : N) (msgs : list pmsg)
           (latest : option expiration) (funds : list (N * N)) : result (mstate * list emsg) :=
  if (if flex ms then match cfg_deposit ms with Some d => negb (native_deposit_paid d funds) | None => false end
      else false) then Err else
  match (if flex ms then g_now gv sender else get ordN (voters ms) sender) with
  | None => Err
  | Some power =>
      match duration_after (cfg_period ms) blk with
      | None => Abort
      | Some max_exp =>
          let exp0 := match latest with Some e => e | None => max_exp end in
          match exp_cmp exp0 max_exp with
          | None => Err
          | Some c =>
              let expires := match c with Gt => max_exp | _ => exp0 end in
              let total := if flex ms then g_total gv else cfg_total ms in
              let dep := if flex ms then cfg_deposit ms else None in
              let p0 := mkProp title (height blk) expires msgs Open (mkVotes power 0 0 0) (cfg_threshold ms) total
                               sender dep [(sender, (power, VYes))] in
              match prop_status p0 blk with
              | None => Abort
              | Some s =>
                  match add64 (pcount ms) 1 with
                  | None => Abort
                  | Some id =>
                      let ms' := mkMs (flex ms) (voters ms) (cfg_total ms) (cfg_threshold ms) (cfg_period ms)
                                      (cfg_executor ms) (cfg_deposit ms)
                                      (set ordN (proposals ms) id (with_status p0 s)) id in
                      Ok (ms', take_msgs dep sender)
                  end
              end
          end
      end
  end.

Definition votable (s : status) : bool :=
  match s with Open | Passed | Rejected => true | _ => false end.

Definition do_vote (ms : mstate) (gv : gview) (blk : block) (sender : N) (id : N) (v : vote)
  : result (mstate * list emsg) :=
  (* fixed checks the voter first, flex loads the proposal first; every failure is a plain error *)
  match get ordN (proposals ms) id with
  | None => Err
  | Some p =>
      let power := if flex ms then g_at gv sender (p_start p) else get ordN (voters ms) sender in
      match power with
      | None => Err
      | Some w =>
          if w <? 1 then Err
          else if negb (votable (p_status p)) then Err
          else if is_expired (p_expires p) blk then Err
          else match get ordN (p_ballots p) sender with
               | Some _ => Err
               | None =>
                   match add_vote (p_votes p) v w with
                   | None => Abort
                   | Some vs =>
                       let p1 := mkProp (p_title p) (p_start p) (p_expires p) (p_msgs p) (p_status p) vs (p_threshold p)
                                        (p_total p) (p_proposer p) (p_deposit p) (set ordN (p_ballots p) sender (w, v)) in
                       match prop_status p1 blk with
                       | None => Abort
                       | Some s => Ok (set_prop ms id (with_status p1 s), [])
                       end
                   end
               end
      end
  end.

Definition authorized (ms : mstate) (gv : gview) (sender : N) : bool :=
  match cfg_executor ms with
  | None => true
  | Some ExMember => match g_now gv sender with Some _ => true | None => false end
  | Some (ExOnly a) => a =? sender
  end.

Definition do_execute (ms : mstate) (gv : gview) (blk : block) (sender : N) (id : N) : result (mstate * list emsg) :=
  match get ordN (proposals ms) id with
  | None => Err
  | Some p =>
      match prop_status p blk with
      | None => Abort
      | Some s =>
          if negb (status_eqb s Passed) then Err
          else if flex ms && negb (authorized ms gv sender) then Err
          else
            let refund := match p_deposit p with Some d => [refund_msg d (p_proposer p)] | None => [] end in
            Ok (set_prop ms id (with_status p Executed), refund ++ map EUser (p_msgs p))
      end
  end.

Definition do_close (ms : mstate) (blk : block) (id : N) : result (mstate * list emsg) :=
  match get ordN (proposals ms) id with
  | None => Err
  | Some p =>
      match p_status p with
      | Executed | Rejected | Passed => Err
      | _ =>
          match prop_status p blk with
          | None => Abort
          | Some s =>
              if status_eqb s Passed then Err
              else if negb (is_expired (p_expires p) blk) then Err
              else
                let refund := match p_deposit p with
                              | Some d => if d_refund_failed d then [refund_msg d (p_proposer p)] else []
                              | None => []
                              end in
                Ok (set_prop ms id (with_status p Rejected), refund)
          end
      end
  end.

Definition step (ms : mstate) (gv : gview) (blk : block) (sender : N) (o : op) : result (mstate * list emsg) :=
  match o with
  | Propose title msgs latest funds => propose ms gv blk sender title msgs latest funds
  | Vote id v => do_vote ms gv blk sender id v
  | Execute id => do_execute ms gv blk sender id
  | Close id => do_close ms blk id
  end.

(* queries *)
Definition q_status (ms : mstate) (blk : block) (id : N) : option status :=
  match get ordN (proposals ms) id with Some p => prop_status p blk | None => None end.

(* ---------------------------------------------------------------------------------------- *)
(* dispatch of a Response's messages, depth first.  self = the multisig's own address.  A
   failing message fails the whole transaction (no reply handlers).  External effects (bank,
   cw20) are not tracked here: whether they succeed is the flag `ext_ok` of the transaction. *)
Fixpoint dispatch (fuel : nat) (ms : mstate) (gv : gview) (blk : block) (self : N) (l : list emsg) : option mstate :=
  match fuel with
  | O => None
  | S f =>
      match l with
      | [] => Some ms
      | m :: r =>
          let next (x : mstate) := dispatch f x gv blk self r in
          match m with
          | EUser (PSelfExec id) =>
              match do_execute ms gv blk self id with
              | Ok (ms1, out) => match dispatch f ms1 gv blk self out with Some ms2 => next ms2 | None => None end
              | _ => None
              end
          | EUser (PSelfClose id) =>
              match do_close ms blk id with
              | Ok (ms1, out) => match dispatch f ms1 gv blk self out with Some ms2 => next ms2 | None => None end
              | _ => None
              end
          | EUser (PFail _) => None
          | _ => next ms
          end
      end
  end.

Definition FUEL : nat := 200.

(* one transaction on the multisig: the handler, then its messages; all or nothing *)
Definition tx (ms : mstate) (gv : gview) (blk : block) (self sender : N) (o : op) (ext_ok : bool)
  : mstate * bool :=
  match step ms gv blk sender o with
  | Ok (ms1, out) =>
      if ext_ok then match dispatch FUEL ms1 gv blk self out with Some ms2 => (ms2, true) | None => (ms, false) end
      else (ms, false)
  | _ => (ms, false)
  end.

(* ---------------------------------------------------------------------------------------- *)
(* instantiation *)
Record init_msg := mkInit {
  i_flex : bool;
  i_voters : list (arg * N);             (* fixed *)
  i_threshold : threshold;
  i_period : duration;
  i_executor : option executor;          (* flex *)
  i_deposit : option deposit;            (* flex, already checked against the token (a cw20 must answer TokenInfo) *)
  i_group_ok : bool                      (* flex: group address valid and answering *)
}.

Fixpoint save_voters (l : list (arg * N)) (m : amap N N) : option (amap N N) :=
  match l with
  | [] => Some m
  | (None, _) :: _ => None
  | (Some a, w) :: r => match get ordN m a with Some _ => None | None => save_voters r (set ordN m a w) end
  end.

Definition instantiate (m : init_msg) (gv : gview) : result mstate :=
  if i_flex m then
    if negb (i_group_ok m) then Err
    else if negb (threshold_validate (i_threshold m) (g_total gv)) then Err
    else if match i_deposit m with Some d => d_amount d =? 0 | None => false end then Err
    else Ok (mkMs true [] 0 (i_threshold m) (i_period m) (i_executor m) (i_deposit m) [] 0)
  else
    match i_voters m with
    | [] => Err
    | vs =>
        let total := sumN (map snd vs) in
        if u64max <? total then Abort
        else if negb (threshold_validate (i_threshold m) total) then Err
        else match save_voters vs [] with
             | None => Err
             | Some vm => Ok (mkMs false vm total (i_threshold m) (i_period m) None None [] 0)
             end
    end.
