(* Ics20Lemmas.v — proofs about the cw20-ics20 model (C11 C12 C18). *)
Require Import CwPlus.Params CwPlus.Base CwPlus.AMap CwPlus.Ics20Model.
Open Scope N_scope.

Ltac inv H := inversion H; subst; clear H.

(* ---------------------------------------------------------------------------------------- *)
(* maps *)
Lemma set_set {K V} (O : ord K) (m : amap K V) k a b : set O (set O m k a) k b = set O m k b.
Proof.
  induction m as [|[k' v'] r IH]; unfold set; cbn.
  - rewrite o_eqb_refl. reflexivity.
  - fold (@set K V O r k a). fold (@set K V O r k b).
    destruct (o_eqb O k k') eqn:E; cbn.
    + rewrite o_eqb_refl. reflexivity.
    + destruct (o_ltb O k k') eqn:L; cbn.
      * rewrite o_eqb_refl. reflexivity.
      * rewrite E, L. fold (@set K V O (set O r k a) k b). f_equal. exact IH.
Qed.

Lemma set_same {K V} (O : ord K) (m : amap K V) k v : sorted O m -> get O m k = Some v -> set O m k v = m.
Proof.
  intros Hs. induction Hs as [|k' v' r Ha Hs IH]; unfold get, set; cbn; [discriminate|].
  fold (@get K V O r k). fold (@set K V O r k v).
  destruct (o_eqb O k k') eqn:E.
  - intros H. inv H. apply o_eqb_eq in E. subst. reflexivity.
  - intros H. destruct (o_ltb O k k') eqn:L.
    + exfalso. assert (A: above O k r) by (eapply above_trans; eassumption).
      rewrite (above_get_none O k r A) in H. discriminate.
    + f_equal. apply IH. exact H.
Qed.

(* ---------------------------------------------------------------------------------------- *)
(* ksum: the sum over channels of the outstanding balance of one key *)
Lemma ksum_set m c k v k' : sorted ordNN m ->
  ksum (set ordNN m (c, k) v) k' + (if k =? k' then match get ordNN m (c, k) with Some s => outstanding s | None => 0 end else 0) =
  ksum m k' + (if k =? k' then outstanding v else 0).
Proof.
  intros Hs. induction Hs as [|[c2 k2] v2 r Ha Hs IH]; unfold set, get; cbn [ksum].
  - cbn. destruct (k =? k'); lia.
  - fold (@set (N * N) cstate ordNN r (c, k) v). fold (@get (N * N) cstate ordNN r (c, k)).
    destruct (o_eqb ordNN (c, k) (c2, k2)) eqn:E.
    + apply (o_eqb_eq ordNN) in E. inv E. cbn [ksum]. destruct (k2 =? k'); lia.
    + destruct (o_ltb ordNN (c, k) (c2, k2)) eqn:L.
      * assert (A: above ordNN (c, k) r) by (eapply above_trans; eassumption).
        rewrite (above_get_none ordNN _ r A). cbn [ksum]. destruct (k =? k'), (k2 =? k'); lia.
      * cbn [ksum]. destruct (k2 =? k'); lia.
Qed.

(* ---------------------------------------------------------------------------------------- *)
(* invariant of the channel accounting: what was paid out never exceeds what was escrowed *)
Record Inv (st : state) : Prop := {
  i_sorted : sorted ordNN (chan_state st);
  i_bounded : forall c k s, get_cs st c k = Some s -> outstanding s <= total_sent s /\ total_sent s <= u128max }.

Definition same_but_cs (st st' : state) : Prop :=
  default_timeout st' = default_timeout st /\ default_gas st' = default_gas st /\ admin st' = admin st /\
  allow st' = allow st /\ channels st' = channels st /\ ver st' = ver st /\ v1_gov st' = v1_gov st.

Lemma get_cs_with_cs st m c k : get_cs (with_cs st m) c k = get ordNN m (c, k).
Proof. reflexivity. Qed.

Lemma pair_neq (c k c' k' : N) : (c', k') <> (c, k) <-> (c' <> c \/ k' <> k).
Proof.
  split.
  - intros H. destruct (N.eq_dec c' c) as [->|]; [|auto]. destruct (N.eq_dec k' k) as [->|]; [|auto]. exfalso. apply H. reflexivity.
  - intros [H|H] E; inv E; apply H; reflexivity.
Qed.

Lemma increase_spec st c k n st' : Inv st -> increase_balance st c k n = Some st' ->
  Inv st' /\ same_but_cs st st' /\ reply_args st' = reply_args st /\
  out_of st' c k = out_of st c k + n /\ sent_of st' c k = sent_of st c k + n /\
  (forall c' k', (c', k') <> (c, k) -> get_cs st' c' k' = get_cs st c' k') /\
  chan_state st' = set ordNN (chan_state st) (c, k) (mkCs (out_of st c k + n) (sent_of st c k + n)).
Proof.
  intros [Hs Hb] H. unfold increase_balance, add128, obind in H.
  set (s := match get_cs st c k with Some s => s | None => mkCs 0 0 end) in *.
  destruct (outstanding s + n <=? u128max) eqn:L1; [|discriminate].
  destruct (total_sent s + n <=? u128max) eqn:L2; [|discriminate]. inv H.
  apply N.leb_le in L1, L2.
  assert (Es: outstanding s = out_of st c k /\ total_sent s = sent_of st c k /\ outstanding s <= total_sent s).
  { unfold s, out_of, sent_of. destruct (get_cs st c k) as [x|] eqn:G; [|cbn; lia].
    destruct (Hb _ _ _ G). auto. }
  destruct Es as (E1 & E2 & E3).
  split; [|split; [repeat split|split; [reflexivity|split; [|split; [|split]]]]].
  - constructor; cbn [with_cs chan_state]; [apply set_sorted; exact Hs|].
    intros c' k' x. rewrite get_cs_with_cs. destruct (N.eq_dec c' c) as [->|Hc]; [destruct (N.eq_dec k' k) as [->|Hk]|].
    + rewrite get_set_eq. intros E. inv E. cbn [outstanding total_sent]. lia.
    + rewrite get_set_neq by (intros E; inv E; apply Hk; reflexivity). apply Hb.
    + rewrite get_set_neq by (intros E; inv E; apply Hc; reflexivity). apply Hb.
  - unfold out_of at 1. rewrite get_cs_with_cs, get_set_eq. cbn [outstanding]. lia.
  - unfold sent_of at 1. rewrite get_cs_with_cs, get_set_eq. cbn [total_sent]. lia.
  - intros c' k' Hn. rewrite get_cs_with_cs. apply get_set_neq. exact Hn.
  - cbn [with_cs chan_state]. rewrite E1, E2. reflexivity.
Qed.

Lemma reduce_spec st c k n st' : Inv st -> reduce_balance st c k n = Some st' ->
  exists s, get_cs st c k = Some s /\ n <= outstanding s /\
  Inv st' /\ same_but_cs st st' /\ reply_args st' = reply_args st /\
  chan_state st' = set ordNN (chan_state st) (c, k) (mkCs (outstanding s - n) (total_sent s)) /\
  out_of st' c k + n = out_of st c k /\ sent_of st' c k = sent_of st c k /\
  (forall c' k', (c', k') <> (c, k) -> get_cs st' c' k' = get_cs st c' k').
Proof.
  intros [Hs Hb] H. unfold reduce_balance in H. destruct (get_cs st c k) as [s|] eqn:G; [|discriminate].
  unfold sub128, obind in H. destruct (n <=? outstanding s) eqn:L; [|discriminate]. inv H. apply N.leb_le in L.
  destruct (Hb _ _ _ G) as [B1 B2]. exists s. split; [reflexivity|]. split; [exact L|].
  split; [|split; [repeat split|split; [reflexivity|split; [reflexivity|split; [|split]]]]].
  - constructor; cbn [with_cs chan_state]; [apply set_sorted; exact Hs|].
    intros c' k' x. rewrite get_cs_with_cs. destruct (N.eq_dec c' c) as [->|Hc]; [destruct (N.eq_dec k' k) as [->|Hk]|].
    + rewrite get_set_eq. intros E. inv E. cbn [outstanding total_sent]. lia.
    + rewrite get_set_neq by (intros E; inv E; apply Hk; reflexivity). apply Hb.
    + rewrite get_set_neq by (intros E; inv E; apply Hc; reflexivity). apply Hb.
  - unfold out_of. rewrite get_cs_with_cs, get_set_eq, G. cbn [outstanding]. lia.
  - unfold sent_of. rewrite get_cs_with_cs, get_set_eq, G. reflexivity.
  - intros c' k' Hn. rewrite get_cs_with_cs. apply get_set_neq. exact Hn.
Qed.

(* reduce followed by undo of the same amount restores the very same table *)
Lemma reduce_undo st c k n st1 : Inv st -> reduce_balance st c k n = Some st1 ->
  exists st2, undo_reduce st1 c k n = Some st2 /\ chan_state st2 = chan_state st /\ same_but_cs st st2 /\
              reply_args st2 = reply_args st1.
Proof.
  intros HI H. destruct (reduce_spec _ _ _ _ _ HI H) as (s & G & L & _ & _ & _ & Ecs & _).
  destruct HI as [Hs Hb]. destruct (Hb _ _ _ G) as [B1 B2].
  unfold undo_reduce, get_cs. cbv zeta. rewrite !Ecs, get_set_eq. cbn [outstanding total_sent].
  unfold add128. cbv zeta. replace (outstanding s - n + n) with (outstanding s) by lia.
  rewrite (proj2 (N.leb_le (outstanding s) u128max)) by lia. cbn [obind].
  eexists. split; [reflexivity|]. cbn [with_cs chan_state]. rewrite set_set.
  split; [|split; [|reflexivity]].
  - apply set_same; [exact Hs|]. destruct s. exact G.
  - unfold reduce_balance in H. rewrite G in H. unfold sub128, obind in H.
    destruct (n <=? outstanding s); [|discriminate]. inv H. repeat split.
Qed.

(* ---------------------------------------------------------------------------------------- *)
(* C12: the receive transaction *)
Definition same_money (st st' : state) : Prop := chan_state st' = chan_state st /\ same_but_cs st st'.

Lemma undo_with_reply st r c k n :
  undo_reduce (with_reply st r) c k n =
  match undo_reduce st c k n with Some s => Some (with_reply s r) | None => None end.
Proof.
  unfold undo_reduce, get_cs. cbn [with_reply chan_state]. cbv zeta.
  destruct (add128 _ n); reflexivity.
Qed.

Theorem receive_total st p pay_ok : Inv st -> exists st' a ms, tx_receive st p pay_ok = Some (st', a, ms).
Proof.
  intros HI. unfold tx_receive, do_receive.
  destruct (ip_data p) as [d|]; [|eauto].
  destruct (parse_voucher p (pd_denom d)) as [[k|]|]; [|eauto|eauto].
  destruct (check_gas_limit st k) as [gas|]; [|eauto].
  destruct (reduce_balance st (ip_dest_chan p) k (pd_amount d)) as [st1|] eqn:R; [|eauto].
  destruct pay_ok; [eauto|].
  destruct (reduce_undo _ _ _ _ _ HI R) as (st2 & U & _).
  unfold reply_receive_err. cbn [with_reply reply_args]. rewrite undo_with_reply, U. eauto.
Qed.

(* an error acknowledgement means nothing but the scratch reply_args changed *)
Theorem receive_err_noop st p pay_ok st' ms : Inv st -> tx_receive st p pay_ok = Some (st', AckErr, ms) ->
  same_money st st'.
Proof.
  intros HI. unfold tx_receive, do_receive.
  assert (Same: same_money st st) by (split; [reflexivity|repeat split]).
  destruct (ip_data p) as [d|]; [|intros E; inv E; exact Same].
  destruct (parse_voucher p (pd_denom d)) as [[k|]|]; [|intros E; inv E; exact Same|intros E; inv E; exact Same].
  destruct (check_gas_limit st k) as [gas|]; [|intros E; inv E; exact Same].
  destruct (reduce_balance st (ip_dest_chan p) k (pd_amount d)) as [st1|] eqn:R; [|intros E; inv E; exact Same].
  destruct pay_ok; [discriminate|].
  destruct (reduce_undo _ _ _ _ _ HI R) as (st2 & U & Ecs & Es & _).
  unfold reply_receive_err. cbn [with_reply reply_args]. rewrite undo_with_reply, U.
  intros X. inv X. split; [exact Ecs|]. destruct Es as (A & B & C & D & F & G & H). repeat split; assumption.
Qed.

(* a success acknowledgement: the packet named OUR counterparty's port and channel, a key with at
   least that much outstanding on the receiving channel, the balance went down by exactly the amount
   and exactly one payout of that amount to the named receiver was issued with the proper gas limit *)
Theorem receive_ok_spec st p pay_ok st' ms : Inv st -> tx_receive st p pay_ok = Some (st', AckOk, ms) ->
  exists d k gas port chan,
    ip_data p = Some d /\ pd_denom d = PVoucher port chan (BKey k) /\ port = ip_src_port p /\ chan = ip_src_chan p /\
    check_gas_limit st k = Some gas /\ pay_ok = true /\
    ms = [Payout k (pd_receiver d) (pd_amount d) gas] /\
    pd_amount d <= out_of st (ip_dest_chan p) k /\
    out_of st' (ip_dest_chan p) k + pd_amount d = out_of st (ip_dest_chan p) k /\
    sent_of st' (ip_dest_chan p) k = sent_of st (ip_dest_chan p) k /\
    (forall c' k', (c', k') <> (ip_dest_chan p, k) -> get_cs st' c' k' = get_cs st c' k') /\ Inv st'.
Proof.
  intros HI. unfold tx_receive, do_receive.
  destruct (ip_data p) as [d|]; [|discriminate].
  destruct (pd_denom d) as [port chan b|] eqn:Ed; cbn [parse_voucher]; [|discriminate].
  destruct ((port =? ip_src_port p) && (chan =? ip_src_chan p)) eqn:Ep; [|discriminate].
  destruct b as [k|]; [|discriminate].
  destruct (check_gas_limit st k) as [gas|] eqn:Eg; [|discriminate].
  destruct (reduce_balance st (ip_dest_chan p) k (pd_amount d)) as [st1|] eqn:R; [|discriminate].
  destruct pay_ok.
  - intros E. inv E. destruct (reduce_spec _ _ _ _ _ HI R) as (s & G & L & I1 & _ & _ & Ecs & O1 & S1 & F1).
    apply andb_true_iff in Ep. destruct Ep as [P1 P2]. apply N.eqb_eq in P1, P2.
    exists d, k, gas, port, chan.
    split; [reflexivity|]. split; [exact Ed|]. split; [exact P1|]. split; [exact P2|]. split; [exact Eg|].
    split; [reflexivity|]. split; [reflexivity|]. split; [unfold out_of; rewrite G; exact L|].
    split; [exact O1|]. split; [exact S1|]. split; [exact F1|].
    destruct I1 as [A B]. constructor; [exact A|exact B].
  - destruct (reply_receive_err _); discriminate.
Qed.

(* ---------------------------------------------------------------------------------------- *)
(* C12: transfers *)
Theorem transfer_spec st blk chan remote timeout memo k n sender st' ms : Inv st ->
  do_transfer st blk chan remote timeout memo k n sender = Ok (st', ms) ->
  0 < n /\ n <= u64max /\ mem chan (channels st) = true /\
  (key_is_cw20 k = true -> default_gas st <> None \/ get ordN (allow st) (key_addr k) <> None) /\
  ms = [SendPacket (mkOut chan n k sender remote memo
                          (time blk + (match timeout with Some t => t | None => default_timeout st end) * 1000000000))] /\
  Inv st' /\ same_but_cs st st' /\
  out_of st' chan k = out_of st chan k + n /\ sent_of st' chan k = sent_of st chan k + n /\
  (forall c' k', (c', k') <> (chan, k) -> get_cs st' c' k' = get_cs st c' k').
Proof.
  intros HI. unfold do_transfer.
  destruct (n =? 0) eqn:Z; [discriminate|]. apply N.eqb_neq in Z.
  destruct (mem chan (channels st)) eqn:M; [|discriminate]. cbn [negb].
  destruct (config_readable st); [|discriminate]. cbn [negb].
  destruct (key_is_cw20 k && _ && _) eqn:G; [discriminate|].
  unfold mul64, add64.
  destruct (_ * 1000000000 <=? u64max); [|discriminate].
  destruct (time blk + _ <=? u64max); [|discriminate].
  destruct (u64max <? n) eqn:U; [discriminate|]. apply N.ltb_ge in U.
  destruct (increase_balance st chan k n) as [st1|] eqn:I; [|discriminate].
  intros E. inv E. destruct (increase_spec _ _ _ _ _ HI I) as (I1 & S1 & _ & O1 & T1 & F1 & _).
  split; [lia|]. split; [exact U|]. split; [reflexivity|]. split.
  { intros Hk. rewrite Hk in G. cbn [andb] in G.
    destruct (default_gas st); [left; discriminate|]. destruct (get ordN (allow st) (key_addr k)); [right; discriminate|discriminate]. }
  split; [reflexivity|]. split; [exact I1|]. split; [exact S1|]. split; [exact O1|]. split; [exact T1|exact F1].
Qed.

(* failed sends (error ack / timeout): the amount leaves the channel balance and is sent back *)
Theorem failure_spec st p st' ms : Inv st -> on_failure st p = Ok (st', ms) ->
  exists gas, check_gas_limit st' (op_key p) = Some gas /\
    ms = [Payout (op_key p) (Some (op_sender p)) (op_amount p) gas] /\
    out_of st' (op_chan p) (op_key p) + op_amount p = out_of st (op_chan p) (op_key p) /\
    sent_of st' (op_chan p) (op_key p) = sent_of st (op_chan p) (op_key p) /\
    (forall c' k', (c', k') <> (op_chan p, op_key p) -> get_cs st' c' k' = get_cs st c' k') /\
    Inv st' /\ same_but_cs st st'.
Proof.
  intros HI. unfold on_failure.
  destruct (reduce_balance st (op_chan p) (op_key p) (op_amount p)) as [st1|] eqn:R; [|discriminate].
  destruct (check_gas_limit st1 (op_key p)) as [gas|] eqn:G; [|discriminate].
  intros E. inv E. destruct (reduce_spec _ _ _ _ _ HI R) as (s & _ & _ & I1 & S1 & _ & _ & O1 & T1 & F1).
  exists gas. split; [exact G|]. split; [reflexivity|]. split; [exact O1|]. split; [exact T1|]. split; [exact F1|].
  split; [exact I1|exact S1].
Qed.

(* ---------------------------------------------------------------------------------------- *)
(* execute: frame and governance *)
Lemma with_allow_inv st m : Inv st -> Inv (with_allow st m).
Proof. intros [A B]. constructor; assumption. Qed.
Lemma with_admin_inv st a : Inv st -> Inv (with_admin st a).
Proof. intros [A B]. constructor; assumption. Qed.

Definition gas_le (old new : option N) : Prop :=
  match old, new with
  | None, None => True
  | None, Some _ => False
  | Some _, None => True
  | Some o, Some n => o <= n
  end.

Theorem step_spec st blk sender o st' ms : Inv st -> step st blk sender o = Ok (st', ms) ->
  Inv st' /\
  match o with
  | Transfer chan remote timeout memo funds =>
      exists d n, funds = [(DPlain d, n)] /\ do_transfer st blk chan remote timeout memo (nat_key d) n sender = Ok (st', ms)
  | Receive from n tmsg fa =>
      exists u chan remote timeout memo, from = Some u /\ tmsg = Some (chan, remote, timeout, memo) /\ fa = false /\
        do_transfer st blk chan remote timeout memo (cw_key sender) n u = Ok (st', ms)
  | Allow contract gas =>
      admin st = Some sender /\ ms = [] /\ exists c, contract = Some c /\
        st' = with_allow st (set ordN (allow st) c gas) /\
        (forall old, get ordN (allow st) c = Some old -> gas_le old gas)
  | UpdateAdmin a =>
      admin st = Some sender /\ ms = [] /\ exists x, a = Some x /\ st' = with_admin st (Some x)
  end.
Proof.
  intros HI H. destruct o as [chan remote timeout memo funds|from n tmsg fa|contract gas|a]; cbn [step] in H.
  - destruct funds as [|[d n] [|? ?]]; try discriminate.
    destruct (n =? 0); [discriminate|]. destruct d as [dn|]; [|discriminate].
    destruct (transfer_spec _ _ _ _ _ _ _ _ _ _ _ HI H) as (_ & _ & _ & _ & _ & I1 & _).
    split; [exact I1|]. exists dn, n. split; [reflexivity|exact H].
  - destruct fa; [discriminate|]. destruct tmsg as [[[[chan remote] timeout] memo]|]; [|discriminate].
    destruct from as [u|]; [|discriminate].
    destruct (transfer_spec _ _ _ _ _ _ _ _ _ _ _ HI H) as (_ & _ & _ & _ & _ & I1 & _).
    split; [exact I1|]. exists u, chan, remote, timeout, memo. repeat split; auto.
  - destruct (is_admin st sender) eqn:A; [|discriminate]. cbn [negb] in H.
    destruct contract as [c|]; [|discriminate].
    assert (Ha: admin st = Some sender).
    { unfold is_admin in A. destruct (admin st) as [x|]; [|discriminate]. apply N.eqb_eq in A. congruence. }
    destruct (get ordN (allow st) c) as [old|] eqn:G.
    + destruct old as [o'|], gas as [n'|]; try discriminate.
      * destruct (n' <? o') eqn:L; [discriminate|]. apply N.ltb_ge in L. inv H.
        split; [apply with_allow_inv; exact HI|]. split; [exact Ha|]. split; [reflexivity|]. exists c. split; [reflexivity|].
        split; [reflexivity|]. intros old E. rewrite G in E. inv E. exact L.
      * inv H. split; [apply with_allow_inv; exact HI|]. split; [exact Ha|]. split; [reflexivity|]. exists c. split; [reflexivity|].
        split; [reflexivity|]. intros old E. rewrite G in E. inv E. exact I.
      * inv H. split; [apply with_allow_inv; exact HI|]. split; [exact Ha|]. split; [reflexivity|]. exists c. split; [reflexivity|].
        split; [reflexivity|]. intros old E. rewrite G in E. inv E. exact I.
    + inv H. split; [apply with_allow_inv; exact HI|]. split; [exact Ha|]. split; [reflexivity|]. exists c. split; [reflexivity|].
      split; [reflexivity|]. intros old E. rewrite G in E. discriminate.
  - destruct a as [x|]; [|discriminate]. destruct (is_admin st sender) eqn:A; [|discriminate]. inv H.
    split; [apply with_admin_inv; exact HI|]. split.
    { unfold is_admin in A. destruct (admin st) as [y|]; [|discriminate]. apply N.eqb_eq in A. congruence. }
    split; [reflexivity|]. exists x. split; reflexivity.
Qed.

Lemma instantiate_inv m st : instantiate m = Ok st -> Inv st.
Proof.
  unfold instantiate. destruct (i_gov m); [|discriminate]. destruct (save_allow (i_allow m) []); [|discriminate].
  intros E. inv E. constructor; cbn [chan_state]; [constructor|]. intros c k s. unfold get_cs. cbn. discriminate.
Qed.
