(* The model satisfies S_C04 on every in-range input (C04_model), and what S_C04 = 0 means. *)
Require Import CwPlus.Params CwPlus.Base CwPlus.Cw3Threshold CwPlus.Cw3ThresholdLemmas
        CwPlus.Cw3ThresholdContract.
From Coq Require Import ZArith Lia ZifyBool ZifyN.
Open Scope N_scope.

Lemma is_nine_decimals_spec th : is_nine_decimals th = true -> nine_decimals th.
Proof.
  destruct th as [w|p|t q]; cbn [is_nine_decimals nine_decimals]; intros H.
  - exact I.
  - lia.
  - apply andb_true_iff in H. destruct H as [H1 H2]. split; lia.
Qed.

Lemma pass_early_exact9 th T v :
  nine_decimals th -> pass_fn th T v false = spec_certain_pass th T v.
Proof.
  intros H9. unfold pass_fn, spec_certain_pass.
  replace (negb (yes v =? 0)) with (0 <? yes v) by lia.
  destruct th as [w|p|t q]; cbn [nine_decimals] in H9.
  - reflexivity.
  - rewrite vn_exact9 by exact H9. reflexivity.
  - destruct H9 as [H1 H2]. rewrite !vn_exact9 by assumption. reflexivity.
Qed.

Lemma pass_early_complete_spec th T v :
  spec_certain_pass th T v = true -> pass_fn th T v false = true.
Proof.
  unfold pass_fn, spec_certain_pass.
  replace (negb (yes v =? 0)) with (0 <? yes v) by lia.
  intros H. apply andb_true_iff in H. destruct H as [Hy H]. rewrite Hy. cbn [andb].
  destruct th as [w|p|t q].
  - exact H.
  - apply N.leb_le. apply vn_never_stricter. lia.
  - apply andb_true_iff in H. destruct H as [H1 H2].
    apply andb_true_iff. split; apply N.leb_le; apply vn_never_stricter; lia.
Qed.

Lemma pass_early_sound_spec th T v :
  pass_fn th T v false = true -> spec_certain_pass_plus1 th T v = true.
Proof.
  unfold pass_fn, spec_certain_pass_plus1. intros H.
  apply andb_true_iff in H. destruct H as [Hy H].
  apply andb_true_iff. split; [lia|].
  destruct th as [w|p|t q].
  - exact H.
  - apply N.ltb_lt. apply vn_within_one. lia.
  - apply andb_true_iff in H. destruct H as [H1 H2].
    apply andb_true_iff. split; apply N.ltb_lt; apply vn_within_one; lia.
Qed.

Lemma pass_expired_within_one_b th T v :
  pass_fn th T v true = true -> spec_pass_expired_plus1b th T v = true.
Proof.
  intros H. apply pass_expired_within_one in H. destruct H as [Hy H].
  unfold spec_pass_expired_plus1b. apply andb_true_iff. split; [lia|].
  destruct th as [w|p|t q]; [lia|lia|]. destruct H as [H1 H2].
  apply andb_true_iff. split; lia.
Qed.

Definition all_yes (T : N) (v : votes) : votes :=
  mkVotes (yes v + (T - tally v)) (no v) (abstain v) (veto v).

Lemma reject_early_spec th T v :
  in_range th T v -> rej_fn th T v false = true -> spec_can_pass th T v = false.
Proof.
  intros HR Hrej.
  assert (C: completes T v (all_yes T v)).
  { destruct HR as (_ & Ht & _). unfold completes, all_yes, tally in *. cbn. repeat split; lia. }
  pose proof (early_reject_sound th T v _ true HR C Hrej) as Hp.
  destruct (spec_can_pass th T v) eqn:E; [|reflexivity]. exfalso.
  assert (Hs: spec_pass_expired th T (all_yes T v) = true).
  { destruct HR as (Hwf & Ht & HT).
    unfold spec_can_pass in E. unfold spec_pass_expired, all_yes. cbn [yes no abstain veto].
    apply andb_true_iff in E. destruct E as [E1 E2]. apply andb_true_iff. split; [exact E1|].
    destruct th as [w|p|t q]; cbn [threshold_wf] in Hwf.
    - exact E2.
    - exact E2.
    - apply andb_true_iff in Hwf. destruct Hwf as [Hp' Hq]. apply wf_quorum in Hq.
      assert (Htl: tally {| yes := yes v + (T - tally v); no := no v; abstain := abstain v; veto := veto v |} = T)
        by (unfold tally in *; cbn; lia).
      rewrite Htl. apply andb_true_iff. split; [nia|exact E2]. }
  apply pass_expired_never_stricter in Hs. congruence.
Qed.

Theorem model_satisfies_s_c04 th T v e :
  in_range th T v ->
  s_c04 th T v e (is_passed th T v e) (is_rejected th T v e) (current_status Open th T v e) = 0.
Proof.
  intros HR.
  rewrite is_passed_eq, is_rejected_eq, current_status_eq by exact HR.
  unfold s_c04, status_fn.
  set (p := pass_fn th T v e). set (r := rej_fn th T v e).
  (* clause 2 *)
  assert (H2: p && (yes v =? 0) = false).
  { subst p. unfold pass_fn. destruct (yes v =? 0); cbn; [reflexivity|apply andb_false_r]. }
  rewrite H2.
  (* clause 3 *)
  assert (H3: p && r = false).
  { destruct p eqn:Ep, r eqn:Er; try reflexivity. exfalso. exact (never_both th T v e HR Ep Er). }
  rewrite H3.
  destruct e; cbn [negb andb].
  - (* expired *)
    assert (H4: implb (spec_pass_expired th T v) p = true).
    { destruct (spec_pass_expired th T v) eqn:Es; [|reflexivity].
      subst p. rewrite (pass_expired_never_stricter _ _ _ Es). reflexivity. }
    rewrite H4. cbn [negb].
    assert (H5: implb p (spec_pass_expired_plus1b th T v) = true).
    { destruct p eqn:Ep; [|reflexivity]. subst p. rewrite (pass_expired_within_one_b _ _ _ Ep). reflexivity. }
    rewrite H5. cbn [negb].
    assert (H6: is_nine_decimals th && negb (eqb p (spec_pass_expired th T v)) = false).
    { destruct (is_nine_decimals th) eqn:E9; [|reflexivity]. cbn [andb].
      apply is_nine_decimals_spec in E9. subst p. rewrite (pass_expired_exact9 _ _ _ E9).
      rewrite eqb_reflx. reflexivity. }
    rewrite H6.
    destruct p; cbn [status_eqb negb]; [reflexivity|].
    rewrite orb_true_r. reflexivity.
  - (* not expired *)
    assert (H7: implb (spec_certain_pass th T v) p = true).
    { destruct (spec_certain_pass th T v) eqn:Es; [|reflexivity].
      subst p. rewrite (pass_early_complete_spec _ _ _ Es). reflexivity. }
    rewrite H7. cbn [negb].
    assert (H8: implb p (spec_certain_pass_plus1 th T v) = true).
    { destruct p eqn:Ep; [|reflexivity]. subst p. rewrite (pass_early_sound_spec _ _ _ Ep). reflexivity. }
    rewrite H8. cbn [negb].
    assert (H9: is_nine_decimals th && negb (eqb p (spec_certain_pass th T v)) = false).
    { destruct (is_nine_decimals th) eqn:E9; [|reflexivity]. cbn [andb].
      apply is_nine_decimals_spec in E9. subst p. rewrite (pass_early_exact9 _ _ _ E9).
      rewrite eqb_reflx. reflexivity. }
    rewrite H9.
    assert (H10: r && spec_can_pass th T v = false).
    { destruct r eqn:Er; [|reflexivity]. cbn [andb]. subst r. exact (reject_early_spec _ _ _ HR Er). }
    rewrite H10.
    destruct p; cbn [status_eqb negb]; [reflexivity|].
    rewrite orb_false_r. destruct r; reflexivity.
Qed.

Theorem model_check_c04_zero c :
  c_p c = is_passed (c_th c) (c_T c) (c_v c) (c_exp c) ->
  c_r c = is_rejected (c_th c) (c_T c) (c_v c) (c_exp c) ->
  c_st c = current_status Open (c_th c) (c_T c) (c_v c) (c_exp c) ->
  check_c04 c = 0.
Proof.
  intros Hp Hr Hs. unfold check_c04.
  destruct (c04_in_range c) eqn:ER; cbn [negb]; [|reflexivity].
  assert (HR: in_range (c_th c) (c_T c) (c_v c)).
  { unfold c04_in_range in ER. unfold in_range.
    apply andb_true_iff in ER. destruct ER as [ER E3]. apply andb_true_iff in ER. destruct ER as [E1 E2].
    repeat split; [exact E1|lia|lia]. }
  rewrite Hp, Hr, Hs. rewrite model_satisfies_s_c04 by exact HR. cbn.
  unfold corr_c04, obool_eqb.
  assert (Ho: forall o : option bool, opt_eqb Bool.eqb o o = true)
    by (intros [[|]|]; reflexivity).
  assert (Hst: forall o : option status, opt_eqb status_eqb o o = true)
    by (intros [[| | | |]|]; reflexivity).
  rewrite !Ho, Hst. reflexivity.
Qed.

(* ---- final forms, on the model's own (abort-aware) functions; used by Props/C04.v ---- *)
Lemma completes_in_range th T v v' : in_range th T v -> completes T v v' -> in_range th T v'.
Proof. intros (Hwf & Ht & HT) (_ & _ & _ & _ & Ht'). repeat split; assumption. Qed.

Lemma f_no_abort th T v e : in_range th T v ->
  exists p r s, is_passed th T v e = Some p /\ is_rejected th T v e = Some r /\
                current_status Open th T v e = Some s.
Proof.
  intros HR. exists (pass_fn th T v e), (rej_fn th T v e), (status_fn Open th T v e).
  rewrite is_passed_eq, is_rejected_eq, current_status_eq by exact HR. repeat split.
Qed.

Lemma f_vn_char w p : w <= u64max -> p <= DEN ->
  exists n, votes_needed w p = Some n /\ n <= w /\
            forall y, n <= y <-> PF * w * p < (y * PF + 1) * DEN.
Proof.
  intros Hw Hp. exists (vn w p). split; [apply votes_needed_ok; assumption|].
  split; [apply vn_le_weight; exact Hp|]. intros y. apply vn_spec.
Qed.

Lemma f_expired_exact9 th T v : in_range th T v -> nine_decimals th ->
  is_passed th T v true = Some (spec_pass_expired th T v).
Proof. intros HR H9. rewrite is_passed_eq by exact HR. f_equal. apply pass_expired_exact9. exact H9. Qed.

Lemma f_never_stricter th T v : in_range th T v ->
  spec_pass_expired th T v = true -> is_passed th T v true = Some true.
Proof. intros HR H. rewrite is_passed_eq by exact HR. f_equal. apply pass_expired_never_stricter. exact H. Qed.

Lemma f_within_one th T v : in_range th T v ->
  is_passed th T v true = Some true -> spec_pass_expired_plus1 th T v.
Proof.
  intros HR H. rewrite is_passed_eq in H by exact HR. injection H as H1.
  apply pass_expired_within_one. exact H1.
Qed.

Lemma f_no_yes_no_pass th T v e : yes v = 0 -> is_passed th T v e = Some false.
Proof. intros H. unfold is_passed. rewrite H. reflexivity. Qed.

Lemma f_expired_decision th T v : in_range th T v ->
  exists p, is_passed th T v true = Some p /\
            current_status Open th T v true = Some (if p then Passed else Rejected).
Proof.
  intros HR. exists (pass_fn th T v true). rewrite is_passed_eq, current_status_eq by exact HR.
  split; [reflexivity|]. unfold status_fn. destruct (pass_fn th T v true); [reflexivity|].
  rewrite orb_true_r. reflexivity.
Qed.

Lemma f_early_pass_sound th T v : in_range th T v -> is_passed th T v false = Some true ->
  forall v' e', completes T v v' -> is_passed th T v' e' = Some true.
Proof.
  intros HR H v' e' C. rewrite is_passed_eq in H by exact HR. injection H as H1.
  rewrite is_passed_eq by (eapply completes_in_range; eassumption).
  f_equal. eapply early_pass_sound; eassumption.
Qed.

Lemma f_early_pass_complete th T v : in_range th T v ->
  (forall v', completes T v v' -> is_passed th T v' true = Some true) ->
  is_passed th T v false = Some true.
Proof.
  intros HR Hall. rewrite is_passed_eq by exact HR. f_equal.
  apply early_pass_complete; [exact HR|]. intros v' C.
  specialize (Hall v' C). rewrite is_passed_eq in Hall by (eapply completes_in_range; eassumption).
  injection Hall as H1. rewrite H1. reflexivity.
Qed.

Lemma f_early_reject_sound th T v : in_range th T v -> is_rejected th T v false = Some true ->
  forall v' e', completes T v v' -> is_passed th T v' e' = Some false.
Proof.
  intros HR H v' e' C. rewrite is_rejected_eq in H by exact HR. injection H as H1.
  rewrite is_passed_eq by (eapply completes_in_range; eassumption).
  f_equal. eapply early_reject_sound; eassumption.
Qed.

Lemma f_never_both th T v e : in_range th T v ->
  ~ (is_passed th T v e = Some true /\ is_rejected th T v e = Some true).
Proof.
  intros HR [H1 H2]. rewrite is_passed_eq in H1 by exact HR. rewrite is_rejected_eq in H2 by exact HR.
  injection H1 as H1'. injection H2 as H2'.
  eapply never_both; eassumption.
Qed.

Lemma f_count_gt_total w T v e : is_rejected (AbsCount w) T v e = Some (T - w <? no v).
Proof. reflexivity. Qed.

(* sticky decisions are safe: once the library said Passed (Rejected) before expiry, every later
   tally of the same proposal, expired or not, still evaluates to Passed (never to Passed) *)
Lemma f_stable_passed th T v : in_range th T v ->
  current_status Open th T v false = Some Passed ->
  forall v' e', completes T v v' -> current_status Open th T v' e' = Some Passed.
Proof.
  intros HR H v' e' C. rewrite current_status_eq in H by exact HR.
  rewrite current_status_eq by (eapply completes_in_range; eassumption).
  unfold status_fn in *. destruct (pass_fn th T v false) eqn:Ep.
  - rewrite (early_pass_sound th T v v' e' HR C Ep). reflexivity.
  - destruct (rej_fn th T v false || false); discriminate.
Qed.

Lemma f_stable_rejected th T v : in_range th T v ->
  current_status Open th T v false = Some Rejected ->
  forall v' e', completes T v v' -> current_status Open th T v' e' <> Some Passed.
Proof.
  intros HR H v' e' C. rewrite current_status_eq in H by exact HR.
  rewrite current_status_eq by (eapply completes_in_range; eassumption).
  unfold status_fn in *. destruct (pass_fn th T v false) eqn:Ep; [discriminate|].
  rewrite orb_false_r in H. destruct (rej_fn th T v false) eqn:Er; [|discriminate].
  rewrite (early_reject_sound th T v v' e' HR C Er).
  destruct (rej_fn th T v' e' || e'); discriminate.
Qed.
