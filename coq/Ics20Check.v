(* Ics20Check.v — step contracts S_C11, S_C12, S_C18 and the trace checker of family F6. *)
Require Import CwPlus.Params CwPlus.Base CwPlus.AMap CwPlus.Ics20Model.
Open Scope N_scope.

Record obs := mkObs {
  ob_admin : option N;
  ob_timeout : N;
  ob_gas : option N;
  ob_allow : list (N * option N);                 (* ListAllowed paged to the end *)
  ob_chan : list (N * N * N * N);                 (* Channel{id} of every channel: (channel, key, outstanding, total_sent) *)
  ob_hold : list (N * N);                         (* the contract's balance of every known key *)
  ob_bal : list (N * N * N)                       (* (address, key, balance) of every pool address *)
}.

Definition lookup2 (l : list (N * N * N * N)) (c k : N) : option (N * N) :=
  match find (fun e => let '(c', k', _, _) := e in (c' =? c) && (k' =? k)) l with
  | Some (_, _, o, t) => Some (o, t)
  | None => None
  end.
Definition oout (o : obs) (c k : N) : N := match lookup2 (ob_chan o) c k with Some (x, _) => x | None => 0 end.
Definition osent (o : obs) (c k : N) : N := match lookup2 (ob_chan o) c k with Some (_, t) => t | None => 0 end.
Definition ohold (o : obs) (k : N) : N :=
  match find (fun e => fst e =? k) (ob_hold o) with Some e => snd e | None => 0 end.
Definition obal (o : obs) (a k : N) : N :=
  match find (fun e => let '(a', k', _) := e in (a' =? a) && (k' =? k)) (ob_bal o) with Some (_, _, n) => n | None => 0 end.
Definition oallow (o : obs) (c : N) : option (option N) :=
  match find (fun e => fst e =? c) (ob_allow o) with Some e => Some (snd e) | None => None end.
Definition ksum_obs (o : obs) (k : N) : N :=
  sumN (map (fun e => let '(_, k', x, _) := e in if k' =? k then x else 0) (ob_chan o)).

Definition e4_eqb (x y : N * N * N * N) : bool :=
  let '(a, b, c, d) := x in let '(a', b', c', d') := y in (a =? a') && (b =? b') && (c =? c') && (d =? d').
Definition e3_eqb (x y : N * N * N) : bool :=
  let '(a, b, c) := x in let '(a', b', c') := y in (a =? a') && (b =? b') && (c =? c').
Definition e2_eqb (x y : N * N) : bool := (fst x =? fst y) && (snd x =? snd y).
Definition optN_eqb (a b : option N) : bool := opt_eqb N.eqb a b.
Definition al_eqb (x y : N * option N) : bool := (fst x =? fst y) && optN_eqb (snd x) (snd y).
(* channel entries with all-zero counters and absent entries are the same thing to a client *)
Definition chan_same (a b : obs) : bool :=
  forallb (fun e => let '(c, k, o, t) := e in (oout b c k =? o) && (osent b c k =? t)) (ob_chan a) &&
  forallb (fun e => let '(c, k, o, t) := e in (oout a c k =? o) && (osent a c k =? t)) (ob_chan b).
Definition money_same (a b : obs) : bool :=
  chan_same a b && list_eqb e2_eqb (ob_hold a) (ob_hold b) && list_eqb e3_eqb (ob_bal a) (ob_bal b).
Definition gov_same (a b : obs) : bool :=
  optN_eqb (ob_admin a) (ob_admin b) && list_eqb al_eqb (ob_allow a) (ob_allow b) &&
  (ob_timeout a =? ob_timeout b) && optN_eqb (ob_gas a) (ob_gas b).

Definition out_packet_eqb (a b : out_packet) : bool :=
  (op_chan a =? op_chan b) && (op_amount a =? op_amount b) && (op_key a =? op_key b) && (op_sender a =? op_sender b) &&
  (op_receiver a =? op_receiver b) && optN_eqb (op_memo a) (op_memo b) && (op_timeout a =? op_timeout b).
Definition arg_eqb (a b : arg) : bool := opt_eqb N.eqb a b.
Definition msg_eqb (a b : msg) : bool :=
  match a, b with
  | SendPacket p, SendPacket q => out_packet_eqb p q
  | Payout k t n g, Payout k' t' n' g' => (k =? k') && arg_eqb t t' && (n =? n') && optN_eqb g g'
  | _, _ => false
  end.

(* what one step of a trace is *)
Inductive tstep :=
| TExec (blk : block) (sender : N) (o : op) (hok ok : bool) (ms : list msg) (after : obs)
| TSend (blk : block) (tok user n : N) (t : tmsg_t) (hok ok : bool) (ms : list msg) (after : obs)
| TRecv (blk : block) (p : in_packet) (aborted : bool) (a : ack) (ms : list msg) (after : obs)
| TAckOk (blk : block) (p : out_packet) (ok : bool) (after : obs)
| TFail (blk : block) (p : out_packet) (timeout : bool) (ok paid_ok : bool) (ms : list msg) (after : obs)
| TDonate (k n : N) (after : obs)
| TSetVersion (v : version) (after : obs)         (* the harness rewrites storage into a legacy layout *)
| TMigrate (blk : block) (g : option N) (ok : bool) (after : obs).

Definition after_of (s : tstep) : obs :=
  match s with
  | TExec _ _ _ _ _ _ a | TSend _ _ _ _ _ _ _ _ a | TRecv _ _ _ _ _ a | TAckOk _ _ _ a | TFail _ _ _ _ _ _ a
  | TDonate _ _ a | TSetVersion _ a | TMigrate _ _ _ a => a
  end.

(* ghost counters the checker keeps per (channel, key): sent, failed, redeemed (all accepted amounts) *)
Definition ghost := list (N * N * (N * N * N)).
Definition gget (g : ghost) (c k : N) : N * N * N :=
  match find (fun e => (fst (fst e) =? c) && (snd (fst e) =? k)) g with Some e => snd e | None => (0, 0, 0) end.
Definition gset (g : ghost) (c k : N) (v : N * N * N) : ghost :=
  (c, k, v) :: filter (fun e => negb ((fst (fst e) =? c) && (snd (fst e) =? k))) g.
Definition gadd (g : ghost) (c k : N) (ds df dr : N) : ghost :=
  let '(s, f, r) := gget g c k in gset g c k (s + ds, f + df, r + dr).
Definition ghost_of_obs (o : obs) : ghost := map (fun e => let '(c, k, x, t) := e in (c, k, (x, 0, 0))) (ob_chan o).

(* the accounting identity of C12, on an observation *)
Definition identity_ok (g : ghost) (o : obs) : bool :=
  forallb (fun e => let '(c, k, (s, f, r)) := e in (oout o c k + f + r =? s)) g &&
  forallb (fun e => let '(c, k, x, _) := e in let '(s, f, r) := gget g c k in (x + f + r =? s)) (ob_chan o).

Definition key_of_funds (funds : list (nden * N)) : option (N * N) :=
  match funds with [(DPlain d, n)] => Some (nat_key d, n) | _ => None end.

(* ---------------------------------------------------------------------------------------- *)
(* S_C12 *)
Definition only_changed (pre post : obs) (c k : N) : bool :=
  forallb (fun e => let '(c', k', o, t) := e in ((c' =? c) && (k' =? k)) || ((oout post c' k' =? o) && (osent post c' k' =? t)))
          (ob_chan pre) &&
  forallb (fun e => let '(c', k', o, t) := e in ((c' =? c) && (k' =? k)) || ((oout pre c' k' =? o) && (osent pre c' k' =? t)))
          (ob_chan post).

Definition transfer_ok (pre post : obs) (blk : block) (chan remote : N) (timeout memo : option N) (k n sender : N)
           (ms : list msg) : N :=
  let delta := match timeout with Some t => t | None => ob_timeout pre end in
  if negb (list_eqb msg_eqb ms [SendPacket (mkOut chan n k sender remote memo (time blk + delta * 1000000000))]) then 1
  else if u64max <? n then 2
  else if negb ((oout post chan k =? oout pre chan k + n) && (osent post chan k =? osent pre chan k + n) &&
                only_changed pre post chan k) then 3
  else 0.

Definition s_c12 (legacy : bool) (pre : obs) (s : tstep) : N :=
  let post := after_of s in
  match s with
  | TExec blk sender o hok ok ms _ =>
      if negb ok then (if money_same pre post then 0 else 4)                 (* a failed call moved balances *)
      else match o with
      | Transfer chan remote timeout memo funds =>
          match key_of_funds funds with
          | Some (k, n) => transfer_ok pre post blk chan remote timeout memo k n sender ms
          | None => 5                                                         (* accepted without exactly one plain coin *)
          end
      | Receive (Some u) n (Some (chan, remote, timeout, memo)) false =>
          transfer_ok pre post blk chan remote timeout memo (cw_key sender) n u ms
      | Receive _ _ _ _ => 5
      | _ => if chan_same pre post then (match ms with [] => 0 | _ => 6 end) else 6   (* governance call touched balances *)
      end
  | TSend blk tok user n t hok ok ms _ =>
      if negb ok then (if money_same pre post then 0 else 4)
      else match t with
           | Some (chan, remote, timeout, memo) => transfer_ok pre post blk chan remote timeout memo (cw_key tok) n user ms
           | None => 5
           end
  | TRecv blk p aborted a ms _ =>
      if aborted then 7                                                       (* handling a packet aborted *)
      else match a with
      | AckErr => if money_same pre post then 0 else 8                        (* error ack, yet something changed *)
      | AckOk =>
          match ip_data p, ms with
          | Some d, [Payout k to n _] =>
              match to with
              | Some r =>
                  if negb ((n =? pd_amount d) && (oout post (ip_dest_chan p) k + n =? oout pre (ip_dest_chan p) k) &&
                           (osent post (ip_dest_chan p) k =? osent pre (ip_dest_chan p) k) &&
                           only_changed pre post (ip_dest_chan p) k) then 9  (* success ack, balance not reduced by the amount *)
                  else if negb ((obal post r k =? obal pre r k + n) && (ohold post k + n =? ohold pre k)) then 10
                  else 0
              | None => if ohold post k + n =? ohold pre k then 0 else 10     (* (the test chain's bank pays any string) *)
              end
          | _, _ => 9
          end
      end
  | TAckOk _ _ ok _ => if money_same pre post then 0 else 11                  (* a success ack changed balances *)
  | TFail blk p _ ok paid_ok ms _ =>
      if negb ok then (if money_same pre post then 0 else 4)
      else if negb ((oout post (op_chan p) (op_key p) + op_amount p =? oout pre (op_chan p) (op_key p)) &&
                    (osent post (op_chan p) (op_key p) =? osent pre (op_chan p) (op_key p)) &&
                    only_changed pre post (op_chan p) (op_key p)) then 12      (* failed send not taken off the balance *)
      else if paid_ok && negb ((obal post (op_sender p) (op_key p) =? obal pre (op_sender p) (op_key p) + op_amount p) &&
                               (ohold post (op_key p) + op_amount p =? ohold pre (op_key p))) then 13
      else 0
  | TDonate k n _ => if chan_same pre post then 0 else 14
  | TSetVersion _ _ => 0
  | TMigrate _ _ ok _ =>
      if negb ok then (if money_same pre post then 0 else 4)
      else if legacy && negb (forallb (fun e => let '(_, k, x, _) := e in x =? ohold post k) (ob_chan post)) then 15
                                                (* migrated from an old layout, yet outstanding <> what is actually escrowed *)
      else if negb legacy && negb (chan_same pre post) then 16
                                                (* a migration of an up-to-date contract rewrote channel balances *)
      else 0
  end.

(* ghost update for an accepted step *)
Definition ghost_step (g : ghost) (s : tstep) : ghost :=
  match s with
  | TExec _ sender (Transfer chan _ _ _ funds) _ true _ _ =>
      match key_of_funds funds with Some (k, n) => gadd g chan k n 0 0 | None => g end
  | TExec _ sender (Receive _ n (Some (chan, _, _, _)) _) _ true _ _ => gadd g chan (cw_key sender) n 0 0
  | TSend _ tok _ n (Some (chan, _, _, _)) _ true _ _ => gadd g chan (cw_key tok) n 0 0
  | TRecv _ p false AckOk [Payout k _ n _] _ => gadd g (ip_dest_chan p) k 0 0 n
  | TFail _ p _ true _ _ _ => gadd g (op_chan p) (op_key p) 0 (op_amount p) 0
  | TMigrate _ _ true a => ghost_of_obs a                 (* the identity restarts from the migrated balances *)
  | TSetVersion _ a => ghost_of_obs a                     (* ... and from whatever the legacy layout holds *)
  | _ => g
  end.

(* ---------------------------------------------------------------------------------------- *)
(* S_C11.  fake = addresses that called Receive directly (they are not honest tokens) *)
Definition s_c11 (fake : list N) (keys : list N) (pre : obs) (s : tstep) : N :=
  let post := after_of s in
  if negb (forallb (fun k => (key_is_cw20 k && mem (key_addr k) fake) || (ksum_obs post k <=? ohold post k)) keys) then 1
  else if negb (forallb (fun e => let '(_, _, o, t) := e in o <=? t) (ob_chan post)) then 2   (* paid out more than escrowed *)
  else match s with
  | TRecv _ p _ a ms _ =>
      let good := match ip_data p with
                  | Some d => match parse_voucher p (pd_denom d) with
                              | Some (BKey k) => pd_amount d <=? oout pre (ip_dest_chan p) k
                              | _ => false end
                  | None => false end in
      if negb good && negb (money_same pre post) then 3                        (* a foreign / excessive packet released something *)
      else if negb good && (match a with AckOk => true | AckErr => false end) then 3
      else 0
  | _ => 0
  end.

(* ---------------------------------------------------------------------------------------- *)
(* S_C18 *)
Definition gas_le (old new : option N) : bool :=
  match old, new with
  | None, None => true
  | None, Some _ => false
  | Some _, None => true
  | Some o, Some n => o <=? n
  end.
Definition allow_monotone (pre post : obs) : bool :=
  forallb (fun e => match oallow post (fst e) with Some g => gas_le (snd e) g | None => false end) (ob_allow pre).
Definition gas_for (o : obs) (k : N) : option (option N) :=
  if key_is_cw20 k then match oallow o (key_addr k) with
                        | Some g => Some g
                        | None => match ob_gas o with Some b => Some (Some b) | None => None end
                        end
  else Some None.
Definition payouts_gas_ok (pre : obs) (ms : list msg) : bool :=
  forallb (fun m => match m with
                    | Payout k _ _ g => match gas_for pre k with Some g' => optN_eqb g g' | None => false end
                    | _ => true end) ms.

Definition s_c18 (pre : obs) (ver_before : version) (s : tstep) : N :=
  let post := after_of s in
  if negb (allow_monotone pre post) && negb (match s with TSetVersion _ _ => true | _ => false end) then 1
                                                                              (* a token was removed or its gas limit lowered *)
  else match s with
  | TExec blk sender o hok ok ms _ =>
      let by_gov := ok && optN_eqb (ob_admin pre) (Some sender) in
      if negb (gov_same pre post) &&
         negb (by_gov && (ob_timeout pre =? ob_timeout post) && optN_eqb (ob_gas pre) (ob_gas post) &&
               match o with
               | Allow (Some c) g =>
                   optN_eqb (ob_admin pre) (ob_admin post) &&
                   forallb (fun e => (fst e =? c) || (opt_eqb optN_eqb (oallow pre (fst e)) (Some (snd e)))) (ob_allow post) &&
                   opt_eqb optN_eqb (oallow post c) (Some g)
               | UpdateAdmin (Some x) => optN_eqb (ob_admin post) (Some x) && list_eqb al_eqb (ob_allow pre) (ob_allow post)
               | _ => false
               end) then 2                                                     (* allow list / governance changed illegitimately *)
      else if ok && match o with
                    | Receive _ _ _ _ => negb (match oallow pre sender with Some _ => true | None => false end ||
                                               match ob_gas pre with Some _ => true | None => false end)
                    | _ => false end then 3                                    (* cw20 transfer of a token neither allowed nor covered by a default *)
      else 0
  | TSend _ tok _ _ _ hok ok ms _ =>
      if negb (gov_same pre post) then 2
      else if ok && negb (match oallow pre tok with Some _ => true | None => false end ||
                          match ob_gas pre with Some _ => true | None => false end) then 3
      else 0
  | TRecv _ _ _ _ ms _ | TFail _ _ _ _ _ ms _ =>
      if negb (gov_same pre post) then 2
      else if negb (payouts_gas_ok pre ms) then 4                              (* payout issued with a wrong gas limit *)
      else 0
  | TMigrate _ g ok _ =>
      if negb (list_eqb al_eqb (ob_allow pre) (ob_allow post)) then 5          (* migrate touched the allow list *)
      else if negb (optN_eqb (ob_admin pre) (ob_admin post)) &&
              negb (match ver_before with V1 => ok | _ => false end) then 5
      else if ok && negb (optN_eqb (ob_gas post) (match g with Some x => Some x | None => ob_gas pre end)) &&
              negb (match ver_before with V1 => optN_eqb (ob_gas post) g | _ => false end) then 6   (* default gas limit lost *)
      else 0
  | TSetVersion _ _ => 0
  | _ => if gov_same pre post then 0 else 2
  end.

(* ---------------------------------------------------------------------------------------- *)
Record trace := mkTrace {
  t_init : init_msg; t_init_ok : bool; t_init_obs : obs; t_keys : list N; t_steps : list tstep }.

Definition corr_state (st : state) (o : obs) : bool :=
  optN_eqb (admin st) (ob_admin o) && (default_timeout st =? ob_timeout o) && optN_eqb (default_gas st) (ob_gas o) &&
  list_eqb al_eqb (allow st) (ob_allow o) &&
  forallb (fun e => let '(c, k, x, t) := e in (out_of st c k =? x) && (sent_of st c k =? t)) (ob_chan o) &&
  forallb (fun e => let '((c, k), s) := e in (oout o c k =? outstanding s) && (osent o c k =? total_sent s)) (chan_state st).
Definition corr_hold (w : world) (o : obs) : bool := forallb (fun e => hold w (fst e) =? snd e) (ob_hold o).

Definition wop_of (s : tstep) : option (block * wop) :=
  match s with
  | TExec blk sender o _ _ _ _ => Some (blk, WExec sender o)
  | TSend blk tok user n t _ _ _ _ => Some (blk, WSendCw20 tok user n t)
  | TRecv blk p _ a _ _ => Some (blk, WRecv p (match a with AckOk => true | AckErr => false end))
  | TAckOk blk p _ _ => Some (blk, WAckOk p)
  | TFail blk p _ _ paid_ok _ _ => Some (blk, WFail p paid_ok)
  | TDonate k n _ => Some (mkBlock 0 0, WDonate k n)
  | TMigrate blk g _ _ => Some (blk, WMigrate g)
  | TSetVersion _ _ => None
  end.

(* what the model says the handler returns for this step: (accepted, messages) *)
Definition model_handler (st : state) (s : tstep) : bool * list msg :=
  match s with
  | TExec blk sender o _ _ _ _ => match step st blk sender o with Ok (_, m) => (true, m) | _ => (false, []) end
  | TSend blk tok user n t _ _ _ _ =>
      match step st blk tok (Receive (Some user) n t false) with Ok (_, m) => (true, m) | _ => (false, []) end
  | TRecv _ p _ _ _ _ => let '(_, a, m) := do_receive st p in (match a with AckOk => true | AckErr => false end, m)
  | TFail _ p _ _ _ _ _ => match on_failure st p with Ok (_, m) => (true, m) | _ => (false, []) end
  | _ => (true, [])
  end.
Definition obs_handler (s : tstep) : bool * list msg :=
  match s with
  | TExec _ _ _ hok _ ms _ | TSend _ _ _ _ _ hok _ ms _ => (hok, ms)
  | TRecv _ _ _ a ms _ => (match ms with [] => false | _ => true end, ms)
  | TFail _ _ _ ok _ ms _ => (ok, ms)
  | _ => (true, [])
  end.

Definition set_version (st : state) (v : version) : state :=
  match v with
  | V1 => mkSt (default_timeout st) None None [] (channels st) (chan_state st) (reply_args st) V1 (admin st)
  | _ => mkSt (default_timeout st) (default_gas st) (admin st) (allow st) (channels st) (chan_state st) (reply_args st) v (v1_gov st)
  end.

(* the harness's legacy layouts also un-reconcile one channel entry: the table is read back *)
Definition cs_of_obs (o : obs) : amap (N * N) cstate :=
  fold_right (fun e m => let '(c, k, x, t) := e in set ordNN m (c, k) (mkCs x t)) [] (ob_chan o).

Definition fake_after (fake : list N) (s : tstep) : list N :=
  match s with TExec _ sender (Receive _ _ _ _) _ _ _ _ => sender :: fake | _ => fake end.

(* acceptance of which steps belongs to which property's slice: C12 speaks about transfers, packets,
   acknowledgements and timeouts; C18 about the governance calls and migrations; C11 about amounts only *)
Definition owns_acceptance (prop : N) (s : tstep) : bool :=
  match prop, s with
  | 12, (TSend _ _ _ _ _ _ _ _ _ | TRecv _ _ _ _ _ _ | TFail _ _ _ _ _ _ _) => true
  | 12, TExec _ _ (Transfer _ _ _ _ _ | Receive _ _ _ _) _ _ _ _ => true
  | 18, TExec _ _ (Allow _ _ | UpdateAdmin _) _ _ _ _ => true
  | 18, TMigrate _ _ _ _ => true
  | _, _ => false
  end.

(* result codes: 100+c clause c of the property's contract; 120 accounting identity (C12);
   50 state differs; 52 holdings differ; 49 acceptance differs; 51 messages differ *)
Fixpoint check_steps (prop : N) (keys : list N) (i : N) (w : world) (fake : list N) (g : ghost) (prev : obs)
         (l : list tstep) : list (N * N) :=
  match l with
  | [] => []
  | s :: r =>
      let post := after_of s in
      let fake' := fake_after fake s in
      let c := match prop with
               | 11 => s_c11 fake' keys prev s
               | 12 => s_c12 (match ver (w_st w) with V1 | V2 => Nat.leb (length (channels (w_st w))) 1 | _ => false end) prev s
               | 18 => s_c18 prev (ver (w_st w)) s
               | _ => 0
               end in
      if negb (c =? 0) then [(i, 100 + c)] else
      let g' := ghost_step g s in
      if (prop =? 12) && negb (identity_ok g' post) then [(i, 120)] else
      let '(hm, mm) := model_handler (w_st w) s in
      let '(ho, mo) := obs_handler s in
      let w' := match s with
                | TSetVersion v a => mkW (with_cs (set_version (w_st w) v) (cs_of_obs a)) (w_hold w)
                | _ => match wop_of s with Some (blk, o) => wstep w blk o | None => w end
                end in
      (* after a disagreement the run goes on from what the implementation shows (channel table and holdings read back
         from the observation), so that a concrete clause failing later in the same history is still found *)
      let resync := mkW (with_cs (w_st w') (cs_of_obs post))
                        (fold_right (fun e m => set ordN m (fst e) (snd e)) [] (ob_hold post)) in
      if negb (Bool.eqb hm ho)
      then (if owns_acceptance prop s then [(i, 49)] else []) ++ check_steps prop keys (i + 1) resync fake' g' post r
           (* whether a call is admitted is the business of the property that speaks about that call *)
      else if negb (corr_state (w_st w') post) then (i, 50) :: check_steps prop keys (i + 1) resync fake' g' post r
      else if (prop =? 11) && negb (corr_hold w' post) then (i, 52) :: check_steps prop keys (i + 1) resync fake' g' post r
      else if ho && negb (list_eqb msg_eqb mm mo) then (i, 51) :: check_steps prop keys (i + 1) w' fake' g' post r
      else check_steps prop keys (i + 1) w' fake' g' post r
  end.

Definition world_of_obs (st : state) (o : obs) : world :=
  mkW st (fold_right (fun e m => set ordN m (fst e) (snd e)) [] (ob_hold o)).

Definition check_trace (prop : N) (t : trace) : list (N * N) :=
  match instantiate (t_init t) with
  | Ok st =>
      if negb (t_init_ok t) then [(0, 49)]
      else if negb (corr_state st (t_init_obs t)) then [(0, 50)]
      else check_steps prop (t_keys t) 1 (world_of_obs st (t_init_obs t)) [] [] (t_init_obs t) (t_steps t)
  | _ => if t_init_ok t then [(0, 49)] else []
  end.

Fixpoint check_traces (prop : N) (i : N) (ts : list trace) : list (N * N) :=
  match ts with
  | [] => []
  | t :: r =>
      match prefer_clause (check_trace prop t) with
      | [] => check_traces prop (i + 1) r
      | (s, c) :: _ => (i, s * 1000 + c) :: check_traces prop (i + 1) r
      end
  end.
