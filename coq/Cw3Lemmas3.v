(* Cw3Lemmas3.v — cw3: the observed status of a proposal only moves forward (C05), and a latched status
   always agrees with the rule on the present tally (C03), under the range condition of C06. *)
Require Import CwPlus.Params CwPlus.Base CwPlus.AMap CwPlus.Cw3Threshold CwPlus.Cw3ThresholdLemmas
  CwPlus.Cw4Model CwPlus.Cw3Model CwPlus.Cw3Lemmas.
Open Scope N_scope.

Definition block_le (a b : block) : Prop := height a <= height b /\ time a <= time b.
Lemma expired_mono e a b : block_le a b -> is_expired e a = true -> is_expired e b = true.
Proof. intros [H1 H2]. destruct e; cbn [is_expired]; intros H; try discriminate; apply N.leb_le; apply N.leb_le in H; lia. Qed.

Definition forward (a b : status) : bool :=
  match a, b with
  | Open, (Open | Passed | Rejected | Executed) => true
  | Passed, (Passed | Executed) => true
  | Rejected, Rejected => true
  | Executed, Executed => true
  | _, _ => false
  end.

(* early rejection is monotone in the tally *)
Lemma rej_mono th T v v' : in_range th T v -> completes T v v' ->
  rej_fn th T v false = true -> rej_fn th T v' false = true.
Proof.
  intros (Hwf & Ht & HT) (Hy & Hn & Ha & Hv & Ht') H. unfold rej_fn in *.
  destruct th as [w|p|t q].
  - apply N.ltb_lt. apply N.ltb_lt in H. lia.
  - apply N.ltb_lt. apply N.ltb_lt in H.
    pose proof (vn_mono (T - abstain v') (T - abstain v) (DEN - p)) as M. lia.
  - apply N.ltb_lt. apply N.ltb_lt in H.
    pose proof (vn_mono (T - abstain v') (T - abstain v) (DEN - t)) as M. lia.
Qed.

Lemma completes_refl T v : tally v <= T -> completes T v v.
Proof. intros H. unfold completes. repeat split; try lia. Qed.

(* the computed status of a stored-Open proposal moves forward when votes are added before expiry and
   when time passes *)
Lemma status_fn_forward th T v e v' e' : in_range th T v -> in_range th T v' -> completes T v v' ->
  (e = true -> v' = v /\ e' = true) ->
  forward (status_fn Open th T v e) (status_fn Open th T v' e') = true.
Proof.
  intros Hr Hr' Hc He. unfold status_fn.
  destruct (pass_fn th T v e) eqn:P.
  - destruct e.
    + destruct (He eq_refl) as [-> ->]. rewrite P. reflexivity.
    + rewrite (early_pass_sound th T v v' e' Hr Hc P). reflexivity.
  - destruct (rej_fn th T v e || e) eqn:R.
    + destruct e.
      * destruct (He eq_refl) as [-> ->]. rewrite P. rewrite orb_true_r. reflexivity.
      * rewrite orb_false_r in R. rewrite (early_reject_sound th T v v' e' Hr Hc R).
        destruct e'; [rewrite orb_true_r; reflexivity|].
        rewrite (rej_mono th T v v' Hr Hc R). reflexivity.
    + destruct (pass_fn th T v' e'); [reflexivity|]. destruct (rej_fn th T v' e' || e'); reflexivity.
Qed.

Definition prange (p : proposal) : Prop := in_range (p_threshold p) (p_total p) (p_votes p).

Lemma prop_status_fn p blk : prange p ->
  prop_status p blk = Some (status_fn (p_status p) (p_threshold p) (p_total p) (p_votes p) (is_expired (p_expires p) blk)).
Proof. intros H. unfold prop_status. apply current_status_eq. exact H. Qed.

Lemma status_fn_sticky st th T v e : st <> Open -> status_fn st th T v e = st.
Proof. intros H. destruct st; try reflexivity. exfalso. apply H. reflexivity. Qed.

Lemma add_vote_completes v x w vs T : add_vote v x w = Some vs -> tally vs <= T -> completes T v vs.
Proof.
  unfold add_vote, add64, obind, completes, tally. cbv zeta. intros H Ht.
  destruct x; match type of H with context [if ?c then _ else _] => destruct c end; inversion H; subst; cbn [yes no abstain veto] in *;
    repeat split; lia.
Qed.

Lemma untouched_forward p b0 b2 : PInv p -> prange p -> block_le b0 b2 ->
  forward (status_fn (p_status p) (p_threshold p) (p_total p) (p_votes p) (is_expired (p_expires p) b0))
          (status_fn (p_status p) (p_threshold p) (p_total p) (p_votes p) (is_expired (p_expires p) b2)) = true.
Proof.
  intros HP Rp B. destruct (p_status p) eqn:Sp; try reflexivity.
  - exfalso. apply (pi_not_pending _ HP). exact Sp.
  - apply (status_fn_forward _ _ _ _ _ _ Rp Rp (completes_refl _ _ (proj1 (proj2 Rp)))).
    intros H. split; [reflexivity|]. apply (expired_mono _ _ _ B H).
Qed.

(* what a query reports for proposal id before a call (at block b0) and after it (at block b2), blocks
   not going backwards: the status only moves Open -> Passed -> Executed | Open -> Rejected.
   The range condition (ballots within the total, rule validated) is C06's statement; on cw3-fixed it
   holds in every reachable state (c06_fixed). *)
Theorem status_moves_forward ms gv b0 b1 b2 sender o ms' out id p q s s' :
  MInv ms -> step ms gv b1 sender o = Ok (ms', out) ->
  getp ms id = Some p -> getp ms' id = Some q -> prange p -> prange q ->
  block_le b0 b1 -> block_le b1 b2 ->
  prop_status p b0 = Some s -> prop_status q b2 = Some s' -> forward s s' = true.
Proof.
  intros HI Hst Gp Gq Rp Rq B01 B12 Es Es'.
  rewrite (prop_status_fn p b0 Rp) in Es. rewrite (prop_status_fn q b2 Rq) in Es'.
  inversion Es; subst s; clear Es. inversion Es'; subst s'; clear Es'.
  assert (B02: block_le b0 b2) by (destruct B01, B12; split; lia).
  (* the static part of q is that of p *)
  destruct (step_frame _ _ _ _ _ _ _ HI Hst) as (_ & Fr). destruct (Fr _ _ Gp) as (q0 & Gq0 & (S1 & S2 & S3 & S4 & S5 & S6 & S7 & S8) & _).
  rewrite Gq in Gq0. inversion Gq0; subst q0; clear Gq0.
  unfold prange in *. rewrite S5, S6 in Rq. rewrite S5, S6, S3.
  set (th := p_threshold p) in *. set (T := p_total p) in *.
  set (e0 := is_expired (p_expires p) b0). set (e2 := is_expired (p_expires p) b2).
  assert (E02: e0 = true -> e2 = true) by (apply expired_mono; exact B02).
  destruct o as [title msgs latest funds|vid v|xid|cid]; cbn [step] in Hst.
  - (* Propose: p untouched *)
    destruct (propose_spec _ _ _ _ _ _ _ _ _ _ Hst) as (power & mx & ex & st0 & nid & _ & _ & _ & Hi & _ & Hz).
    cbv zeta in Hz. destruct Hz as (_ & _ & ->).
    assert (Hn: id <> nid).
    { unfold add64 in Hi. destruct (pcount ms + 1 <=? u64max); [|discriminate]. inversion Hi; subst.
      pose proof (mi_ids _ HI _ _ Gp). lia. }
    unfold getp in Gq. cbn [proposals] in Gq. rewrite get_set_neq in Gq by exact Hn. fold (getp ms id) in Gq.
    rewrite Gp in Gq. inversion Gq; subst q.
    apply (untouched_forward p b0 b2 (mi_props _ HI _ _ Gp) Rp B02).
  - destruct (vote_spec _ _ _ _ _ _ _ _ Hst) as (p0 & w & vs & st0 & Gp0 & _ & _ & Hv & Hx & _ & Ha & _ & Hz).
    cbv zeta in Hz. destruct Hz as (Est & ->).
    destruct (N.eq_dec id vid) as [->|Hn].
    + rewrite Gp in Gp0. inversion Gp0; subst p0; clear Gp0. rewrite getp_set_eq in Gq. inversion Gq; subst q; clear Gq.
      cbn [with_status p_status p_votes p_threshold p_total p_expires] in *.
      assert (R1: in_range th T vs) by exact Rq.
      assert (Hc: completes T (p_votes p) vs) by (eapply add_vote_completes; [exact Ha|apply R1]).
      assert (E01: e0 = false).
      { destruct e0 eqn:E; [|reflexivity]. exfalso. pose proof (expired_mono _ _ _ B01 E) as X. congruence. }
      rewrite (prop_status_fn _ b1) in Est by exact R1. cbn [p_status p_votes p_threshold p_total p_expires] in Est.
      inversion Est; subst st0; clear Est. rewrite Hx.
      destruct (p_status p) eqn:Sp.
      * exfalso. apply (pi_not_pending _ (mi_props _ HI _ _ Gp)). exact Sp.
      * (* stored Open *)
        rewrite E01. subst th T.
        assert (FW: forall e', forward (status_fn Open (p_threshold p) (p_total p) (p_votes p) false)
                                       (status_fn Open (p_threshold p) (p_total p) vs e') = true).
        { intros e'. apply status_fn_forward; auto. intros X; discriminate. }
        destruct (status_fn Open (p_threshold p) (p_total p) vs false) eqn:F1.
        -- exfalso. unfold status_fn in F1. destruct (pass_fn _ _ _ _); [discriminate|]. destruct (_ || _); discriminate.
        -- apply FW.
        -- change (status_fn Rejected (p_threshold p) (p_total p) vs e2) with Rejected. rewrite <- F1. apply FW.
        -- change (status_fn Passed (p_threshold p) (p_total p) vs e2) with Passed. rewrite <- F1. apply FW.
        -- exfalso. unfold status_fn in F1. destruct (pass_fn _ _ _ _); [discriminate|]. destruct (_ || _); discriminate.
      * reflexivity.
      * reflexivity.
      * discriminate.
    + rewrite getp_set_neq in Gq by exact Hn. rewrite Gp in Gq. inversion Gq; subst q.
      apply (untouched_forward p b0 b2 (mi_props _ HI _ _ Gp) Rp B02).
  - destruct (execute_spec _ _ _ _ _ _ _ Hst) as (p0 & Gp0 & Ep & _ & _ & ->).
    destruct (N.eq_dec id xid) as [->|Hn].
    + rewrite Gp in Gp0. inversion Gp0; subst p0; clear Gp0. rewrite getp_set_eq in Gq. inversion Gq; subst q; clear Gq.
      cbn [with_status p_status p_votes]. rewrite (prop_status_fn p b1 Rp) in Ep. inversion Ep as [Ep1]; clear Ep.
      fold th T in Ep1.
      destruct (p_status p) eqn:Sp; try reflexivity; try discriminate.
      (* stored Open: computed Passed at b1; what was computed at b0 moves forward to it *)
      pose proof (status_fn_forward th T (p_votes p) e0 (p_votes p) (is_expired (p_expires p) b1) Rp Rp
                    (completes_refl _ _ (proj1 (proj2 Rp)))) as Fw.
      rewrite Ep1 in Fw.
      assert (X: forward (status_fn Open th T (p_votes p) e0) Passed = true).
      { apply Fw. intros H. split; [reflexivity|]. apply (expired_mono _ _ _ B01 H). }
      destruct (status_fn Open th T (p_votes p) e0); try reflexivity; discriminate.
    + rewrite getp_set_neq in Gq by exact Hn. rewrite Gp in Gq. inversion Gq; subst q.
      apply (untouched_forward p b0 b2 (mi_props _ HI _ _ Gp) Rp B02).
  - destruct (close_spec _ _ _ _ _ Hst) as (p0 & st0 & Gp0 & Ho & Ep & Hnp & Hx & _ & ->).
    destruct (N.eq_dec id cid) as [->|Hn].
    + rewrite Gp in Gp0. inversion Gp0; subst p0; clear Gp0. rewrite getp_set_eq in Gq. inversion Gq; subst q; clear Gq.
      cbn [with_status p_status p_votes]. rewrite (prop_status_fn p b1 Rp) in Ep. inversion Ep as [Ep1]; clear Ep.
      fold th T in Ep1. destruct Ho as [Sp|Sp]; [|exfalso; apply (pi_not_pending _ (mi_props _ HI _ _ Gp)); exact Sp].
      rewrite Sp in *.
      pose proof (status_fn_forward th T (p_votes p) e0 (p_votes p) (is_expired (p_expires p) b1) Rp Rp
                    (completes_refl _ _ (proj1 (proj2 Rp)))) as Fw.
      rewrite Ep1 in Fw.
      assert (X: forward (status_fn Open th T (p_votes p) e0) st0 = true).
      { apply Fw. intros H. split; [reflexivity|]. apply (expired_mono _ _ _ B01 H). }
      destruct (status_fn Open th T (p_votes p) e0) eqn:F0; try reflexivity.
      * exfalso. unfold status_fn in F0. destruct (pass_fn _ _ _ _); [discriminate|]. destruct (_ || _); discriminate.
      * exfalso. destruct st0; try discriminate; [apply Hnp; reflexivity|].
        unfold status_fn in Ep1. destruct (pass_fn _ _ _ _); [discriminate|]. destruct (_ || _); discriminate.
      * exfalso. unfold status_fn in F0. destruct (pass_fn _ _ _ _); [discriminate|]. destruct (_ || _); discriminate.
    + rewrite getp_set_neq in Gq by exact Hn. rewrite Gp in Gq. inversion Gq; subst q.
      apply (untouched_forward p b0 b2 (mi_props _ HI _ _ Gp) Rp B02).
Qed.

(* ---------------------------------------------------------------------------------------- *)
(* C03: a latched (stored) Passed / Rejected always agrees with the rule on the present tally *)
Definition expired_at (p : proposal) (b : block) : bool := is_expired (p_expires p) b.
Definition latched_ok (p : proposal) (b : block) : Prop :=
  match p_status p with
  | Passed => pass_fn (p_threshold p) (p_total p) (p_votes p) (expired_at p b) = true
  | Rejected => pass_fn (p_threshold p) (p_total p) (p_votes p) (expired_at p b) = false /\
                (expired_at p b = true \/ rej_fn (p_threshold p) (p_total p) (p_votes p) false = true)
  | _ => True
  end.

Lemma status_fn_passed th T v e : status_fn Open th T v e = Passed -> pass_fn th T v e = true.
Proof. unfold status_fn. destruct (pass_fn th T v e); [reflexivity|]. destruct (_ || _); discriminate. Qed.
Lemma status_fn_rejected th T v e : status_fn Open th T v e = Rejected ->
  pass_fn th T v e = false /\ (e = true \/ rej_fn th T v false = true \/ rej_fn th T v e = true).
Proof.
  unfold status_fn. destruct (pass_fn th T v e); [discriminate|]. destruct (rej_fn th T v e || e) eqn:R; [|discriminate].
  intros _. split; [reflexivity|]. apply orb_true_iff in R. destruct R as [R|R]; [right; right; exact R|left; exact R].
Qed.

(* time passing keeps a latched status justified *)
Lemma latched_time p b b' : prange p -> block_le b b' -> latched_ok p b -> latched_ok p b'.
Proof.
  intros Rp B L. unfold latched_ok, expired_at in *. destruct (p_status p); auto.
  - destruct L as [L1 L2]. destruct (is_expired (p_expires p) b) eqn:E.
    + rewrite (expired_mono _ _ _ B E). split; [exact L1|left; reflexivity].
    + destruct L2 as [L2|L2]; [discriminate|].
      split; [|right; exact L2].
      apply (early_reject_sound _ _ _ _ _ Rp (completes_refl _ _ (proj1 (proj2 Rp))) L2).
  - destruct (is_expired (p_expires p) b) eqn:E.
    + rewrite (expired_mono _ _ _ B E). exact L.
    + apply (early_pass_sound _ _ _ _ _ Rp (completes_refl _ _ (proj1 (proj2 Rp))) L).
Qed.

(* every accepted call made at block b keeps (or establishes) it, for every proposal, at block b *)
Theorem latched_step ms gv b sender o ms' out id q :
  MInv ms -> step ms gv b sender o = Ok (ms', out) ->
  getp ms' id = Some q -> prange q ->
  (forall j (p : proposal), getp ms j = Some p -> prange p /\ latched_ok p b) ->
  latched_ok q b.
Proof.
  intros HI Hst Gq Rq Hall.
  destruct o as [title msgs latest funds|vid v|xid|cid]; cbn [step] in Hst.
  - destruct (propose_spec _ _ _ _ _ _ _ _ _ _ Hst) as (power & mx & ex & st0 & nid & _ & _ & _ & Hi & _ & Hz).
    cbv zeta in Hz. destruct Hz as (Est & _ & ->).
    unfold getp in Gq. cbn [proposals] in Gq. destruct (N.eq_dec id nid) as [->|Hn].
    + rewrite get_set_eq in Gq. inversion Gq; subst q; clear Gq.
      unfold prange in Rq. cbn [with_status p_threshold p_total p_votes] in Rq.
      rewrite (prop_status_fn _ b) in Est by exact Rq. cbn [p_status p_threshold p_total p_votes p_expires] in Est.
      injection Est as E1. subst st0. unfold latched_ok, expired_at. cbn [with_status p_status p_threshold p_total p_votes p_expires].
      match goal with |- context [if pass_fn ?a ?b0 ?c ?d then _ else _] => destruct (pass_fn a b0 c d) eqn:P end; [reflexivity|].
      match goal with |- context [if ?r || ?e then _ else _] => destruct r eqn:R; destruct e eqn:E end; cbn [orb]; auto.
    + rewrite get_set_neq in Gq by exact Hn. fold (getp ms id) in Gq. apply (Hall _ _ Gq).
  - destruct (vote_spec _ _ _ _ _ _ _ _ Hst) as (p0 & w & vs & st0 & Gp0 & _ & _ & Hv & Hx & _ & Ha & _ & Hz).
    cbv zeta in Hz. destruct Hz as (Est & ->).
    destruct (N.eq_dec id vid) as [->|Hn].
    + rewrite getp_set_eq in Gq. inversion Gq; subst q; clear Gq.
      destruct (Hall _ _ Gp0) as [Rp L]. unfold prange in Rq. cbn [with_status p_threshold p_total p_votes] in Rq.
      assert (Hc: completes (p_total p0) (p_votes p0) vs) by (eapply add_vote_completes; [exact Ha|apply Rq]).
      rewrite (prop_status_fn _ b) in Est by exact Rq. cbn [p_status p_threshold p_total p_votes p_expires] in Est.
      injection Est as E1. subst st0. unfold latched_ok, expired_at in *.
      cbn [with_status p_status p_threshold p_total p_votes p_expires]. rewrite Hx in *.
      destruct (p_status p0) eqn:Sp; cbn [status_fn].
      * exact I.
      * match goal with |- context [if pass_fn ?a ?b0 ?c ?d then _ else _] => destruct (pass_fn a b0 c d) eqn:P end; [reflexivity|].
        match goal with |- context [if ?r || false then _ else _] => destruct r eqn:R end; cbn [orb]; auto.
      * destruct L as [L1 [L2|L2]]; [discriminate|]. split.
        -- apply (early_reject_sound _ _ _ _ _ Rp Hc L2).
        -- right. apply (rej_mono _ _ _ _ Rp Hc L2).
      * apply (early_pass_sound _ _ _ _ _ Rp Hc L).
      * exact I.
    + rewrite getp_set_neq in Gq by exact Hn. apply (Hall _ _ Gq).
  - destruct (execute_spec _ _ _ _ _ _ _ Hst) as (p0 & Gp0 & _ & _ & _ & ->).
    destruct (N.eq_dec id xid) as [->|Hn].
    + rewrite getp_set_eq in Gq. inversion Gq; subst q. exact I.
    + rewrite getp_set_neq in Gq by exact Hn. apply (Hall _ _ Gq).
  - destruct (close_spec _ _ _ _ _ Hst) as (p0 & st0 & Gp0 & Ho & Ep & Hnp & Hx & _ & ->).
    destruct (N.eq_dec id cid) as [->|Hn].
    + rewrite getp_set_eq in Gq. inversion Gq; subst q; clear Gq. destruct (Hall _ _ Gp0) as [Rp _].
      rewrite (prop_status_fn p0 b Rp) in Ep. injection Ep as E1.
      unfold latched_ok, expired_at. cbn [with_status p_status p_threshold p_total p_votes p_expires]. rewrite Hx.
      split; [|left; reflexivity].
      destruct Ho as [Sp|Sp]; rewrite Sp in E1; cbn [status_fn] in E1.
      * destruct (pass_fn _ _ _ true) eqn:P; [|reflexivity]. exfalso. apply Hnp. rewrite <- E1. rewrite Hx. rewrite P. reflexivity.
      * exfalso. apply (pi_not_pending _ (mi_props _ HI _ _ Gp0)). exact Sp.
    + rewrite getp_set_neq in Gq by exact Hn. apply (Hall _ _ Gq).
Qed.

(* what the reported status means, given the latch invariant: Passed iff the rule passes on the
   present tally and expiry state (unless already executed); Rejected only if it does not pass and is
   expired or can no longer pass; Open otherwise *)
Theorem status_is_outcome p b s : prange p -> latched_ok p b -> p_status p <> Pending -> prop_status p b = Some s ->
  let ps := pass_fn (p_threshold p) (p_total p) (p_votes p) (expired_at p b) in
  match s with
  | Passed => ps = true
  | Rejected => ps = false /\ (expired_at p b = true \/ rej_fn (p_threshold p) (p_total p) (p_votes p) false = true \/
                               rej_fn (p_threshold p) (p_total p) (p_votes p) (expired_at p b) = true)
  | Open => ps = false /\ expired_at p b = false
  | Executed => p_status p = Executed
  | Pending => False
  end.
Proof.
  intros Rp L Hp Es. rewrite (prop_status_fn p b Rp) in Es. injection Es as E. cbv zeta.
  unfold latched_ok, expired_at in *. destruct (p_status p) eqn:Sp; cbn [status_fn] in E |- *.
  - exfalso. apply Hp. reflexivity.
  - destruct (pass_fn _ _ _ _) eqn:P; [subst s; reflexivity|].
    destruct (rej_fn _ _ _ _ || is_expired (p_expires p) b) eqn:R; subst s.
    + split; [reflexivity|]. apply orb_true_iff in R. destruct R as [R|R]; [right; right; exact R|left; exact R].
    + apply orb_false_iff in R. split; [reflexivity|apply R].
  - subst s. destruct L as [L1 L2]. split; [exact L1|]. destruct L2; auto.
  - subst s. exact L.
  - subst s. reflexivity.
Qed.
