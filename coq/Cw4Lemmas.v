(* Cw4Lemmas.v — proofs about the cw4-group / cw4-stake model (C09 C10 C14). *)
Require Import CwPlus.Params CwPlus.Base CwPlus.AMap CwPlus.Cw4Model CwPlus.Cw4Snap.
Open Scope N_scope.

Ltac inv H := inversion H; subst; clear H.

(* ---------------------------------------------------------------------------------------- *)
(* sums over the member map *)
Lemma getf_wt ms a : getf wt ordN ms a = wt (getm ms a).
Proof. unfold getf, getm. destruct (get ordN ms a); reflexivity. Qed.

Lemma m_sum_write ms a h v : sorted ordN ms ->
  m_sum (m_write ms a h v) + unw (m_cur ms a) = m_sum ms + unw v.
Proof.
  intros Hs. unfold m_sum, m_write.
  pose proof (sumf_set wt ordN ms a (snap_write (getm ms a) h v) Hs) as E.
  rewrite getf_wt in E. unfold m_cur.
  replace (wt (snap_write (getm ms a) h v)) with (unw v) in E by (unfold wt, snap_write; reflexivity).
  unfold wt in E at 2. unfold unw at 1. exact E.
Qed.
Lemma m_cur_le_sum ms a : unw (m_cur ms a) <= m_sum ms.
Proof. pose proof (getf_le_sumf wt ordN ms a) as L. rewrite getf_wt in L. exact L. Qed.
Lemma m_write_sorted ms a h v : sorted ordN ms -> sorted ordN (m_write ms a h v).
Proof. intros Hs. apply set_sorted. exact Hs. Qed.

(* ---------------------------------------------------------------------------------------- *)
(* diff lists explain a change of the weight table *)
Definition wtab := N -> option N.
Definition upd (f : wtab) (a : N) (v : option N) : wtab := fun b => if b =? a then v else f b.

Inductive explains : list diff -> wtab -> wtab -> Prop :=
| ex_nil f g : (forall a, g a = f a) -> explains [] f g
| ex_cons a o n r f g : f a = o -> explains r (upd f a n) g -> explains ((a, o, n) :: r) f g.

Lemma explains_ext ds f f' g g' : explains ds f g -> (forall a, f' a = f a) -> (forall a, g' a = g a) ->
  explains ds f' g'.
Proof.
  intros H. revert f' g'. induction H as [f g E|a o n r f g Ha Hr IH]; intros f' g' Ef Eg.
  - constructor. intros a. rewrite Eg, E, Ef. reflexivity.
  - constructor; [rewrite Ef; exact Ha|]. apply IH; [|exact Eg].
    intros b. unfold upd. destruct (b =? a); [reflexivity|apply Ef].
Qed.

Lemma explains_snoc ds f g a n : explains ds f g -> explains (ds ++ [(a, g a, n)]) f (upd g a n).
Proof.
  intros H. induction H as [f g E|a' o n' r f g Ha Hr IH]; cbn [app].
  - constructor; [symmetry; apply E|]. constructor. intros b. unfold upd. destruct (b =? a); [reflexivity|apply E].
  - constructor; [exact Ha|exact IH].
Qed.

Lemma explains_untouched ds f g b : explains ds f g -> (forall a o n, In (a, o, n) ds -> a <> b) -> g b = f b.
Proof.
  intros H. induction H as [f g E|a o n r f g Ha Hr IH]; intros Hn; [apply E|].
  rewrite IH.
  - unfold upd. rewrite (proj2 (N.eqb_neq b a)); [reflexivity|].
    intros E. apply (Hn a o n); [left; reflexivity|congruence].
  - intros a' o' n' Hin. apply (Hn a' o' n'). right. exact Hin.
Qed.

(* ---------------------------------------------------------------------------------------- *)
(* the two loops of update_members *)
Record loop_ok (H : N) (ms ms' : mmap) (t' : N) : Prop := {
  lo_sorted : sorted ordN ms';
  lo_bounded : mbounded ms' H;
  lo_sum : t' = m_sum ms';
  lo_past : forall b h, h <= H -> m_at ms' b h = m_at ms b h }.

Lemma add_loop_spec H l : forall ms t ds ms' t' ds' f0,
  sorted ordN ms -> mbounded ms H -> t = m_sum ms -> explains ds f0 (m_cur ms) ->
  add_loop H l ms t ds = Some (ms', t', ds') ->
  loop_ok H ms ms' t' /\ explains ds' f0 (m_cur ms') /\ (l <> [] -> t' <= u64max) /\ (l = [] -> t' = t).
Proof.
  induction l as [|[a w] r IH]; intros ms t ds ms' t' ds' f0 Hs Hb Ht Hex Hl; cbn [add_loop] in Hl.
  - inv Hl. split; [constructor; auto|]. split; [exact Hex|]. split; [intros C; exfalso; apply C; reflexivity|reflexivity].
  - unfold sub64, add64, obind in Hl.
    destruct (unw (m_cur ms a) <=? t) eqn:L1; [|discriminate].
    destruct (t - unw (m_cur ms a) + w <=? u64max) eqn:L2; [|discriminate].
    apply N.leb_le in L1, L2.
    destruct (m_write_spec ms a H (Some w) Hb) as (B' & C' & O' & P').
    pose proof (m_sum_write ms a H (Some w) Hs) as Es. cbn [unw] in Es.
    specialize (IH (m_write ms a H (Some w)) (t - unw (m_cur ms a) + w) (ds ++ [(a, m_cur ms a, Some w)]) ms' t' ds' f0).
    destruct IH as (LO & EX & TB & _); auto.
    + apply m_write_sorted. exact Hs.
    + subst t. lia.
    + eapply explains_ext; [apply (explains_snoc ds f0 (m_cur ms) a (Some w) Hex)|reflexivity|].
      intros b. unfold upd. destruct (N.eqb_spec b a) as [E|E]; [subst; exact C'|apply O'; exact E].
    + split; [|split; [exact EX|split; [|discriminate]]].
      * destruct LO as [S1 B1 S2 P1]. constructor; auto.
        intros b h Hh. rewrite P1 by exact Hh. apply P'. exact Hh.
      * intros _. destruct r as [|x r']; [|apply TB; discriminate].
        cbn [add_loop] in Hl. inv Hl. exact L2.
Qed.

Lemma remove_loop_spec H l : forall ms t ds ms' t' ds' f0,
  sorted ordN ms -> mbounded ms H -> t = m_sum ms -> explains ds f0 (m_cur ms) ->
  remove_loop H l ms t ds = Some (ms', t', ds') ->
  loop_ok H ms ms' t' /\ explains ds' f0 (m_cur ms') /\ t' <= t.
Proof.
  induction l as [|a r IH]; intros ms t ds ms' t' ds' f0 Hs Hb Ht Hex Hl; cbn [remove_loop] in Hl.
  - inv Hl. split; [constructor; auto|]. split; [exact Hex|lia].
  - destruct (m_cur ms a) as [w|] eqn:Ec.
    + unfold sub64, obind in Hl. destruct (w <=? t) eqn:L1; [|discriminate]. apply N.leb_le in L1.
      destruct (m_write_spec ms a H None Hb) as (B' & C' & O' & P').
      pose proof (m_sum_write ms a H None Hs) as Es. rewrite Ec in Es. cbn [unw] in Es.
      specialize (IH (m_write ms a H None) (t - w) (ds ++ [(a, Some w, None)]) ms' t' ds' f0).
      destruct IH as (LO & EX & TB); auto.
      * apply m_write_sorted. exact Hs.
      * subst t. lia.
      * rewrite <- Ec. eapply explains_ext; [apply (explains_snoc ds f0 (m_cur ms) a None Hex)|reflexivity|].
        intros b. unfold upd. destruct (N.eqb_spec b a) as [E|E]; [subst; exact C'|apply O'; exact E].
      * split; [|split; [exact EX|lia]].
        destruct LO as [S1 B1 S2 P1]. constructor; auto.
        intros b h Hh. rewrite P1 by exact Hh. apply P'. exact Hh.
    + apply (IH ms t ds ms' t' ds' f0); auto.
Qed.

(* ---------------------------------------------------------------------------------------- *)
(* invariants *)
Definition claims_total (cl : amap N (list (N * expiration))) : N := sumf sum_claims cl.
Definition backing (st : state) : N := sum (stake st) + claims_total (claims st).

Record Inv (st : state) (top : N) : Prop := {
  i_sorted : sorted ordN (members st);
  i_mb : mbounded (members st) top;
  i_tb : sbounded (total_s st) top;
  i_total : cur (total_s st) = Some (m_sum (members st));
  i_u64 : m_sum (members st) <= u64max }.

Record SInv (st : state) : Prop := {
  s_stake_sorted : sorted ordN (stake st);
  s_claims_sorted : sorted ordN (claims st);
  s_min : 1 <= c_min_bond (cfg st);
  s_weight : forall a, calc_weight (cfg st) (getd ordN (stake st) a) = Ok (m_cur (members st) a) }.

Lemma Inv_mono st top H : Inv st top -> top <= H -> Inv st H.
Proof.
  intros [A B C D E] Hle. constructor; auto.
  - eapply mbounded_mono; eassumption.
  - eapply sbounded_mono; eassumption.
Qed.

(* ---- group: update_members ---- *)
Lemma validate_members_u64 l l' : validate_members l = Some l' -> Forall (fun x => snd x <= u64max) l'.
Proof.
  revert l'. induction l as [|[[a|] w] r IH]; intros l' Hv; cbn [validate_members] in Hv; [inv Hv; constructor| |discriminate].
  destruct (w <=? u64max) eqn:L; [|discriminate]. unfold obind in Hv.
  destruct (validate_members r) as [r'|]; [|discriminate]. inv Hv.
  constructor; [apply N.leb_le; exact L|apply IH; reflexivity].
Qed.

Lemma update_members_spec st blk sender add rem st' ms top :
  Inv st top -> top <= height blk -> update_members st blk sender add rem = Ok (st', ms) ->
  Inv st' (height blk) /\ is_admin st sender = true /\
  admin st' = admin st /\ hooks st' = hooks st /\ is_stake st' = is_stake st /\ cfg st' = cfg st /\
  stake st' = stake st /\ claims st' = claims st /\ held st' = held st /\
  (forall b h, h <= height blk -> m_at (members st') b h = m_at (members st) b h) /\
  (forall h, h <= height blk -> snap_at (total_s st') h = snap_at (total_s st) h) /\
  exists ds, ms = hook_msgs st ds /\ explains ds (m_cur (members st)) (m_cur (members st')).
Proof.
  intros HI Hle Hu. apply (Inv_mono _ _ _ HI) in Hle. clear HI. destruct Hle as [Hs Hb Htb Ht Hu64].
  unfold update_members in Hu.
  destruct (validate_members add) as [add'|]; [|discriminate].
  destruct (has_dup (sort_members add')); [discriminate|].
  destruct (is_admin st sender) eqn:Ha; [|discriminate]. cbn [negb] in Hu.
  destruct (validate_args rem) as [rem'|]; [|discriminate].
  rewrite Ht in Hu.
  destruct (add_loop (height blk) (sort_members add') (members st) (m_sum (members st)) []) as [[[ms1 t1] ds1]|] eqn:L1; [|discriminate].
  destruct (remove_loop (height blk) rem' ms1 t1 ds1) as [[[ms2 t2] ds2]|] eqn:L2; [|discriminate].
  inv Hu.
  destruct (add_loop_spec _ _ _ _ _ _ _ _ (m_cur (members st)) Hs Hb eq_refl (ex_nil _ _ (fun a => eq_refl)) L1)
    as ([S1 B1 E1 P1] & X1 & U1 & Z1).
  destruct (remove_loop_spec _ _ _ _ _ _ _ _ (m_cur (members st)) S1 B1 E1 X1 L2) as ([S2 B2 E2 P2] & X2 & U2).
  destruct (snap_write_spec (total_s st) (height blk) (Some t2) Htb) as (TB & TC & TP & _).
  split; [|repeat split; auto].
  - constructor; cbn [with_members members total_s]; auto.
    + rewrite TC. congruence.
    + rewrite <- E2. destruct (sort_members add') as [|x l] eqn:El.
      * rewrite (Z1 eq_refl) in U2. lia.
      * assert (t1 <= u64max) by (apply U1; discriminate). lia.
  - intros b h Hh. cbn [with_members members]. rewrite P2 by exact Hh. apply P1. exact Hh.
  - exists ds2. split; [reflexivity|exact X2].
Qed.

(* ---- stake: update_membership and friends ---- *)
Lemma optN_eqb_eq a b : optN_eqb a b = true <-> a = b.
Proof.
  destruct a, b; unfold optN_eqb, opt_eqb; split; intros H; try discriminate; try reflexivity.
  - apply N.eqb_eq in H. congruence. - inv H. apply N.eqb_refl.
Qed.

Lemma calc_weight_u64 c s w : calc_weight c s = Ok (Some w) -> w <= u64max /\ c_tpw c <> 0 /\ w = s / c_tpw c /\ c_min_bond c <= s.
Proof.
  unfold calc_weight. destruct (s <? c_min_bond c) eqn:L; [discriminate|]. apply N.ltb_ge in L.
  destruct (c_tpw c =? 0) eqn:Z; [discriminate|]. apply N.eqb_neq in Z.
  destruct (s / c_tpw c <=? u64max) eqn:U; [|discriminate]. apply N.leb_le in U.
  intros E. inv E. auto.
Qed.

Lemma update_membership_spec st who ns H st' ms top :
  Inv st top -> top <= H -> update_membership st who ns H = Ok (st', ms) ->
  Inv st' H /\ calc_weight (cfg st) ns = Ok (m_cur (members st') who) /\
  (forall b, b <> who -> m_cur (members st') b = m_cur (members st) b) /\
  admin st' = admin st /\ hooks st' = hooks st /\ is_stake st' = is_stake st /\ cfg st' = cfg st /\
  stake st' = stake st /\ claims st' = claims st /\ held st' = held st /\
  (forall b h, h <= H -> m_at (members st') b h = m_at (members st) b h) /\
  ((ms = [] /\ members st' = members st /\ total_s st' = total_s st) \/
   (m_cur (members st') who <> m_cur (members st) who /\
    ms = hook_msgs st [(who, m_cur (members st) who, m_cur (members st') who)])).
Proof.
  intros HI Hle Hu. apply (Inv_mono _ _ _ HI) in Hle. clear HI. destruct Hle as [Hs Hb Htb Ht Hu64].
  unfold update_membership, rbind in Hu.
  destruct (calc_weight (cfg st) ns) as [new| |] eqn:Ec; try discriminate.
  destruct (optN_eqb new (m_cur (members st) who)) eqn:Eq.
  - apply optN_eqb_eq in Eq. inv Hu. split; [constructor; auto|]. repeat split; auto.
  - rewrite Ht in Hu. unfold add64, sub64 in Hu.
    destruct (m_sum (members st) + unw new <=? u64max) eqn:L1; [|discriminate].
    destruct (unw (m_cur (members st) who) <=? m_sum (members st) + unw new) eqn:L2; [|discriminate].
    apply N.leb_le in L1, L2. inv Hu.
    destruct (m_write_spec (members st) who H new Hb) as (B' & C' & O' & P').
    pose proof (m_sum_write (members st) who H new Hs) as Es.
    split; [|repeat split; auto].
    + constructor; cbn [with_members members total_s cur slog]; auto.
      * apply m_write_sorted. exact Hs.
      * f_equal. lia.
      * lia.
    + cbn [with_members members]. rewrite C'. reflexivity.
    + right. cbn [with_members members]. rewrite C'. split; [|reflexivity].
      intros E. subst new. rewrite (proj2 (optN_eqb_eq _ _) eq_refl) in Eq. discriminate.
Qed.

Lemma getd_set_eq (m : amap N N) k v : getd ordN (set ordN m k v) k = v.
Proof. unfold getd, getf. rewrite get_set_eq. reflexivity. Qed.
Lemma getd_set_neq (m : amap N N) k v j : j <> k -> getd ordN (set ordN m k v) j = getd ordN m j.
Proof. intros Hn. unfold getd, getf. rewrite get_set_neq by exact Hn. reflexivity. Qed.
Lemma sum_set (m : amap N N) k v : sorted ordN m -> sum (set ordN m k v) + getd ordN m k = sum m + v.
Proof. intros Hs. apply (sumf_set (fun x => x) ordN m k v Hs). Qed.

Lemma claims_total_set cl a l : sorted ordN cl ->
  claims_total (set ordN cl a l) + sum_claims (match get ordN cl a with Some x => x | None => [] end) =
  claims_total cl + sum_claims l.
Proof.
  intros Hs. pose proof (sumf_set sum_claims ordN cl a l Hs) as E. unfold getf in E.
  unfold claims_total. destruct (get ordN cl a); exact E.
Qed.
Lemma sum_claims_app l x : sum_claims (l ++ [x]) = sum_claims l + fst x.
Proof.
  unfold sum_claims, sumN. rewrite map_app. cbn [map]. induction (map fst l) as [|y r IH]; cbn [app fold_right]; lia.
Qed.
Lemma sum_claims_partition p l :
  sum_claims l = sum_claims (filter p l) + sum_claims (filter (fun c => negb (p c)) l).
Proof.
  unfold sum_claims, sumN. induction l as [|x r IH]; cbn [filter map fold_right]; [reflexivity|].
  destruct (p x); cbn [negb map fold_right]; lia.
Qed.


(* ---------------------------------------------------------------------------------------- *)
(* stake-side operations *)
Lemma Inv_with_stake st sk cl top : Inv st top -> Inv (with_stake st sk cl) top.
Proof. intros [A B C D E]. constructor; assumption. Qed.

Record frame (st st' : state) : Prop := {
  f_admin : admin st' = admin st; f_hooks : hooks st' = hooks st; f_kind : is_stake st' = is_stake st;
  f_cfg : cfg st' = cfg st; f_held : held st' = held st }.

Definition hook_shape (st st' : state) (who : N) (ms : list msg) : Prop :=
  (ms = [] /\ members st' = members st /\ total_s st' = total_s st) \/
  (m_cur (members st') who <> m_cur (members st) who /\
   ms = hook_msgs st [(who, m_cur (members st) who, m_cur (members st') who)]).

Lemma restake_spec st sk cl who ns H st' ms top :
  Inv st top -> SInv st -> top <= H -> sorted ordN cl ->
  sk = set ordN (stake st) who ns ->
  update_membership (with_stake st sk cl) who ns H = Ok (st', ms) ->
  Inv st' H /\ SInv st' /\ frame st st' /\ stake st' = sk /\ claims st' = cl /\
  (forall b, b <> who -> m_cur (members st') b = m_cur (members st) b) /\
  (forall b h, h <= H -> m_at (members st') b h = m_at (members st) b h) /\
  hook_shape st st' who ms.
Proof.
  intros HI HS Hle Hcl Hsk Hu.
  destruct (update_membership_spec _ _ _ _ _ _ top (Inv_with_stake st sk cl top HI) Hle Hu)
    as (I' & W & O & A1 & A2 & A3 & A4 & A5 & A6 & A7 & P & Sh).
  cbn [with_stake admin hooks is_stake cfg stake claims held members total_s] in *.
  destruct HS as [S1 S2 S3 S4].
  split; [exact I'|]. split; [|split; [constructor; auto|split; [exact A5|split; [exact A6|split; [exact O|split; [exact P|exact Sh]]]]]].
  constructor.
  - rewrite A5, Hsk. apply set_sorted. exact S1.
  - rewrite A6. exact Hcl.
  - rewrite A4. exact S3.
  - intros a. rewrite A4, A5, Hsk. destruct (N.eq_dec a who) as [E|E].
    + subst a. rewrite getd_set_eq. exact W.
    + rewrite getd_set_neq by exact E. rewrite O by exact E. apply S4.
Qed.

Definition bonded (st : state) (o : op) : N :=
  match o with
  | Bond funds => match c_token (cfg st) with Native d => unw (must_pay funds d) | _ => 0 end
  | Receive _ n _ => n
  | _ => 0
  end.

Definition WInv (st : state) (top : N) : Prop := Inv st top /\ (is_stake st = true -> SInv st).

Lemma Inv_with_core st a hk top : Inv st top -> Inv (with_core st a hk) top.
Proof. intros [A B C D E]. constructor; assumption. Qed.
Lemma SInv_with_core st a hk : SInv st -> SInv (with_core st a hk).
Proof. intros [A B C D]. constructor; assumption. Qed.

Record step_ok (st : state) (H : N) (o : op) (st' : state) (ms : list msg) : Prop := {
  so_inv : WInv st' H;
  so_kind : is_stake st' = is_stake st;
  so_cfg : cfg st' = cfg st;
  so_held : held st' = held st;
  so_past : forall b h, h <= H -> m_at (members st') b h = m_at (members st) b h;
  so_tpast : is_stake st = false -> forall h, h <= H -> snap_at (total_s st') h = snap_at (total_s st) h;
  so_ledger : backing st' + paid_out ms = backing st + bonded st o }.

Lemma backing_with_core st a hk : backing (with_core st a hk) = backing st.
Proof. reflexivity. Qed.

Lemma core_step_ok st H o a hk top : WInv st top -> top <= H -> bonded st o = 0 ->
  step_ok st H o (with_core st a hk) [].
Proof.
  intros [HI HS] Hle Hb. constructor; try reflexivity.
  - split; [apply Inv_with_core; eapply Inv_mono; eassumption|].
    intros K. apply SInv_with_core. apply HS. exact K.
  - cbn [paid_out]. rewrite backing_with_core, Hb. reflexivity.
Qed.

Lemma paid_out_hooks st ds : paid_out (hook_msgs st ds) = 0.
Proof. unfold hook_msgs. induction (hooks st) as [|h r IH]; [reflexivity|exact IH]. Qed.

Lemma bond_step_ok st blk who n st' ms top o :
  WInv st top -> is_stake st = true -> top <= height blk -> bonded st o = n ->
  bond st blk who n = Ok (st', ms) ->
  step_ok st (height blk) o st' ms /\ frame st st' /\
  stake st' = set ordN (stake st) who (getd ordN (stake st) who + n) /\ claims st' = claims st /\
  hook_shape st st' who ms /\ (forall b, b <> who -> m_cur (members st') b = m_cur (members st) b).
Proof.
  intros [HI HS] K Hle Hb Hbond. specialize (HS K). unfold bond, add128 in Hbond.
  destruct (getd ordN (stake st) who + n <=? u128max) eqn:L; [|discriminate].
  destruct (restake_spec st _ (claims st) who _ (height blk) st' ms top HI HS Hle (s_claims_sorted _ HS) eq_refl Hbond)
    as (I' & S' & F & E1 & E2 & O & P & Sh).
  destruct F as [F1 F2 F3 F4 F5].
  split; [|split; [constructor; auto|split; [exact E1|split; [exact E2|split; [exact Sh|exact O]]]]].
  constructor; auto.
  - split; [exact I'|intros _; exact S'].
  - intros Kf. congruence.
  - unfold backing. rewrite E1, E2.
    pose proof (sum_set (stake st) who (getd ordN (stake st) who + n) (s_stake_sorted _ HS)) as Es.
    assert (paid_out ms = 0) as ->.
    { destruct Sh as [(-> & _)|(_ & ->)]; [reflexivity|apply paid_out_hooks]. }
    rewrite Hb. lia.
Qed.


Lemma get_claims_total st a : sum_claims (get_claims st a) <= claims_total (claims st).
Proof.
  unfold get_claims, claims_total. pose proof (getf_le_sumf sum_claims ordN (claims st) a) as L.
  unfold getf in L. destruct (get ordN (claims st) a); [exact L|]. unfold sum_claims, sumN. cbn. lia.
Qed.

Lemma step_spec st blk sender o st' ms top :
  WInv st top -> top <= height blk -> step st blk sender o = Ok (st', ms) ->
  step_ok st (height blk) o st' ms.
Proof.
  intros HW Hle Hs. pose proof HW as [HI HS]. destruct o as [a|a|a|add rem|funds|n| |from n pok|tok n pok|n]; cbn [step] in Hs.
  - destruct a as [[x|]|]; try discriminate; destruct (is_admin st sender); try discriminate; inv Hs;
      eapply core_step_ok; eauto.
  - destruct a as [x|]; [|discriminate]. destruct (is_admin st sender); [|discriminate]. cbn [negb] in Hs.
    destruct (mem x (hooks st)); [discriminate|]. inv Hs. eapply core_step_ok; eauto.
  - destruct a as [x|]; [|discriminate]. destruct (is_admin st sender); [|discriminate]. cbn [negb] in Hs.
    destruct (mem x (hooks st)); [|discriminate]. cbn [negb] in Hs. inv Hs. eapply core_step_ok; eauto.
  - destruct (is_stake st) eqn:K; [discriminate|].
    destruct (update_members_spec _ _ _ _ _ _ _ top HI Hle Hs)
      as (I' & _ & A1 & A2 & A3 & A4 & A5 & A6 & A7 & P & TP & ds & -> & _).
    constructor.
    + split; [exact I'|]. intros K'. congruence.
    + exact A3.
    + exact A4.
    + exact A7.
    + exact P.
    + intros _. exact TP.
    + unfold backing. rewrite A5, A6, paid_out_hooks. cbn [bonded]. lia.
  - destruct (is_stake st) eqn:K; [|discriminate]. cbn [negb] in Hs.
    destruct (c_token (cfg st)) as [d|t] eqn:Tk; [|discriminate].
    destruct (must_pay funds d) as [n|] eqn:Mp; [|discriminate].
    eapply (bond_step_ok st blk sender n st' ms top (Bond funds)); eauto.
    cbn [bonded]. rewrite Tk, Mp. reflexivity.
  - destruct (is_stake st) eqn:K; [|discriminate]. cbn [negb] in Hs. specialize (HS eq_refl).
    unfold unbond, sub128 in Hs.
    destruct (n <=? getd ordN (stake st) sender) eqn:L; [|discriminate]. apply N.leb_le in L.
    destruct (duration_after (c_unbond (cfg st)) blk) as [rel|]; [|discriminate].
    assert (Hcl: sorted ordN (set ordN (claims st) sender (get_claims st sender ++ [(n, rel)])))
      by (apply set_sorted; apply (s_claims_sorted _ HS)).
    destruct (restake_spec st _ _ sender _ (height blk) st' ms top HI HS Hle Hcl eq_refl Hs)
      as (I' & S' & [F1 F2 F3 F4 F5] & E1 & E2 & O & P & Sh).
    constructor; auto.
    + split; [exact I'|intros _; exact S'].
    + intros Kf. congruence.
    + unfold backing. rewrite E1, E2. cbn [bonded].
      pose proof (sum_set (stake st) sender (getd ordN (stake st) sender - n) (s_stake_sorted _ HS)) as Es.
      pose proof (claims_total_set (claims st) sender (get_claims st sender ++ [(n, rel)]) (s_claims_sorted _ HS)) as Ec.
      rewrite sum_claims_app in Ec. cbn [fst] in Ec. fold (get_claims st sender) in Ec.
      assert (paid_out ms = 0) as ->.
      { destruct Sh as [(-> & _)|(_ & ->)]; [reflexivity|apply paid_out_hooks]. }
      lia.
  - destruct (is_stake st) eqn:K; [|discriminate]. cbn [negb] in Hs. specialize (HS eq_refl).
    unfold claim in Hs.
    destruct (u128max <? sum_claims (filter (matured blk) (get_claims st sender))); [discriminate|].
    destruct (sum_claims (filter (matured blk) (get_claims st sender)) =? 0); [discriminate|]. inv Hs.
    constructor; try reflexivity.
    + split; [apply Inv_with_stake; eapply Inv_mono; eassumption|]. intros _.
      destruct HS as [S1 S2 S3 S4]. constructor; cbn [with_stake stake claims cfg members]; auto.
      apply set_sorted. exact S2.
    + unfold backing. cbn [with_stake stake claims paid_out bonded].
      pose proof (claims_total_set (claims st) sender
                    (filter (fun c => negb (matured blk c)) (get_claims st sender)) (s_claims_sorted _ HS)) as Ec.
      fold (get_claims st sender) in Ec.
      pose proof (sum_claims_partition (matured blk) (get_claims st sender)) as Ep. lia.
  - destruct (is_stake st) eqn:K; [|discriminate]. cbn [negb] in Hs.
    destruct pok; [|discriminate]. cbn [negb] in Hs. destruct from as [u|]; [|discriminate].
    destruct (c_token (cfg st)) as [d|t] eqn:Tk; [discriminate|].
    destruct (t =? sender); [|discriminate].
    eapply (bond_step_ok st blk u n st' ms top (Receive (Some u) n true)); eauto.
  - discriminate.
  - discriminate.
Qed.

(* ---------------------------------------------------------------------------------------- *)
(* transactions and histories *)
Definition c_blk (c : call) : block := let '(b, _, _, _) := c in b.
Fixpoint mono (lo : N) (cs : list call) : Prop :=
  match cs with [] => True | c :: r => lo <= height (c_blk c) /\ mono (height (c_blk c)) r end.
(* the configured cw20 token is honest: it calls Receive only from inside its own Send (SendCw20) *)
Definition honest_call (c0 : config) (c : call) : Prop :=
  let '(_, s, o, _) := c in match o with Receive _ _ _ => c_token c0 <> Cw20 s | _ => True end.
Definition donation (st : state) (c : call) : N :=
  let '(_, _, o, _) := c in match o with Donate n => if held st + n <=? u128max then n else 0 | _ => 0 end.
Fixpoint donated (st : state) (cs : list call) : N :=
  match cs with [] => 0 | c :: r => donation st c + donated (tx_state st c) r end.
Fixpoint last_height (top : N) (cs : list call) : N :=
  match cs with [] => top | c :: r => last_height (height (c_blk c)) r end.

Lemma WInv_with_held st x top : WInv st top -> WInv (with_held st x) top.
Proof.
  intros [[A B C D E] HS]. split; [constructor; assumption|]. intros K. destruct (HS K) as [S1 S2 S3 S4].
  constructor; assumption.
Qed.
Lemma WInv_mono st top H : WInv st top -> top <= H -> WInv st H.
Proof. intros [HI HS] Hle. split; [eapply Inv_mono; eassumption|exact HS]. Qed.

Record tx_ok (st : state) (c : call) (st' : state) : Prop := {
  to_inv : WInv st' (height (c_blk c));
  to_kind : is_stake st' = is_stake st;
  to_cfg : cfg st' = cfg st;
  to_past : forall b h, h <= height (c_blk c) -> m_at (members st') b h = m_at (members st) b h;
  to_tpast : is_stake st = false -> forall h, h <= height (c_blk c) -> snap_at (total_s st') h = snap_at (total_s st) h;
  to_ledger : honest_call (cfg st) c -> held st' + backing st = held st + backing st' + donation st c;
  to_backed : honest_call (cfg st) c -> backing st <= held st -> backing st' <= held st' }.

Definition redirect (sender : N) (o : op) : N * op :=
  match o with SendCw20 tok n pok => (tok, Receive (Some sender) n pok) | _ => (sender, o) end.

Lemma tx_unfold st blk sender o dok : (forall n, o <> Donate n) ->
  tx st blk sender o dok =
  match step st blk (fst (redirect sender o)) (snd (redirect sender o)) with
  | Ok (st', ms) =>
      let h1 := held st + credit_of st o in
      if dok && (h1 <=? u128max) && (paid_out ms <=? h1) then (with_held st' (h1 - paid_out ms), true, ms)
      else (st, false, [])
  | _ => (st, false, [])
  end.
Proof. intros Hn. destruct o; try reflexivity. exfalso. eapply Hn. reflexivity. Qed.

Lemma credit_bonded st sender o st' ms blk : (forall n, o <> Donate n) -> honest_call (cfg st) (blk, sender, o, true) ->
  step st blk (fst (redirect sender o)) (snd (redirect sender o)) = Ok (st', ms) ->
  bonded st (snd (redirect sender o)) = credit_of st o.
Proof.
  intros Hn Hh Hs. destruct o; try reflexivity; cbn [redirect fst snd bonded credit_of] in *.
  exfalso. cbn [step] in Hs. destruct (is_stake st); [|discriminate]. cbn [negb] in Hs.
  destruct payload_ok; [|discriminate]. cbn [negb] in Hs. destruct from; [|discriminate].
  destruct (c_token (cfg st)) as [d|t] eqn:Tk; [discriminate|].
  destruct (N.eqb_spec t sender) as [E|E]; [|discriminate]. cbn [honest_call] in Hh. apply Hh. rewrite Tk, E. reflexivity.
Qed.

Lemma tx_spec st c top :
  WInv st top -> top <= height (c_blk c) -> tx_ok st c (tx_state st c).
Proof.
  intros HW Hle. destruct c as [[[blk sender] o] dok]. cbn [c_blk] in *.
  assert (Same: donation st (blk, sender, o, dok) = 0 -> tx_ok st (blk, sender, o, dok) st).
  { intros D. constructor; cbn [c_blk].
    - eapply WInv_mono; eassumption.
    - reflexivity.
    - reflexivity.
    - intros; reflexivity.
    - intros; reflexivity.
    - intros _. rewrite D. lia.
    - intros _ Hb. exact Hb. }
  assert (Dn: {n | o = Donate n} + {forall n, o <> Donate n}).
  { destruct o; try (right; intros n' E; discriminate). left. eexists. reflexivity. }
  destruct Dn as [[n ->]|Hn].
  - unfold tx_state. cbn [tx]. destruct (held st + n <=? u128max) eqn:L; cbn [fst].
    + constructor; cbn [c_blk with_held held is_stake cfg members total_s]; auto.
      * apply WInv_with_held. eapply WInv_mono; eassumption.
      * intros _. cbn [donation]. rewrite L. unfold backing. cbn [with_held stake claims]. lia.
      * intros _ Hb. unfold backing in *. cbn [with_held stake claims]. lia.
    + apply Same. cbn [donation]. rewrite L. reflexivity.
  - assert (D0: donation st (blk, sender, o, dok) = 0) by (destruct o; try reflexivity; exfalso; eapply Hn; reflexivity).
    unfold tx_state. rewrite (tx_unfold _ _ _ _ _ Hn).
    destruct (step st blk (fst (redirect sender o)) (snd (redirect sender o))) as [[st' ms]| |] eqn:Es;
      cbn [fst]; try (apply Same; exact D0).
    cbv zeta.
    destruct (dok && (held st + credit_of st o <=? u128max) && (paid_out ms <=? held st + credit_of st o)) eqn:C;
      cbn [fst]; [|apply Same; exact D0].
    apply andb_true_iff in C. destruct C as [C C3]. apply andb_true_iff in C. destruct C as [_ C2].
    apply N.leb_le in C2, C3.
    destruct (step_spec _ _ _ _ _ _ top HW Hle Es) as [I' K' C' H' P' TP' L'].
    constructor; cbn [c_blk with_held held is_stake cfg members total_s]; auto.
    + apply WInv_with_held. exact I'.
    + intros Hh. assert (Hh': honest_call (cfg st) (blk, sender, o, true)) by exact Hh.
      pose proof (credit_bonded _ _ _ _ _ _ Hn Hh' Es) as Ecb. rewrite Ecb in L'.
      rewrite D0. unfold backing in *. cbn [with_held stake claims]. lia.
    + intros Hh Hb. assert (Hh': honest_call (cfg st) (blk, sender, o, true)) by exact Hh.
      pose proof (credit_bonded _ _ _ _ _ _ Hn Hh' Es) as Ecb. rewrite Ecb in L'.
      unfold backing in *. cbn [with_held stake claims]. lia.
Qed.

Lemma run_spec cs : forall st top,
  WInv st top -> mono top cs ->
  WInv (run st cs) (last_height top cs) /\ cfg (run st cs) = cfg st /\ is_stake (run st cs) = is_stake st /\
  (forall b h, h <= top -> m_at (members (run st cs)) b h = m_at (members st) b h) /\
  (is_stake st = false -> forall h, h <= top -> snap_at (total_s (run st cs)) h = snap_at (total_s st) h).
Proof.
  induction cs as [|c r IH]; intros st top HW Hm; cbn [run fold_left last_height].
  - split; [exact HW|]. split; [reflexivity|]. split; [reflexivity|]. split; intros; reflexivity.
  - destruct Hm as [Hle Hm].
    destruct (tx_spec st c top HW Hle) as [I' K' C' P' TP' _ _].
    specialize (IH (tx_state st c) (height (c_blk c)) I' Hm).
    destruct IH as (I2 & C2 & K2 & P2 & TP2).
    change (fold_left tx_state r (tx_state st c)) with (run (tx_state st c) r) in *.
    split; [exact I2|]. split; [congruence|]. split; [congruence|]. split.
    + intros b h Hh'. rewrite P2 by lia. apply P'. lia.
    + intros Kf h Hh'. rewrite TP2 by (try lia; congruence). apply TP'; [exact Kf|lia].
Qed.

Lemma run_ledger cs : forall st top,
  WInv st top -> mono top cs -> Forall (honest_call (cfg st)) cs -> backing st <= held st ->
  held (run st cs) + backing st = held st + backing (run st cs) + donated st cs /\
  backing (run st cs) <= held (run st cs).
Proof.
  induction cs as [|c r IH]; intros st top HW Hm Hh Hb; cbn [run fold_left donated].
  - split; [lia|exact Hb].
  - destruct Hm as [Hle Hm]. inv Hh. rename H1 into Hh1. rename H2 into Hhr.
    destruct (tx_spec st c top HW Hle) as [I' K' C' P' TP' L' B'].
    specialize (L' Hh1). specialize (B' Hh1 Hb). rewrite <- C' in Hhr.
    specialize (IH (tx_state st c) (height (c_blk c)) I' Hm Hhr B').
    change (fold_left tx_state r (tx_state st c)) with (run (tx_state st c) r) in *.
    destruct IH as [L2 B2]. split; [lia|exact B2].
Qed.

(* calls made in blocks before h *)
Fixpoint before (h : N) (cs : list call) : list call :=
  match cs with [] => [] | c :: r => if height (c_blk c) <? h then c :: before h r else [] end.

Lemma run_at cs : forall st top,
  WInv st top -> mono top cs ->
  forall h, top < h ->
  (forall b, m_at (members (run st cs)) b h = m_cur (members (run st (before h cs))) b) /\
  (is_stake st = false -> snap_at (total_s (run st cs)) h = cur (total_s (run st (before h cs)))).
Proof.
  induction cs as [|c r IH]; intros st top HW Hm h Hlt; cbn [run fold_left before].
  - destruct HW as [[A B C D E] _]. split.
    + intros b. apply (m_future _ top); assumption.
    + intros _. apply (snap_future _ top); assumption.
  - destruct Hm as [Hle Hm].
    destruct (tx_spec st c top HW Hle) as [I' K' C' P' TP' _ _].
    change (fold_left tx_state r (tx_state st c)) with (run (tx_state st c) r).
    destruct (N.ltb_spec (height (c_blk c)) h) as [Lh|Lh].
    + cbn [run fold_left]. change (fold_left tx_state (before h r) (tx_state st c)) with (run (tx_state st c) (before h r)).
      destruct (IH (tx_state st c) (height (c_blk c)) I' Hm h Lh) as [X1 X2].
      split; [exact X1|]. intros Kf. apply X2. congruence.
    + cbn [run fold_left].
      destruct (run_spec r (tx_state st c) (height (c_blk c)) I' Hm) as (_ & _ & _ & P2 & TP2).
      destruct HW as [[A B C D E] _]. split.
      * intros b. rewrite P2 by exact Lh. rewrite P' by exact Lh. apply (m_future _ top); assumption.
      * intros Kf. rewrite TP2 by (try exact Lh; congruence). rewrite TP' by assumption.
        apply (snap_future _ top); assumption.
Qed.

(* ---------------------------------------------------------------------------------------- *)
(* instantiation *)
Fixpoint nondecr (l : list (N * N)) : Prop :=
  match l with x :: ((y :: _) as r) => fst x <= fst y /\ nondecr r | _ => True end.
Fixpoint incr (l : list (N * N)) : Prop :=
  match l with x :: ((y :: _) as r) => fst x < fst y /\ incr r | _ => True end.

Lemma insert_nondecr x l : nondecr l -> nondecr (insert_sorted x l).
Proof.
  induction l as [|y r IH]; intros Hn; cbn [insert_sorted]; [exact I|].
  destruct (N.leb_spec (fst x) (fst y)) as [L|L].
  - cbn [nondecr]. split; [exact L|exact Hn].
  - destruct r as [|z r'].
    + cbn [insert_sorted nondecr]. split; [lia|exact I].
    + destruct Hn as [Hyz Hn]. specialize (IH Hn). cbn [insert_sorted] in *.
      destruct (fst x <=? fst z) eqn:E.
      * cbn [nondecr] in *. split; [lia|exact IH].
      * cbn [nondecr] in *. split; [exact Hyz|exact IH].
Qed.
Lemma sort_nondecr l : nondecr (sort_members l).
Proof. induction l as [|x r IH]; [exact I|]. cbn [sort_members fold_right]. apply insert_nondecr. exact IH. Qed.
Lemma nodup_incr l : nondecr l -> has_dup l = false -> incr l.
Proof.
  induction l as [|x r IH]; intros Hn Hd; [exact I|]. destruct r as [|y r']; [exact I|].
  cbn [has_dup] in Hd. apply orb_false_iff in Hd. destruct Hd as [E Hd]. apply N.eqb_neq in E.
  destruct Hn as [L Hn]. cbn [incr]. split; [lia|]. apply IH; assumption.
Qed.
Lemma incr_head_lt x r : incr (x :: r) -> forall y, In y r -> fst x < fst y.
Proof.
  revert x. induction r as [|z r IH]; intros x Hi y Hin; [destruct Hin|].
  destruct Hi as [L Hi]. destruct Hin as [<-|Hin]; [exact L|].
  specialize (IH z Hi y Hin). lia.
Qed.
Lemma incr_tail x r : incr (x :: r) -> incr r.
Proof. destruct r; [intros; exact I|]. intros [_ H]. exact H. Qed.

Lemma create_loop_spec H l : forall ms t ms' t',
  sorted ordN ms -> mbounded ms H -> t = m_sum ms -> t <= u64max ->
  incr l -> (forall x, In x l -> m_cur ms (fst x) = None) ->
  create_loop H l ms t = Some (ms', t') ->
  sorted ordN ms' /\ mbounded ms' H /\ t' = m_sum ms' /\ t' <= u64max /\
  (forall b h, h <= H -> m_at ms' b h = m_at ms b h).
Proof.
  induction l as [|[a w] r IH]; intros ms t ms' t' Hs Hb Ht Hu Hi Hf Hl; cbn [create_loop] in Hl.
  - inv Hl. repeat split; auto.
  - unfold add64, obind in Hl. destruct (t + w <=? u64max) eqn:L; [|discriminate]. apply N.leb_le in L.
    destruct (m_write_spec ms a H (Some w) Hb) as (B' & C' & O' & P').
    pose proof (m_sum_write ms a H (Some w) Hs) as Es.
    pose proof (Hf (a, w) (or_introl eq_refl)) as Hn0. cbn [fst] in Hn0. rewrite Hn0 in Es. cbn [unw] in Es.
    destruct (IH (m_write ms a H (Some w)) (t + w) ms' t') as (S1 & B1 & E1 & U1 & P1); auto.
    + apply m_write_sorted. exact Hs.
    + lia.
    + eapply incr_tail. exact Hi.
    + intros x Hin. rewrite O'.
      * apply Hf. right. exact Hin.
      * pose proof (incr_head_lt _ _ Hi x Hin) as Lt. cbn [fst] in Lt. lia.
    + repeat split; auto. intros b h Hh. rewrite P1 by exact Hh. apply P'. exact Hh.
Qed.

Lemma m_at_nil b h : m_at [] b h = None.
Proof. reflexivity. Qed.
Lemma m_cur_nil b : m_cur [] b = None.
Proof. reflexivity. Qed.

Lemma instantiate_spec m blk st : instantiate m blk = Ok st ->
  WInv st (height blk) /\ backing st = 0 /\ held st = 0 /\ is_stake st = i_stake m /\
  (forall b h, h <= height blk -> m_at (members st) b h = None) /\
  (is_stake st = false -> forall h, h <= height blk -> snap_at (total_s st) h = None).
Proof.
  unfold instantiate. intros Hi.
  assert (X: exists adm, (if i_stake m
      then Ok (mkSt true adm [] [] (mkSnap (Some 0) [])
                 (mkCfg (c_token (i_cfg m)) (c_tpw (i_cfg m)) (N.max (c_min_bond (i_cfg m)) 1) (c_unbond (i_cfg m))) [] [] 0)
      else match validate_members (i_members m) with
        | None => Err
        | Some l =>
            if has_dup (sort_members l) then Err
            else match create_loop (height blk) (sort_members l) [] 0 with
                 | None => Err
                 | Some (ms, t) =>
                     Ok (mkSt false adm [] ms (snap_write snap_empty (height blk) (Some t)) cfg_default [] [] 0)
                 end
        end) = Ok st).
  { destruct (i_admin m) as [[a|]|]; [eexists; exact Hi|discriminate|eexists; exact Hi]. }
  clear Hi. destruct X as [adm Hi]. destruct (i_stake m).
  - inv Hi. split; [|repeat split; try reflexivity; try (intros; discriminate)].
    split.
    + constructor; cbn [members total_s cur slog]; try reflexivity.
      * constructor.
      * apply mbounded_nil.
      * intros g o [].
      * unfold m_sum. cbn. unfold u64max. lia.
    + intros _. constructor; cbn [stake claims cfg c_min_bond members]; try constructor.
      * lia.
      * intros a. unfold getd, getf, get. cbn. unfold calc_weight. cbn [c_min_bond].
        destruct (0 <? N.max (c_min_bond (i_cfg m)) 1) eqn:E; [reflexivity|]. apply N.ltb_ge in E. lia.
  - destruct (validate_members (i_members m)) as [l|]; [|discriminate].
    destruct (has_dup (sort_members l)) eqn:Hd; [discriminate|].
    destruct (create_loop (height blk) (sort_members l) [] 0) as [[ms t]|] eqn:Hc; [|discriminate]. inv Hi.
    assert (Hinc: incr (sort_members l)) by (apply nodup_incr; [apply sort_nondecr|exact Hd]).
    destruct (create_loop_spec (height blk) (sort_members l) [] 0 ms t) as (S1 & B1 & E1 & U1 & P1); auto.
    { constructor. } { apply mbounded_nil. } { unfold u64max. lia. }
    destruct (snap_write_spec snap_empty (height blk) (Some t) (sbounded_empty _)) as (TB & TC & TP & _).
    split; [|repeat split; try reflexivity].
    + split; [|intros K; discriminate]. constructor; cbn [members total_s]; auto.
      * rewrite TC. congruence.
      * rewrite <- E1. exact U1.
    + intros b h Hh. cbn [members]. rewrite P1 by exact Hh. reflexivity.
    + intros _ h Hh. cbn [total_s]. rewrite TP by exact Hh. reflexivity.
Qed.

Lemma m_sum_list ms : m_sum ms = sumN (map snd (m_list ms)).
Proof.
  unfold m_sum, sumN. induction ms as [|[a s] r IH]; cbn [sumf m_list]; [reflexivity|].
  unfold wt at 1. destruct (cur s); cbn [map fold_right snd]; lia.
Qed.

(* ---------------------------------------------------------------------------------------- *)
(* C09: end theorems *)
Theorem total_is_sum m blk st cs : instantiate m blk = Ok st -> mono (height blk) cs ->
  q_total (run st cs) None = sumN (map snd (q_list_all (run st cs))) /\ q_total (run st cs) None <= u64max.
Proof.
  intros Hi Hm. destruct (instantiate_spec _ _ _ Hi) as (HW & _).
  destruct (run_spec cs st (height blk) HW Hm) as ([[A B C D E] _] & _).
  unfold q_total, q_list_all. rewrite D. cbn [unw]. rewrite <- m_sum_list. split; [reflexivity|exact E].
Qed.

Theorem member_at_history m blk st cs a h : instantiate m blk = Ok st -> mono (height blk) cs ->
  q_member (run st cs) a (Some h) =
  if h <=? height blk then None else q_member (run st (before h cs)) a None.
Proof.
  intros Hi Hm. destruct (instantiate_spec _ _ _ Hi) as (HW & _ & _ & _ & P0 & _).
  cbn [q_member]. destruct (N.leb_spec h (height blk)) as [L|L].
  - destruct (run_spec cs st (height blk) HW Hm) as (_ & _ & _ & P & _). rewrite P by exact L. apply P0. exact L.
  - destruct (run_at cs st (height blk) HW Hm h L) as [X _]. apply X.
Qed.

Theorem total_at_history m blk st cs h : instantiate m blk = Ok st -> i_stake m = false -> mono (height blk) cs ->
  q_total (run st cs) (Some h) = if h <=? height blk then 0 else q_total (run st (before h cs)) None.
Proof.
  intros Hi Hk Hm. destruct (instantiate_spec _ _ _ Hi) as (HW & _ & _ & K & _ & T0).
  rewrite Hk in K. unfold q_total. destruct (N.leb_spec h (height blk)) as [L|L].
  - destruct (run_spec cs st (height blk) HW Hm) as (_ & _ & _ & _ & TP). rewrite (TP K h L).
    rewrite (T0 K h L). reflexivity.
  - destruct (run_at cs st (height blk) HW Hm h L) as [_ X]. rewrite (X K). reflexivity.
Qed.

(* the model's transactions satisfy the abstract step contract of C09 (Cw4Snap.frozen_step) *)
Definition aobs_member (st : state) (top : N) (a : N) : aobs := mkA top (m_cur (members st) a) (m_at (members st) a).
Theorem tx_frozen_step st c top a : WInv st top -> top <= height (c_blk c) ->
  frozen_step (aobs_member st top a) (aobs_member (tx_state st c) (height (c_blk c)) a).
Proof.
  intros HW Hle. destruct (tx_spec st c top HW Hle) as [[[A B C D E] _] _ _ P _ _ _].
  split; [exact Hle|]. split; cbn [aobs_member a_h a_at a_cur].
  - intros h Hh. apply P. exact Hh.
  - intros h Hh. apply (m_future _ (height (c_blk c))); assumption.
Qed.

(* ---------------------------------------------------------------------------------------- *)
(* C14 *)
Lemma um_frame st who ns H st' ms : update_membership st who ns H = Ok (st', ms) ->
  admin st' = admin st /\ hooks st' = hooks st /\ is_stake st' = is_stake st.
Proof.
  unfold update_membership, rbind. intros Hu. destruct (calc_weight (cfg st) ns) as [new| |]; try discriminate.
  destruct (optN_eqb new (m_cur (members st) who)); [inv Hu; auto|].
  destruct (cur (total_s st)) as [t|]; [|discriminate]. destruct (add64 t (unw new)) as [t1|]; [|discriminate].
  destruct (sub64 t1 (unw (m_cur (members st) who))); [|discriminate]. inv Hu. auto.
Qed.

Definition core_same (st st' : state) : Prop :=
  admin st' = admin st /\ hooks st' = hooks st /\
  (is_stake st = false -> members st' = members st /\ total_s st' = total_s st).

Lemma step_core st blk sender o st' ms : step st blk sender o = Ok (st', ms) ->
  is_stake st' = is_stake st /\ (is_admin st sender = true \/ core_same st st').
Proof.
  intros Hs. destruct o as [a|a|a|add rem|funds|n| |from n pok|tok n pok|n]; cbn [step] in Hs.
  - destruct a as [[x|]|]; try discriminate; destruct (is_admin st sender); try discriminate; inv Hs; auto.
  - destruct a as [x|]; [|discriminate]. destruct (is_admin st sender); [|discriminate]. cbn [negb] in Hs.
    destruct (mem x (hooks st)); [discriminate|]. inv Hs. auto.
  - destruct a as [x|]; [|discriminate]. destruct (is_admin st sender); [|discriminate]. cbn [negb] in Hs.
    destruct (mem x (hooks st)); [|discriminate]. inv Hs. auto.
  - destruct (is_stake st) eqn:K; [discriminate|]. unfold update_members in Hs.
    destruct (validate_members add); [|discriminate]. destruct (has_dup (sort_members l)); [discriminate|].
    destruct (is_admin st sender); [|discriminate]. cbn [negb] in Hs.
    destruct (validate_args rem); [|discriminate]. destruct (cur (total_s st)); [|discriminate].
    destruct (add_loop _ _ _ _ _) as [[[? ?] ?]|]; [|discriminate].
    destruct (remove_loop _ _ _ _ _) as [[[? ?] ?]|]; [|discriminate]. inv Hs. auto.
  - destruct (is_stake st) eqn:K; [|discriminate]. cbn [negb] in Hs.
    destruct (c_token (cfg st)); [|discriminate]. destruct (must_pay funds d); [|discriminate].
    unfold bond in Hs. destruct (add128 _ _); [|discriminate].
    destruct (um_frame _ _ _ _ _ _ Hs) as (A & B & C). cbn [with_stake admin hooks is_stake] in *.
    split; [congruence|]. right. split; [exact A|]. split; [exact B|]. intros Kf; congruence.
  - destruct (is_stake st) eqn:K; [|discriminate]. cbn [negb] in Hs. unfold unbond in Hs.
    destruct (sub128 _ _); [|discriminate]. destruct (duration_after _ _); [|discriminate].
    destruct (um_frame _ _ _ _ _ _ Hs) as (A & B & C). cbn [with_stake admin hooks is_stake] in *.
    split; [congruence|]. right. split; [exact A|]. split; [exact B|]. intros Kf; congruence.
  - destruct (is_stake st) eqn:K; [|discriminate]. cbn [negb] in Hs. unfold claim in Hs.
    destruct (u128max <? _); [discriminate|]. destruct (_ =? 0); [discriminate|]. inv Hs.
    split; [cbn [with_stake is_stake]; congruence|]. right. split; [reflexivity|]. split; [reflexivity|]. intros Kf; congruence.
  - destruct (is_stake st) eqn:K; [|discriminate]. cbn [negb] in Hs.
    destruct pok; [|discriminate]. cbn [negb] in Hs. destruct from; [|discriminate].
    destruct (c_token (cfg st)); [discriminate|]. destruct (a =? sender); [|discriminate].
    unfold bond in Hs. destruct (add128 _ _); [|discriminate].
    destruct (um_frame _ _ _ _ _ _ Hs) as (A & B & C). cbn [with_stake admin hooks is_stake] in *.
    split; [congruence|]. right. split; [exact A|]. split; [exact B|]. intros Kf; congruence.
  - discriminate.
  - discriminate.
Qed.

Theorem admin_only st blk sender o st' ms : step st blk sender o = Ok (st', ms) ->
  (admin st' <> admin st \/ hooks st' <> hooks st \/
   (is_stake st = false /\ (members st' <> members st \/ total_s st' <> total_s st))) ->
  admin st = Some sender.
Proof.
  intros Hs Hc. destruct (step_core _ _ _ _ _ _ Hs) as [_ [Ha|(A & B & C)]].
  - unfold is_admin in Ha. destruct (admin st) as [x|]; [|discriminate]. apply N.eqb_eq in Ha. congruence.
  - exfalso. destruct Hc as [Hc|[Hc|[K [Hc|Hc]]]]; try (apply Hc; assumption);
      destruct (C K) as [C1 C2]; apply Hc; assumption.
Qed.

Lemma tx_core st c : admin st = None ->
  is_stake (tx_state st c) = is_stake st /\ core_same st (tx_state st c).
Proof.
  intros Hn. destruct c as [[[blk sender] o] dok]. unfold tx_state, tx.
  assert (Same: is_stake st = is_stake st /\ core_same st st) by (split; [reflexivity|split; [|split]; auto]).
  assert (NA: forall s, is_admin st s = false) by (intros s; unfold is_admin; rewrite Hn; reflexivity).
  destruct o; cbn [fst];
    try (match goal with |- context [step st blk ?s ?o'] => destruct (step st blk s o') as [[st' ms]| |] eqn:Es end;
         cbn [fst]; try exact Same;
         match goal with |- context [if ?c then _ else _] => destruct c end; cbn [fst]; try exact Same;
         destruct (step_core _ _ _ _ _ _ Es) as [K [Ha|Hc]]; [rewrite NA in Ha; discriminate|];
         cbn [with_held is_stake]; split; [exact K|exact Hc]).
  destruct (held st + n <=? u128max); cbn [fst]; exact Same.
Qed.

Theorem frozen_forever cs : forall st, admin st = None ->
  admin (run st cs) = None /\ hooks (run st cs) = hooks st /\
  (is_stake st = false -> members (run st cs) = members st /\ total_s (run st cs) = total_s st).
Proof.
  induction cs as [|c r IH]; intros st Hn; cbn [run fold_left]; [auto|].
  destruct (tx_core st c Hn) as [K (A & B & C)].
  change (fold_left tx_state r (tx_state st c)) with (run (tx_state st c) r).
  assert (Hn': admin (tx_state st c) = None) by congruence.
  destruct (IH _ Hn') as (A2 & B2 & C2). split; [exact A2|]. split; [congruence|].
  intros Kf. destruct (C Kf) as [C1 C3]. destruct (C2 (eq_trans K Kf)) as [C4 C5]. split; congruence.
Qed.

(* what each accepted call tells the hooks *)
Definition no_hook_msg (ms : list msg) : Prop := forall h ds, ~ In (HookMsg h ds) ms.

Theorem hooks_spec st blk sender o st' ms top :
  WInv st top -> top <= height blk -> step st blk sender o = Ok (st', ms) ->
  match o with
  | UpdateMembers _ _ => exists ds, ms = hook_msgs st ds /\ explains ds (m_cur (members st)) (m_cur (members st'))
  | Bond _ | Unbond _ => hook_shape st st' sender ms /\ forall b, b <> sender -> m_cur (members st') b = m_cur (members st) b
  | Receive (Some u) _ _ => hook_shape st st' u ms /\ forall b, b <> u -> m_cur (members st') b = m_cur (members st) b
  | _ => no_hook_msg ms /\ members st' = members st /\ total_s st' = total_s st
  end.
Proof.
  intros HW Hle Hs. pose proof HW as [HI HS].
  destruct o as [a|a|a|add rem|funds|n| |from n pok|tok n pok|n]; cbn [step] in Hs.
  - destruct a as [[x|]|]; try discriminate; destruct (is_admin st sender); try discriminate; inv Hs;
      (split; [intros h ds []|split; reflexivity]).
  - destruct a as [x|]; [|discriminate]. destruct (is_admin st sender); [|discriminate]. cbn [negb] in Hs.
    destruct (mem x (hooks st)); [discriminate|]. inv Hs. split; [intros h ds []|split; reflexivity].
  - destruct a as [x|]; [|discriminate]. destruct (is_admin st sender); [|discriminate]. cbn [negb] in Hs.
    destruct (mem x (hooks st)); [|discriminate]. inv Hs. split; [intros h ds []|split; reflexivity].
  - destruct (is_stake st) eqn:K; [discriminate|].
    destruct (update_members_spec _ _ _ _ _ _ _ top HI Hle Hs) as (_ & _ & _ & _ & _ & _ & _ & _ & _ & _ & _ & ds & E & X).
    exists ds. split; assumption.
  - destruct (is_stake st) eqn:K; [|discriminate]. cbn [negb] in Hs.
    destruct (c_token (cfg st)) as [d|t] eqn:Tk; [|discriminate].
    destruct (must_pay funds d) as [n|] eqn:Mp; [|discriminate].
    destruct (bond_step_ok st blk sender n st' ms top (Bond funds) HW K Hle) as (_ & _ & _ & _ & Sh & O); auto.
    cbn [bonded]. rewrite Tk, Mp. reflexivity.
  - destruct (is_stake st) eqn:K; [|discriminate]. cbn [negb] in Hs. specialize (HS eq_refl).
    unfold unbond in Hs. destruct (sub128 _ _); [|discriminate].
    destruct (duration_after (c_unbond (cfg st)) blk) as [rel|]; [|discriminate].
    assert (Hcl: sorted ordN (set ordN (claims st) sender (get_claims st sender ++ [(n, rel)])))
      by (apply set_sorted; apply (s_claims_sorted _ HS)).
    destruct (restake_spec st _ _ sender _ (height blk) st' ms top HI HS Hle Hcl eq_refl Hs)
      as (_ & _ & _ & _ & _ & O & _ & Sh). split; assumption.
  - destruct (is_stake st) eqn:K; [|discriminate]. cbn [negb] in Hs. unfold claim in Hs.
    destruct (u128max <? _); [discriminate|]. destruct (_ =? 0); [discriminate|]. inv Hs.
    split; [|split; reflexivity]. intros h ds [E|[]]. discriminate.
  - destruct (is_stake st) eqn:K; [|discriminate]. cbn [negb] in Hs.
    destruct pok; [|discriminate]. cbn [negb] in Hs. destruct from as [u|]; [|discriminate].
    destruct (c_token (cfg st)) as [d|t] eqn:Tk; [discriminate|]. destruct (t =? sender); [|discriminate].
    destruct (bond_step_ok st blk u n st' ms top (Receive (Some u) n true) HW K Hle eq_refl Hs) as (_ & _ & _ & _ & Sh & O).
    split; assumption.
  - discriminate.
  - discriminate.
Qed.

(* ---------------------------------------------------------------------------------------- *)
(* C10: what each accepted call does to stakes and claims *)
Lemma must_pay_some funds d n : must_pay funds d = Some n -> funds = [(d, n)].
Proof.
  unfold must_pay. destruct funds as [|[d' n'] [|? ?]]; try discriminate.
  destruct (N.eqb_spec d' d); [|discriminate]. intros E. inv E. reflexivity.
Qed.

Lemma um_stake st who ns H st' ms : update_membership st who ns H = Ok (st', ms) ->
  stake st' = stake st /\ claims st' = claims st /\ cfg st' = cfg st.
Proof.
  unfold update_membership, rbind. intros Hu. destruct (calc_weight (cfg st) ns) as [new| |]; try discriminate.
  destruct (optN_eqb new (m_cur (members st) who)); [inv Hu; auto|].
  destruct (cur (total_s st)) as [t|]; [|discriminate]. destruct (add64 t (unw new)) as [t1|]; [|discriminate].
  destruct (sub64 t1 (unw (m_cur (members st) who))); [|discriminate]. inv Hu. auto.
Qed.

Theorem stake_ops st blk sender o st' ms : step st blk sender o = Ok (st', ms) ->
  match o with
  | Bond funds =>
      exists d n, c_token (cfg st) = Native d /\ funds = [(d, n)] /\
        stake st' = set ordN (stake st) sender (getd ordN (stake st) sender + n) /\ claims st' = claims st /\
        getd ordN (stake st) sender + n <= u128max
  | Receive from n pok =>
      exists u, c_token (cfg st) = Cw20 sender /\ from = Some u /\ pok = true /\
        stake st' = set ordN (stake st) u (getd ordN (stake st) u + n) /\ claims st' = claims st
  | Unbond n =>
      exists rel, duration_after (c_unbond (cfg st)) blk = Some rel /\ n <= getd ordN (stake st) sender /\
        stake st' = set ordN (stake st) sender (getd ordN (stake st) sender - n) /\
        claims st' = set ordN (claims st) sender (get_claims st sender ++ [(n, rel)])
  | Claim =>
      let l := get_claims st sender in
      let rel := sum_claims (filter (matured blk) l) in
      0 < rel /\ ms = [Pay (c_token (cfg st)) sender rel] /\ stake st' = stake st /\
      claims st' = set ordN (claims st) sender (filter (fun c => negb (matured blk c)) l)
  | _ => stake st' = stake st /\ claims st' = claims st
  end.
Proof.
  intros Hs. destruct o as [a|a|a|add rem|funds|n| |from n pok|tok n pok|n]; cbn [step] in Hs.
  - destruct a as [[x|]|]; try discriminate; destruct (is_admin st sender); try discriminate; inv Hs; auto.
  - destruct a as [x|]; [|discriminate]. destruct (is_admin st sender); [|discriminate]. cbn [negb] in Hs.
    destruct (mem x (hooks st)); [discriminate|]. inv Hs. auto.
  - destruct a as [x|]; [|discriminate]. destruct (is_admin st sender); [|discriminate]. cbn [negb] in Hs.
    destruct (mem x (hooks st)); [|discriminate]. inv Hs. auto.
  - destruct (is_stake st) eqn:K; [discriminate|]. unfold update_members in Hs.
    destruct (validate_members add); [|discriminate]. destruct (has_dup (sort_members l)); [discriminate|].
    destruct (is_admin st sender); [|discriminate]. cbn [negb] in Hs.
    destruct (validate_args rem); [|discriminate]. destruct (cur (total_s st)); [|discriminate].
    destruct (add_loop _ _ _ _ _) as [[[? ?] ?]|]; [|discriminate].
    destruct (remove_loop _ _ _ _ _) as [[[? ?] ?]|]; [|discriminate]. inv Hs. auto.
  - destruct (is_stake st) eqn:K; [|discriminate]. cbn [negb] in Hs.
    destruct (c_token (cfg st)) as [d|t] eqn:Tk; [|discriminate].
    destruct (must_pay funds d) as [n|] eqn:Mp; [|discriminate]. apply must_pay_some in Mp.
    unfold bond, add128 in Hs. destruct (_ <=? u128max) eqn:L; [|discriminate]. apply N.leb_le in L.
    destruct (um_stake _ _ _ _ _ _ Hs) as (A & B & C). cbn [with_stake stake claims] in *.
    exists d, n. auto.
  - destruct (is_stake st) eqn:K; [|discriminate]. cbn [negb] in Hs. unfold unbond, sub128 in Hs.
    destruct (n <=? getd ordN (stake st) sender) eqn:L; [|discriminate]. apply N.leb_le in L.
    destruct (duration_after (c_unbond (cfg st)) blk) as [rel|]; [|discriminate].
    destruct (um_stake _ _ _ _ _ _ Hs) as (A & B & C). cbn [with_stake stake claims] in *.
    exists rel. auto.
  - destruct (is_stake st) eqn:K; [|discriminate]. cbn [negb] in Hs. unfold claim in Hs.
    destruct (u128max <? _); [discriminate|].
    destruct (sum_claims (filter (matured blk) (get_claims st sender)) =? 0) eqn:Z; [discriminate|].
    apply N.eqb_neq in Z. inv Hs. cbv zeta. cbn [with_stake stake claims]. split; [lia|auto].
  - destruct (is_stake st) eqn:K; [|discriminate]. cbn [negb] in Hs.
    destruct pok; [|discriminate]. cbn [negb] in Hs. destruct from as [u|]; [|discriminate].
    destruct (c_token (cfg st)) as [d|t] eqn:Tk; [discriminate|].
    destruct (N.eqb_spec t sender) as [E|E]; [|discriminate]. subst t.
    unfold bond, add128 in Hs. destruct (_ <=? u128max); [|discriminate].
    destruct (um_stake _ _ _ _ _ _ Hs) as (A & B & C). cbn [with_stake stake claims] in *.
    exists u. auto.
  - discriminate.
  - discriminate.
Qed.

(* a claim created by Unbond at block b matures no earlier than the unbonding period after b *)
Theorem claim_delay d b rel n b' : duration_after d b = Some rel -> matured b' (n, rel) = true ->
  match d with
  | DHeight p => height b + p <= height b'
  | DTime s => time b + s * 1000000000 <= time b'
  end.
Proof.
  unfold duration_after, matured, add64, mul64, obind. destruct d as [p|s]; cbn [snd].
  - destruct (height b + p <=? u64max); [|discriminate]. intros E. inv E. cbn [is_expired]. apply N.leb_le.
  - destruct (s * 1000000000 <=? u64max); [|discriminate].
    destruct (time b + s * 1000000000 <=? u64max); [|discriminate]. intros E. inv E. cbn [is_expired]. apply N.leb_le.
Qed.

Theorem backed_history m blk st cs : instantiate m blk = Ok st -> mono (height blk) cs ->
  Forall (honest_call (cfg st)) cs ->
  held (run st cs) = backing (run st cs) + donated st cs.
Proof.
  intros Hi Hm Hh. destruct (instantiate_spec _ _ _ Hi) as (HW & B0 & H0 & _).
  destruct (run_ledger cs st (height blk) HW Hm Hh) as [L _]; [lia|]. lia.
Qed.

Theorem weight_follows_stake m blk st cs a : instantiate m blk = Ok st -> i_stake m = true -> mono (height blk) cs ->
  let s := run st cs in
  calc_weight (cfg s) (q_staked s a) = Ok (q_member s a None) /\ 1 <= c_min_bond (cfg s).
Proof.
  intros Hi Hk Hm. destruct (instantiate_spec _ _ _ Hi) as (HW & _ & _ & K & _).
  destruct (run_spec cs st (height blk) HW Hm) as ([_ HS] & _ & K2 & _).
  cbv zeta. destruct (HS (eq_trans K2 (eq_trans K Hk))) as [_ _ S3 S4]. split; [apply S4|exact S3].
Qed.

(* ---------------------------------------------------------------------------------------- *)

(* the weight the (last) entry for a in an add list gives it *)
Fixpoint lassoc (l : list (N * N)) (a : N) : option N :=
  match l with
  | [] => None
  | (x, w) :: r => match lassoc r a with Some v => Some v | None => if x =? a then Some w else None end
  end.

Lemma add_loop_cur H l : forall ms t ds ms' t' ds', mbounded ms H ->
  add_loop H l ms t ds = Some (ms', t', ds') ->
  mbounded ms' H /\ forall a, m_cur ms' a = match lassoc l a with Some w => Some w | None => m_cur ms a end.
Proof.
  induction l as [|[x w] r IH]; intros ms t ds ms' t' ds' Hb Hl; cbn [add_loop] in Hl.
  - inversion Hl; subst. split; [exact Hb|]. intros a. reflexivity.
  - unfold sub64, add64, obind in Hl.
    destruct (unw (m_cur ms x) <=? t); [|discriminate].
    destruct (t - unw (m_cur ms x) + w <=? u64max); [|discriminate].
    destruct (m_write_spec ms x H (Some w) Hb) as (B' & C' & O' & _).
    destruct (IH _ _ _ _ _ _ B' Hl) as (B2 & E). split; [exact B2|].
    intros a. rewrite (E a). cbn [lassoc]. destruct (lassoc r a) as [v|]; [reflexivity|].
    destruct (N.eqb_spec x a) as [->|Hn]; [exact C'|]. apply O'. intros C. apply Hn. symmetry. exact C.
Qed.

Lemma remove_loop_cur H l : forall ms t ds ms' t' ds', mbounded ms H ->
  remove_loop H l ms t ds = Some (ms', t', ds') ->
  mbounded ms' H /\ forall a, m_cur ms' a = if existsb (N.eqb a) l then None else m_cur ms a.
Proof.
  induction l as [|x r IH]; intros ms t ds ms' t' ds' Hb Hl; cbn [remove_loop] in Hl.
  - inversion Hl; subst. split; [exact Hb|]. intros a. reflexivity.
  - destruct (m_cur ms x) as [w|] eqn:Cx.
    + unfold sub64, obind in Hl. destruct (w <=? t); [|discriminate].
      destruct (m_write_spec ms x H None Hb) as (B' & C' & O' & _).
      destruct (IH _ _ _ _ _ _ B' Hl) as (B2 & E). split; [exact B2|].
      intros a. rewrite (E a). cbn [existsb]. destruct (existsb (N.eqb a) r); [rewrite orb_true_r; reflexivity|].
      rewrite orb_false_r. destruct (N.eqb_spec a x) as [->|Hn]; [exact C'|apply O'; exact Hn].
    + destruct (IH _ _ _ _ _ _ Hb Hl) as (B2 & E). split; [exact B2|].
      intros a. rewrite (E a). cbn [existsb]. destruct (existsb (N.eqb a) r); [rewrite orb_true_r; reflexivity|].
      rewrite orb_false_r. destruct (N.eqb_spec a x) as [->|Hn]; [exact Cx|reflexivity].
Qed.

(* the true history, one step: what an accepted UpdateMembers makes of every address *)
Theorem update_members_pointwise st blk sender add rem st' ms top :
  Inv st top -> top <= height blk -> update_members st blk sender add rem = Ok (st', ms) ->
  exists add' rem', validate_members add = Some add' /\ validate_args rem = Some rem' /\
    has_dup (sort_members add') = false /\
    forall a, m_cur (members st') a =
      if existsb (N.eqb a) rem' then None
      else match lassoc (sort_members add') a with Some w => Some w | None => m_cur (members st) a end.
Proof.
  intros HI Hle Hu. apply (Inv_mono _ _ _ HI) in Hle. destruct Hle as [Hs Hb Htb Ht Hu64].
  unfold update_members in Hu.
  destruct (validate_members add) as [add'|] eqn:Va; [|discriminate].
  destruct (has_dup (sort_members add')) eqn:Hd; [discriminate|].
  destruct (is_admin st sender); [|discriminate]. cbn [negb] in Hu.
  destruct (validate_args rem) as [rem'|] eqn:Vr; [|discriminate].
  rewrite Ht in Hu.
  destruct (add_loop (height blk) (sort_members add') (members st) (m_sum (members st)) []) as [[[ms1 t1] ds1]|] eqn:L1; [|discriminate].
  destruct (remove_loop (height blk) rem' ms1 t1 ds1) as [[[ms2 t2] ds2]|] eqn:L2; [|discriminate].
  inversion Hu; subst st' ms. clear Hu.
  destruct (add_loop_cur _ _ _ _ _ _ _ _ Hb L1) as (B1 & E1).
  destruct (remove_loop_cur _ _ _ _ _ _ _ _ B1 L2) as (_ & E2).
  exists add', rem'. split; [reflexivity|]. split; [reflexivity|]. split; [exact Hd|].
  intros a. cbn [members with_members]. rewrite (E2 a). destruct (existsb (N.eqb a) rem'); [reflexivity|]. apply E1.
Qed.
