(* Cw4Snap.v — proofs about the snapshot model of Cw4Model.v (one key, then the member map) and the
   abstract soundness theorem of C09: frozen past + future = current, step by step, implies that an
   at-height answer is the value at the start of that block. *)
Require Import CwPlus.Params CwPlus.Base CwPlus.AMap CwPlus.Cw4Model.
Open Scope N_scope.

(* every changelog height is <= top *)
Definition sbounded (s : snapv) (top : N) : Prop := forall g o, In (g, o) (slog s) -> g <= top.
Definition slog_sorted (s : snapv) : Prop := sorted ordN (slog s).

Lemma first_ge_none_all l h : first_ge h l = None <-> (forall g o, In (g, o) l -> g < h).
Proof.
  induction l as [|[g o] l IH]; cbn [first_ge].
  - split; [intros _ g o []|reflexivity].
  - destruct (N.leb_spec h g) as [L|L].
    + split; [discriminate|]. intros H0. specialize (H0 g o (or_introl eq_refl)). lia.
    + rewrite IH. split.
      * intros H0 g' o' [E|Hin]; [inversion E; subst; exact L|eauto].
      * intros H0 g' o' Hin. apply (H0 g' o'). right. exact Hin.
Qed.

Lemma first_ge_app_none l g o h : first_ge h l = None ->
  first_ge h (l ++ [(g, o)]) = (if h <=? g then Some o else None).
Proof.
  induction l as [|[g' o'] l IH]; cbn [first_ge app]; intros H; [reflexivity|].
  destruct (h <=? g'); [discriminate|]. auto.
Qed.
Lemma first_ge_app_some l e h o : first_ge h l = Some o -> first_ge h (l ++ [e]) = Some o.
Proof.
  induction l as [|[g' o'] l IH]; cbn [first_ge app]; intros H; [discriminate|].
  destruct (h <=? g'); auto.
Qed.

(* inserting above every key is appending *)
Lemma set_above_app (l : amap N (option N)) h v :
  (forall g o, In (g, o) l -> g < h) -> set ordN l h v = l ++ [(h, v)].
Proof.
  induction l as [|[g o] l IH]; intros Hb; unfold set; cbn [app]; [reflexivity|]. fold (@set N (option N)).
  assert (L: g < h) by (apply (Hb g o); left; reflexivity).
  cbn [o_eqb o_ltb ordN].
  rewrite (proj2 (N.eqb_neq h g)) by lia. rewrite (proj2 (N.ltb_ge h g)) by lia.
  f_equal. apply IH. intros g' o' Hin. apply (Hb g' o'). right. exact Hin.
Qed.

Lemma get_none_notin (l : amap N (option N)) h : get ordN l h = None -> forall o, ~ In (h, o) l.
Proof.
  induction l as [|[g o'] l IH]; unfold get; cbn; intros H o2 Hin; [exact Hin|]. fold (@get N (option N)) in H.
  destruct (h =? g) eqn:E; [discriminate|]. destruct Hin as [Hin|Hin].
  - inversion Hin; subst. rewrite N.eqb_refl in E. discriminate.
  - eapply IH; eassumption.
Qed.
Lemma get_some_in (l : amap N (option N)) h v : get ordN l h = Some v -> In (h, v) l.
Proof. apply get_in. Qed.

(* ---- one key ---- *)
Lemma snap_future s top h : sbounded s top -> top < h -> snap_at s h = cur s.
Proof.
  intros Hb Hh. unfold snap_at. destruct (first_ge h (slog s)) eqn:F; [|reflexivity].
  exfalso. assert (N0: first_ge h (slog s) = None).
  { apply first_ge_none_all. intros g o2 Hin. specialize (Hb g o2 Hin). lia. }
  congruence.
Qed.

Lemma sbounded_mono s top H : sbounded s top -> top <= H -> sbounded s H.
Proof. intros Hb Hle g o Hin. specialize (Hb g o Hin). lia. Qed.

Lemma snap_write_spec s H v : sbounded s H ->
  sbounded (snap_write s H v) H /\ cur (snap_write s H v) = v /\
  (forall h, h <= H -> snap_at (snap_write s H v) h = snap_at s h) /\
  (forall h, H < h -> snap_at (snap_write s H v) h = v).
Proof.
  intros Hb. unfold snap_write. destruct (get ordN (slog s) H) as [o|] eqn:G.
  - (* already logged in this block *)
    split; [exact Hb|]. split; [reflexivity|]. split.
    + intros h Hh. unfold snap_at. cbn [slog cur].
      destruct (first_ge h (slog s)) eqn:F; [reflexivity|].
      exfalso. rewrite first_ge_none_all in F. apply get_some_in in G. specialize (F _ _ G). lia.
    + intros h Hh. apply (snap_future (mkSnap v (slog s)) H h); [exact Hb|exact Hh].
  - assert (Hlt: forall g o, In (g, o) (slog s) -> g < H).
    { intros g o Hin. pose proof (Hb g o Hin) as L. destruct (N.eq_dec g H) as [E|E]; [|lia].
      subst g. exfalso. eapply get_none_notin; eassumption. }
    rewrite (set_above_app _ _ _ Hlt).
    assert (Hb': sbounded (mkSnap v (slog s ++ [(H, cur s)])) H).
    { intros g o Hin. cbn [slog] in Hin. apply in_app_or in Hin. destruct Hin as [Hin|[E|[]]].
      - specialize (Hlt g o Hin). lia. - inversion E; subst. lia. }
    split; [exact Hb'|]. split; [reflexivity|]. split.
    + intros h Hh. unfold snap_at. cbn [slog cur].
      destruct (first_ge h (slog s)) eqn:F.
      * erewrite first_ge_app_some by eassumption. reflexivity.
      * rewrite first_ge_app_none by exact F. rewrite (proj2 (N.leb_le h H)) by lia. reflexivity.
    + intros h Hh. apply (snap_future _ H h Hb' Hh).
Qed.

(* ---- the member map ---- *)
Definition mbounded (ms : mmap) (top : N) : Prop := forall a, sbounded (getm ms a) top.

Lemma sbounded_empty top : sbounded snap_empty top.
Proof. intros g o []. Qed.

Lemma getm_write_eq ms a h v : getm (m_write ms a h v) a = snap_write (getm ms a) h v.
Proof. unfold getm at 1, m_write. rewrite get_set_eq. reflexivity. Qed.
Lemma getm_write_neq ms a b h v : b <> a -> getm (m_write ms a h v) b = getm ms b.
Proof. intros Hn. unfold getm, m_write. rewrite get_set_neq by exact Hn. reflexivity. Qed.

Lemma m_write_spec ms a H v : mbounded ms H ->
  mbounded (m_write ms a H v) H /\ m_cur (m_write ms a H v) a = v /\
  (forall b, b <> a -> m_cur (m_write ms a H v) b = m_cur ms b) /\
  (forall b h, h <= H -> m_at (m_write ms a H v) b h = m_at ms b h).
Proof.
  intros Hb. destruct (snap_write_spec (getm ms a) H v (Hb a)) as (B & C & P & _).
  split; [|split; [|split]].
  - intros b. destruct (N.eq_dec b a) as [E|E].
    + subst b. rewrite getm_write_eq. exact B.
    + rewrite getm_write_neq by exact E. apply Hb.
  - unfold m_cur. rewrite getm_write_eq. exact C.
  - intros b Hn. unfold m_cur. rewrite getm_write_neq by exact Hn. reflexivity.
  - intros b h Hh. unfold m_at. destruct (N.eq_dec b a) as [E|E].
    + subst b. rewrite getm_write_eq. apply P. exact Hh.
    + rewrite getm_write_neq by exact E. reflexivity.
Qed.

Lemma m_future ms top a h : mbounded ms top -> top < h -> m_at ms a h = m_cur ms a.
Proof. intros Hb Hh. apply (snap_future _ top h (Hb a) Hh). Qed.
Lemma mbounded_mono ms top H : mbounded ms top -> top <= H -> mbounded ms H.
Proof. intros Hb Hle a. eapply sbounded_mono; [apply Hb|exact Hle]. Qed.
Lemma mbounded_nil top : mbounded [] top.
Proof. intros a. unfold getm, get. cbn. apply sbounded_empty. Qed.

(* ---------------------------------------------------------------------------------------- *)
(* C09 soundness, abstractly: a system whose observable is (current value, at-height answers).
   One observation per call, made at block height H (non-decreasing).  Step contract:
   answers for h <= H are those of the previous observation, answers for h > H are the
   current value.  Then every at-height answer is the value that was current after the last call
   made in a block < h. *)
Record aobs := mkA { a_h : N; a_cur : option N; a_at : N -> option N }.

Definition frozen_step (p q : aobs) : Prop :=
  a_h p <= a_h q /\ (forall h, h <= a_h q -> a_at q h = a_at p h) /\ (forall h, a_h q < h -> a_at q h = a_cur q).

Fixpoint chain (p : aobs) (l : list aobs) : Prop :=
  match l with [] => True | q :: r => frozen_step p q /\ chain q r end.

(* the value that was current after the last observation made in a block < h *)
Fixpoint value_before (h : N) (p : aobs) (l : list aobs) : option N :=
  match l with
  | [] => a_cur p
  | q :: r => if a_h q <? h then value_before h q r else a_cur p
  end.

Fixpoint final (p : aobs) (l : list aobs) : aobs := match l with [] => p | q :: r => final q r end.

Lemma chain_frozen p l : chain p l -> forall h, h <= a_h p -> a_at (final p l) h = a_at p h.
Proof.
  revert p. induction l as [|q r IH]; intros p Hc h Hh; [reflexivity|].
  destruct Hc as [(Hle & Hpast & _) Hc].
  cbn [final].
  rewrite (IH q Hc h) by lia. apply Hpast. lia.
Qed.

Theorem frozen_chain_sound p l :
  (forall h, a_h p < h -> a_at p h = a_cur p) -> chain p l ->
  forall h, a_h p < h -> a_at (final p l) h = value_before h p l.
Proof.
  revert p. induction l as [|q r IH]; intros p Hfut Hc h Hh; cbn [value_before].
  - apply Hfut. exact Hh.
  - destruct Hc as [(Hle & Hpast & Hf) Hc].
    cbn [final].
    destruct (N.ltb_spec (a_h q) h) as [L|L].
    + apply IH; assumption.
    + rewrite (chain_frozen q r Hc h L). rewrite Hpast by exact L. apply Hfut. exact Hh.
Qed.
