(* PagingLemmas.v — proofs about the list-query model (C20). *)
Require Import CwPlus.Params CwPlus.Base CwPlus.Paging.
From Coq Require Import Sorted.
Open Scope N_scope.

(* ---------------------------------------------------------------------------------------- *)
(* generic part: a listing over a duplicate-free list L, cursor = an element of L *)
Fixpoint drop_until (c : N) (l : list N) : list N :=
  match l with [] => [] | x :: r => if x =? c then r else drop_until c r end.
Definition gpage (n : nat) (L : list N) (c : option N) : list N :=
  firstn n (match c with None => L | Some k => drop_until k L end).

Lemma drop_until_app k a b : ~ In k a -> drop_until k (a ++ k :: b) = b.
Proof.
  induction a as [|x r IH]; intros Hn; cbn [app drop_until].
  - rewrite N.eqb_refl. reflexivity.
  - destruct (N.eqb_spec x k) as [->|Hx]; [exfalso; apply Hn; left; reflexivity|].
    apply IH. intros Hin. apply Hn. right. exact Hin.
Qed.

Lemma last_snoc (l : list N) x d : last (l ++ [x]) d = x.
Proof.
  induction l as [|a l IH]; [reflexivity|]. cbn [app]. remember (l ++ [x]) as r eqn:E.
  destruct r as [|y r']; [destruct l; discriminate|]. exact IH.
Qed.

Lemma firstn_snoc (l : list N) n : (0 < n)%nat -> l <> [] ->
  exists pre k post, firstn n l = pre ++ [k] /\ l = pre ++ k :: post.
Proof.
  revert l. induction n as [|n IH]; intros l Hn Hl; [lia|].
  destruct l as [|a l]; [exfalso; apply Hl; reflexivity|].
  destruct n as [|n'].
  - exists [], a, l. split; reflexivity.
  - destruct l as [|b l].
    + exists [], a, []. split; reflexivity.
    + destruct (IH (b :: l)) as (pre & k & post & H1 & H2); [lia|discriminate|].
      exists (a :: pre), k, post. split.
      * change (firstn (S (S n')) (a :: b :: l)) with (a :: firstn (S n') (b :: l)). rewrite H1. reflexivity.
      * rewrite H2. reflexivity.
Qed.

(* pg agrees with gpage on the cursors a walk can reach *)
Definition agrees (pg : option N -> list N) (n : nat) (L : list N) : Prop :=
  pg None = gpage n L None /\ forall k, In k L -> pg (Some k) = gpage n L (Some k).

Lemma walk_suffix pg n L : NoDup L -> (0 < n)%nat -> agrees pg n L ->
  forall fuel pre suffix c, L = pre ++ suffix -> (length suffix < fuel)%nat ->
    pg c = firstn n suffix -> (c = None \/ exists k, c = Some k /\ In k L) ->
    concat (walk pg fuel c) = suffix /\ (exists ps, walk pg fuel c = ps ++ [[]]).
Proof.
  intros Hnd Hn [Ag0 Ag]. induction fuel as [|f IH]; intros pre suffix c HL Hlen Hpg Hc; [lia|].
  cbn [walk]. rewrite Hpg. destruct suffix as [|s0 suf].
  - rewrite firstn_nil. split; [reflexivity|]. exists []. reflexivity.
  - destruct (firstn_snoc (s0 :: suf) n Hn) as (p1 & k & post & H1 & H2); [discriminate|].
    rewrite H1. destruct (p1 ++ [k]) as [|y ys] eqn:Ep; [destruct p1; discriminate|]. rewrite <- Ep.
    rewrite last_snoc.
    assert (Hk: In k L). { rewrite HL, H2. apply in_or_app. right. apply in_or_app. right. left. reflexivity. }
    assert (Hd: drop_until k L = post).
    { rewrite HL, H2. rewrite app_assoc. apply drop_until_app.
      rewrite HL, H2 in Hnd. rewrite app_assoc in Hnd. apply NoDup_remove_2 in Hnd.
      intros Hin. apply Hnd. apply in_or_app. left. exact Hin. }
    destruct (IH (pre ++ p1 ++ [k]) post (Some k)) as [C1 (ps & C2)].
    + rewrite HL, H2. rewrite <- !app_assoc. reflexivity.
    + rewrite H2 in Hlen. rewrite app_length in Hlen. cbn [length] in Hlen. lia.
    + rewrite (Ag k Hk). unfold gpage. rewrite Hd. reflexivity.
    + right. exists k. split; [reflexivity|exact Hk].
    + split.
      * cbn [concat]. rewrite C1. rewrite H2. rewrite <- app_assoc. reflexivity.
      * exists ((p1 ++ [k]) :: ps). rewrite C2. reflexivity.
Qed.

Theorem walk_complete pg n L : NoDup L -> (0 < n)%nat -> agrees pg n L ->
  concat (walk pg (S (length L)) None) = L /\ exists ps, walk pg (S (length L)) None = ps ++ [[]].
Proof.
  intros Hnd Hn Ag. apply (walk_suffix pg n L Hnd Hn Ag (S (length L)) [] L None); [reflexivity|lia| |left; reflexivity].
  destruct Ag as [A0 _]. exact A0.
Qed.

(* ---------------------------------------------------------------------------------------- *)
(* ascending listings with a filter *)
Definition incr (ks : list N) : Prop := StronglySorted N.lt ks.

Lemma filter_all (f : N -> bool) l : Forall (fun x => f x = true) l -> filter f l = l.
Proof. induction 1 as [|a l Ha _ IH]; cbn [filter]; [reflexivity|]. rewrite Ha, IH. reflexivity. Qed.
Lemma filter_none (f : N -> bool) l : Forall (fun x => f x = false) l -> filter f l = [].
Proof. induction 1 as [|a l Ha _ IH]; cbn [filter]; [reflexivity|]. rewrite Ha, IH. reflexivity. Qed.

Lemma after_is_drop keep ks k : incr ks -> In k (filter keep ks) ->
  filter keep (filter (fun x => k <? x) ks) = drop_until k (filter keep ks).
Proof.
  intros Hs. induction Hs as [|a r Hs IH Hall]; intros Hin; [destruct Hin|].
  cbn [filter] in Hin |- *. destruct (N.eqb_spec a k) as [->|Ha].
  - rewrite N.ltb_irrefl. destruct (keep k) eqn:Kk.
    + cbn [drop_until]. rewrite N.eqb_refl. f_equal. apply filter_all.
      eapply Forall_impl; [|exact Hall]. intros x Hx. apply N.ltb_lt. exact Hx.
    + exfalso. apply filter_In in Hin. destruct Hin as [Hin _].
      rewrite Forall_forall in Hall. specialize (Hall _ Hin). lia.
  - assert (Hin': In k (filter keep r)).
    { destruct (keep a); [destruct Hin as [E|Hin]; [exfalso; apply Ha; exact E|exact Hin]|exact Hin]. }
    assert (Lt: a < k).
    { apply filter_In in Hin'. destruct Hin' as [Hin' _]. rewrite Forall_forall in Hall. apply Hall. exact Hin'. }
    rewrite (proj2 (N.ltb_ge k a)) by lia. rewrite (IH Hin').
    destruct (keep a); [|reflexivity]. cbn [drop_until]. rewrite (proj2 (N.eqb_neq a k) Ha). reflexivity.
Qed.

Lemma incr_nodup ks : incr ks -> NoDup ks.
Proof.
  induction 1 as [|a r Hs IH Hall]; constructor; [|exact IH].
  intros Hin. rewrite Forall_forall in Hall. specialize (Hall _ Hin). lia.
Qed.
Lemma nodup_filter (f : N -> bool) l : NoDup l -> NoDup (filter f l).
Proof.
  induction 1 as [|a l Hn _ IH]; cbn [filter]; [constructor|]. destruct (f a); [|exact IH].
  constructor; [|exact IH]. intros Hin. apply filter_In in Hin. apply Hn. apply Hin.
Qed.

Lemma asc_agrees d m keep ks limit : incr ks ->
  agrees (fun c => page_asc d m keep ks c limit) (eff d m limit) (filter keep ks).
Proof.
  intros Hs. split; [reflexivity|]. intros k Hk. unfold page_asc, gpage, after.
  rewrite (after_is_drop keep ks k Hs Hk). reflexivity.
Qed.

(* ---------------------------------------------------------------------------------------- *)
(* descending listing *)
Lemma before_is_drop ks k : incr ks -> In k ks -> rev (filter (fun x => x <? k) ks) = drop_until k (rev ks).
Proof.
  intros Hs. induction Hs as [|a r Hs IH Hall]; intros Hin; [destruct Hin|].
  cbn [filter rev]. destruct (N.eqb_spec a k) as [->|Ha].
  - rewrite N.ltb_irrefl. rewrite filter_none.
    + cbn [rev]. symmetry. apply (drop_until_app k (rev r) []).
      intros Hin2. apply in_rev in Hin2. rewrite Forall_forall in Hall. specialize (Hall _ Hin2). lia.
    + eapply Forall_impl; [|exact Hall]. intros x Hx. apply N.ltb_ge. lia.
  - destruct Hin as [E|Hin]; [exfalso; apply Ha; exact E|].
    assert (Lt: a < k) by (rewrite Forall_forall in Hall; apply Hall; exact Hin).
    rewrite (proj2 (N.ltb_lt a k) Lt). cbn [rev]. rewrite (IH Hin).
    (* drop_until k (rev r ++ [a]) = drop_until k (rev r) ++ [a] since k occurs in rev r *)
    clear IH. assert (Hin2: In k (rev r)) by (apply in_rev in Hin; exact Hin).
    induction (rev r) as [|x l IHl]; [destruct Hin2|]. cbn [app drop_until].
    destruct (N.eqb_spec x k) as [->|Hx]; [reflexivity|].
    apply IHl. destruct Hin2 as [E|H2]; [exfalso; apply Hx; exact E|exact H2].
Qed.

Lemma desc_agrees d m ks limit : incr ks ->
  agrees (fun c => page_desc d m ks c limit) (eff d m limit) (rev ks).
Proof.
  intros Hs. split; [reflexivity|]. intros k Hk. unfold page_desc, gpage, before.
  rewrite (before_is_drop ks k Hs); [reflexivity|]. apply in_rev. exact Hk.
Qed.

(* ---------------------------------------------------------------------------------------- *)
(* the statements of C20 *)
Theorem page_asc_bound d m keep ks c limit :
  (length (page_asc d m keep ks c limit) <= N.to_nat m)%nat /\
  (length (page_asc d m keep ks c limit) <= N.to_nat (match limit with Some l => l | None => d end))%nat.
Proof. unfold page_asc, eff. rewrite firstn_length. split; lia. Qed.
Theorem page_desc_bound d m ks c limit :
  (length (page_desc d m ks c limit) <= N.to_nat m)%nat /\
  (length (page_desc d m ks c limit) <= N.to_nat (match limit with Some l => l | None => d end))%nat.
Proof. unfold page_desc, eff. rewrite firstn_length. split; lia. Qed.

Theorem asc_complete d m keep ks limit : incr ks -> (0 < eff d m limit)%nat ->
  let L := filter keep ks in
  concat (walk (fun c => page_asc d m keep ks c limit) (S (length L)) None) = L /\
  exists ps, walk (fun c => page_asc d m keep ks c limit) (S (length L)) None = ps ++ [[]].
Proof.
  intros Hs Hn. cbv zeta.
  apply (walk_complete _ (eff d m limit) (filter keep ks)); [apply nodup_filter; apply incr_nodup; exact Hs|exact Hn|].
  apply asc_agrees. exact Hs.
Qed.

Theorem desc_complete d m ks limit : incr ks -> (0 < eff d m limit)%nat ->
  concat (walk (fun c => page_desc d m ks c limit) (S (length (rev ks))) None) = rev ks /\
  exists ps, walk (fun c => page_desc d m ks c limit) (S (length (rev ks))) None = ps ++ [[]].
Proof.
  intros Hs Hn. apply (walk_complete _ (eff d m limit) (rev ks)); [|exact Hn|apply desc_agrees; exact Hs].
  apply NoDup_rev. apply incr_nodup. exact Hs.
Qed.

(* every page consists of kept keys beyond the cursor *)
Lemma firstn_In (n : nat) (l : list N) x : In x (firstn n l) -> In x l.
Proof.
  revert l. induction n as [|n IH]; intros l H; [destruct H|]. destruct l as [|a l]; [destruct H|].
  cbn [firstn] in H. destruct H as [E|H]; [left; exact E|right; apply IH; exact H].
Qed.
Theorem page_asc_sub d m keep ks c limit x : In x (page_asc d m keep ks c limit) ->
  In x ks /\ keep x = true /\ (forall k, c = Some k -> k < x).
Proof.
  unfold page_asc. intros H. apply firstn_In in H. apply filter_In in H. destruct H as [H K].
  split; [|split; [exact K|]].
  - destruct c as [k|]; cbn [after] in H; [apply filter_In in H; apply H|exact H].
  - intros k E. subst c. cbn [after] in H. apply filter_In in H. destruct H as [_ L]. apply N.ltb_lt. exact L.
Qed.

(* ---------------------------------------------------------------------------------------- *)
(* the sixteen listings *)
Theorem constants_are_10_30 : forall l, limits_of l = (10, 30).
Proof. intros l. destruct l; reflexivity. Qed.

Theorem model_page_bound l ks kept c limit :
  (length (model_page l ks kept c limit) <= 30)%nat /\
  (length (model_page l ks kept c limit) <= N.to_nat (match limit with Some x => x | None => 10 end))%nat.
Proof.
  unfold model_page. rewrite constants_are_10_30. destruct (is_desc l).
  - apply (page_desc_bound 10 30 ks c limit).
  - apply (page_asc_bound 10 30 (fun k => mem k kept) ks c limit).
Qed.

Theorem model_page_zero l ks kept c : model_page l ks kept c (Some 0) = [].
Proof. unfold model_page. rewrite constants_are_10_30. destruct (is_desc l); reflexivity. Qed.

Definition model_expected (l : listing) (ks kept : list N) : list N :=
  let k := filter (fun x => mem x kept) ks in if is_desc l then rev k else k.

Lemma eff_pos limit : limit <> Some 0 -> (0 < eff 10 30 limit)%nat.
Proof. unfold eff. destruct limit as [x|]; [intros H; assert (x <> 0) by congruence|intros _]; lia. Qed.

Lemma filter_mem_all ks : filter (fun x => mem x ks) ks = ks.
Proof.
  apply filter_all. apply Forall_forall. intros x Hx. unfold mem. apply existsb_exists. exists x. split; [exact Hx|apply N.eqb_refl].
Qed.

(* completeness: walking any listing with last-key cursors, whatever the page size >= 1, returns every
   current item exactly once, in order, and ends with an empty page.  (Reverse listings have no filter.) *)
Theorem model_walk_complete l ks kept limit : incr ks -> limit <> Some 0 -> (is_desc l = true -> kept = ks) ->
  let pg := fun c => model_page l ks kept c limit in
  concat (walk pg (S (length (model_expected l ks kept))) None) = model_expected l ks kept /\
  exists ps, walk pg (S (length (model_expected l ks kept))) None = ps ++ [[]].
Proof.
  intros Hs Hl Hd. cbv zeta. unfold model_page, model_expected. rewrite constants_are_10_30.
  destruct (is_desc l) eqn:D.
  - rewrite (Hd eq_refl), filter_mem_all. apply desc_complete; [exact Hs|apply eff_pos; exact Hl].
  - apply (asc_complete 10 30 (fun k => mem k kept) ks limit Hs (eff_pos limit Hl)).
Qed.
