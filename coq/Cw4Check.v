(* Cw4Check.v — step contracts S_C09, S_C10, S_C14 and the trace checker of family F5. *)
Require Import CwPlus.Params CwPlus.Base CwPlus.AMap CwPlus.Cw4Model.
Open Scope N_scope.

(* at-height answers for h = 0 .. H+2, run-length encoded: (first height of the run, answer) *)
Definition segs := list (N * option N).
Fixpoint seg_at_from (l : segs) (h : N) (acc : option N) : option N :=
  match l with
  | [] => acc
  | (s, v) :: r => if s <=? h then seg_at_from r h v else acc
  end.
Definition seg_at (l : segs) (h : N) : option N := seg_at_from l h None.

Record obs := mkObs {
  ob_admin : option N;
  ob_hooks : list N;
  ob_list : list (N * N);               (* ListMembers paged to the end *)
  ob_total : N;                         (* TotalWeight {} *)
  ob_now : list (N * N);                (* Member{a, None} for every pool address, members only *)
  ob_at : list (N * segs);              (* Member{a, Some h}, every pool address, h = 0..H+2 *)
  ob_total_at : segs;                   (* TotalWeight{Some h} (group), h = 0..H+2 *)
  ob_raw_total : option N;              (* raw read of TOTAL_KEY *)
  ob_raw : list (N * N);                (* raw read of member_key(a), every pool address, present ones *)
  ob_staked : list (N * N);             (* Staked{a}, non-zero ones *)
  ob_claims : list (N * list (N * expiration));   (* Claims{a}, non-empty ones *)
  ob_held : N                           (* bank / cw20 balance of the contract in the staking token *)
}.

Fixpoint range_from (a : N) (n : nat) : list N :=
  match n with O => [] | S k => a :: range_from (a + 1) k end.
Definition upto (n : N) : list N := range_from 0 (N.to_nat n).

Definition pair_eqb (x y : N * N) : bool := (fst x =? fst y) && (snd x =? snd y).
Definition nn_list_eqb : list (N * N) -> list (N * N) -> bool := list_eqb pair_eqb.
Definition nlist_eqb : list N -> list N -> bool := list_eqb N.eqb.
Definition lookup (l : list (N * N)) (a : N) : option N :=
  match find (fun kv => fst kv =? a) l with Some kv => Some (snd kv) | None => None end.
Definition lookup_segs (l : list (N * segs)) (a : N) : segs :=
  match find (fun kv => fst kv =? a) l with Some kv => snd kv | None => [] end.
Definition claim_eqb (x y : N * expiration) : bool := (fst x =? fst y) && exp_eqb (snd x) (snd y).
Definition claims_eqb : list (N * expiration) -> list (N * expiration) -> bool := list_eqb claim_eqb.
Definition lookup_claims (l : list (N * list (N * expiration))) (a : N) : list (N * expiration) :=
  match find (fun kv => fst kv =? a) l with Some kv => snd kv | None => [] end.
Definition diff_eqb (x y : diff) : bool :=
  let '(a, o, n) := x in let '(b, p, q) := y in (a =? b) && optN_eqb o p && optN_eqb n q.
Definition token_eqb (a b : token) : bool :=
  match a, b with Native x, Native y => x =? y | Cw20 x, Cw20 y => x =? y | _, _ => false end.

(* ---------------------------------------------------------------------------------------- *)
(* S_C09 *)
Definition s_c09 (stake_c : bool) (npool : N) (pre post : obs) (hpost : N) : N :=
  let pool := upto npool in
  if negb (sumN (map snd (ob_list post)) =? ob_total post) then 1            (* total <> sum of listed weights *)
  else if negb (forallb (fun a => optN_eqb (lookup (ob_list post) a) (lookup (ob_now post) a)) pool
                && forallb (fun kv => fst kv <? npool) (ob_list post)) then 2 (* listing and point query disagree *)
  else if negb (forallb (fun a => forallb (fun h =>
                   optN_eqb (seg_at (lookup_segs (ob_at post) a) h) (seg_at (lookup_segs (ob_at pre) a) h))
                 (upto (hpost + 1))) pool) then 3                             (* a past/at-block answer changed *)
  else if negb (forallb (fun a =>
                   optN_eqb (seg_at (lookup_segs (ob_at post) a) (hpost + 1)) (lookup (ob_now post) a) &&
                   optN_eqb (seg_at (lookup_segs (ob_at post) a) (hpost + 2)) (lookup (ob_now post) a)) pool)
       then 4                                                                 (* future height <> current value *)
  else if negb stake_c &&
          negb (forallb (fun h => optN_eqb (seg_at (ob_total_at post) h) (seg_at (ob_total_at pre) h)) (upto (hpost + 1)))
       then 5
  else if negb stake_c &&
          negb (optN_eqb (seg_at (ob_total_at post) (hpost + 1)) (Some (ob_total post)) &&
                optN_eqb (seg_at (ob_total_at post) (hpost + 2)) (Some (ob_total post))) then 6
  else if negb (optN_eqb (ob_raw_total post) (Some (ob_total post)) &&
                forallb (fun a => optN_eqb (lookup (ob_raw post) a) (lookup (ob_now post) a)) pool) then 7
  else 0.

(* ---------------------------------------------------------------------------------------- *)
(* S_C14 *)
Fixpoint hook_part (ms : list msg) : list (N * list diff) :=
  match ms with
  | [] => []
  | HookMsg h ds :: r => (h, ds) :: hook_part r
  | _ :: r => hook_part r
  end.
Definition set_w (l : list (N * N)) (a : N) (v : option N) : list (N * N) :=
  let l' := filter (fun kv => negb (fst kv =? a)) l in
  match v with Some w => (a, w) :: l' | None => l' end.
(* replay a diff list over a weight table; None = some entry's `old` is not the running value *)
Fixpoint apply_diffs (ds : list diff) (l : list (N * N)) : option (list (N * N)) :=
  match ds with
  | [] => Some l
  | (a, o, n) :: r => if optN_eqb (lookup l a) o then apply_diffs r (set_w l a n) else None
  end.
Definition same_weights (npool : N) (x y : list (N * N)) : bool :=
  forallb (fun a => optN_eqb (lookup x a) (lookup y a)) (upto npool).
Definition members_same (pre post : obs) : bool :=
  nn_list_eqb (ob_list pre) (ob_list post) && (ob_total pre =? ob_total post).

Definition actor (sender : N) (o : op) : N := sender.

(* the property does not fix an order among hooks: lists of hook addresses are compared as multisets *)
Fixpoint ins_sorted (x : N) (l : list N) : list N :=
  match l with [] => [x] | y :: r => if x <=? y then x :: l else y :: ins_sorted x r end.
Definition sortN (l : list N) : list N := fold_right ins_sorted [] l.
Definition perm_eqb (a b : list N) : bool := nlist_eqb (sortN a) (sortN b).

Definition s_c14 (stake_c : bool) (npool : N) (pre post : obs) (sender : N) (o : op) (hok ok : bool)
           (ms : list msg) : N :=
  let core_same := optN_eqb (ob_admin pre) (ob_admin post) && nlist_eqb (ob_hooks pre) (ob_hooks post) in
  let grp_same := stake_c || members_same pre post in
  let by_admin := ok && optN_eqb (ob_admin pre) (Some sender) in
  let hp := hook_part ms in
  if negb (core_same && grp_same) &&
     negb (by_admin &&
           match o with
           | UpdateAdmin a => match a with
                              | Some None => false
                              | Some (Some x) => optN_eqb (ob_admin post) (Some x)
                              | None => optN_eqb (ob_admin post) None
                              end && nlist_eqb (ob_hooks pre) (ob_hooks post) && grp_same
           | AddHook (Some x) => optN_eqb (ob_admin pre) (ob_admin post) && negb (mem x (ob_hooks pre)) &&
                                 perm_eqb (ob_hooks post) (ob_hooks pre ++ [x]) && grp_same
           | RemoveHook (Some x) => optN_eqb (ob_admin pre) (ob_admin post) && mem x (ob_hooks pre) &&
                                    perm_eqb (ob_hooks post) (remove_first x (ob_hooks pre)) && grp_same
           | UpdateMembers _ _ => core_same && negb stake_c
           | _ => false
           end) then 1                                   (* admin / hooks / group membership changed illegitimately *)
  else if negb hok then (match ms with [] => 0 | _ => 2 end)      (* a failed call emitted messages *)
  else
    let membership_call := match o with
                           | UpdateMembers _ _ => negb stake_c
                           | Bond _ | Unbond _ | Receive _ _ _ | SendCw20 _ _ _ => stake_c
                           | _ => false
                           end in
    if negb membership_call then (match hp with [] => 0 | _ => 3 end)   (* notification without a membership call *)
    else
      let weights_changed := negb (same_weights npool (ob_list pre) (ob_list post)) in
      match hp with
      | [] =>
          (* nobody was told: either nobody listens, or no weight changed (the property asks for a notification
             only for calls that change some member's weight) *)
          match ob_hooks pre with
          | [] => 0
          | _ => if negb weights_changed then 0 else 4                  (* a registered hook was not notified *)
          end
      | (_, ds) :: _ =>
          if negb (perm_eqb (map fst hp) (ob_hooks pre)) then 5           (* not exactly one notification per registered hook *)
          else if negb (forallb (fun x => list_eqb diff_eqb (snd x) ds) hp) then 6   (* payloads differ *)
          else match apply_diffs ds (ob_list pre) with
               | None => 7                                                 (* an entry's old weight is not true *)
               | Some l => if ok && negb (same_weights npool l (ob_list post)) then 8   (* diffs do not explain the change *)
                           else if stake_c && negb (match ds with
                                                    | [(a, o', n')] => negb (optN_eqb o' n')
                                                    | _ => false end) then 9  (* stake: not exactly one real change *)
                           else 0
               end
      end.

(* ---------------------------------------------------------------------------------------- *)
(* S_C10 *)
Definition staked_of (o : obs) (a : N) : N := unw (lookup (ob_staked o) a).
Definition backing_needed (npool : N) (o : obs) : N :=
  sumN (map (fun a => staked_of o a + sum_claims (lookup_claims (ob_claims o) a)) (upto npool)).
Fixpoint pay_part (ms : list msg) : list (token * N * N) :=
  match ms with
  | [] => []
  | Pay t to n :: r => (t, to, n) :: pay_part r
  | _ :: r => pay_part r
  end.

Definition s_c10 (c : config) (npool : N) (pure : bool) (pre post : obs) (blk : block) (sender : N) (o : op)
           (hok ok : bool) (ms : list msg) : N :=
  let pool := upto npool in
  let others_same (who : N) :=
    forallb (fun a => (a =? who) || ((staked_of post a =? staked_of pre a) &&
                                      claims_eqb (lookup_claims (ob_claims post) a) (lookup_claims (ob_claims pre) a))) pool in
  let weights_ok :=
    forallb (fun a => let s := staked_of post a in
                      optN_eqb (lookup (ob_now post) a)
                               (if s <? c_min_bond c then None else Some (s / c_tpw c)) &&
                      ((s <? c_min_bond c) || (negb (c_tpw c =? 0) && (s / c_tpw c <=? u64max)))) pool in
  if ob_held post <? backing_needed npool post then 1                          (* stakes + claims not backed *)
  else if pure && negb (ob_held post =? backing_needed npool post) then 2      (* only bonding funded it, yet holdings differ *)
  else if negb weights_ok then 3                                               (* weight <> stake / tokens_per_weight, or membership wrong *)
  else if negb (match o with Claim => true | _ => match pay_part ms with [] => true | _ => false end end) then 4
  else if negb ok then
    (if others_same npool && (ob_held post =? ob_held pre) then 0 else 5)      (* failed call changed stakes/claims/holdings *)
  else match o with
  | Bond funds =>
      match c_token c, funds with
      | Native d, [(d', n)] =>
          if negb (d' =? d) then 6
          else if negb (others_same sender && (staked_of post sender =? staked_of pre sender + n) &&
                        claims_eqb (lookup_claims (ob_claims post) sender) (lookup_claims (ob_claims pre) sender) &&
                        (ob_held post =? ob_held pre + n)) then 7
          else 0
      | _, _ => 6                                                              (* bond accepted with wrong funds *)
      end
  | SendCw20 tok n _ =>
      if negb (token_eqb (c_token c) (Cw20 tok)) then 6
      else if negb (others_same sender && (staked_of post sender =? staked_of pre sender + n) &&
                    claims_eqb (lookup_claims (ob_claims post) sender) (lookup_claims (ob_claims pre) sender) &&
                    (ob_held post =? ob_held pre + n)) then 7
      else 0
  | Receive _ _ _ => 6                                                         (* a non-token caller bonded *)
  | Unbond n =>
      match duration_after (c_unbond c) blk with
      | None => 8
      | Some rel =>
          if negb (others_same sender && (n <=? staked_of pre sender) &&
                   (staked_of post sender =? staked_of pre sender - n) &&
                   claims_eqb (lookup_claims (ob_claims post) sender) (lookup_claims (ob_claims pre) sender ++ [(n, rel)]) &&
                   (ob_held post =? ob_held pre)) then 8
          else 0
      end
  | Claim =>
      let l := lookup_claims (ob_claims pre) sender in
      let rel := sum_claims (filter (matured blk) l) in
      if negb (others_same sender && (staked_of post sender =? staked_of pre sender)) then 9
      else if negb (claims_eqb (lookup_claims (ob_claims post) sender) (filter (fun x => negb (matured blk x)) l)) then 10
      else if negb ((0 <? rel) && (ob_held post + rel =? ob_held pre) &&
                    match pay_part ms with
                    | [(t, to, n)] => token_eqb t (c_token c) && (to =? sender) && (n =? rel)
                    | _ => false
                    end) then 11                                               (* payout <> matured claims of the caller *)
      else 0
  | Donate n => if others_same npool && (ob_held post =? ob_held pre + n) then 0 else 12
  | _ => if others_same npool && (ob_held post =? ob_held pre) then 0 else 12 (* admin/hook call touched stakes *)
  end.

(* ---------------------------------------------------------------------------------------- *)
Inductive tstep :=
| TCall (blk : block) (sender : N) (o : op)
        (hok : bool)                 (* the contract's handler returned Ok *)
        (ok : bool)                  (* the whole transaction committed *)
        (ms : list msg)              (* Response.messages of the handler (decoded) *)
        (after : obs).

Record trace := mkTrace {
  t_init : init_msg; t_init_blk : block; t_npool : N; t_init_ok : bool; t_init_obs : obs; t_steps : list tstep }.

Definition msg_eqb (a b : msg) : bool :=
  match a, b with
  | HookMsg h1 d1, HookMsg h2 d2 => (h1 =? h2) && list_eqb diff_eqb d1 d2
  | Pay t1 a1 n1, Pay t2 a2 n2 => token_eqb t1 t2 && (a1 =? a2) && (n1 =? n2)
  | _, _ => false
  end.

(* a notification that lists no change tells nobody anything: sending it or not is the same behaviour *)
Definition drop_empty_hooks (ms : list msg) : list msg :=
  filter (fun m => match m with HookMsg _ [] => false | _ => true end) ms.

Definition nonzero (l : list (N * N)) : list (N * N) := filter (fun kv => negb (snd kv =? 0)) l.
Definition nonempty {A} (l : list (N * list A)) : list (N * list A) :=
  filter (fun kv => match snd kv with [] => false | _ => true end) l.

Definition corr_members (npool : N) (st : state) (o : obs) (h : N) : bool :=
  nn_list_eqb (q_list_all st) (ob_list o) && (q_total st None =? ob_total o) &&
  forallb (fun a => forallb (fun x => optN_eqb (q_member st a (Some x)) (seg_at (lookup_segs (ob_at o) a) x))
                            (upto (h + 3))) (upto npool) &&
  (is_stake st || forallb (fun x => optN_eqb (Some (q_total st (Some x))) (match seg_at (ob_total_at o) x with
                                                                          | Some v => Some v | None => Some 0 end))
                          (upto (h + 3))).
Definition corr_core (st : state) (o : obs) : bool :=
  optN_eqb (admin st) (ob_admin o) && nlist_eqb (hooks st) (ob_hooks o).
Definition corr_stake (st : state) (o : obs) : bool :=
  nn_list_eqb (nonzero (stake st)) (ob_staked o) &&
  list_eqb (fun x y => (fst x =? fst y) && claims_eqb (snd x) (snd y)) (nonempty (claims st)) (ob_claims o) &&
  (held st =? ob_held o).

Definition corr (prop : N) (npool : N) (st : state) (o : obs) (h : N) : bool :=
  match prop with
  | 9 => corr_members npool st o h
  | 10 => negb (is_stake st) || (corr_stake st o && nn_list_eqb (q_list_all st) (ob_list o))
  | 14 => corr_core st o && nn_list_eqb (q_list_all st) (ob_list o)
  | _ => true
  end.

(* S_C09, the true history step by step: after an accepted UpdateMembers every removed address is no
   member, every added address that is not also removed has the (last) weight given to it, and everybody
   else is as before *)
Fixpoint last_add (add : list (option N * N)) (a : N) : option N :=
  match add with
  | [] => None
  | (Some x, w) :: r => match last_add r a with Some v => Some v | None => if x =? a then Some w else None end
  | (None, _) :: r => last_add r a
  end.
Definition s_c09_update (npool : N) (pre post : obs) (o : op) (ok : bool) : N :=
  match o with
  | UpdateMembers add remove =>
      if negb ok then 0 else
      if forallb (fun a =>
           let removed := existsb (fun x => match x with Some y => y =? a | None => false end) remove in
           optN_eqb (lookup (ob_now post) a)
                    (if removed then None
                     else match last_add add a with Some w => Some w | None => lookup (ob_now pre) a end))
         (upto npool)
      then 0 else 8
  | _ => 0
  end.

Definition contract (prop : N) (st : state) (npool : N) (pure : bool) (pre post : obs) (blk : block) (sender : N)
           (o : op) (hok ok : bool) (ms : list msg) : N :=
  match prop with
  | 9 => let c := s_c09 (is_stake st) npool pre post (height blk) in
         if negb (c =? 0) then c else if is_stake st then 0 else s_c09_update npool pre post o ok
  | 10 => if is_stake st then s_c10 (cfg st) npool pure pre post blk sender o hok ok ms else 0
  | 14 => s_c14 (is_stake st) npool pre post sender o hok ok ms
  | _ => 0
  end.

(* acceptance of which operations belongs to which property's slice *)
Definition owns_acceptance (prop : N) (o : op) : bool :=
  match prop, o with
  | 14, (UpdateAdmin _ | AddHook _ | RemoveHook _ | UpdateMembers _ _) => true
  | 10, (Bond _ | Unbond _ | Claim | Receive _ _ _ | SendCw20 _ _ _) => true
  | _, _ => false
  end.

(* result codes: 100+c contract clause c; 50 projection differs; 51 emitted messages differ;
   49 model and implementation disagree on accepting the call *)
Fixpoint check_steps (prop : N) (npool : N) (pure : bool) (i : N) (st : state) (prev : obs) (l : list tstep)
  : list (N * N) :=
  match l with
  | [] => []
  | TCall blk sender o hok ok ms after :: r =>
      let pure := pure && match o with Donate _ => negb ok | _ => true end in
      let c := contract prop st npool pure prev after blk sender o hok ok ms in
      if negb (c =? 0) then [(i, 100 + c)] else
      let '(caller, o') := match o with
                           | SendCw20 tok n pok => (tok, Receive (Some sender) n pok)
                           | _ => (sender, o)
                           end in
      let hok_m := match o with Donate _ => true | _ => is_ok (step st blk caller o') end in
      let '(st', ok_m, ms_m) := tx st blk sender o (match o with Donate _ => true | _ => Bool.eqb ok hok end) in
      if negb (Bool.eqb hok hok_m) then (if owns_acceptance prop o then [(i, 49)] else [])
      else if negb (Bool.eqb ok ok_m) then (if owns_acceptance prop o then [(i, 49)] else [])
      else if negb (corr prop npool st' after (height blk)) then [(i, 50)]
      else if ((prop =? 14) || (prop =? 10)) && hok &&
              negb (list_eqb msg_eqb (drop_empty_hooks ms)
                                     (drop_empty_hooks (match step st blk caller o' with Ok (_, m) => m | _ => [] end)))
           then [(i, 51)]
      else check_steps prop npool pure (i + 1) st' after r
  end.

Definition check_trace (prop : N) (t : trace) : list (N * N) :=
  match instantiate (t_init t) (t_init_blk t) with
  | Ok st =>
      if negb (t_init_ok t) then (if (prop =? 14) || (prop =? 9) then [(0, 49)] else [])
      else if negb (corr prop (t_npool t) st (t_init_obs t) (height (t_init_blk t)) && corr_core st (t_init_obs t))
           then [(0, 50)]
      else
        let c0 := if prop =? 9 then s_c09 (is_stake st) (t_npool t) (t_init_obs t) (t_init_obs t) (height (t_init_blk t))
                  else 0 in
        if negb (c0 =? 0) then [(0, 100 + c0)]
        else check_steps prop (t_npool t) true 1 st (t_init_obs t) (t_steps t)
  | _ =>
      if t_init_ok t then
        (* the model refused an instantiation the implementation accepted: S_C09 is still evaluated on the
           implementation's own observation, so that a concrete failing input is reported when there is one *)
        let c0 := if prop =? 9 then s_c09 (i_stake (t_init t)) (t_npool t) (t_init_obs t) (t_init_obs t) (height (t_init_blk t))
                  else 0 in
        if negb (c0 =? 0) then [(0, 100 + c0)]
        else if (prop =? 14) || (prop =? 9) then [(0, 49)] else []
      else []
  end.

Fixpoint check_traces (prop : N) (i : N) (ts : list trace) : list (N * N) :=
  match ts with
  | [] => []
  | t :: r =>
      match check_trace prop t with
      | [] => check_traces prop (i + 1) r
      | (s, c) :: _ => (i, s * 1000 + c) :: check_traces prop (i + 1) r
      end
  end.
