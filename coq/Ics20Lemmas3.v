(* Ics20Lemmas3.v — cw20-ics20: migrations that rewrite balances keep the accounting invariant and the
   solvency invariant (C11, C12 across upgrade paths). *)
Require Import CwPlus.Params CwPlus.Base CwPlus.AMap CwPlus.Ics20Model CwPlus.Ics20Lemmas CwPlus.Ics20Lemmas2.
Open Scope N_scope.

Ltac inv H := inversion H; subst; clear H.

(* one step of update_balances (v2::update_denom) *)
Definition upd_one (s : state) (b : N * N * option N) : option state :=
  let '(c, k, held_o) := b in
  match get_cs s c k, held_o with
  | None, _ => Some s
  | Some _, None => None
  | Some cs, Some held =>
      if held <? outstanding cs then None
      else let diff := held - outstanding cs in
           if diff =? 0 then Some s
           else match add128 (outstanding cs) diff, add128 (total_sent cs) diff with
                | Some o, Some t => Some (with_cs s (set ordNN (chan_state s) (c, k) (mkCs o t)))
                | _, _ => None
                end
  end.
Definition upd_all (l : list (N * N * option N)) (s : state) : option state :=
  fold_left (fun acc b => match acc with None => None | Some s => upd_one s b end) l (Some s).

Lemma fold_none (l : list (N * N * option N)) :
  fold_left (fun acc b => match acc with None => None | Some s => upd_one s b end) l None = None.
Proof. induction l as [|x r IH]; [reflexivity|exact IH]. Qed.

Lemma upd_all_cons b r s : upd_all (b :: r) s = match upd_one s b with Some s1 => upd_all r s1 | None => None end.
Proof. unfold upd_all. cbn [fold_left]. destruct (upd_one s b); [reflexivity|apply fold_none]. Qed.

(* what one step does *)
Lemma upd_one_spec s c k held_o s' : Inv s -> upd_one s (c, k, held_o) = Some s' ->
  Inv s' /\ same_but_cs s s' /\ reply_args s' = reply_args s /\
  (forall c' k', (c', k') <> (c, k) -> get_cs s' c' k' = get_cs s c' k') /\
  (forall cs, get_cs s c k = Some cs ->
     exists held cs', held_o = Some held /\ get_cs s' c k = Some cs' /\ outstanding cs' = held /\ outstanding cs <= held) /\
  (get_cs s c k = None -> s' = s).
Proof.
  intros HI H. unfold upd_one in H. destruct (get_cs s c k) as [cs|] eqn:G.
  - destruct held_o as [held|]; [|discriminate].
    destruct (held <? outstanding cs) eqn:L; [discriminate|]. apply N.ltb_ge in L. cbv zeta in H.
    destruct (held - outstanding cs =? 0) eqn:Z.
    + inv H. apply N.eqb_eq in Z. split; [exact HI|]. split; [repeat split|]. split; [reflexivity|]. split; [reflexivity|]. split.
      * intros cs0 E. inv E. exists held, cs0. repeat split; auto. lia.
      * discriminate.
    + unfold add128 in H. destruct (outstanding cs + (held - outstanding cs) <=? u128max) eqn:A1; [|discriminate].
      destruct (total_sent cs + (held - outstanding cs) <=? u128max) eqn:A2; [|discriminate]. inv H.
      apply N.leb_le in A1, A2. destruct HI as [Hs Hb]. destruct (Hb _ _ _ G) as [B1 B2].
      split; [|split; [repeat split|split; [reflexivity|split; [|split]]]].
      * constructor; cbn [with_cs chan_state]; [apply set_sorted; exact Hs|].
        intros c' k' x. rewrite get_cs_with_cs. destruct (N.eq_dec c' c) as [->|Hc]; [destruct (N.eq_dec k' k) as [->|Hk]|].
        -- rewrite get_set_eq. intros E. inv E. cbn [outstanding total_sent]. lia.
        -- rewrite get_set_neq by (intros E; inv E; apply Hk; reflexivity). apply Hb.
        -- rewrite get_set_neq by (intros E; inv E; apply Hc; reflexivity). apply Hb.
      * intros c' k' Hn. rewrite get_cs_with_cs. apply get_set_neq. exact Hn.
      * intros cs0 E. inv E. eexists held, _. split; [reflexivity|]. rewrite get_cs_with_cs, get_set_eq.
        split; [reflexivity|]. cbn [outstanding]. split; lia.
      * discriminate.
  - inv H. split; [exact HI|]. split; [repeat split|]. split; [reflexivity|]. split; [reflexivity|]. split; [discriminate|reflexivity].
Qed.

(* the whole pass over a list of distinct keys of channel c *)
Lemma upd_all_spec c l : forall s s', Inv s -> NoDup (map (fun b => snd (fst b)) l) ->
  (forall b, In b l -> fst (fst b) = c) ->
  upd_all l s = Some s' ->
  Inv s' /\ same_but_cs s s' /\ reply_args s' = reply_args s /\
  (forall c' k', (forall h, ~ In (c', k', h) l) -> get_cs s' c' k' = get_cs s c' k') /\
  (forall k h cs', In (c, k, h) l -> get_cs s' c k = Some cs' -> exists held, h = Some held /\ outstanding cs' = held).
Proof.
  induction l as [|[[c0 k0] h0] r IH]; intros s s' HI Hnd Hc H.
  - inv H. split; [exact HI|]. split; [repeat split|]. split; [reflexivity|]. split; [reflexivity|]. intros k h cs' [].
  - rewrite upd_all_cons in H. destruct (upd_one s (c0, k0, h0)) as [s1|] eqn:U; [|discriminate].
    assert (Ec: c0 = c) by (apply (Hc (c0, k0, h0)); left; reflexivity). subst c0.
    destruct (upd_one_spec _ _ _ _ _ HI U) as (I1 & S1 & R1 & F1 & P1 & N1).
    cbn [map fst snd] in Hnd. inversion Hnd as [|? ? Hnin Hnd']; subst.
    destruct (IH s1 s' I1 Hnd' (fun b Hb => Hc b (or_intror Hb)) H) as (I2 & S2 & R2 & F2 & P2).
    split; [exact I2|]. split.
    { destruct S1 as (A1 & A2 & A3 & A4 & A5 & A6 & A7). destruct S2 as (B1 & B2 & B3 & B4 & B5 & B6 & B7).
      repeat split; congruence. }
    split; [congruence|]. split.
    + intros c' k' Hn. rewrite F2.
      * apply F1. intros E. inv E. apply (Hn h0). left. reflexivity.
      * intros h Hin. apply (Hn h). right. exact Hin.
    + intros k h cs' Hin G. destruct Hin as [E|Hin].
      * inv E. (* the head key: untouched by the rest *)
        assert (Gs1: get_cs s1 c k = Some cs').
        { rewrite <- F2; [exact G|]. intros h' Hin'. apply Hnin. apply (in_map (fun b => snd (fst b)) _ _ Hin'). }
        destruct (get_cs s c k) as [cs|] eqn:G0.
        -- destruct (P1 cs eq_refl) as (held & cs1 & -> & G1 & O1 & _). rewrite Gs1 in G1. inv G1. exists (outstanding cs1). auto.
        -- rewrite (N1 eq_refl) in Gs1. congruence.
      * apply (P2 k h cs' Hin G).
Qed.

(* ---------------------------------------------------------------------------------------- *)
(* migrate keeps the accounting invariant, so the identity of C12 holds again from the migrated state *)
Theorem migrate_inv st g ok bal st' : Inv st -> migrate st g ok bal = Ok st' -> Inv st'.
Proof.
  intros HI. unfold migrate.
  assert (Frame: forall s1 s2, Inv s1 -> upd_all bal s1 = Some s2 -> Inv s2).
  { intros s1 s2 I1 U. clear - I1 U. revert s1 s2 I1 U. induction bal as [|[[c k] h] r IH]; intros s1 s2 I1 U.
    - inv U. exact I1.
    - rewrite upd_all_cons in U. destruct (upd_one s1 (c, k, h)) as [s3|] eqn:E; [|discriminate].
      apply (IH s3 s2); [|exact U]. apply (upd_one_spec _ _ _ _ _ I1 E). }
  destruct (ver st); try discriminate.
  - destruct (v1_gov st); [|discriminate]. destruct (negb ok); [discriminate|].
    match goal with |- context [fold_left ?f bal (Some ?s0)] => change (fold_left f bal (Some s0)) with (upd_all bal s0) end.
    match goal with |- context [upd_all bal ?s0] => destruct (upd_all bal s0) as [s2|] eqn:U end; [|discriminate]. intros E. inv E.
    assert (I2: Inv s2). { eapply Frame; [|exact U]. apply (Inv_cs_eq st); [reflexivity|exact HI]. }
    destruct I2 as [A B]. constructor; assumption.
  - destruct (negb ok); [discriminate|].
    match goal with |- context [fold_left ?f bal (Some ?s0)] => change (fold_left f bal (Some s0)) with (upd_all bal s0) end.
    destruct (upd_all bal st) as [s2|] eqn:U; [|discriminate]. intros E. inv E.
    destruct (Frame _ _ HI U) as [A B]. constructor; assumption.
  - intros E. inv E. destruct HI as [A B]. constructor; assumption.
  - intros E. inv E. destruct HI as [A B]. constructor; assumption.
Qed.

(* ---------------------------------------------------------------------------------------- *)
(* solvency across migrations *)
Definition chan_ok (st : state) : Prop :=
  forall c k s, get_cs st c k = Some s -> mem c (channels st) = true.

Lemma sorted_keys_nodup {V} (m : amap (N * N) V) : sorted ordNN m -> NoDup (map fst m).
Proof.
  induction 1 as [|k v r Ha Hs IH]; cbn [map]; [constructor|]. constructor; [|exact IH].
  intros Hin. apply in_map_iff in Hin. destruct Hin as ([k' v'] & E & Hin). cbn [fst] in E. subst k'.
  pose proof (Ha _ _ Hin) as L. rewrite (o_lt_irrefl ordNN) in L. discriminate.
Qed.

(* when every entry belongs to channel c the per-key sum is that channel's entry *)
Lemma get_cons_nn {V} (c1 k1 : N) (v : V) r c k :
  get ordNN (((c1, k1), v) :: r) (c, k) = if (c =? c1) && (k =? k1) then Some v else get ordNN r (c, k).
Proof. reflexivity. Qed.

Lemma ksum_single m c k : sorted ordNN m -> (forall c' k' s, In ((c', k'), s) m -> c' = c) ->
  ksum m k = match get ordNN m (c, k) with Some s => outstanding s | None => 0 end.
Proof.
  intros Hs. induction Hs as [|[c1 k1] v r Ha Hs IH]; intros Hall; [reflexivity|].
  assert (E: c1 = c) by (apply (Hall c1 k1 v); left; reflexivity). subst c1.
  cbn [ksum]. rewrite get_cons_nn. rewrite N.eqb_refl. cbn [andb].
  rewrite IH by (intros c' k' s Hin; apply (Hall c' k' s); right; exact Hin).
  destruct (N.eqb_spec k1 k) as [->|Hn].
  - rewrite N.eqb_refl. rewrite (above_get_none ordNN (c, k) r Ha). lia.
  - rewrite (proj2 (N.eqb_neq k k1)) by (intros X; apply Hn; symmetry; exact X). lia.
Qed.

Lemma in_holdings w c k h : In (c, k, h) (holdings_of_channel w c) ->
  (exists s, In ((c, k), s) (chan_state (w_st w))) /\
  h = (if key_is_cw20 k then get ordN (w_hold w) k else Some (hold w k)).
Proof.
  unfold holdings_of_channel. intros H. apply in_map_iff in H. destruct H as ([[c1 k1] s] & E & Hin).
  apply filter_In in Hin. destruct Hin as [Hin Hc]. cbn [fst snd] in *. apply N.eqb_eq in Hc. subst c1.
  inv E. split; [exists s; exact Hin|reflexivity].
Qed.
Lemma holdings_in w c k s : In ((c, k), s) (chan_state (w_st w)) -> exists h, In (c, k, h) (holdings_of_channel w c).
Proof.
  intros Hin. eexists. unfold holdings_of_channel. apply in_map_iff. exists ((c, k), s). split; [reflexivity|].
  apply filter_In. split; [exact Hin|cbn [fst]; apply N.eqb_refl].
Qed.
Lemma holdings_nodup w c : sorted ordNN (chan_state (w_st w)) ->
  NoDup (map (fun b => snd (fst b)) (holdings_of_channel w c)).
Proof.
  intros Hs. pose proof (sorted_keys_nodup _ Hs) as Hn. unfold holdings_of_channel. rewrite map_map. cbn [fst snd].
  induction (chan_state (w_st w)) as [|[[c1 k1] s] r IH]; cbn [filter map]; [constructor|].
  inversion Hn as [|? ? Hnin Hn']; subst. inversion Hs as [|? ? ? Ha Hs']; subst.
  cbn [fst]. destruct (N.eqb_spec c1 c) as [->|Hc]; [|apply IH; assumption].
  cbn [map snd fst]. constructor; [|apply IH; assumption].
  intros Hin. apply in_map_iff in Hin. destruct Hin as ([[c2 k2] s2] & E & Hin2). cbn [fst snd] in E. subst k2.
  apply filter_In in Hin2. destruct Hin2 as [Hin2 Hc2]. cbn [fst] in Hc2. apply N.eqb_eq in Hc2. subst c2.
  apply Hnin. apply in_map_iff. exists ((c, k1), s2). split; [reflexivity|exact Hin2].
Qed.

Lemma holdings_chan w c b : In b (holdings_of_channel w c) -> fst (fst b) = c.
Proof.
  unfold holdings_of_channel. intros H. apply in_map_iff in H. destruct H as ([[c1 k1] s] & E & _). subst b. reflexivity.
Qed.

(* what migrate does to the channel table: nothing, or one update_balances pass *)
Lemma migrate_shape st g ok bal st' : migrate st g ok bal = Ok st' ->
  (chan_state st' = chan_state st /\ channels st' = channels st) \/
  (ok = true /\ exists s0 s2, chan_state s0 = chan_state st /\ channels s0 = channels st /\
                             upd_all bal s0 = Some s2 /\ chan_state st' = chan_state s2 /\ channels st' = channels s2).
Proof.
  unfold migrate. destruct (ver st); try discriminate.
  - destruct (v1_gov st) as [gv|]; [|discriminate]. destruct ok; cbn [negb]; [|discriminate].
    match goal with |- context [fold_left ?f bal (Some ?s0)] => change (fold_left f bal (Some s0)) with (upd_all bal s0) end.
    match goal with |- context [upd_all bal ?s0] => destruct (upd_all bal s0) as [s2|] eqn:U end; [|discriminate].
    intros E. inv E. right. split; [reflexivity|]. eexists _, s2. split; [|split; [|split; [exact U|split; reflexivity]]]; reflexivity.
  - destruct ok; cbn [negb]; [|discriminate].
    match goal with |- context [fold_left ?f bal (Some ?s0)] => change (fold_left f bal (Some s0)) with (upd_all bal s0) end.
    destruct (upd_all bal st) as [s2|] eqn:U; [|discriminate].
    intros E. inv E. right. split; [reflexivity|]. exists st, s2. split; [reflexivity|]. split; [reflexivity|]. split; [exact U|split; reflexivity].
  - intros E. inv E. left. split; reflexivity.
  - intros E. inv E. left. split; reflexivity.
Qed.

Lemma hold_of_h w k h held : h = (if key_is_cw20 k then get ordN (w_hold w) k else Some (hold w k)) -> h = Some held ->
  held = hold w k.
Proof.
  intros -> E. destruct (key_is_cw20 k); [|inv E; reflexivity].
  unfold hold, getd, getf. rewrite E. reflexivity.
Qed.

Theorem migrate_solvent H w blk g : WInv H w -> chan_ok (w_st w) ->
  WInv H (wstep w blk (WMigrate g)) /\ chan_ok (w_st (wstep w blk (WMigrate g))).
Proof.
  intros [HI HS] HC. cbn [wstep].
  set (bal := match channels (w_st w) with [c] => holdings_of_channel w c | _ => [] end).
  destruct (migrate (w_st w) g (Nat.leb (length (channels (w_st w))) 1) bal) as [st'| |] eqn:M;
    [|split; [constructor; assumption|exact HC]|split; [constructor; assumption|exact HC]].
  pose proof (migrate_inv _ _ _ _ _ HI M) as I'.
  assert (Keep: chan_state st' = chan_state (w_st w) -> channels st' = channels (w_st w) ->
                WInv H (mkW st' (w_hold w)) /\ chan_ok st').
  { intros Ecs Ech. split.
    - constructor; cbn [w_st]; [exact I'|]. intros k Hk. rewrite Ecs. apply HS. exact Hk.
    - intros c k s G. unfold get_cs in G. rewrite Ecs in G. rewrite Ech. apply (HC c k s G). }
  destruct (migrate_shape _ _ _ _ _ M) as [[Ecs Ech]|(Hok & s0 & s2 & E0 & C0 & U & E2 & C2)]; [apply Keep; assumption|].
  destruct (channels (w_st w)) as [|c [|c2 r]] eqn:Ch; cbn [length Nat.leb] in Hok; [| |discriminate].
  - (* no channel: nothing to reconcile *)
    subst bal. cbn in U. inv U. apply Keep; congruence.
  - subst bal.
    assert (I0: Inv s0) by (apply (Inv_cs_eq (w_st w)); [exact E0|exact HI]).
    assert (Hnd: NoDup (map (fun b => snd (fst b)) (holdings_of_channel w c))) by (apply holdings_nodup; apply (i_sorted _ HI)).
    destruct (upd_all_spec c _ s0 s2 I0 Hnd (holdings_chan w c) U) as (I2 & _ & _ & F2 & P2).
    (* every entry of the migrated table belongs to channel c and holds exactly the escrow *)
    assert (All: forall c' k' s, In ((c', k'), s) (chan_state s2) -> c' = c).
    { intros c' k' s Hin. destruct (N.eq_dec c' c) as [->|Hn]; [reflexivity|]. exfalso.
      pose proof (in_get ordNN _ _ _ (i_sorted _ I2) Hin) as G2. fold (get_cs s2 c' k') in G2.
      rewrite F2 in G2 by (intros h Hb; apply Hn; apply (holdings_chan w c _ Hb)).
      unfold get_cs in G2. rewrite E0 in G2. pose proof (HC c' k' s G2) as Hm. rewrite Ch in Hm.
      unfold mem in Hm. cbn in Hm. rewrite orb_false_r in Hm. apply N.eqb_eq in Hm. congruence. }
    split.
    + constructor; cbn [w_st]; [exact I'|]. intros k Hk. rewrite E2.
      rewrite (ksum_single _ c k (i_sorted _ I2) All). fold (get_cs s2 c k).
      destruct (get_cs s2 c k) as [cs'|] eqn:G2; [|apply N.le_0_l].
      destruct (get_cs (w_st w) c k) as [sold|] eqn:Gold.
      * apply get_in in Gold. destruct (holdings_in w c k sold Gold) as (h & Hb).
        destruct (P2 k h cs' Hb G2) as (held & Eh & Eo). destruct (in_holdings w c k h Hb) as (_ & Hh).
        rewrite Eo. rewrite (hold_of_h w k h held Hh Eh). apply N.le_refl.
      * exfalso. rewrite F2 in G2.
        -- unfold get_cs in G2, Gold. rewrite E0 in G2. congruence.
        -- intros h Hb. destruct (in_holdings w c k h Hb) as ((sx & Hin) & _).
           pose proof (in_get ordNN _ _ _ (i_sorted _ HI) Hin) as Gx. fold (get_cs (w_st w) c k) in Gx. congruence.
    + intros c' k' s G. cbn [w_st] in *. rewrite C2. assert (Cs: channels s2 = [c]).
      { clear - U C0 Ch I0 Hnd. destruct (upd_all_spec c _ s0 s2 I0 Hnd (holdings_chan w c) U) as (_ & (_ & _ & _ & _ & Hch & _) & _). congruence. }
      rewrite Cs. unfold get_cs in G. rewrite E2 in G. apply get_in in G. rewrite (All _ _ _ G).
      unfold mem. cbn. rewrite N.eqb_refl. reflexivity.
Qed.

(* chan_ok is kept by every other transaction too *)
Lemma chan_ok_frame st st' : channels st' = channels st ->
  (forall c k s', get_cs st' c k = Some s' -> (exists s, get_cs st c k = Some s) \/ mem c (channels st) = true) ->
  chan_ok st -> chan_ok st'.
Proof.
  intros Ech F HC c k s' G. rewrite Ech. destruct (F c k s' G) as [(s & Gs)|M]; [apply (HC c k s Gs)|exact M].
Qed.

Lemma chan_ok_transfer st blk chan remote timeout memo k n sender st' ms : Inv st -> chan_ok st ->
  do_transfer st blk chan remote timeout memo k n sender = Ok (st', ms) -> chan_ok st'.
Proof.
  intros HI HC H. destruct (transfer_spec _ _ _ _ _ _ _ _ _ _ _ HI H) as (_ & _ & Hm & _ & _ & _ & (_ & _ & _ & _ & Ech & _) & _ & _ & F).
  apply (chan_ok_frame st st' Ech); [|exact HC]. intros c' k' s' G.
  destruct (N.eq_dec c' chan) as [->|Hc]; [right; exact Hm|]. left. exists s'. rewrite <- F; [exact G|].
  intros E. inv E. apply Hc. reflexivity.
Qed.

Lemma chan_ok_reduce st c k n st' : Inv st -> chan_ok st -> reduce_balance st c k n = Some st' -> chan_ok st'.
Proof.
  intros HI HC H. destruct (reduce_spec _ _ _ _ _ HI H) as (s & G & _ & _ & (_ & _ & _ & _ & Ech & _) & _ & _ & _ & _ & F).
  apply (chan_ok_frame st st' Ech); [|exact HC]. intros c' k' s' G'. left.
  destruct (N.eq_dec c' c) as [->|Hc]; [destruct (N.eq_dec k' k) as [->|Hk]|].
  - exists s. exact G.
  - exists s'. rewrite <- F; [exact G'|]. intros E. inv E. apply Hk. reflexivity.
  - exists s'. rewrite <- F; [exact G'|]. intros E. inv E. apply Hc. reflexivity.
Qed.

Lemma chan_ok_cs_eq st st' : chan_state st' = chan_state st -> channels st' = channels st -> chan_ok st -> chan_ok st'.
Proof. intros E1 E2 HC c k s G. unfold get_cs in G. rewrite E1 in G. rewrite E2. apply (HC c k s G). Qed.

Lemma wstep_chan_ok w blk o : Inv (w_st w) -> chan_ok (w_st w) -> not_migrate o -> chan_ok (w_st (wstep w blk o)).
Proof.
  intros HI HC Hm. destruct o as [sender x|tok user n t|p pay_ok|p|p pay_ok|k0 n|g]; cbn [wstep]; try destruct Hm; try exact HC.
  - destruct (step (w_st w) blk sender x) as [[st' ms]| |] eqn:Es; try exact HC.
    destruct (step_spec _ _ _ _ _ _ HI Es) as (_ & Sp).
    assert (K: chan_ok st').
    { destruct x as [chan remote timeout memo funds|from n tmsg fa|contract gas|a].
      - destruct Sp as (d & n & _ & Ht). eapply chan_ok_transfer; eassumption.
      - destruct Sp as (u & chan & remote & timeout & memo & _ & _ & _ & Ht). eapply chan_ok_transfer; eassumption.
      - destruct Sp as (_ & _ & c0 & _ & -> & _). exact HC.
      - destruct Sp as (_ & _ & c0 & _ & ->). exact HC. }
    destruct x as [chan remote timeout memo [|[[d|] n] [|? ?]]| | |]; exact K.
  - destruct (step (w_st w) blk tok (Receive (Some user) n t false)) as [[st' ms]| |] eqn:Es; try exact HC.
    destruct (step_spec _ _ _ _ _ _ HI Es) as (_ & (u & chan & remote & timeout & memo & _ & _ & _ & Ht)).
    cbn [credit w_st]. eapply chan_ok_transfer; eassumption.
  - unfold do_receive.
    destruct (ip_data p) as [d|]; [|exact HC].
    destruct (parse_voucher p (pd_denom d)) as [[k|]|]; [|exact HC|exact HC].
    destruct (check_gas_limit (w_st w) k) as [gas|]; [|exact HC].
    destruct (reduce_balance (w_st w) (ip_dest_chan p) k (pd_amount d)) as [st1|] eqn:R; [|exact HC].
    cbn [paid]. pose proof (chan_ok_reduce _ _ _ _ _ HI HC R) as K1.
    destruct (pay_ok && (pd_amount d <=? hold w k)).
    + cbn [debit w_st]. exact K1.
    + destruct (reduce_undo _ _ _ _ _ HI R) as (st2 & U & Ecs & (_ & _ & _ & _ & Ech & _) & _).
      unfold reply_receive_err. cbn [with_reply reply_args]. rewrite undo_with_reply, U. cbn [w_st].
      apply (chan_ok_cs_eq (w_st w)); [exact Ecs|exact Ech|exact HC].
  - destruct (on_failure (w_st w) p) as [[st1 ms]| |] eqn:F; try exact HC.
    assert (K1: chan_ok st1).
    { unfold on_failure in F. destruct (reduce_balance (w_st w) (op_chan p) (op_key p) (op_amount p)) as [s1|] eqn:R; [|discriminate].
      destruct (check_gas_limit s1 (op_key p)); [|discriminate]. inv F. eapply chan_ok_reduce; eassumption. }
    destruct (paid ms) as [[k n]|]; [destruct (pay_ok && _)|]; exact K1.
Qed.

(* histories with migrations in them *)
Definition honest_call2 (H : N -> bool) (c : wcall) : Prop :=
  match snd c with WExec s (Receive _ _ _ _) => H (cw_key s) = false | _ => True end.

Theorem solvent_history_all H cs : forall w, WInv H w -> chan_ok (w_st w) -> Forall (honest_call2 H) cs ->
  WInv H (wrun w cs) /\ chan_ok (w_st (wrun w cs)).
Proof.
  induction cs as [|[blk o] r IH]; intros w HW HC Hh; [split; assumption|]. cbn [wrun fold_left fst snd].
  inversion Hh as [|? ? H1 Hr]; subst. cbn [honest_call2 snd] in H1.
  change (fold_left (fun x c => wstep x (fst c) (snd c)) r (wstep w blk o)) with (wrun (wstep w blk o) r).
  destruct o as [sender x|tok user n t|p pay_ok|p|p pay_ok|k0 n|g];
    try (apply IH; [apply wstep_solvent; [exact HW|cbn [honest_call snd]; try exact I; exact H1]
                   |apply wstep_chan_ok; [apply (wi_inv _ _ HW)|exact HC|exact I]|exact Hr]).
  destruct (migrate_solvent H w blk g HW HC) as [W' C']. apply IH; assumption.
Qed.

Lemma instantiate_chan_ok m st : instantiate m = Ok st -> chan_ok st.
Proof.
  unfold instantiate. destruct (i_gov m); [|discriminate]. destruct (save_allow (i_allow m) []); [|discriminate].
  intros E. inv E. intros c k s G. unfold get_cs in G. cbn in G. discriminate.
Qed.
