(* Ics20Lemmas4.v — cw20-ics20, C12 across migrations: a migration raises `outstanding` and `total_sent`
   of an entry by the same amount, so over EVERY history - migrations included -
       total_sent - outstanding  =  refunded + redeemed          (per channel and denomination). *)
Require Import CwPlus.Params CwPlus.Base CwPlus.AMap CwPlus.Ics20Model CwPlus.Ics20Lemmas CwPlus.Ics20Lemmas2
  CwPlus.Ics20Lemmas3.
Open Scope N_scope.

(* the quantity a migration keeps, stated without subtraction *)
Definition same_delta (s s' : state) : Prop :=
  forall c k, sent_of s' c k + out_of s c k = sent_of s c k + out_of s' c k /\ out_of s c k <= out_of s' c k.

Lemma same_delta_refl s : same_delta s s.
Proof. intros c k. split; lia. Qed.
Lemma same_delta_trans a b c : same_delta a b -> same_delta b c -> same_delta a c.
Proof. intros H1 H2 x k. destruct (H1 x k), (H2 x k). split; lia. Qed.
Lemma same_delta_cs_eq s s' : chan_state s' = chan_state s -> same_delta s s'.
Proof. intros E c k. unfold sent_of, out_of, get_cs. rewrite E. split; lia. Qed.

Lemma upd_one_delta s b s' : Inv s -> upd_one s b = Some s' -> same_delta s s'.
Proof.
  destruct b as [[c k] held_o]. intros HI H. unfold upd_one in H. destruct (get_cs s c k) as [cs|] eqn:G.
  - destruct held_o as [held|]; [|discriminate].
    destruct (held <? outstanding cs) eqn:L; [discriminate|]. apply N.ltb_ge in L. cbv zeta in H.
    destruct (held - outstanding cs =? 0) eqn:Z; [inv H; apply same_delta_refl|].
    unfold add128 in H. destruct (outstanding cs + (held - outstanding cs) <=? u128max) eqn:A1; [|discriminate].
    destruct (total_sent cs + (held - outstanding cs) <=? u128max) eqn:A2; [|discriminate]. inv H.
    intros c' k'. unfold sent_of, out_of. rewrite !get_cs_with_cs.
    destruct (N.eq_dec c' c) as [->|Hc]; [destruct (N.eq_dec k' k) as [->|Hk]|].
    + rewrite get_set_eq. fold (get_cs s c k). rewrite G. cbn [outstanding total_sent]. split; lia.
    + rewrite get_set_neq by (intros E; inv E; apply Hk; reflexivity). fold (get_cs s c k'). split; lia.
    + rewrite get_set_neq by (intros E; inv E; apply Hc; reflexivity). fold (get_cs s c' k'). split; lia.
  - inv H. apply same_delta_refl.
Qed.

Lemma upd_all_delta l : forall s s', Inv s -> upd_all l s = Some s' -> same_delta s s'.
Proof.
  induction l as [|b r IH]; intros s s' HI H.
  - inv H. apply same_delta_refl.
  - rewrite upd_all_cons in H. destruct (upd_one s b) as [s1|] eqn:U; [|discriminate].
    destruct b as [[c k] h]. pose proof (upd_one_spec _ _ _ _ _ HI U) as (I1 & _).
    eapply same_delta_trans; [eapply upd_one_delta; eassumption|apply (IH _ _ I1 H)].
Qed.

Theorem migrate_same_delta st g ok bal st' : Inv st -> migrate st g ok bal = Ok st' -> same_delta st st'.
Proof.
  intros HI. unfold migrate.
  destruct (ver st); try discriminate.
  - destruct (v1_gov st); [|discriminate]. destruct (negb ok); [discriminate|].
    match goal with |- context [fold_left ?f bal (Some ?s0)] => change (fold_left f bal (Some s0)) with (upd_all bal s0) end.
    match goal with |- context [upd_all bal ?s0] => destruct (upd_all bal s0) as [s2|] eqn:U end; [|discriminate]. intros E. inv E.
    eapply same_delta_trans; [|eapply same_delta_trans; [eapply upd_all_delta; [|exact U]|]].
    + apply same_delta_cs_eq. reflexivity.
    + apply (Inv_cs_eq st); [reflexivity|exact HI].
    + apply same_delta_cs_eq. reflexivity.
  - destruct (negb ok); [discriminate|].
    match goal with |- context [fold_left ?f bal (Some ?s0)] => change (fold_left f bal (Some s0)) with (upd_all bal s0) end.
    destruct (upd_all bal st) as [s2|] eqn:U; [|discriminate]. intros E. inv E.
    eapply same_delta_trans; [eapply upd_all_delta; [exact HI|exact U]|]. apply same_delta_cs_eq. reflexivity.
  - intros E. inv E. apply same_delta_cs_eq. reflexivity.
  - intros E. inv E. apply same_delta_cs_eq. reflexivity.
Qed.

(* one world step, any operation *)
Theorem step_law_all w blk o c k : Inv (w_st w) ->
  let w' := wstep w blk o in
  sent_of (w_st w') c k + out_of (w_st w) c k =
    sent_of (w_st w) c k + out_of (w_st w') c k + failed_amt w o c k + redeemed_amt w o c k /\ Inv (w_st w').
Proof.
  intros HI. cbv zeta.
  assert (D: (exists g, o = WMigrate g) \/ not_migrate o) by (destruct o; try (right; exact I); left; eexists; reflexivity).
  destruct D as [[g ->]|Hm].
  - cbn [wstep failed_amt redeemed_amt].
    destruct (migrate (w_st w) g _ _) as [st'| |] eqn:M; cbn [w_st]; [|split; [lia|exact HI]|split; [lia|exact HI]].
    destruct (migrate_same_delta _ _ _ _ _ HI M c k) as [A _]. split; [lia|eapply migrate_inv; eassumption].
  - destruct (step_law w blk o c k HI Hm) as (A & B & I'). split; [lia|exact I'].
Qed.

Theorem released_identity cs : forall w c k, Inv (w_st w) ->
  sent_of (w_st (wrun w cs)) c k + out_of (w_st w) c k =
    sent_of (w_st w) c k + out_of (w_st (wrun w cs)) c k + g_failed w cs c k + g_redeemed w cs c k.
Proof.
  induction cs as [|[blk o] r IH]; intros w c k HI; cbn [wrun fold_left g_failed g_redeemed fst snd]; [lia|].
  destruct (step_law_all w blk o c k HI) as (A & I').
  pose proof (IH (wstep w blk o) c k I') as A2.
  change (fold_left (fun x c0 => wstep x (fst c0) (snd c0)) r (wstep w blk o)) with (wrun (wstep w blk o) r).
  lia.
Qed.

(* from instantiation: whatever was ever recorded as sent and is no longer outstanding was refunded
   or redeemed - across every migration *)
Theorem released_from_start m st hold0 cs c k : instantiate m = Ok st ->
  let w := wrun (mkW st hold0) cs in
  sent_of (w_st w) c k = out_of (w_st w) c k + g_failed (mkW st hold0) cs c k + g_redeemed (mkW st hold0) cs c k.
Proof.
  intros Hi. cbv zeta.
  assert (HI: Inv st /\ chan_state st = []).
  { unfold instantiate in Hi. revert Hi. repeat match goal with |- context [match ?x with _ => _ end] => destruct x; try discriminate end;
      intros E; inv E; (split; [constructor; cbn; [constructor|intros ? ? ? X; discriminate]|reflexivity]). }
  destruct HI as [HI E0].
  pose proof (released_identity cs (mkW st hold0) c k HI) as A. cbn [w_st] in A.
  assert (Z: sent_of st c k = 0 /\ out_of st c k = 0) by (unfold sent_of, out_of, get_cs; rewrite E0; split; reflexivity).
  destruct Z as [Z1 Z2]. lia.
Qed.

(* a migration of a contract whose stored version is 0.13.1 or later (V3, VCur) rewrites no channel balance, nor the
   allow list, nor the governance address: it can only set the default gas limit *)
Theorem migrate_current_keeps_books st g ok bal st' :
  (ver st = V3 \/ ver st = VCur) -> migrate st g ok bal = Ok st' ->
  chan_state st' = chan_state st /\ allow st' = allow st /\ admin st' = admin st /\ channels st' = channels st /\
  default_gas st' = match g with Some x => Some x | None => default_gas st end.
Proof.
  intros Hv H. unfold migrate in H. destruct Hv as [Hv|Hv]; rewrite Hv in H; inversion H; subst st'; cbn; repeat split; reflexivity.
Qed.
