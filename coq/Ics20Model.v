(* Ics20Model.v — family F6: cw20-ics20 (C11 C12 C18), transliterated from
   contracts/cw20-ics20/src/{contract,ibc,state,amount,migrations}.rs.

   Denominations.  A channel-state key is the local denom string: a native denom, or
   "cw20:" ++ token address.  Keys are encoded as N: native denom d |-> 2d, cw20 token a |-> 2a+1
   (after the D7 repair a native denom can no longer spell a cw20 key).  *)
Require Import CwPlus.Params CwPlus.Base CwPlus.AMap.
Open Scope N_scope.

Definition arg := option N.                       (* None = a string addr_validate rejects *)
Definition nat_key (d : N) : N := 2 * d.
Definition cw_key (a : N) : N := 2 * a + 1.
Definition key_is_cw20 (k : N) : bool := N.odd k.
Definition key_addr (k : N) : N := k / 2.          (* the token address of a cw20 key / the denom id of a native key *)

(* the denom field of an ICS-20 packet as we receive it: port/channel/base, or something with
   fewer than three segments *)
Inductive vbase :=
| BKey (k : N)                                     (* a native denom, or "cw20:" ++ a valid address *)
| BBadCw20.                                        (* "cw20:" ++ something that is not an address *)
Inductive pdenom :=
| PVoucher (port chan : N) (b : vbase)
| PMalformed.

Record packet_data := mkPd {
  pd_amount : N;                                   (* Uint128 *)
  pd_denom : pdenom;
  pd_sender : arg;                                 (* a string; for our own packets the true sender *)
  pd_receiver : arg;
  pd_memo : option N }.

(* an incoming IbcPacket: src = counterparty endpoint (guaranteed by IBC core), dest = ours *)
Record in_packet := mkIn { ip_src_port : N; ip_src_chan : N; ip_dest_chan : N; ip_data : option packet_data }.

(* a packet WE sent: the data we put into SendPacket (denom = our local key) *)
Record out_packet := mkOut {
  op_chan : N; op_amount : N; op_key : N; op_sender : N; op_receiver : N (* opaque remote address id *);
  op_memo : option N; op_timeout : N }.

Record cstate := mkCs { outstanding : N; total_sent : N }.

(* cw2 version entry: V1 = 0.11.1 .. 0.12.0-alpha1 (pre-allow-list config), V2 = up to 0.13.0 (balances
   not yet reconciled), V3 = newer but older than the code, VCur = the code's version *)
Inductive version := V1 | V2 | V3 | VCur | VTooOld | VNewer | VOtherContract.

Record state := mkSt {
  default_timeout : N;
  default_gas : option N;
  admin : option N;
  allow : amap N (option N);                       (* token address -> gas limit *)
  channels : list N;                               (* CHANNEL_INFO keys *)
  chan_state : amap (N * N) cstate;                (* (channel, key) *)
  reply_args : option (N * N * N);                 (* scratch: channel, key, amount *)
  ver : version;                                   (* cw2 version entry *)
  v1_gov : option N                                (* gov_contract of a v1 config still in storage *)
}.

Definition get_cs (st : state) (c k : N) : option cstate := get ordNN (chan_state st) (c, k).
Definition out_of (st : state) (c k : N) : N := match get_cs st c k with Some s => outstanding s | None => 0 end.
Definition sent_of (st : state) (c k : N) : N := match get_cs st c k with Some s => total_sent s | None => 0 end.

Definition with_cs (st : state) (m : amap (N * N) cstate) : state :=
  mkSt (default_timeout st) (default_gas st) (admin st) (allow st) (channels st) m (reply_args st) (ver st) (v1_gov st).
Definition with_reply (st : state) (r : option (N * N * N)) : state :=
  mkSt (default_timeout st) (default_gas st) (admin st) (allow st) (channels st) (chan_state st) r (ver st) (v1_gov st).
Definition with_admin (st : state) (a : option N) : state :=
  mkSt (default_timeout st) (default_gas st) a (allow st) (channels st) (chan_state st) (reply_args st) (ver st) (v1_gov st).
Definition with_allow (st : state) (m : amap N (option N)) : state :=
  mkSt (default_timeout st) (default_gas st) (admin st) m (channels st) (chan_state st) (reply_args st) (ver st) (v1_gov st).

(* state.rs *)
Definition increase_balance (st : state) (c k n : N) : option state :=
  let s := match get_cs st c k with Some s => s | None => mkCs 0 0 end in
  do o <- add128 (outstanding s) n;
  do t <- add128 (total_sent s) n;
  Some (with_cs st (set ordNN (chan_state st) (c, k) (mkCs o t))).
Definition reduce_balance (st : state) (c k n : N) : option state :=
  match get_cs st c k with
  | None => None
  | Some s => do o <- sub128 (outstanding s) n;
              Some (with_cs st (set ordNN (chan_state st) (c, k) (mkCs o (total_sent s))))
  end.
Definition undo_reduce (st : state) (c k n : N) : option state :=
  let s := match get_cs st c k with Some s => s | None => mkCs 0 0 end in
  do o <- add128 (outstanding s) n;
  Some (with_cs st (set ordNN (chan_state st) (c, k) (mkCs o (total_sent s)))).

Definition mem (x : N) (l : list N) : bool := existsb (N.eqb x) l.
Definition is_admin (st : state) (s : N) : bool := match admin st with Some a => a =? s | None => false end.

(* while a v1 config (it carries gov_contract) is still in storage, CONFIG.load fails: the current
   Config type refuses unknown fields *)
Definition config_readable (st : state) : bool := match v1_gov st with Some _ => false | None => true end.

(* ibc.rs check_gas_limit: Ok (gas limit of the payout) / Err *)
Definition check_gas_limit (st : state) (k : N) : option (option N) :=
  if key_is_cw20 k then
    match get ordN (allow st) (key_addr k) with
    | Some g => Some g
    | None => if negb (config_readable st) then None
              else match default_gas st with Some b => Some (Some b) | None => None end
    end
  else Some None.

(* ---------------------------------------------------------------------------------------- *)
(* execute *)
Inductive nden := DPlain (d : N) | DPrefixed.      (* a native denom; DPrefixed = one that starts with "cw20:" *)

Inductive op :=
| Transfer (chan : N) (remote : N) (timeout : option N) (memo : option N) (funds : list (nden * N))
| Receive (from : arg) (n : N) (tmsg : option (N * N * option N * option N)) (funds_attached : bool)
          (* Cw20ReceiveMsg: the caller is the token; tmsg = channel, remote, timeout, memo; None = unparsable *)
| Allow (contract : arg) (gas : option N)
| UpdateAdmin (a : arg).

Inductive msg :=
| SendPacket (p : out_packet)
| Payout (k : N) (to : arg) (n : N) (gas : option N).   (* BankMsg::Send / cw20 Transfer, reply_on_error *)

Definition mul64 (a b : N) : option N := let p := a * b in if p <=? u64max then Some p else None.

Definition do_transfer (st : state) (blk : block) (chan remote : N) (timeout memo : option N) (k n sender : N)
  : result (state * list msg) :=
  if n =? 0 then Err
  else if negb (mem chan (channels st)) then Err
  else if negb (config_readable st) then Err
  else if key_is_cw20 k && (match default_gas st with Some _ => false | None => true end) &&
          (match get ordN (allow st) (key_addr k) with Some _ => false | None => true end) then Err
  else
    let delta := match timeout with Some t => t | None => default_timeout st end in
    match mul64 delta 1000000000 with
    | None => Abort
    | Some ns =>
        match add64 (time blk) ns with
        | None => Abort
        | Some tmo =>
            if u64max <? n then Err
            else match increase_balance st chan k n with
                 | None => Abort
                 | Some st' => Ok (st', [SendPacket (mkOut chan n k sender remote memo tmo)])
                 end
        end
    end.

Definition step (st : state) (blk : block) (sender : N) (o : op) : result (state * list msg) :=
  match o with
  | Transfer chan remote timeout memo funds =>
      match funds with
      | [(d, n)] =>
          if n =? 0 then Err
          else match d with
               | DPrefixed => Err
               | DPlain dn => do_transfer st blk chan remote timeout memo (nat_key dn) n sender
               end
      | _ => Err
      end
  | Receive from n tmsg funds_attached =>
      if funds_attached then Err
      else match tmsg with
           | None => Err
           | Some (chan, remote, timeout, memo) =>
               match from with
               | None => Err
               | Some u => do_transfer st blk chan remote timeout memo (cw_key sender) n u
               end
           end
  | Allow contract gas =>
      if negb (is_admin st sender) then Err
      else match contract with
           | None => Err
           | Some c =>
               match get ordN (allow st) c with
               | Some old =>
                   match old, gas with
                   | None, Some _ => Err
                   | Some o', Some n' => if n' <? o' then Err else Ok (with_allow st (set ordN (allow st) c gas), [])
                   | _, _ => Ok (with_allow st (set ordN (allow st) c gas), [])
                   end
               | None => Ok (with_allow st (set ordN (allow st) c gas), [])
               end
           end
  | UpdateAdmin a =>
      match a with
      | None => Err
      | Some x => if is_admin st sender then Ok (with_admin st (Some x), []) else Err
      end
  end.

(* ---------------------------------------------------------------------------------------- *)
(* ibc_packet_receive.  The entry point never fails: an error inside becomes an error
   acknowledgement — and whatever had been written before the error stays written, which is why
   the handler returns the state reached so far. *)
Inductive ack := AckOk | AckErr.

Definition parse_voucher (p : in_packet) (d : pdenom) : option vbase :=
  match d with
  | PMalformed => None
  | PVoucher port chan b => if (port =? ip_src_port p) && (chan =? ip_src_chan p) then Some b else None
  end.

Definition do_receive (st : state) (p : in_packet) : state * ack * list msg :=
  match ip_data p with
  | None => (st, AckErr, [])
  | Some d =>
      match parse_voucher p (pd_denom d) with
      | None => (st, AckErr, [])
      | Some BBadCw20 => (st, AckErr, [])
      | Some (BKey k) =>
          match check_gas_limit st k with
          | None => (st, AckErr, [])
          | Some gas =>
              match reduce_balance st (ip_dest_chan p) k (pd_amount d) with
              | None => (st, AckErr, [])
              | Some st1 =>
                  (with_reply st1 (Some (ip_dest_chan p, k, pd_amount d)), AckOk,
                   [Payout k (pd_receiver d) (pd_amount d) gas])
              end
          end
      end
  end.

(* reply(RECEIVE_ID, Err): restore the balance from the scratch arguments, answer with an error *)
Definition reply_receive_err (st : state) : option state :=
  match reply_args st with
  | Some (c, k, n) => undo_reduce st c k n
  | None => None
  end.

(* the whole receive transaction; pay_ok = the payout sub-call succeeded *)
Definition tx_receive (st : state) (p : in_packet) (pay_ok : bool) : option (state * ack * list msg) :=
  let '(st1, a, ms) := do_receive st p in
  match a with
  | AckErr => Some (st1, AckErr, ms)
  | AckOk => if pay_ok then Some (st1, AckOk, ms)
             else match reply_receive_err st1 with
                  | Some st2 => Some (st2, AckErr, ms)
                  | None => None                       (* reply fails: the whole receive aborts *)
                  end
  end.

(* ibc_packet_ack with an error / ibc_packet_timeout: on_packet_failure for a packet we sent *)
Definition on_failure (st : state) (p : out_packet) : result (state * list msg) :=
  match reduce_balance st (op_chan p) (op_key p) (op_amount p) with
  | None => Err
  | Some st1 =>
      match check_gas_limit st1 (op_key p) with
      | None => Err
      | Some gas => Ok (st1, [Payout (op_key p) (Some (op_sender p)) (op_amount p) gas])
      end
  end.

(* ---------------------------------------------------------------------------------------- *)
(* migrate *)
Definition migrate (st : state) (new_gas : option N) (nchannels_ok : bool) (balances : list (N * N * option N))
  : result state :=
  (* balances: for the single open channel, (channel, key, what the contract actually holds of that
     token; None = the balance query fails: a "cw20:" key whose address is not a token contract) *)
  match ver st with
  | VOtherContract | VNewer | VTooOld => Err
  | v =>
      let st1 := match v with
                 | V1 => match v1_gov st with
                         | Some g => Some (mkSt (default_timeout st) None (Some g) (allow st) (channels st) (chan_state st)
                                                (reply_args st) (ver st) None)
                         | None => None
                         end
                 | _ => Some st
                 end in
      match st1 with
      | None => Err
      | Some st1 =>
          let st2 :=
            match v with
            | V1 | V2 =>
                if negb nchannels_ok then None
                else
                  fold_left (fun acc b =>
                    match acc with
                    | None => None
                    | Some s =>
                        let '(c, k, held_o) := b in
                        match get_cs s c k, held_o with
                        | None, _ => Some s
                        | Some _, None => None
                        | Some cs, Some held =>
                            if held <? outstanding cs then None          (* `balance - outstanding` underflows *)
                            else let diff := held - outstanding cs in
                                 if diff =? 0 then Some s
                                 else match add128 (outstanding cs) diff, add128 (total_sent cs) diff with
                                      | Some o, Some t => Some (with_cs s (set ordNN (chan_state s) (c, k) (mkCs o t)))
                                      | _, _ => None
                                      end
                        end
                    end) balances (Some st1)
            | _ => Some st1
            end in
          match st2 with
          | None => Abort
          | Some st2 =>
              let g := match new_gas with Some x => Some x | None => default_gas st2 end in
              Ok (mkSt (default_timeout st2) g (admin st2) (allow st2) (channels st2) (chan_state st2) (reply_args st2)
                       VCur (v1_gov st2))
          end
      end
  end.

(* ---------------------------------------------------------------------------------------- *)
Record init_msg := mkInit {
  i_timeout : N; i_gas : option N; i_gov : arg; i_allow : list (arg * option N); i_channels : list N }.

Fixpoint save_allow (l : list (arg * option N)) (m : amap N (option N)) : option (amap N (option N)) :=
  match l with
  | [] => Some m
  | (None, _) :: _ => None
  | (Some a, g) :: r => save_allow r (set ordN m a g)
  end.

Definition instantiate (m : init_msg) : result state :=
  match i_gov m with
  | None => Err
  | Some g => match save_allow (i_allow m) [] with
              | None => Err
              | Some al => Ok (mkSt (i_timeout m) (i_gas m) (Some g) al (i_channels m) [] None VCur None)
              end
  end.

(* queries *)
Definition q_allowed (st : state) (c : N) : option (option N) := get ordN (allow st) c.
Definition q_channel (st : state) (c : N) : list (N * N * N) :=
  map (fun e => (snd (fst e), outstanding (snd e), total_sent (snd e)))
      (filter (fun e => fst (fst e) =? c) (chan_state st)).

(* ---------------------------------------------------------------------------------------- *)
(* the world: the contract's state plus what the contract actually holds of every token (bank
   balance for native keys, cw20 balance for token keys), as kept by the chain / the tokens *)
Record world := mkW { w_st : state; w_hold : amap N N }.
Definition hold (w : world) (k : N) : N := getd ordN (w_hold w) k.
Definition credit (w : world) (k n : N) : world := mkW (w_st w) (set ordN (w_hold w) k (hold w k + n)).
Definition debit (w : world) (k n : N) : world := mkW (w_st w) (set ordN (w_hold w) k (hold w k - n)).

Definition tmsg_t := option (N * N * option N * option N).

Inductive wop :=
| WExec (sender : N) (o : op)                          (* a direct call; the funds of a Transfer arrive with it *)
| WSendCw20 (tok user n : N) (t : tmsg_t)               (* user -> token.Send: n tokens move to us, then Receive *)
| WRecv (p : in_packet) (pay_ok : bool)                 (* an incoming packet; pay_ok = the payout target accepts *)
| WAckOk (p : out_packet)
| WFail (p : out_packet) (pay_ok : bool)                (* error acknowledgement or timeout of a packet we sent *)
| WDonate (k n : N)
| WMigrate (new_gas : option N).

Definition paid (ms : list msg) : option (N * N) :=
  match ms with [Payout k _ n _] => Some (k, n) | _ => None end.

(* actual holdings of every key of channel c (what migrate's update_balances queries) *)
Definition holdings_of_channel (w : world) (c : N) : list (N * N * option N) :=
  map (fun e => let k := snd (fst e) in
                (c, k, if key_is_cw20 k then get ordN (w_hold w) k else Some (hold w k)))
      (filter (fun e => fst (fst e) =? c) (chan_state (w_st w))).

Definition wstep (w : world) (blk : block) (o : wop) : world :=
  match o with
  | WExec sender x =>
      match step (w_st w) blk sender x with
      | Ok (st', _) =>
          let w' := mkW st' (w_hold w) in
          match x with
          | Transfer _ _ _ _ [(DPlain d, n)] => credit w' (nat_key d) n
          | _ => w'
          end
      | _ => w
      end
  | WSendCw20 tok user n t =>
      match step (w_st w) blk tok (Receive (Some user) n t false) with
      | Ok (st', _) => credit (mkW st' (w_hold w)) (cw_key tok) n
      | _ => w
      end
  | WRecv p pay_ok =>
      let '(st1, a, ms) := do_receive (w_st w) p in
      match a, paid ms with
      | AckOk, Some (k, n) =>
          if pay_ok && (n <=? hold w k) then debit (mkW st1 (w_hold w)) k n
          else match reply_receive_err st1 with
               | Some st2 => mkW st2 (w_hold w)
               | None => w
               end
      | _, _ => mkW st1 (w_hold w)
      end
  | WAckOk _ => w
  | WFail p pay_ok =>
      match on_failure (w_st w) p with
      | Ok (st1, ms) =>
          match paid ms with
          | Some (k, n) => if pay_ok && (n <=? hold w k) then debit (mkW st1 (w_hold w)) k n else mkW st1 (w_hold w)
          | None => mkW st1 (w_hold w)
          end
      | _ => w
      end
  | WDonate k n => credit w k n
  | WMigrate g =>
      let chans := channels (w_st w) in
      let bal := match chans with [c] => holdings_of_channel w c | _ => [] end in
      match migrate (w_st w) g (Nat.leb (length chans) 1) bal with
      | Ok st' => mkW st' (w_hold w)
      | _ => w
      end
  end.

Definition wcall := (block * wop)%type.
Definition wrun (w : world) (cs : list wcall) : world := fold_left (fun x c => wstep x (fst c) (snd c)) cs w.

(* sum over all channels of the outstanding balance reported for key k *)
Fixpoint ksum (m : amap (N * N) cstate) (k : N) : N :=
  match m with
  | [] => 0
  | ((_, k'), s) :: r => (if k' =? k then outstanding s else 0) + ksum r k
  end.
