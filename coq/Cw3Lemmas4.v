(* Cw3Lemmas4.v — cw3-flex together with its cw4-group (both models): outside the known class D3
   (a group change earlier in the proposal's own block) the ballots of every proposal never outweigh
   its total, over every interleaving of multisig calls and group calls (C06, and the range condition
   C03/C05 need). *)
Require Import CwPlus.Params CwPlus.Base CwPlus.AMap CwPlus.Cw3Threshold CwPlus.Cw3ThresholdLemmas
  CwPlus.Cw4Model CwPlus.Cw4Snap CwPlus.Cw4Lemmas CwPlus.Cw3Model CwPlus.Cw3Lemmas CwPlus.Cw3Lemmas2.
Open Scope N_scope.

(* one step of the combined system *)
Inductive fcall :=
| FMs (blk : block) (sender : N) (o : Cw3Model.op)       (* a call to the multisig (handler level: nested calls are calls) *)
| FGroup (c : Cw4Model.call).                            (* a transaction on the backing group *)

Definition f_height (c : fcall) : N :=
  match c with FMs blk _ _ => height blk | FGroup gc => height (c_blk gc) end.

Definition fstep (w : mstate * Cw4Model.state) (c : fcall) : mstate * Cw4Model.state :=
  let '(ms, g) := w in
  match c with
  | FMs blk sender o => match Cw3Model.step ms (gview_of g) blk sender o with Ok (ms', _) => (ms', g) | _ => (ms, g) end
  | FGroup gc => (ms, Cw4Model.tx_state g gc)
  end.
Fixpoint frun (w : mstate * Cw4Model.state) (cs : list fcall) : mstate * Cw4Model.state :=
  match cs with [] => w | c :: r => frun (fstep w c) r end.

(* blocks never go backwards; and the history stays outside class D3: whenever the multisig accepts a
   Propose, the group has not been changed earlier in that block *)
Fixpoint fmono (lo : N) (cs : list fcall) : Prop :=
  match cs with [] => True | c :: r => lo <= f_height c /\ fmono (f_height c) r end.
Fixpoint outside_d3 (w : mstate * Cw4Model.state) (cs : list fcall) : Prop :=
  match cs with
  | [] => True
  | c :: r =>
      (match c with
       | FMs blk _ (Propose _ _ _ _) => unchanged_in_block (snd w) (height blk)
       | _ => True
       end) /\ outside_d3 (fstep w c) r
  end.

(* per proposal: the group state gh it was opened against *)
Definition snap_ok (g : Cw4Model.state) (p : proposal) (gh : Cw4Model.state) : Prop :=
  sorted ordN (members gh) /\ p_total p = m_sum (members gh) /\
  (forall a, m_at (members g) a (p_start p) = m_cur (members gh) a) /\
  (forall a w v, get ordN (p_ballots p) a = Some (w, v) -> m_cur (members gh) a = Some w).

Record FInv (w : mstate * Cw4Model.state) (top : N) : Prop := {
  fi_ms : MInv (fst w);
  fi_flex : flex (fst w) = true;
  fi_g : Cw4Lemmas.WInv (snd w) top;
  fi_props : forall id p, getp (fst w) id = Some p -> p_start p <= top /\ exists gh, snap_ok (snd w) p gh }.

Lemma fstep_inv w top c : FInv w top -> top <= f_height c ->
  (match c with FMs blk _ (Propose _ _ _ _) => unchanged_in_block (snd w) (height blk) | _ => True end) ->
  FInv (fstep w c) (f_height c).
Proof.
  intros [HM HF HG HP] Hle Hd3. destruct w as [ms g]. cbn [fst snd] in *. destruct c as [blk sender o|gc]; cbn [fstep f_height] in *.
  - assert (HG': Cw4Lemmas.WInv g (height blk)).
    { destruct HG as [A B]. split; [eapply Cw4Lemmas.Inv_mono; eassumption|exact B]. }
    destruct (Cw3Model.step ms (gview_of g) blk sender o) as [[ms' out]| |] eqn:Es.
    + assert (HM': MInv ms') by (eapply step_inv; eassumption).
      destruct (step_frame _ _ _ _ _ _ _ HM Es) as ((Ef & _) & Fr).
      constructor; cbn [fst snd]; [exact HM'|congruence|exact HG'|].
      intros id q Gq.
      destruct o as [title msgs latest funds|vid v|xid|cid]; cbn [Cw3Model.step] in Es.
      * (* Propose *)
        destruct (propose_spec _ _ _ _ _ _ _ _ _ _ Es) as (power & mx & ex & st0 & nid & Hp & _ & _ & Hi & _ & Hz).
        cbv zeta in Hz. destruct Hz as (_ & _ & E). subst ms'.
        unfold getp in Gq. cbn [proposals] in Gq. destruct (N.eq_dec id nid) as [->|Hn].
        -- rewrite get_set_eq in Gq. inversion Gq; subst q; clear Gq. cbn [with_status p_start]. split; [lia|].
           exists g. unfold snap_ok. cbn [with_status p_start p_total p_ballots]. rewrite HF.
           unfold propose_power in Hp. rewrite HF in Hp. cbn [gview_of g_now g_total] in *.
           destruct HG as [[S _ _ It _] _].
           split; [exact S|]. split; [rewrite It; reflexivity|]. split; [exact Hd3|].
           intros a w v. unfold get. cbn. destruct (a =? sender) eqn:Ea; [|discriminate].
           apply N.eqb_eq in Ea. subst a. intros X. inversion X; subst. exact Hp.
        -- rewrite get_set_neq in Gq by exact Hn. fold (getp ms id) in Gq.
           destruct (HP _ _ Gq) as [L (gh & Sn)]. split; [lia|]. exists gh. exact Sn.
      * (* Vote *)
        destruct (vote_spec _ _ _ _ _ _ _ _ Es) as (p0 & w & vs & st0 & Gp0 & Hw & _ & _ & _ & Hb & _ & _ & Hz).
        cbv zeta in Hz. destruct Hz as (_ & E). subst ms'.
        unfold vote_power in Hw. rewrite HF in Hw. cbn [gview_of g_at] in Hw.
        destruct (N.eq_dec id vid) as [->|Hn].
        -- rewrite getp_set_eq in Gq. inversion Gq; subst q; clear Gq.
           destruct (HP _ _ Gp0) as [L (gh & S1 & S2 & S3 & S4)]. cbn [with_status p_start]. split; [lia|].
           exists gh. unfold snap_ok. cbn [with_status p_start p_total p_ballots].
           split; [exact S1|]. split; [exact S2|]. split; [exact S3|].
           intros a w' v'. destruct (N.eq_dec a sender) as [->|Ha].
           ++ rewrite get_set_eq. intros X. inversion X; subst. rewrite <- S3. exact Hw.
           ++ rewrite get_set_neq by exact Ha. apply S4.
        -- rewrite getp_set_neq in Gq by exact Hn. destruct (HP _ _ Gq) as [L (gh & Sn)]. split; [lia|]. exists gh. exact Sn.
      * destruct (execute_spec _ _ _ _ _ _ _ Es) as (p0 & Gp0 & _ & _ & _ & E). subst ms'.
        destruct (N.eq_dec id xid) as [->|Hn].
        -- rewrite getp_set_eq in Gq. inversion Gq; subst q; clear Gq.
           destruct (HP _ _ Gp0) as [L (gh & Sn)]. split; [cbn [with_status p_start]; lia|]. exists gh. exact Sn.
        -- rewrite getp_set_neq in Gq by exact Hn. destruct (HP _ _ Gq) as [L (gh & Sn)]. split; [lia|]. exists gh. exact Sn.
      * destruct (close_spec _ _ _ _ _ Es) as (p0 & st0 & Gp0 & _ & _ & _ & _ & _ & E). subst ms'.
        destruct (N.eq_dec id cid) as [->|Hn].
        -- rewrite getp_set_eq in Gq. inversion Gq; subst q; clear Gq.
           destruct (HP _ _ Gp0) as [L (gh & Sn)]. split; [cbn [with_status p_start]; lia|]. exists gh. exact Sn.
        -- rewrite getp_set_neq in Gq by exact Hn. destruct (HP _ _ Gq) as [L (gh & Sn)]. split; [lia|]. exists gh. exact Sn.
    + constructor; cbn [fst snd]; auto. intros id p Gp. destruct (HP _ _ Gp) as [L X]. split; [lia|exact X].
    + constructor; cbn [fst snd]; auto. intros id p Gp. destruct (HP _ _ Gp) as [L X]. split; [lia|exact X].
  - destruct (Cw4Lemmas.tx_spec g gc top HG Hle) as [I' _ _ P' _ _ _].
    constructor; cbn [fst snd]; auto.
    intros id p Gp. destruct (HP _ _ Gp) as [L (gh & S1 & S2 & S3 & S4)]. split; [lia|].
    exists gh. split; [exact S1|]. split; [exact S2|]. split; [|exact S4].
    intros a. rewrite P' by lia. apply S3.
Qed.

Lemma frun_inv cs : forall w top, FInv w top -> fmono top cs -> outside_d3 w cs ->
  exists top', FInv (frun w cs) top'.
Proof.
  induction cs as [|c r IH]; intros w top HI Hm Hd; [exists top; exact HI|].
  cbn [frun]. destruct Hm as [Hle Hm]. destruct Hd as [Hd1 Hd].
  apply (IH (fstep w c) (f_height c)); [apply (fstep_inv w top c HI Hle Hd1)|exact Hm|exact Hd].
Qed.

(* the conclusion: ballots never outweigh the total *)
Lemma snap_in_range g p gh : PInv p -> snap_ok g p gh -> tally (p_votes p) <= p_total p.
Proof.
  intros [P1 P2 _ _] (S1 & S2 & _ & S4). rewrite P2, tally_is_weight, S2. unfold ballots_weight_m, m_sum.
  apply sumf_dominated; [exact P1|exact S1|].
  intros k. rewrite getf_wt. unfold getf. destruct (get ordN (p_ballots p) k) as [[w v]|] eqn:E; [|lia].
  pose proof (S4 _ _ _ E) as X. unfold m_cur in X. unfold wt. rewrite X. cbn [fst]. lia.
Qed.

Theorem flex_ballots_within_total cs : forall w top id p, FInv w top -> fmono top cs -> outside_d3 w cs ->
  getp (fst (frun w cs)) id = Some p -> tally (p_votes p) <= p_total p.
Proof.
  intros w top id p HI Hm Hd G. destruct (frun_inv cs w top HI Hm Hd) as (top' & [HM _ _ HP]).
  destruct (HP _ _ G) as [_ (gh & Sn)]. eapply snap_in_range; [apply (mi_props _ HM _ _ G)|exact Sn].
Qed.

(* a freshly instantiated flex multisig over a group in any reachable state *)
Theorem flex_initial m gv ms g top : Cw3Model.instantiate m gv = Ok ms -> i_flex m = true -> Cw4Lemmas.WInv g top ->
  FInv (ms, g) top.
Proof.
  intros Hi Hf HG. destruct (instantiate_inv _ _ _ Hi) as [HM Hc].
  constructor; cbn [fst snd]; auto.
  - unfold Cw3Model.instantiate in Hi. rewrite Hf in Hi.
    destruct (negb (i_group_ok m)); [discriminate|]. destruct (negb (threshold_validate _ _)); [discriminate|].
    destruct (match i_deposit m with Some d => d_amount d =? 0 | None => false end); [discriminate|]. inversion Hi; reflexivity.
  - intros id p G. exfalso. pose proof (mi_ids _ HM _ _ G). lia.
Qed.
