(* Paging.v — the list-query model shared by every contract (C20), its step contract S_C20 and the
   checker.  A listing walks a storage map in key order; keys are abstracted to N in that order.

     range(start = exclusive(cursor), Ascending) [.filter(keep)] .take(min(limit or DEFAULT, MAX))
     range(end   = exclusive(cursor), Descending)               .take(...)         (ReverseProposals)      *)
Require Import CwPlus.Params CwPlus.Base.
Open Scope N_scope.

Definition after (c : option N) (ks : list N) : list N :=
  match c with None => ks | Some k => filter (fun x => k <? x) ks end.
Definition before (c : option N) (ks : list N) : list N :=
  match c with None => ks | Some k => filter (fun x => x <? k) ks end.

Definition eff (dflt mx : N) (limit : option N) : nat :=
  N.to_nat (N.min (match limit with Some l => l | None => dflt end) mx).

Definition page_asc (dflt mx : N) (keep : N -> bool) (ks : list N) (c : option N) (limit : option N) : list N :=
  firstn (eff dflt mx limit) (filter keep (after c ks)).
Definition page_desc (dflt mx : N) (ks : list N) (c : option N) (limit : option N) : list N :=
  firstn (eff dflt mx limit) (rev (before c ks)).

(* a client walking the pages: next cursor = last key of the page just received, stop at an empty page *)
Fixpoint walk (pg : option N -> list N) (fuel : nat) (c : option N) : list (list N) :=
  match fuel with
  | O => []
  | S f => let p := pg c in
           match p with
           | [] => [[]]
           | _ => p :: walk pg f (Some (last p 0))
           end
  end.

(* ---------------------------------------------------------------------------------------- *)
(* the sixteen listings: which constants and which kind of walk *)
Inductive listing :=
| LCw20Accounts | LCw20OwnerAllowances | LCw20SpenderAllowances
| LSubkeysAllowances | LSubkeysPermissions
| LFixedProposals | LFixedReverse | LFixedVotes | LFixedVoters
| LFlexProposals | LFlexReverse | LFlexVotes | LFlexVoters
| LGroupMembers | LStakeMembers | LIcs20Allowed.

Definition limits_of (l : listing) : N * N :=
  match l with
  | LCw20Accounts | LCw20OwnerAllowances | LCw20SpenderAllowances => (default_limit_cw20, max_limit_cw20)
  | LSubkeysAllowances | LSubkeysPermissions => (default_limit_subkeys, max_limit_subkeys)
  | LFixedProposals | LFixedReverse | LFixedVotes | LFixedVoters => (default_limit_fixed, max_limit_fixed)
  | LFlexProposals | LFlexReverse | LFlexVotes => (default_limit_flex, max_limit_flex)
  | LFlexVoters | LGroupMembers => (default_limit_group, max_limit_group)   (* flex delegates ListVoters to the group *)
  | LStakeMembers => (default_limit_stake, max_limit_stake)
  | LIcs20Allowed => (default_limit_ics20, max_limit_ics20)
  end.
Definition is_desc (l : listing) : bool := match l with LFixedReverse | LFlexReverse => true | _ => false end.

Definition mem (x : N) (l : list N) : bool := existsb (N.eqb x) l.

(* the model's answer: keys ks (ascending), `kept` = the keys the listing does not filter out *)
Definition model_page (l : listing) (ks kept : list N) (c limit : option N) : list N :=
  let '(d, m) := limits_of l in
  if is_desc l then page_desc d m ks c limit else page_asc d m (fun k => mem k kept) ks c limit.

(* ---------------------------------------------------------------------------------------- *)
(* one differential case: a state with keys ks, the pages the implementation returned for `limit`
   when walked from the start with last-key cursors (the walk stops at the first empty page) *)
Record pcase := mkCase { pc_listing : listing; pc_keys : list N; pc_kept : list N; pc_limit : option N; pc_pages : list (list N) }.

Definition nlist_eqb : list N -> list N -> bool := list_eqb N.eqb.
Definition expected (c : pcase) : list N :=
  let k := filter (fun x => mem x (pc_kept c)) (pc_keys c) in if is_desc (pc_listing c) then rev k else k.

(* S_C20 *)
Definition s_c20 (c : pcase) : N :=
  let '(d, m) := limits_of (pc_listing c) in
  let requested := match pc_limit c with Some l => l | None => 10 end in
  if negb (forallb (fun p => N.of_nat (length p) <=? requested) (pc_pages c)) then 1          (* page above the requested limit / default 10 *)
  else if negb (forallb (fun p => N.of_nat (length p) <=? 30) (pc_pages c)) then 2              (* page above 30 *)
  else if (requested =? 0) then 0
  else if negb (nlist_eqb (concat (pc_pages c)) (expected c)) then 3                            (* not every current item once, in order *)
  else if negb (match rev (pc_pages c) with [] :: _ => true | _ => false end) then 4            (* the walk did not end with an empty page *)
  else 0.

(* model pages for the same walk *)
Definition model_walk (c : pcase) : list (list N) :=
  walk (fun cur => model_page (pc_listing c) (pc_keys c) (pc_kept c) cur (pc_limit c)) (S (length (pc_keys c))) None.

Definition check_case (c : pcase) : N :=
  let r := s_c20 c in
  if negb (r =? 0) then 100 + r
  else if negb (list_eqb nlist_eqb (pc_pages c) (model_walk c)) then 50
  else 0.

Fixpoint check_c20 (i : N) (cs : list pcase) : list (N * N) :=
  match cs with
  | [] => []
  | c :: r => let x := check_case c in if x =? 0 then check_c20 (i + 1) r else (i, x) :: check_c20 (i + 1) r
  end.
