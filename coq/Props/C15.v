(* Props/C15.v — cw3-flex: deposits are taken once and returned at most once, as promised. *)
Require Import CwPlus.Params CwPlus.Base CwPlus.AMap CwPlus.Cw3Threshold CwPlus.Cw4Model CwPlus.Cw3Model
  CwPlus.Cw3Lemmas CwPlus.Cw3Lemmas2.
Open Scope N_scope.

(* a proposal is accepted on a multisig with a native deposit only with exactly one coin of exactly the
   configured amount and denom attached; with a cw20 deposit the handler emits exactly one
   TransferFrom{proposer -> multisig, amount}; the deposit is recorded in the proposal *)
Theorem c15_take : forall ms gv blk sender title msgs latest funds ms' out d,
  flex ms = true -> cfg_deposit ms = Some d ->
  propose ms gv blk sender title msgs latest funds = Ok (ms', out) ->
  (forall dn, d_token d = Native dn -> funds = [(dn, d_amount d)] /\ d_amount d <> 0 /\ out = []) /\
  (forall t, d_token d = Cw20 t -> out = if d_amount d =? 0 then [] else [ETake t sender (d_amount d)]) /\
  exists p, getp ms' (pcount ms') = Some p /\ p_deposit p = Some d /\ p_proposer p = sender.
Proof.
  intros ms gv blk sender title msgs latest funds ms' out d F Hd H.
  destruct (propose_spec _ _ _ _ _ _ _ _ _ _ H) as (power & mx & ex & s & id & _ & _ & _ & _ & Hpay & Hz).
  cbv zeta in Hz. destruct Hz as (_ & Eo & ->). rewrite F, Hd in Eo. unfold take_msgs in Eo.
  split; [|split].
  - intros dn Ht. destruct (native_deposit_paid_exact d dn funds Ht (Hpay F d Hd)) as [A B].
    rewrite Ht in Eo. auto.
  - intros t Ht. rewrite Ht in Eo. exact Eo.
  - eexists. unfold getp. cbn [proposals pcount]. rewrite get_set_eq. split; [reflexivity|].
    cbn [with_status p_deposit p_proposer]. rewrite F. auto.
Qed.

(* refunds are emitted only by Execute (always, exactly one, to the proposer, of the recorded deposit)
   and by Close (exactly when refund_failed_proposals is set); no other call emits one *)
Theorem c15_refund : forall ms gv blk sender o ms' out, step ms gv blk sender o = Ok (ms', out) ->
  match o with
  | Execute id => exists p, getp ms id = Some p /\
      filter is_refund out = match p_deposit p with Some d => [refund_msg d (p_proposer p)] | None => [] end
  | Close id => exists p, getp ms id = Some p /\
      out = match p_deposit p with
            | Some d => if d_refund_failed d then [refund_msg d (p_proposer p)] else []
            | None => [] end
  | _ => filter is_refund out = []
  end.
Proof. exact refund_spec. Qed.

(* a proposal is settled (Execute or Close accepted) at most once over every history, so its deposit
   is returned at most once *)
Theorem c15_refund_once : forall cs ms id, MInv ms -> (settle_count id ms cs <= 1)%nat.
Proof. exact settle_at_most_once. Qed.

(* recoverable: an expired proposal that did not pass and whose stored status is still Open is
   always closable, and closing returns the deposit when refund_failed_proposals is set ... *)
Theorem c15_recoverable_outside_known : forall ms blk id p s, getp ms id = Some p -> p_status p = Open ->
  is_expired (p_expires p) blk = true -> prop_status p blk = Some s -> s <> Passed ->
  do_close ms blk id = Ok (set_prop ms id (with_status p Rejected),
                           match p_deposit p with
                           | Some d => if d_refund_failed d then [refund_msg d (p_proposer p)] else []
                           | None => [] end).
Proof. exact close_recovers. Qed.

(* ... but NOT every failed proposal: known finding D6 (stored status latched to Rejected by a vote
   or at creation: Close and Execute are refused for ever, the refundable deposit stays locked) *)
Theorem c15_refuted :
  exists ms gv blk sender funds,
    propose (mkMs true [] 0 (AbsPct 510000000000000000) (DHeight 1) None (Some (mkDep 12 (Native 0) true)) [] 0)
            gv blk sender 1 [] (Some (AtHeight 12)) funds = Ok (ms, []) /\ ms = d6_state /\
    (forall blk', is_expired (AtHeight 12) blk' = true -> do_close ms blk' 1 = Err) /\
    (forall blk' s, do_execute ms gv blk' s 1 = Err).
Proof. exact d6_refuted. Qed.

Print Assumptions c15_take.
Print Assumptions c15_refund.
Print Assumptions c15_refund_once.
Print Assumptions c15_recoverable_outside_known.
Print Assumptions c15_refuted.
