(* Props/C03.v — cw3: a proposal's status always equals the outcome its ballots imply. *)
Require Import CwPlus.Params CwPlus.Base CwPlus.AMap CwPlus.Cw3Threshold CwPlus.Cw3ThresholdLemmas
  CwPlus.Cw3ThresholdContract CwPlus.Cw3ThresholdContractLemmas CwPlus.Cw4Model CwPlus.Cw3Model
  CwPlus.Cw3Lemmas CwPlus.Cw3Lemmas2 CwPlus.Cw3Lemmas3 CwPlus.Cw4Lemmas CwPlus.Cw3Lemmas4 CwPlus.Cw3Lemmas5.
Open Scope N_scope.

(* in every reachable state the tally a proposal's status is computed from IS the sum of its recorded
   ballots per option, and a proposal whose stored status is Passed or Executed has Yes weight > 0 *)
Theorem c03_tally_is_ballots : forall m gv ms cs id p, instantiate m gv = Ok ms ->
  getp (hrun ms cs) id = Some p ->
  p_votes p = tally_m (p_ballots p) /\ ((p_status p = Passed \/ p_status p = Executed) -> 0 < yes (p_votes p)).
Proof.
  intros m gv ms cs id p Hi G. destruct (mi_props _ (reachable_inv _ _ _ cs Hi) _ _ G) as [_ T Y _]. split; assumption.
Qed.

(* the status the queries report and the status Execute / Close are admitted on are one function
   (prop_status); for a proposal still stored Open it is the threshold rule of C04 applied to the
   present tally, total and expiry: Passed iff is_passed, else Rejected iff is_rejected or expired *)
Theorem c03_open_rule : forall p blk s, p_status p = Open -> prop_status p blk = Some s ->
  exists ps rj, is_passed (p_threshold p) (p_total p) (p_votes p) (is_expired (p_expires p) blk) = Some ps /\
    (ps = true -> s = Passed) /\
    (ps = false -> is_rejected (p_threshold p) (p_total p) (p_votes p) (is_expired (p_expires p) blk) = Some rj /\
                   s = if rj || is_expired (p_expires p) blk then Rejected else Open).
Proof.
  intros p blk s Ho. unfold prop_status. rewrite Ho. unfold current_status. cbn [status_eqb].
  destruct (is_passed _ _ _ _) as [[|]|]; cbn [obind]; [| |discriminate].
  - intros E. inversion E; subst. exists true, false. split; [reflexivity|]. split; [reflexivity|discriminate].
  - cbn [status_eqb]. destruct (is_rejected _ _ _ _) as [r|]; cbn [obind]; [|discriminate].
    intros E. inversion E; subst. exists false, r. split; [reflexivity|]. split; [discriminate|]. intros _. split; reflexivity.
Qed.

(* Execute is admitted only when that status is Passed; hence never with zero Yes weight, and (stored
   Open) never unless the rule says the present tally passes *)
Theorem c03_admission : forall m gv0 ms0 cs gv blk sender id ms' out, instantiate m gv0 = Ok ms0 ->
  do_execute (hrun ms0 cs) gv blk sender id = Ok (ms', out) ->
  exists p, getp (hrun ms0 cs) id = Some p /\ q_status (hrun ms0 cs) blk id = Some Passed /\ 0 < yes (p_votes p) /\
    (p_status p = Open ->
     is_passed (p_threshold p) (p_total p) (p_votes p) (is_expired (p_expires p) blk) = Some true).
Proof.
  intros m gv0 ms0 cs gv blk sender id ms' out Hi He.
  destruct (execute_spec _ _ _ _ _ _ _ He) as (p & Gp & Es & _).
  exists p. split; [exact Gp|]. split; [unfold q_status; fold (getp (hrun ms0 cs) id); rewrite Gp; exact Es|].
  destruct (mi_props _ (reachable_inv _ _ _ cs Hi) _ _ Gp) as [_ _ Y _].
  destruct (prop_status_cases _ _ _ Es) as [(Hne & E)|(Ho & E)].
  - split; [apply Y; left; congruence|]. intros C. contradiction.
  - split; [eapply status_passed_yes; exact E|]. intros _. apply current_status_open_passed. exact E.
Qed.

(* and conversely: a proposal the queries report as Passed is admitted, for every authorised caller,
   with exactly the refund and the proposed messages (S_C03 clause 10 checks this on the implementation) *)
Theorem c03_admission_complete : forall ms gv blk sender id p,
  getp ms id = Some p -> q_status ms blk id = Some Passed -> (flex ms = true -> authorized ms gv sender = true) ->
  do_execute ms gv blk sender id =
    Ok (set_prop ms id (with_status p Executed),
        (match p_deposit p with Some d => [refund_msg d (p_proposer p)] | None => [] end) ++ map EUser (p_msgs p)).
Proof.
  intros ms gv blk sender id p G Q A. unfold do_execute. unfold q_status in Q. unfold getp in G. rewrite G in *. rewrite Q.
  cbn [status_eqb negb]. destruct (flex ms); [rewrite (A eq_refl)|]; reflexivity.
Qed.
(* why a stored (sticky) Passed / Rejected stays justified while votes keep arriving: a decision taken
   before expiry holds for every later tally within the total, in both expiry states (C04) *)
Theorem c03_sticky_passed : forall th T v, in_range th T v -> is_passed th T v false = Some true ->
  forall v' e', completes T v v' -> is_passed th T v' e' = Some true.
Proof. exact f_early_pass_sound. Qed.
Theorem c03_sticky_rejected : forall th T v, in_range th T v -> is_rejected th T v false = Some true ->
  forall v' e', completes T v v' -> is_passed th T v' e' = Some false.
Proof. exact f_early_reject_sound. Qed.

(* cw3-fixed: ballots never outweigh the total, so every tally is in the range those theorems need *)
Theorem c03_fixed_in_range : forall m gv ms cs, instantiate m gv = Ok ms -> i_flex m = false ->
  let s := hrun ms cs in
  cfg_total s = sum (voters s) /\
  forall id p, getp s id = Some p -> p_total p = cfg_total s /\ tally (p_votes p) <= p_total p /\
    forall a w v, get ordN (p_ballots p) a = Some (w, v) -> get ordN (voters s) a = Some w.
Proof. exact fixed_reachable. Qed.

(* the latch invariant: a stored Passed / Rejected agrees with the rule on the present tally.  It is
   kept by the passing of time (blocks not going backwards) and kept or established by every accepted
   call, for every proposal; `prange` is the range condition of C06 (proved for cw3-fixed above; on
   cw3-flex it fails only in the known class D3, Props/C06.v) *)
Theorem c03_latch_time : forall p b b', prange p -> block_le b b' -> latched_ok p b -> latched_ok p b'.
Proof. exact latched_time. Qed.
Theorem c03_latch_step : forall ms gv b sender o ms' out id q,
  MInv ms -> step ms gv b sender o = Ok (ms', out) ->
  getp ms' id = Some q -> prange q ->
  (forall j (p : proposal), getp ms j = Some p -> prange p /\ latched_ok p b) ->
  latched_ok q b.
Proof. exact latched_step. Qed.

(* hence what EVERY query reports: Passed exactly when the rule passes on the recorded ballots, the
   recorded total and the present expiry state (C04 says what that means in exact arithmetic: Yes > 0
   and certain to satisfy the rule); Rejected only when it does not pass and is expired or can no
   longer pass; Open only when unexpired and not passing; Executed only after Execute *)
Theorem c03_status_is_outcome : forall p b s, prange p -> latched_ok p b -> p_status p <> Pending ->
  prop_status p b = Some s ->
  let ps := pass_fn (p_threshold p) (p_total p) (p_votes p) (expired_at p b) in
  match s with
  | Passed => ps = true
  | Rejected => ps = false /\ (expired_at p b = true \/ rej_fn (p_threshold p) (p_total p) (p_votes p) false = true \/
                               rej_fn (p_threshold p) (p_total p) (p_votes p) (expired_at p b) = true)
  | Open => ps = false /\ expired_at p b = false
  | Executed => p_status p = Executed
  | Pending => False
  end.
Proof. exact status_is_outcome. Qed.

(* THE PROPERTY OVER WHOLE HISTORIES, with the range condition discharged.
   cw3-fixed: from any accepted instantiation, after any history of handler calls (any callers, any
   group views, failed calls rolled back) with blocks not going backwards, at every later block: the
   tally of each proposal is the sum of its recorded ballots, within its total, and the status every
   query reports is the outcome the ballots imply (`outcome_ok`: Passed iff the rule passes on the
   recorded ballots, total and present expiry state; Rejected only when it does not pass and is expired
   or can no longer pass; Open only when unexpired and not passing; Executed only after Execute) *)
Theorem c03_fixed_history : forall m gv ms cs b0 b' id p s,
  instantiate m gv = Ok ms -> i_flex m = false -> hmono b0 cs -> block_le (hlast b0 cs) b' ->
  getp (hrun ms cs) id = Some p -> q_status (hrun ms cs) b' id = Some s ->
  p_votes p = tally_m (p_ballots p) /\ tally (p_votes p) <= p_total p /\ outcome_ok p b' s.
Proof. exact fixed_status_history. Qed.
(* cw3-flex together with its cw4 group (both models), over every interleaving of multisig calls and
   group transactions outside the known class D3 (no group change earlier in a proposal's own block):
   the same *)
Theorem c03_flex_history : forall m gv ms g cs b0 b' id p s,
  Cw3Model.instantiate m gv = Ok ms -> i_flex m = true -> Cw4Lemmas.WInv g (height b0) ->
  fbmono b0 cs -> outside_d3 (ms, g) cs -> block_le (flast b0 cs) b' ->
  getp (fst (frun (ms, g) cs)) id = Some p -> q_status (fst (frun (ms, g) cs)) b' id = Some s ->
  p_votes p = tally_m (p_ballots p) /\ tally (p_votes p) <= p_total p /\ outcome_ok p b' s.
Proof. exact flex_status_history. Qed.
(* the flex theorem's hypotheses are met by a history that changes the group between proposals and
   votes: members 1,2,3 (weights 1,1,10); member 3 removed in block 20; proposal in block 21 (total 2);
   in block 22 member 1 is re-weighted to 5 and then votes are cast with the snapshot weights *)
Example c03_flex_history_nonvacuous :
  exists g ms,
    Cw4Model.instantiate (Cw4Model.mkInit false (Some (Some 9)) [(Some 1, 1); (Some 2, 1); (Some 3, 10)] cfg_default) (mkBlock 10 0) = Ok g /\
    Cw3Model.instantiate (mkInit true [] (AbsPct 510000000000000000) (DHeight 5) None None true) (gview_of g) = Ok ms /\
    let cs := [FGroup (mkBlock 20 0, 9, UpdateMembers [] [Some 3], true);
               FMs (mkBlock 21 0) 1 (Propose 1 [] None []);
               FGroup (mkBlock 22 0, 9, UpdateMembers [(Some 1, 5)] [], true);
               FMs (mkBlock 22 5) 2 (Vote 1 VYes)] in
    fbmono (mkBlock 10 0) cs /\ outside_d3 (ms, g) cs /\
    q_status (fst (frun (ms, g) cs)) (mkBlock 22 5) 1 = Some Passed /\
    exists p, getp (fst (frun (ms, g) cs)) 1 = Some p /\ p_total p = 2 /\ tally (p_votes p) = 2.
Proof.
  eexists _, _. split; [vm_compute; reflexivity|]. split; [vm_compute; reflexivity|]. cbv zeta.
  split; [apply fbmono_b_sound; vm_compute; reflexivity|]. split; [apply outside_d3_b_sound; vm_compute; reflexivity|].
  split; [vm_compute; reflexivity|]. eexists. split; [vm_compute; reflexivity|]. split; reflexivity.
Qed.
Example c03_nonvacuous :
  exists ms, instantiate (mkInit false [(Some 1, 0); (Some 2, 3); (Some 3, 4)] (ThQuorum 510000000000000000 400000000000000000)
                                 (DHeight 5) None None true) gview_none = Ok ms /\
    let cs := [(gview_none, mkBlock 10 0, 1, Propose 1 [] None []);
               (gview_none, mkBlock 11 0, 2, Vote 1 VAbstain); (gview_none, mkBlock 11 0, 3, Vote 1 VAbstain)] in
    q_status (hrun ms cs) (mkBlock 11 0) 1 = Some Open /\ q_status (hrun ms cs) (mkBlock 15 0) 1 = Some Rejected /\
    is_ok (do_execute (hrun ms cs) gview_none (mkBlock 15 0) 2 1) = false.
Proof. eexists. split; [reflexivity|]. vm_compute. repeat split. Qed.

Print Assumptions c03_tally_is_ballots.
Print Assumptions c03_open_rule.
Print Assumptions c03_admission.
Print Assumptions c03_sticky_passed.
Print Assumptions c03_sticky_rejected.
Print Assumptions c03_fixed_in_range.
Print Assumptions c03_latch_time.
Print Assumptions c03_latch_step.
Print Assumptions c03_status_is_outcome.
Print Assumptions c03_fixed_history.
Print Assumptions c03_flex_history.
Print Assumptions c03_admission_complete.
