(* Props/C14.v — cw4: only the admin changes a group, and hooks hear every change truthfully. *)
Require Import CwPlus.Params CwPlus.Base CwPlus.AMap CwPlus.Cw4Model CwPlus.Cw4Snap CwPlus.Cw4Lemmas CwPlus.Cw4Check CwPlus.Cw4Lemmas2.
Open Scope N_scope.

(* the admin, the hook list and (cw4-group) the member table / total change only in a call made by
   the current admin *)
Theorem c14_admin_only : forall st blk sender o st' ms, step st blk sender o = Ok (st', ms) ->
  (admin st' <> admin st \/ hooks st' <> hooks st \/
   (is_stake st = false /\ (members st' <> members st \/ total_s st' <> total_s st))) ->
  admin st = Some sender.
Proof. exact admin_only. Qed.

(* once the admin is cleared: admin, hooks and the group's members are frozen over every history *)
Theorem c14_frozen : forall cs st, admin st = None ->
  admin (run st cs) = None /\ hooks (run st cs) = hooks st /\
  (is_stake st = false -> members (run st cs) = members st /\ total_s (run st cs) = total_s st).
Proof. exact frozen_forever. Qed.

(* what every accepted call tells the hooks, in every reachable state (WInv):
   - UpdateMembers: exactly one message per registered hook, in registration order, all with the same
     diff list ds, and ds EXPLAINS the change: replayed over the old weights, each entry's `old` is
     the weight just before that entry and the result is the new weight table (addresses not
     mentioned are therefore unchanged);
   - Bond / Unbond / Receive (cw4-stake): either nothing is sent and no weight changed, or one
     message per hook with the single entry (staker, old, new), old <> new both true; nobody else's
     weight moves;
   - every other call: no hook message, no weight changes. *)
Theorem c14_hooks : forall st blk sender o st' ms top,
  WInv st top -> top <= height blk -> step st blk sender o = Ok (st', ms) ->
  match o with
  | UpdateMembers _ _ => exists ds, ms = hook_msgs st ds /\ explains ds (m_cur (members st)) (m_cur (members st'))
  | Bond _ | Unbond _ => hook_shape st st' sender ms /\ forall b, b <> sender -> m_cur (members st') b = m_cur (members st) b
  | Receive (Some u) _ _ => hook_shape st st' u ms /\ forall b, b <> u -> m_cur (members st') b = m_cur (members st) b
  | _ => no_hook_msg ms /\ members st' = members st /\ total_s st' = total_s st
  end.
Proof. exact hooks_spec. Qed.

(* addresses a diff list does not mention keep their weight *)
Theorem c14_untouched : forall ds f g b, explains ds f g -> (forall a o n, In (a, o, n) ds -> a <> b) -> g b = f b.
Proof. exact explains_untouched. Qed.

(* the invariant assumed above holds in every reachable state *)
Theorem c14_reachable : forall m blk st cs, instantiate m blk = Ok st -> mono (height blk) cs ->
  WInv (run st cs) (last_height (height blk) cs).
Proof.
  intros m blk st cs Hi Hm. destruct (instantiate_spec _ _ _ Hi) as (HW & _).
  exact (proj1 (run_spec cs st (height blk) HW Hm)).
Qed.

(* the hook registry over whole histories.  Only registered addresses are ever told anything, by any accepted
   call in any state; the addresses told by one call are either nobody or exactly the registered list (each
   once, since the registry of a reachable state never lists an address twice); and a removed hook is no
   longer notified: after an accepted RemoveHook{x}, no call of any history that does not register x again
   sends x a message *)
Theorem c14_only_registered_told : forall st blk sender o st' ms h ds,
  step st blk sender o = Ok (st', ms) -> In (HookMsg h ds) ms -> In h (hooks st).
Proof. intros st blk sender o st' ms h ds H. exact (proj1 (step_hooks _ _ _ _ _ _ H) h ds). Qed.

Theorem c14_told_nobody_or_everybody_once : forall st blk sender o st' ms,
  step st blk sender o = Ok (st', ms) -> told ms = [] \/ told ms = hooks st.
Proof. exact told_once. Qed.

Theorem c14_registry_never_duplicates : forall m blk st cs, instantiate m blk = Ok st -> NoDup (hooks (run st cs)).
Proof. exact hooks_nodup_history. Qed.

Theorem c14_removed_hook_silent : forall st blk sender x st' ms cs,
  NoDup (hooks st) -> step st blk sender (RemoveHook (Some x)) = Ok (st', ms) ->
  Forall (fun c => ~ adds_hook x c) cs -> silent_for x st' cs.
Proof. exact removed_hook_silent. Qed.

(* the step contract S_C14 (all 9 clauses) that every run evaluates on the implementation never fires on the
   model's own accepted handler call from a reachable state (WInv), nor on a refused one, whenever the
   observations are the model's admin, hook list, member listing and total *)
Theorem c14_contract_never_fires_on_model : forall npool pre post st blk sender o st' ms top,
  WInv st top -> top <= height blk -> group_obs pre st -> group_obs post st' ->
  step st blk sender o = Ok (st', ms) ->
  s_c14 (is_stake st) npool pre post sender o true true ms = 0.
Proof. exact s_c14_sound. Qed.
Theorem c14_contract_never_fires_on_refusal : forall npool pre post st sender o stake_c,
  group_obs pre st -> group_obs post st -> s_c14 stake_c npool pre post sender o false false [] = 0.
Proof. exact s_c14_sound_refused. Qed.

Example c14_removed_hook_example :
  exists st, instantiate (mkInit false (Some (Some 0)) [(Some 1, 5)] cfg_default) (mkBlock 10 0) = Ok st /\
    let st1 := run st [(mkBlock 11 0, 0, AddHook (Some 8), true); (mkBlock 11 0, 0, AddHook (Some 9), true);
                       (mkBlock 11 0, 0, RemoveHook (Some 8), true)] in
    hooks st1 = [9] /\
    told (tx_msgs st1 (mkBlock 12 0, 0, UpdateMembers [(Some 2, 3)] [], true)) = [9].
Proof. eexists. split; [reflexivity|]. vm_compute. split; reflexivity. Qed.

Example c14_nonvacuous :
  exists st, instantiate (mkInit false (Some (Some 0)) [(Some 1, 5); (Some 2, 7)] cfg_default) (mkBlock 10 0) = Ok st /\
    let st1 := run st [(mkBlock 11 0, 0, AddHook (Some 8), true); (mkBlock 11 0, 0, AddHook (Some 9), true)] in
    (match step st1 (mkBlock 12 0) 0 (UpdateMembers [(Some 2, 3); (Some 1, 9)] [Some 1; Some 4]) with
     | Ok (_, ms) => ms | _ => [] end) =
      [HookMsg 8 [(1, Some 5, Some 9); (2, Some 7, Some 3); (1, Some 9, None)];
       HookMsg 9 [(1, Some 5, Some 9); (2, Some 7, Some 3); (1, Some 9, None)]] /\
    is_ok (step st1 (mkBlock 12 0) 3 (UpdateMembers [] [Some 1])) = false.
Proof. eexists. split; [reflexivity|]. vm_compute. split; reflexivity. Qed.

Print Assumptions c14_admin_only.
Print Assumptions c14_frozen.
Print Assumptions c14_hooks.
Print Assumptions c14_untouched.
Print Assumptions c14_reachable.
Print Assumptions c14_only_registered_told.
Print Assumptions c14_told_nobody_or_everybody_once.
Print Assumptions c14_registry_never_duplicates.
Print Assumptions c14_removed_hook_silent.
Print Assumptions c14_contract_never_fires_on_model.
Print Assumptions c14_contract_never_fires_on_refusal.
