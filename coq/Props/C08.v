(* Props/C08.v — cw1-subkeys: a subkey never spends beyond its unexpired native allowance. *)
Require Import CwPlus.Params CwPlus.Base CwPlus.AMap CwPlus.Cw1Model CwPlus.Cw1Lemmas CwPlus.Cw1Check CwPlus.Cw1CheckLemmas.
Open Scope N_scope.

(* an accepted Execute of a non-admin: the allowance is stored and unexpired for every bank send,
   all coins of all messages are deducted exactly, per denomination and cumulatively; a send
   exceeding what remains in any denomination makes the whole call fail (first conjunct of the
   per-denomination clause), and nobody else's allowance or permissions move *)
Theorem c08_spend_exact : forall st blk sender msgs st' rel, Inv st ->
  is_admin st sender = false -> step st blk sender (Execute msgs) = Ok (st', rel) ->
  subkeys st = true /\ Forall (msg_allowed st blk sender) msgs /\
  admins st' = admins st /\ mutable_ st' = mutable_ st /\ permissions st' = permissions st /\
  (forall k, k <> sender -> stored st' k = stored st k) /\
  (forall d, spent_total msgs d <= amount_of (stored st sender) d /\
             amount_of (stored st' sender) d = amount_of (stored st sender) d - spent_total msgs d) /\
  exp_rel (stored st' sender) (stored st sender).
Proof. exact subkey_execute_spec. Qed.

(* IncreaseAllowance: only an admin, only the named subkey, + n on top of the live (unexpired)
   amounts: an expired allowance restarts from zero *)
Theorem c08_increase : forall st blk sender sp d n e st' rel, Inv st ->
  step st blk sender (IncreaseAllowance sp (d, n) e) = Ok (st', rel) ->
  subkeys st = true /\ is_admin st sender = true /\ rel = [] /\
  exists s, sp = Some s /\ s <> sender /\ Inv st' /\
    admins st' = admins st /\ mutable_ st' = mutable_ st /\ permissions st' = permissions st /\
    (forall k, k <> s -> stored st' k = stored st k) /\
    (forall d', amount_of (stored st' s) d' = amount_of (live (stored st s) blk) d' + (if d' =? d then n else 0)).
Proof. exact increase_spec. Qed.

(* DecreaseAllowance: only an admin, only on a live allowance, saturating at zero *)
Theorem c08_decrease : forall st blk sender sp d n e st' rel, Inv st ->
  step st blk sender (DecreaseAllowance sp (d, n) e) = Ok (st', rel) ->
  subkeys st = true /\ is_admin st sender = true /\ rel = [] /\
  exists s a, sp = Some s /\ s <> sender /\ Inv st' /\ stored st s = Some a /\ is_expired (a_exp a) blk = false /\
    admins st' = admins st /\ mutable_ st' = mutable_ st /\ permissions st' = permissions st /\
    (forall k, k <> s -> stored st' k = stored st k) /\
    (forall d', amount_of (stored st' s) d' = amount_of (stored st s) d' - (if d' =? d then n else 0)).
Proof. exact decrease_spec. Qed.

(* per call, for every subkey and denomination: new stored amount + spent now <= old + granted now *)
Theorem c08_step : forall st blk sender o st' rel s d, Inv st ->
  step st blk sender o = Ok (st', rel) ->
  amount_of (stored st' s) d + spent_now st sender o s d <= amount_of (stored st s) d + grant_now st sender o s d.
Proof. exact allowance_step. Qed.

(* over any history from any instantiation: relayed so far + still stored <= granted so far *)
Theorem c08_cumulative : forall m st cs s d, instantiate m = Ok st ->
  let '(granted, spent, final) := ghost st cs s d in spent + amount_of (stored final s) d <= granted.
Proof. exact spent_le_granted. Qed.

(* the step contract S_C08 (all 13 clauses, the expiry clauses included) never fires on the model's own
   transition from a state satisfying the invariant, nor on a refused call that leaves the state as it is *)
Theorem c08_contract_never_fires_on_model : forall st blk sender o, Cw1Lemmas.Inv st ->
  match step st blk sender o with
  | Ok (st', _) => s_c08 st st' blk sender o true = 0
  | _ => True
  end /\ s_c08 st st blk sender o false = 0.
Proof. exact s_c08_sound. Qed.
Example c08_nonvacuous :
  exists st, instantiate (mkInit true [Some 1] true) = Ok st /\
    let cs := [(mkBlock 1 1, 1, IncreaseAllowance (Some 2) (0, 10) (Some (AtHeight 5)), true);
               (mkBlock 2 2, 2, Execute [BankSend 3 [(0, 6)]; BankSend 3 [(0, 3)]], true);
               (mkBlock 5 5, 2, Execute [BankSend 3 [(0, 1)]], true);        (* expired: fails *)
               (mkBlock 6 6, 1, IncreaseAllowance (Some 2) (0, 2) (Some (AtHeight 9)), true)] in
    fst (ghost st cs 2 0) = (12, 9) /\ amount_of (stored (run st cs) 2) 0 = 2.
Proof. eexists. split; [reflexivity|]. vm_compute. split; reflexivity. Qed.

Print Assumptions c08_spend_exact.
Print Assumptions c08_increase.
Print Assumptions c08_decrease.
Print Assumptions c08_step.
Print Assumptions c08_cumulative.
Print Assumptions c08_contract_never_fires_on_model.
