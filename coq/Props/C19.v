(* Props/C19.v — cw20: the three allowance views agree, also after migration. Statements only. *)
Require Import CwPlus.Params CwPlus.Base CwPlus.AMap CwPlus.Cw20Model CwPlus.Cw20Lemmas CwPlus.Cw20Check CwPlus.Cw20CheckLemmas.
Open Scope N_scope.

(* in every reachable state the owner-keyed and the spender-keyed tables hold the same entry for
   every (owner, spender); the single-allowance query reads the owner-keyed table, the two listings
   walk the two tables, so all three views agree *)
Theorem c19_main : forall m st cs, instantiate m = Ok st ->
  sorted ordNN (allow (run st cs)) /\ sorted ordNN (allow_sp (run st cs)) /\
  (forall o s, get ordNN (allow (run st cs)) (o, s) = get ordNN (allow_sp (run st cs)) (s, o)) /\
  ver_old (run st cs) = false.
Proof. exact reachable_inv19. Qed.

Theorem c19_step : forall st blk sender o st' ms,
  Inv19 st -> step st blk sender o = Ok (st', ms) -> Inv19 st'.
Proof. exact step_inv19. Qed.

(* migration: for EVERY pre-0.14 allowance table (no spender table, old version) migrate succeeds
   and establishes the agreement, which c19_step then preserves forever *)
Theorem c19_migrate : forall st blk sender, sorted ordNN (allow st) ->
  exists st', step (downgrade st) blk sender Migrate = Ok (st', []) /\ Inv19 st'.
Proof. exact migrate_legacy_inv19. Qed.

(* the whole life of a token that was once a pre-0.14 one: after ANY history, the upgrade of the legacy layout
   of that state succeeds, and after ANY further history the three views still agree *)
Theorem c19_lifecycle : forall m st cs1 blk sender cs2, instantiate m = Ok st ->
  exists st2, step (downgrade (run st cs1)) blk sender Migrate = Ok (st2, []) /\ Inv19 (run st2 cs2).
Proof. exact lifecycle19. Qed.

(* the step contract S_C19 evaluated on the implementation never fires on a state satisfying the invariant,
   when the point queries are the non-default entries of the owner-keyed table (which is what the
   model's Allowance query returns) *)
Theorem c19_contract_never_fires_on_model : forall post,
  let st := state_of_obs post false in Inv19 st ->
  ob_point post = filter (fun e => negb (is_default (snd e))) (ob_owner post) ->
  s_c19 post = 0.
Proof. exact s_c19_sound. Qed.
Example c19_nonvacuous :
  exists st, instantiate (mkInit [(Some 1, 500)] None) = Ok st /\
    let st1 := run st [(mkBlock 1 1, 1, IncreaseAllowance (Some 2) 50 None, true);
                       (mkBlock 1 1, 3, IncreaseAllowance (Some 2) 7 (Some (AtHeight 9)), true)] in
    q_spender_list st1 2 = [(1, mkAl 50 Never); (3, mkAl 7 (AtHeight 9))] /\
    q_owner_list st1 3 = [(2, mkAl 7 (AtHeight 9))].
Proof. eexists. split; [reflexivity|]. vm_compute. split; reflexivity. Qed.

Print Assumptions c19_main.
Print Assumptions c19_lifecycle.
Print Assumptions c19_step.
Print Assumptions c19_migrate.
Print Assumptions c19_contract_never_fires_on_model.
