(* Props/C02.v — cw20: balances move only by the holder or within a valid allowance. Statements only. *)
Require Import CwPlus.Params CwPlus.Base CwPlus.AMap CwPlus.Cw20Model CwPlus.Cw20Lemmas
        CwPlus.Cw20Check CwPlus.Cw20CheckLemmas.
Open Scope N_scope.

(* a balance decreases only in the holder's own Transfer/Send/Burn, or in a draw by a spender on a
   stored allowance that is unexpired at the call's block and at least the amount drawn; the draw
   lowers that allowance by exactly the amount and moves exactly that amount *)
Theorem c02_debit_authorised : forall st blk sender o st' ms a,
  step st blk sender o = Ok (st', ms) -> bal st' a < bal st a ->
  (a = sender /\ is_self_debit o = true) \/
  (exists n al, draw_of o = Some (a, n) /\ get ordNN (allow st) (a, sender) = Some al /\
                is_expired (al_exp al) blk = false /\ n <= al_amt al /\
                get ordNN (allow st') (a, sender) = Some (mkAl (al_amt al - n) (al_exp al)) /\
                bal st a - bal st' a = n).
Proof. exact debit_authorised. Qed.

(* an allowance changes only by its owner's increase/decrease or by its spender's own draw *)
Theorem c02_allowance_frame : forall st blk sender o st' ms ow sp,
  step st blk sender o = Ok (st', ms) ->
  get ordNN (allow st') (ow, sp) <> get ordNN (allow st) (ow, sp) ->
  (sender = ow /\ exists n e, o = IncreaseAllowance (Some sp) n e \/ o = DecreaseAllowance (Some sp) n e) \/
  (sender = sp /\ exists n, draw_of o = Some (ow, n)).
Proof. exact allowance_frame. Qed.

(* per call: new allowance + amount drawn now <= old allowance + amount granted now
   (so Decrease only lowers, saturating at removal; draws lower by what they move) *)
Theorem c02_allowance_step : forall st blk sender o st' ms ow sp,
  sorted ordNN (allow st) -> step st blk sender o = Ok (st', ms) ->
  al_of st' ow sp + drawn_of sender o ow sp <= al_of st ow sp + grant_of sender o ow sp.
Proof. exact allowance_step. Qed.

(* over any history from any accepted instantiation: what a spender has moved of an owner's tokens,
   plus what it may still move, never exceeds what the owner cumulatively granted *)
Theorem c02_cumulative : forall m st cs ow sp, instantiate m = Ok st ->
  let '(granted, drawn, final) := ghost st cs ow sp in drawn + al_of final ow sp <= granted.
Proof. exact drawn_le_granted. Qed.

(* Send / SendFrom notify the receiving contract exactly once, naming the true initiator (the
   caller), the amount moved and the attached payload; no other call emits a message *)
Theorem c02_notify : forall st blk sender o st' ms,
  step st blk sender o = Ok (st', ms) -> ms = expected_msgs sender o.
Proof. exact notify_exact. Qed.

(* the step contract S_C02 (all 5 clauses) that every run evaluates on the implementation never fires on the
   model's own transition, accepted or refused *)
Theorem c02_contract_never_fires_on_model : forall pre post blk sender o ms,
  let st := state_of_obs pre false in let st' := state_of_obs post false in
  sorted ordNN (allow st) -> step st blk sender o = Ok (st', ms) -> s_c02 pre post blk sender o true ms = 0.
Proof. exact s_c02_sound. Qed.
Theorem c02_contract_never_fires_on_refusal : forall pre blk sender o, s_c02 pre pre blk sender o false [] = 0.
Proof. exact s_c02_sound_refused. Qed.
Example c02_nonvacuous :
  exists st, instantiate (mkInit [(Some 1, 500)] None) = Ok st /\
    ghost st [(mkBlock 1 1, 1, IncreaseAllowance (Some 2) 50 (Some (AtHeight 5)), true);
              (mkBlock 2 2, 2, TransferFrom (Some 1) (Some 3) 20, true);
              (mkBlock 5 5, 2, TransferFrom (Some 1) (Some 3) 20, true);   (* expired: fails *)
              (mkBlock 5 5, 1, DecreaseAllowance (Some 2) 100 None, true)] 1 2
    = (50, 20, run st [(mkBlock 1 1, 1, IncreaseAllowance (Some 2) 50 (Some (AtHeight 5)), true);
                       (mkBlock 2 2, 2, TransferFrom (Some 1) (Some 3) 20, true);
                       (mkBlock 5 5, 1, DecreaseAllowance (Some 2) 100 None, true)]).
Proof. eexists. split; [reflexivity|]. vm_compute. reflexivity. Qed.

Print Assumptions c02_debit_authorised.
Print Assumptions c02_allowance_frame.
Print Assumptions c02_allowance_step.
Print Assumptions c02_cumulative.
Print Assumptions c02_notify.
Print Assumptions c02_contract_never_fires_on_model.
Print Assumptions c02_contract_never_fires_on_refusal.
