(* Props/C17.v — cw1: the admin set changes only by admins while mutable; freezing is permanent. *)
Require Import CwPlus.Params CwPlus.Base CwPlus.AMap CwPlus.Cw1Model CwPlus.Cw1Lemmas CwPlus.Cw1Check CwPlus.Cw1CheckLemmas.
Open Scope N_scope.

(* the admin list or the frozen flag changes only in a Freeze / UpdateAdmins call by a current admin
   while the contract is mutable *)
Theorem c17_guard : forall st blk sender o st' rel, Inv st ->
  step st blk sender o = Ok (st', rel) ->
  (admins st' <> admins st \/ mutable_ st' <> mutable_ st) ->
  mutable_ st = true /\ is_admin st sender = true /\ (o = Freeze \/ exists l, o = UpdateAdmins l).
Proof. exact admin_change_guard. Qed.

(* after Freeze, or immutable instantiation: list and flag never change again, over any history *)
Theorem c17_frozen_forever : forall cs st, Inv st -> mutable_ st = false ->
  admins (run st cs) = admins st /\ mutable_ (run st cs) = false.
Proof. exact frozen_forever. Qed.

(* allowances and permissions are created or altered only by current admins; the only exception is
   a subkey's own accepted Execute, which can only touch (lower, see C08) its own allowance *)
Theorem c17_grants_admin_only : forall st blk sender o st' rel k, Inv st ->
  step st blk sender o = Ok (st', rel) ->
  (stored st' k <> stored st k \/ get ordN (permissions st') k <> get ordN (permissions st) k) ->
  is_admin st sender = true \/
  (k = sender /\ (exists msgs, o = Execute msgs) /\ get ordN (permissions st') k = get ordN (permissions st) k).
Proof. exact grants_admin_only. Qed.

(* the invariant the statements above assume holds in every reachable state *)
Theorem c17_inv_reachable : forall m st cs, instantiate m = Ok st -> Inv (run st cs).
Proof. exact reachable_inv. Qed.

(* the step contract S_C17 (all 3 clauses) never fires on the model's own transition, nor on a refused call *)
Theorem c17_contract_never_fires_on_model : forall st blk sender o, Cw1Lemmas.Inv st ->
  match step st blk sender o with
  | Ok (st', _) => s_c17 st st' blk sender o true = 0
  | _ => True
  end /\ s_c17 st st blk sender o false = 0.
Proof. exact s_c17_sound. Qed.
Example c17_nonvacuous :
  exists st, instantiate (mkInit false [Some 1; Some 2] true) = Ok st /\
    let st1 := run st [(mkBlock 1 1, 2, Freeze, true)] in
    mutable_ st1 = false /\ is_ok (step st1 (mkBlock 2 2) 1 (UpdateAdmins [Some 1])) = false.
Proof. eexists. split; [reflexivity|]. vm_compute. split; reflexivity. Qed.

Print Assumptions c17_guard.
Print Assumptions c17_frozen_forever.
Print Assumptions c17_grants_admin_only.
Print Assumptions c17_inv_reachable.
Print Assumptions c17_contract_never_fires_on_model.
