(* Props/C13.v — cw20: only the current minter mints, and never beyond the cap. Statements only. *)
Require Import CwPlus.Params CwPlus.Base CwPlus.AMap CwPlus.Cw20Model CwPlus.Cw20Lemmas CwPlus.Cw20Check CwPlus.Cw20CheckLemmas.
Open Scope N_scope.

(* tokens are created only by a Mint call from the address currently registered as minter *)
Theorem c13_mint_guard : forall st blk sender o st' ms,
  step st blk sender o = Ok (st', ms) -> supply st < supply st' ->
  exists rcpt n cap, o = Mint rcpt n /\ minter st = Some (sender, cap) /\ supply st' = supply st + n.
Proof. exact mint_guard. Qed.

(* the supply never exceeds the cap, in any reachable state *)
Theorem c13_cap : forall m st cs, instantiate m = Ok st ->
  forall x c, minter (run st cs) = Some (x, Some c) -> supply (run st cs) <= c.
Proof. exact reachable_inv_cap. Qed.

(* only the current minter hands over or renounces, and the cap survives the hand-over *)
Theorem c13_handover_guard : forall st blk sender o st' ms,
  step st blk sender o = Ok (st', ms) -> minter st' <> minter st ->
  exists nm cap, o = UpdateMinter nm /\ minter st = Some (sender, cap) /\
    (minter st' = None \/ exists x, minter st' = Some (x, cap)).
Proof. exact minter_change_guard. Qed.

(* once renounced: nobody is minter again and the supply never grows again, over any history *)
Theorem c13_renounce_forever : forall st cs, minter st = None ->
  minter (run st cs) = None /\ supply (run st cs) <= supply st.
Proof. exact renounced_forever. Qed.

(* in real terms: the tokens that exist (the sum of all balances) never exceed the cap either - the reported
   supply is their sum in every reachable state (C01) - which is what S_C13 clause 5 checks on the implementation *)
Theorem c13_balances_within_cap : forall m st cs, instantiate m = Ok st ->
  forall x c, minter (run st cs) = Some (x, Some c) -> sum (balances (run st cs)) <= c.
Proof.
  intros m st cs Hi x c Hm. destruct (reachable_inv01 m st cs Hi) as (_ & E & _).
  rewrite <- E. apply (reachable_inv_cap m st cs Hi x c Hm).
Qed.
(* the step contract S_C13 evaluated on the implementation never fires on the model's own transition
   (accepted, or refused and leaving everything as it was), from any state with supply = sum <= cap *)
Theorem c13_contract_never_fires_on_model : forall pre post blk sender o ms,
  let st := state_of_obs pre false in let st' := state_of_obs post false in
  Inv01 st -> InvCap st -> step st blk sender o = Ok (st', ms) -> s_c13 pre post sender o true = 0.
Proof. exact s_c13_sound. Qed.
Theorem c13_contract_never_fires_on_refusal : forall pre sender o,
  let st := state_of_obs pre false in Inv01 st -> InvCap st -> s_c13 pre pre sender o false = 0.
Proof. exact s_c13_sound_refused. Qed.
Example c13_nonvacuous :
  exists st, instantiate (mkInit [(Some 1, 500)] (Some (Some 2, Some 600))) = Ok st /\
    is_ok (step st (mkBlock 1 1) 2 (Mint (Some 1) 100)) = true /\
    is_ok (step st (mkBlock 1 1) 2 (Mint (Some 1) 101)) = false /\
    is_ok (step st (mkBlock 1 1) 1 (Mint (Some 1) 1)) = false.
Proof. eexists. split; [reflexivity|]. vm_compute. repeat split. Qed.

Print Assumptions c13_mint_guard.
Print Assumptions c13_cap.
Print Assumptions c13_handover_guard.
Print Assumptions c13_renounce_forever.
Print Assumptions c13_balances_within_cap.
Print Assumptions c13_contract_never_fires_on_model.
Print Assumptions c13_contract_never_fires_on_refusal.
