(* Props/C04.v — property C04 (cw3 threshold arithmetic): statements only.
   Every theorem is closed by `exact <lemma>`; proofs live in Cw3Threshold*Lemmas.v. *)
Require Import CwPlus.Params CwPlus.Base CwPlus.Cw3Threshold CwPlus.Cw3ThresholdLemmas
        CwPlus.Cw3ThresholdContract CwPlus.Cw3ThresholdContractLemmas.
Open Scope N_scope.

(* in_range th T v: validated percentages, tally v <= T <= 2^64-1 (AbsoluteCount weight arbitrary) *)

Theorem c04_no_abort : forall th T v e, in_range th T v ->
  exists p r s, is_passed th T v e = Some p /\ is_rejected th T v e = Some r /\
                current_status Open th T v e = Some s.
Proof. exact f_no_abort. Qed.

Theorem c04_vn_char : forall w p, w <= u64max -> p <= DEN ->
  exists n, votes_needed w p = Some n /\ n <= w /\
            forall y, n <= y <-> PF * w * p < (y * PF + 1) * DEN.
Proof. exact f_vn_char. Qed.

Theorem c04_expired_exact9 : forall th T v, in_range th T v -> nine_decimals th ->
  is_passed th T v true = Some (spec_pass_expired th T v).
Proof. exact f_expired_exact9. Qed.

Theorem c04_never_stricter : forall th T v, in_range th T v ->
  spec_pass_expired th T v = true -> is_passed th T v true = Some true.
Proof. exact f_never_stricter. Qed.

Theorem c04_within_one : forall th T v, in_range th T v ->
  is_passed th T v true = Some true -> spec_pass_expired_plus1 th T v.
Proof. exact f_within_one. Qed.

Theorem c04_no_yes_no_pass : forall th T v e, yes v = 0 -> is_passed th T v e = Some false.
Proof. exact f_no_yes_no_pass. Qed.

Theorem c04_expired_decision : forall th T v, in_range th T v ->
  exists p, is_passed th T v true = Some p /\
            current_status Open th T v true = Some (if p then Passed else Rejected).
Proof. exact f_expired_decision. Qed.

Theorem c04_early_pass_sound : forall th T v, in_range th T v ->
  is_passed th T v false = Some true ->
  forall v' e', completes T v v' -> is_passed th T v' e' = Some true.
Proof. exact f_early_pass_sound. Qed.

Theorem c04_early_pass_complete : forall th T v, in_range th T v ->
  (forall v', completes T v v' -> is_passed th T v' true = Some true) ->
  is_passed th T v false = Some true.
Proof. exact f_early_pass_complete. Qed.

Theorem c04_early_reject_sound : forall th T v, in_range th T v ->
  is_rejected th T v false = Some true ->
  forall v' e', completes T v v' -> is_passed th T v' e' = Some false.
Proof. exact f_early_reject_sound. Qed.

Theorem c04_never_both : forall th T v e, in_range th T v ->
  ~ (is_passed th T v e = Some true /\ is_rejected th T v e = Some true).
Proof. exact f_never_both. Qed.

Theorem c04_count_gt_total : forall w T v e,
  is_rejected (AbsCount w) T v e = Some (T - w <? no v).
Proof. exact f_count_gt_total. Qed.

Theorem c04_stable_passed : forall th T v, in_range th T v ->
  current_status Open th T v false = Some Passed ->
  forall v' e', completes T v v' -> current_status Open th T v' e' = Some Passed.
Proof. exact f_stable_passed. Qed.

Theorem c04_stable_rejected : forall th T v, in_range th T v ->
  current_status Open th T v false = Some Rejected ->
  forall v' e', completes T v v' -> current_status Open th T v' e' <> Some Passed.
Proof. exact f_stable_rejected. Qed.

(* the model meets the step contract S_C04 on every in-range input, so a differential case in
   which the implementation returned what the model returns is always accepted *)
Theorem c04_model : forall th T v e, in_range th T v ->
  s_c04 th T v e (is_passed th T v e) (is_rejected th T v e) (current_status Open th T v e) = 0.
Proof. exact model_satisfies_s_c04. Qed.

(* non-vacuity: a concrete in-range tuple, and the one-vote effect of 18-decimal percentages *)
Example c04_in_range_example :
  in_range (ThQuorum 666666666666666667 400000000000000000) 15 (mkVotes 6 2 1 0).
Proof. unfold in_range. repeat split; vm_compute; congruence. Qed.
Example c04_round_up_example : votes_needed 15 500000000000000000 = Some 8.
Proof. vm_compute. reflexivity. Qed.

Print Assumptions c04_no_abort.
Print Assumptions c04_vn_char.
Print Assumptions c04_expired_exact9.
Print Assumptions c04_never_stricter.
Print Assumptions c04_within_one.
Print Assumptions c04_no_yes_no_pass.
Print Assumptions c04_expired_decision.
Print Assumptions c04_early_pass_sound.
Print Assumptions c04_early_pass_complete.
Print Assumptions c04_early_reject_sound.
Print Assumptions c04_never_both.
Print Assumptions c04_count_gt_total.
Print Assumptions c04_stable_passed.
Print Assumptions c04_stable_rejected.
Print Assumptions c04_model.
