(* Props/C16.v — cw1: CanExecute predicts Execute. *)
Require Import CwPlus.Params CwPlus.Base CwPlus.AMap CwPlus.Cw1Model CwPlus.Cw1Lemmas CwPlus.Cw1Check CwPlus.Cw1CheckLemmas.
Open Scope N_scope.

(* for EVERY state of either proxy (reachable or not), every block, every (valid) sender and every
   message: the query answers true exactly when Execute{[m]} by that sender in that state is
   accepted by the proxy *)
Theorem c16_main : forall st blk sender m,
  can_execute st blk sender m = is_ok (step st blk sender (Execute [m])).
Proof. exact can_execute_predicts. Qed.

(* the step contract S_C16 never fires on the model *)
Theorem c16_contract_never_fires_on_model : forall st blk sender m,
  s_c16 (Some (can_execute st blk sender m)) (is_ok (step st blk sender (Execute [m]))) = 0.
Proof. exact s_c16_sound. Qed.
Example c16_nonvacuous :
  exists st, instantiate (mkInit true [Some 1] true) = Ok st /\
    let st1 := run st [(mkBlock 1 1, 1, IncreaseAllowance (Some 2) (0, 10) (Some (AtHeight 5)), true);
                       (mkBlock 1 1, 1, SetPermissions (Some 2) (mkPerm true false false false), true)] in
    can_execute st1 (mkBlock 4 4) 2 (BankSend 3 [(0, 10)]) = true /\
    can_execute st1 (mkBlock 5 5) 2 (BankSend 3 [(0, 10)]) = false /\
    can_execute st1 (mkBlock 4 4) 2 Delegate = true /\ can_execute st1 (mkBlock 4 4) 2 Redelegate = false.
Proof. eexists. split; [reflexivity|]. vm_compute. repeat split. Qed.

Print Assumptions c16_main.
Print Assumptions c16_contract_never_fires_on_model.
