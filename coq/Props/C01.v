(* Props/C01.v — cw20: total supply always equals the sum of all balances. Statements only. *)
Require Import CwPlus.Params CwPlus.Base CwPlus.AMap CwPlus.Cw20Model CwPlus.Cw20Lemmas
        CwPlus.Cw20Check CwPlus.Cw20CheckLemmas.
Open Scope N_scope.

(* every state reachable from any accepted instantiation by any finite list of calls (failed ones
   included, any senders, amounts, blocks): the map is well formed, supply = sum, no overflow *)
Theorem c01_main : forall m st cs, instantiate m = Ok st ->
  sorted ordN (balances (run st cs)) /\
  supply (run st cs) = sum (balances (run st cs)) /\ supply (run st cs) <= u128max.
Proof. exact reachable_inv01. Qed.

Theorem c01_step : forall st blk sender o st' ms,
  Inv01 st -> step st blk sender o = Ok (st', ms) -> Inv01 st'.
Proof. exact step_inv01. Qed.

(* every successful call has exactly the deltas S_C01 prescribes for its operation: transfers and
   sends move n between two accounts and keep the supply; Mint adds n to supply and one balance;
   Burn/BurnFrom subtract n from supply and one balance; everything else changes nothing *)
Theorem c01_model_delta : forall st blk sender o st' ms,
  step st blk sender o = Ok (st', ms) -> s_c01_delta st st' sender o = true.
Proof. exact model_s_c01_delta. Qed.

(* a failed call (handler error, abort, or a receiver that refuses) leaves the state unchanged *)
Theorem c01_fail_noop : forall st blk sender o rok,
  (exists st' ms, step st blk sender o = Ok (st', ms) /\ tx st blk sender o rok = (st', true, ms)) \/
  tx st blk sender o rok = (st, false, []).
Proof. exact tx_cases. Qed.

(* the step contract S_C01 evaluated on the implementation never fires on the model's own transition
   (accepted, or refused and leaving everything as it was); `ob_unlisted = []` says that the listing
   shows every holder, which the model's listing (all keys of the balance map) does by construction *)
Theorem c01_contract_never_fires_on_model : forall pre post blk sender o ms,
  let st := state_of_obs pre false in let st' := state_of_obs post false in
  Inv01 st -> ob_unlisted post = [] -> step st blk sender o = Ok (st', ms) -> s_c01 pre post sender o true = 0.
Proof. exact s_c01_sound. Qed.
Theorem c01_contract_never_fires_on_refusal : forall pre sender o,
  let st := state_of_obs pre false in Inv01 st -> ob_unlisted pre = [] -> s_c01 pre pre sender o false = 0.
Proof. exact s_c01_sound_refused. Qed.
Example c01_nonvacuous :
  exists st, instantiate (mkInit [(Some 1, 500); (Some 3, 70)] (Some (Some 2, Some 1000))) = Ok st /\
             supply (run st [(mkBlock 1 1, 1, Transfer (Some 3) 30, true);
                             (mkBlock 1 1, 2, Mint (Some 4) 5, true);
                             (mkBlock 2 2, 3, Burn 100, true)]) = 475.
Proof. eexists. split; [reflexivity|]. vm_compute. reflexivity. Qed.

Print Assumptions c01_main.
Print Assumptions c01_step.
Print Assumptions c01_model_delta.
Print Assumptions c01_fail_noop.
Print Assumptions c01_contract_never_fires_on_model.
Print Assumptions c01_contract_never_fires_on_refusal.
