(* Props/C07.v — cw1: the proxy relays exactly the submitted messages, only when authorised. *)
Require Import CwPlus.Params CwPlus.Base CwPlus.AMap CwPlus.Cw1Model CwPlus.Cw1Lemmas CwPlus.Cw1Check CwPlus.Cw1CheckLemmas.
Open Scope N_scope.

(* whenever Execute is accepted the relayed messages are exactly the submitted ones, in order *)
Theorem c07_exact : forall st blk sender msgs st' rel,
  step st blk sender (Execute msgs) = Ok (st', rel) -> rel = msgs.
Proof. exact execute_relays_exactly. Qed.

(* no other operation of either proxy emits a message *)
Theorem c07_others_relay_nothing : forall st blk sender o st' rel,
  step st blk sender o = Ok (st', rel) -> (match o with Execute _ => False | _ => True end) -> rel = [].
Proof. exact other_ops_relay_nothing. Qed.

(* cw1-whitelist: accepted exactly for current admins (any message list, the empty one included) *)
Theorem c07_whitelist : forall st blk sender msgs, subkeys st = false ->
  is_ok (step st blk sender (Execute msgs)) = is_admin st sender.
Proof. exact whitelist_execute_iff. Qed.

(* cw1-subkeys: accepted exactly for admins or when the per-message check passes on the whole list
   with the allowance threaded through (an empty list by a stranger is vacuously covered) *)
Theorem c07_subkeys : forall st blk sender msgs, subkeys st = true ->
  is_ok (step st blk sender (Execute msgs)) = is_admin st sender || is_ok (check_msgs st blk sender msgs).
Proof. exact subkeys_execute_iff. Qed.

(* what "covered" means for a non-admin: every message is a bank send under a stored, unexpired
   allowance or a staking/distribution message whose permission flag is set (no other kind); the
   sends are within the allowance cumulatively per denomination and deducted exactly; admins,
   frozen flag, permissions and every other subkey's allowance are untouched *)
Theorem c07_subkey_cover : forall st blk sender msgs st' rel, Inv st ->
  is_admin st sender = false -> step st blk sender (Execute msgs) = Ok (st', rel) ->
  subkeys st = true /\ Forall (msg_allowed st blk sender) msgs /\
  admins st' = admins st /\ mutable_ st' = mutable_ st /\ permissions st' = permissions st /\
  (forall k, k <> sender -> stored st' k = stored st k) /\
  (forall d, spent_total msgs d <= amount_of (stored st sender) d /\
             amount_of (stored st' sender) d = amount_of (stored st sender) d - spent_total msgs d) /\
  exp_rel (stored st' sender) (stored st sender).
Proof. exact subkey_execute_spec. Qed.

(* a call that fails (handler error, or a relayed message failing on the chain) changes nothing *)
Theorem c07_fail_nothing : forall st blk sender o dok,
  (exists st' ms, step st blk sender o = Ok (st', ms) /\ tx st blk sender o dok = (st', true, ms)) \/
  tx st blk sender o dok = (st, false, []).
Proof. exact tx_cases. Qed.

(* the step contract S_C07 that every run evaluates on the implementation never fires on the model's own
   transition, accepted or refused: a reported clause is always a difference from the behaviour the theorems
   above are about, never the contract demanding more than the model does *)
Theorem c07_contract_never_fires_on_model : forall st blk sender o,
  match step st blk sender o with
  | Ok (_, rel) => s_c07 st blk sender o true rel true = 0
  | _ => s_c07 st blk sender o false [] true = 0
  end.
Proof. exact s_c07_sound. Qed.
Example c07_nonvacuous :
  exists st, instantiate (mkInit true [Some 1] true) = Ok st /\
    let st1 := run st [(mkBlock 1 1, 1, IncreaseAllowance (Some 2) (0, 10) None, true)] in
    is_ok (step st1 (mkBlock 2 2) 2 (Execute [BankSend 3 [(0, 6)]; BankSend 3 [(0, 4)]])) = true /\
    is_ok (step st1 (mkBlock 2 2) 2 (Execute [BankSend 3 [(0, 6)]; BankSend 3 [(0, 5)]])) = false /\
    is_ok (step st1 (mkBlock 2 2) 2 (Execute [BankSend 3 [(0, 1)]; Delegate])) = false.
Proof. eexists. split; [reflexivity|]. vm_compute. repeat split. Qed.

Print Assumptions c07_exact.
Print Assumptions c07_others_relay_nothing.
Print Assumptions c07_whitelist.
Print Assumptions c07_subkeys.
Print Assumptions c07_subkey_cover.
Print Assumptions c07_fail_nothing.
Print Assumptions c07_contract_never_fires_on_model.
