(* Props/C12.v — cw20-ics20: channel balance tracks vouchers exactly; error acks change nothing. *)
Require Import CwPlus.Params CwPlus.Base CwPlus.AMap CwPlus.Ics20Model CwPlus.Ics20Lemmas CwPlus.Ics20Lemmas2 CwPlus.Ics20Lemmas3 CwPlus.Ics20Lemmas4.
Open Scope N_scope.

(* over every history (without balance-rewriting migrations): outstanding + failed + redeemed = sent
   and total_sent = sent, per channel and key, where sent / failed / redeemed are the amounts of the
   accepted transfers, of the processed error-acks and timeouts, and of the successfully acknowledged
   incoming packets *)
Theorem c12_identity : forall cs w c k, Inv (w_st w) -> Forall (fun x => not_migrate (snd x)) cs ->
  out_of (w_st (wrun w cs)) c k + g_failed w cs c k + g_redeemed w cs c k = out_of (w_st w) c k + g_sent w cs c k /\
  sent_of (w_st (wrun w cs)) c k = sent_of (w_st w) c k + g_sent w cs c k.
Proof. exact accounting_identity. Qed.

(* handling a packet never aborts: the receive transaction always produces an acknowledgement *)
Theorem c12_never_aborts : forall st p pay_ok, Inv st -> exists st' a ms, tx_receive st p pay_ok = Some (st', a, ms).
Proof. exact receive_total. Qed.

(* whenever the acknowledgement is an error, channel balances and every other part of the state but
   the scratch reply_args are exactly as before the packet *)
Theorem c12_ack_err_noop : forall st p pay_ok st' ms, Inv st -> tx_receive st p pay_ok = Some (st', AckErr, ms) ->
  same_money st st'.
Proof. exact receive_err_noop. Qed.

(* a success acknowledgement only if: the voucher names our counterparty's port and channel, the
   payout of the full amount to the named receiver succeeded, and the receiving channel's balance for
   that key went down by exactly the amount (nothing else moved) *)
Theorem c12_ack_ok : forall st p pay_ok st' ms, Inv st -> tx_receive st p pay_ok = Some (st', AckOk, ms) ->
  exists d k gas port chan,
    ip_data p = Some d /\ pd_denom d = PVoucher port chan (BKey k) /\ port = ip_src_port p /\ chan = ip_src_chan p /\
    check_gas_limit st k = Some gas /\ pay_ok = true /\
    ms = [Payout k (pd_receiver d) (pd_amount d) gas] /\
    pd_amount d <= out_of st (ip_dest_chan p) k /\
    out_of st' (ip_dest_chan p) k + pd_amount d = out_of st (ip_dest_chan p) k /\
    sent_of st' (ip_dest_chan p) k = sent_of st (ip_dest_chan p) k /\
    (forall c' k', (c', k') <> (ip_dest_chan p, k) -> get_cs st' c' k' = get_cs st c' k') /\ Inv st'.
Proof. exact receive_ok_spec. Qed.

(* every accepted transfer emits exactly one packet: the escrowed amount (0 < n <= 2^64-1), the key,
   the true sender, the requested receiver and memo, timeout = block time + requested-or-default
   seconds; the channel's outstanding and total_sent grow by exactly that amount, nothing else moves *)
Theorem c12_packet : forall st blk chan remote timeout memo k n sender st' ms, Inv st ->
  do_transfer st blk chan remote timeout memo k n sender = Ok (st', ms) ->
  0 < n /\ n <= u64max /\ mem chan (channels st) = true /\
  (key_is_cw20 k = true -> default_gas st <> None \/ get ordN (allow st) (key_addr k) <> None) /\
  ms = [SendPacket (mkOut chan n k sender remote memo
                          (time blk + (match timeout with Some t => t | None => default_timeout st end) * 1000000000))] /\
  Inv st' /\ same_but_cs st st' /\
  out_of st' chan k = out_of st chan k + n /\ sent_of st' chan k = sent_of st chan k + n /\
  (forall c' k', (c', k') <> (chan, k) -> get_cs st' c' k' = get_cs st c' k').
Proof. exact transfer_spec. Qed.

(* how the execute entry point reaches do_transfer: native funds must be exactly one plain coin (a
   denom spelling a cw20 key is refused), a cw20 hook books under the CALLER's key with the hook's
   `sender` as packet sender *)
Theorem c12_execute : forall st blk sender o st' ms, Inv st -> step st blk sender o = Ok (st', ms) ->
  Inv st' /\
  match o with
  | Transfer chan remote timeout memo funds =>
      exists d n, funds = [(DPlain d, n)] /\ do_transfer st blk chan remote timeout memo (nat_key d) n sender = Ok (st', ms)
  | Receive from n tmsg fa =>
      exists u chan remote timeout memo, from = Some u /\ tmsg = Some (chan, remote, timeout, memo) /\ fa = false /\
        do_transfer st blk chan remote timeout memo (cw_key sender) n u = Ok (st', ms)
  | Allow contract gas =>
      admin st = Some sender /\ ms = [] /\ exists c, contract = Some c /\
        st' = with_allow st (set ordN (allow st) c gas) /\
        (forall old, get ordN (allow st) c = Some old -> gas_le old gas)
  | UpdateAdmin a =>
      admin st = Some sender /\ ms = [] /\ exists x, a = Some x /\ st' = with_admin st (Some x)
  end.
Proof. exact step_spec. Qed.

(* an error acknowledgement or a timeout of a packet we sent takes exactly its amount off the
   channel balance and sends it back to the original sender *)
Theorem c12_failed_send : forall st p st' ms, Inv st -> on_failure st p = Ok (st', ms) ->
  exists gas, check_gas_limit st' (op_key p) = Some gas /\
    ms = [Payout (op_key p) (Some (op_sender p)) (op_amount p) gas] /\
    out_of st' (op_chan p) (op_key p) + op_amount p = out_of st (op_chan p) (op_key p) /\
    sent_of st' (op_chan p) (op_key p) = sent_of st (op_chan p) (op_key p) /\
    (forall c' k', (c', k') <> (op_chan p, op_key p) -> get_cs st' c' k' = get_cs st c' k') /\
    Inv st' /\ same_but_cs st st'.
Proof. exact failure_spec. Qed.

(* every supported upgrade path (migrate from the 0.11 / 0.13 layouts, which rewrites the balances to
   the actual escrow, or from later versions) keeps the accounting invariant, so c12_identity holds
   again from the migrated state onwards: "the identity restarts from the migrated balance" *)
Theorem c12_migrate_keeps_invariant : forall st g ok bal st', Inv st -> migrate st g ok bal = Ok st' -> Inv st'.
Proof. exact migrate_inv. Qed.

(* what a balance-rewriting pass does, key by key of the single open channel: afterwards the
   outstanding balance is exactly what the contract holds, and it never lowers a balance *)
Theorem c12_update_balances : forall c l s s', Inv s -> NoDup (map (fun b => snd (fst b)) l) ->
  (forall b, In b l -> fst (fst b) = c) ->
  upd_all l s = Some s' ->
  Inv s' /\ same_but_cs s s' /\ reply_args s' = reply_args s /\
  (forall c' k', (forall h, ~ In (c', k', h) l) -> get_cs s' c' k' = get_cs s c' k') /\
  (forall k h cs', In (c, k, h) l -> get_cs s' c k = Some cs' -> exists held, h = Some held /\ outstanding cs' = held).
Proof. exact upd_all_spec. Qed.

(* ACROSS MIGRATIONS.  A migration (of any stored version, accepted or refused) raises `outstanding` and
   `total_sent` of every entry by one and the same amount and lowers neither ... *)
Theorem c12_migrate_same_delta : forall st g ok bal st', Inv st -> migrate st g ok bal = Ok st' ->
  forall c k, sent_of st' c k + out_of st c k = sent_of st c k + out_of st' c k /\ out_of st c k <= out_of st' c k.
Proof. exact migrate_same_delta. Qed.
(* ... hence over EVERY history from any state satisfying the invariant - transfers, packets,
   acknowledgements, timeouts, donations and migrations in any order - what was ever recorded as sent
   and is no longer outstanding is exactly what was refunded plus redeemed, per channel and
   denomination (stated without subtraction) *)
Theorem c12_released_all_histories : forall cs w c k, Inv (w_st w) ->
  sent_of (w_st (wrun w cs)) c k + out_of (w_st w) c k =
    sent_of (w_st w) c k + out_of (w_st (wrun w cs)) c k + g_failed w cs c k + g_redeemed w cs c k.
Proof. exact released_identity. Qed.
Theorem c12_released_from_instantiate : forall m st hold0 cs c k, instantiate m = Ok st ->
  let w := wrun (mkW st hold0) cs in
  sent_of (w_st w) c k = out_of (w_st w) c k + g_failed (mkW st hold0) cs c k + g_redeemed (mkW st hold0) cs c k.
Proof. exact released_from_start. Qed.
(* a 0.13-layout state whose books lag the escrow by a donation of 40: the migration reconciles
   (outstanding 60 -> 100, total_sent 60 -> 100), then 25 are redeemed and the 60 of the first packet
   refunded: 100 = 15 + 60 + 25 *)
(* a migration of a contract whose stored version is already 0.13.1 or later rewrites no channel balance (nor the allow
   list, the governance address, the channels): it can only set the default gas limit (S_C12 clause 16) *)
Theorem c12_migrate_current_keeps_books : forall st g ok bal st',
  (ver st = V3 \/ ver st = VCur) -> migrate st g ok bal = Ok st' ->
  chan_state st' = chan_state st /\ allow st' = allow st /\ admin st' = admin st /\ channels st' = channels st /\
  default_gas st' = match g with Some x => Some x | None => default_gas st end.
Proof. exact migrate_current_keeps_books. Qed.
Example c12_migration_nonvacuous :
  let stL := mkSt 100 None (Some 0) [(5, Some 7)] [1] [] None V2 None in
  let w := mkW stL [] in
  let cs := [(mkBlock 1 50, WSendCw20 5 3 60 (Some (1, 9, Some 3, Some 2)));
             (mkBlock 2 0, WDonate 11 40);
             (mkBlock 3 0, WMigrate None);
             (mkBlock 4 0, WRecv (mkIn 0 15 1 (Some (mkPd 25 (PVoucher 0 15 (BKey 11)) None (Some 4) None))) true);
             (mkBlock 5 0, WFail (mkOut 1 60 11 3 9 None 0) true)] in
  Inv stL /\ ver (w_st (wrun w cs)) = VCur /\
  (sent_of (w_st (wrun w cs)) 1 11, out_of (w_st (wrun w cs)) 1 11, g_failed w cs 1 11, g_redeemed w cs 1 11) = (100, 15, 60, 25).
Proof.
  cbv zeta. split; [constructor; cbn; [constructor|intros ? ? ? X; discriminate]|]. split; vm_compute; reflexivity.
Qed.
Example c12_nonvacuous :
  exists st, instantiate (mkInit 100 None (Some 0) [(Some 5, Some 7)] [1]) = Ok st /\
    let w := mkW st [] in
    let cs := [(mkBlock 1 50, WSendCw20 5 3 60 (Some (1, 9, Some 3, Some 2)));
               (mkBlock 2 0, WRecv (mkIn 0 15 1 (Some (mkPd 25 (PVoucher 0 15 (BKey 11)) None None None))) false);
               (mkBlock 2 0, WRecv (mkIn 0 15 1 (Some (mkPd 25 (PVoucher 0 15 (BKey 11)) None (Some 4) None))) true);
               (mkBlock 3 0, WFail (mkOut 1 60 11 3 9 None 0) true)] in
    (out_of (w_st (wrun w cs)) 1 11, g_sent w cs 1 11, g_failed w cs 1 11, g_redeemed w cs 1 11) = (35, 60, 0, 25) /\
    step st (mkBlock 1 50) 5 (Receive (Some 3) 60 (Some (1, 9, Some 3, Some 2)) false) =
      Ok (w_st (wstep w (mkBlock 1 50) (WSendCw20 5 3 60 (Some (1, 9, Some 3, Some 2)))),
          [SendPacket (mkOut 1 60 11 3 9 (Some 2) 3000000050)]).
Proof. eexists. split; [reflexivity|]. vm_compute. split; reflexivity. Qed.

Print Assumptions c12_identity.
Print Assumptions c12_never_aborts.
Print Assumptions c12_ack_err_noop.
Print Assumptions c12_ack_ok.
Print Assumptions c12_packet.
Print Assumptions c12_execute.
Print Assumptions c12_failed_send.
Print Assumptions c12_migrate_keeps_invariant.
Print Assumptions c12_update_balances.
Print Assumptions c12_migrate_same_delta.
Print Assumptions c12_released_all_histories.
Print Assumptions c12_released_from_instantiate.
Print Assumptions c12_migrate_current_keeps_books.
