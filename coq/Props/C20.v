(* Props/C20.v — all list queries paginate completely: every item once, in order, within limits. *)
Require Import CwPlus.Params CwPlus.Base CwPlus.Paging CwPlus.PagingLemmas.
Open Scope N_scope.

(* the page-size constants of all seven source files, as re-read from /repo on this run *)
Theorem c20_constants : forall l, limits_of l = (10, 30).
Proof. exact constants_are_10_30. Qed.

(* no page exceeds the maximum of 30 nor the requested limit; the default page size is 10 *)
Theorem c20_bound : forall l ks kept c limit,
  (length (model_page l ks kept c limit) <= 30)%nat /\
  (length (model_page l ks kept c limit) <= N.to_nat (match limit with Some x => x | None => 10 end))%nat.
Proof. exact model_page_bound. Qed.

Theorem c20_zero : forall l ks kept c, model_page l ks kept c (Some 0) = [].
Proof. exact model_page_zero. Qed.

(* for every listing, every strictly ordered key set of ANY size, every filter (expired subkey
   allowances), every limit other than 0 (absent, 1, ..., above 30): requesting pages with the last
   returned key as cursor returns every current item exactly once, in key order (descending for the
   reverse listings), and the walk ends with an empty page *)
Theorem c20_complete : forall l ks kept limit, incr ks -> limit <> Some 0 -> (is_desc l = true -> kept = ks) ->
  let pg := fun c => model_page l ks kept c limit in
  concat (walk pg (S (length (model_expected l ks kept))) None) = model_expected l ks kept /\
  exists ps, walk pg (S (length (model_expected l ks kept))) None = ps ++ [[]].
Proof. exact model_walk_complete. Qed.

(* every page holds only current (unfiltered) keys strictly beyond the cursor *)
Theorem c20_page_sub : forall d m keep ks c limit x, In x (page_asc d m keep ks c limit) ->
  In x ks /\ keep x = true /\ (forall k, c = Some k -> k < x).
Proof. exact page_asc_sub. Qed.

Example c20_nonvacuous :
  let ks := [1; 2; 3; 5; 8; 13; 21; 34; 55; 89; 144; 233] in
  walk (fun c => model_page LSubkeysAllowances ks [1; 2; 13; 21; 34; 55; 89; 144; 233] c (Some 4)) 13 None =
    [[1; 2; 13; 21]; [34; 55; 89; 144]; [233]; []] /\
  walk (fun c => model_page LFlexReverse ks ks c None) 13 None = [[233; 144; 89; 55; 34; 21; 13; 8; 5; 3]; [2; 1]; []].
Proof. vm_compute. split; reflexivity. Qed.

Print Assumptions c20_constants.
Print Assumptions c20_bound.
Print Assumptions c20_zero.
Print Assumptions c20_complete.
Print Assumptions c20_page_sub.
