(* Props/C10.v — cw4-stake: stakes are fully backed, weight follows stake, exit only after delay. *)
Require Import CwPlus.Params CwPlus.Base CwPlus.AMap CwPlus.Cw4Model CwPlus.Cw4Snap CwPlus.Cw4Lemmas CwPlus.Cw4Check CwPlus.Cw4Lemmas2.
Open Scope N_scope.

(* over every history from every instantiation (honest staking token: it calls Receive only from
   inside its own Send): holdings = recorded stakes + unreleased claims + what was donated outside
   the protocol; hence holdings >= stakes + claims, with equality when funded only by bonding *)
Theorem c10_backed : forall m blk st cs, instantiate m blk = Ok st -> mono (height blk) cs ->
  Forall (honest_call (cfg st)) cs ->
  held (run st cs) = backing (run st cs) + donated st cs.
Proof. exact backed_history. Qed.

(* what every accepted call does to stakes and claims, for every state and input:
   Bond: only the configured native denom, exactly one coin, the caller's stake + n, nothing else;
   Receive: only from the configured cw20 contract, the stake of the cw20 sender + n;
   Unbond n: n <= the caller's stake, stake - n, one claim of n maturing unbonding_period after the block;
   Claim: pays the caller exactly the sum (> 0) of its matured claims in the staking token and removes
   exactly those; every other call leaves stakes and claims alone *)
Theorem c10_stake_ops : forall st blk sender o st' ms, step st blk sender o = Ok (st', ms) ->
  match o with
  | Bond funds =>
      exists d n, c_token (cfg st) = Native d /\ funds = [(d, n)] /\
        stake st' = set ordN (stake st) sender (getd ordN (stake st) sender + n) /\ claims st' = claims st /\
        getd ordN (stake st) sender + n <= u128max
  | Receive from n pok =>
      exists u, c_token (cfg st) = Cw20 sender /\ from = Some u /\ pok = true /\
        stake st' = set ordN (stake st) u (getd ordN (stake st) u + n) /\ claims st' = claims st
  | Unbond n =>
      exists rel, duration_after (c_unbond (cfg st)) blk = Some rel /\ n <= getd ordN (stake st) sender /\
        stake st' = set ordN (stake st) sender (getd ordN (stake st) sender - n) /\
        claims st' = set ordN (claims st) sender (get_claims st sender ++ [(n, rel)])
  | Claim =>
      let l := get_claims st sender in
      let rel := sum_claims (filter (matured blk) l) in
      0 < rel /\ ms = [Pay (c_token (cfg st)) sender rel] /\ stake st' = stake st /\
      claims st' = set ordN (claims st) sender (filter (fun c => negb (matured blk c)) l)
  | _ => stake st' = stake st /\ claims st' = claims st
  end.
Proof. exact stake_ops. Qed.

(* a claim created at block b is matured at block b' only if b' is at least the period after b *)
Theorem c10_delay : forall d b rel n b', duration_after d b = Some rel -> matured b' (n, rel) = true ->
  match d with
  | DHeight p => height b + p <= height b'
  | DTime s => time b + s * 1000000000 <= time b'
  end.
Proof. exact claim_delay. Qed.

(* in every reachable state of cw4-stake, for every address: the reported membership is exactly
   calc_weight of the recorded stake: None iff stake < max(min_bond, 1), otherwise the full quotient
   stake / tokens_per_weight, which fits u64 (never a wrapped or stale value) *)
Theorem c10_weight : forall m blk st cs a, instantiate m blk = Ok st -> i_stake m = true -> mono (height blk) cs ->
  let s := run st cs in
  calc_weight (cfg s) (q_staked s a) = Ok (q_member s a None) /\ 1 <= c_min_bond (cfg s).
Proof. exact weight_follows_stake. Qed.

Theorem c10_weight_meaning : forall c s w, calc_weight c s = Ok (Some w) ->
  w <= u64max /\ c_tpw c <> 0 /\ w = s / c_tpw c /\ c_min_bond c <= s.
Proof. exact calc_weight_u64. Qed.

(* "Claim pays exactly the user's matured claims, once", over every history and for every user: what the
   contract has paid to a, plus what a can still claim, is exactly what a has unbonded in accepted calls
   (from an instantiation; from any state: plus the claims a started with).  So no claim is ever paid
   twice, paid to anybody else, or dropped unpaid *)
Theorem c10_claims_ledger : forall a cs st,
  paid_total a st cs + sum_claims (get_claims (run st cs) a) = sum_claims (get_claims st a) + unbonded_total a st cs.
Proof. exact claims_ledger. Qed.
Theorem c10_claims_ledger_from_instantiate : forall m blk st a cs, instantiate m blk = Ok st ->
  paid_total a st cs + sum_claims (get_claims (run st cs) a) = unbonded_total a st cs.
Proof. exact claims_ledger_from_instantiate. Qed.
(* the step contract S_C10 that every run evaluates on the implementation, clauses 4..12 (which operation may
   pay; whose stake and claims move, by how much, with which release time; what holdings do; what a refused
   call leaves behind), never fires on the model's own transaction, accepted or refused, whenever the
   observations are the model's stakes, claims and holdings.  Partial: clauses 1..3 are state predicates
   (backing, exact backing, weight = calc_weight(stake)); for those the history theorems c10_backed and
   c10_weight above are the model-side statement, not a per-step contract lemma *)
Theorem c10_contract_ops_never_fire_on_model_partial : forall npool pure pre post st blk sender o dok st' ms,
  stake_obs pre st -> stake_obs post st' -> honest_call (cfg st) (blk, sender, o, dok) -> tx st blk sender o dok = (st', true, ms) ->
  s_c10 (cfg st) npool pure pre post blk sender o true true ms < 4.
Proof. exact s_c10_ops_sound_partial. Qed.
Theorem c10_contract_never_fires_on_refusal_partial : forall npool pure pre post st blk sender o hok ms,
  stake_obs pre st -> stake_obs post st -> pay_part ms = [] ->
  s_c10 (cfg st) npool pure pre post blk sender o hok false ms < 4.
Proof. exact s_c10_refused_sound_partial. Qed.

Example c10_ledger_example :
  exists st, instantiate (mkInit true None [] (mkCfg (Native 0) 10 0 (DHeight 5))) (mkBlock 10 0) = Ok st /\
    let cs := [(mkBlock 11 0, 1, Bond [(0, 95)], true); (mkBlock 12 0, 1, Unbond 30, true);
               (mkBlock 13 0, 1, Unbond 20, true); (mkBlock 17 0, 1, Claim, true); (mkBlock 17 0, 1, Claim, true);
               (mkBlock 18 0, 2, Claim, true)] in
    (paid_total 1 st cs, sum_claims (get_claims (run st cs) 1), unbonded_total 1 st cs, paid_total 2 st cs) = (30, 20, 50, 0).
Proof. eexists. split; [reflexivity|]. vm_compute. reflexivity. Qed.

Example c10_nonvacuous :
  exists st, instantiate (mkInit true None [] (mkCfg (Native 0) 10 0 (DHeight 5))) (mkBlock 10 0) = Ok st /\
    let cs := [(mkBlock 11 0, 1, Bond [(0, 95)], true); (mkBlock 12 0, 1, Unbond 30, true);
               (mkBlock 16 0, 1, Claim, true); (mkBlock 17 0, 1, Claim, true); (mkBlock 18 0, 2, Donate 7, true)] in
    let s := run st cs in
    (q_member s 1 None, q_staked s 1, held s, backing s, donated st cs) = (Some 6, 65, 72, 65, 7) /\
    q_claims (run st (firstn 3 cs)) 1 = [(30, AtHeight 17)] /\ q_claims (run st (firstn 4 cs)) 1 = [].
Proof. eexists. split; [reflexivity|]. vm_compute. repeat split. Qed.

Print Assumptions c10_backed.
Print Assumptions c10_stake_ops.
Print Assumptions c10_delay.
Print Assumptions c10_weight.
Print Assumptions c10_weight_meaning.
Print Assumptions c10_claims_ledger.
Print Assumptions c10_claims_ledger_from_instantiate.
Print Assumptions c10_contract_ops_never_fire_on_model_partial.
Print Assumptions c10_contract_never_fires_on_refusal_partial.
