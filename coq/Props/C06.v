(* Props/C06.v — cw3: each ballot is one eligible voter's weight from the proposal's own snapshot. *)
Require Import CwPlus.Params CwPlus.Base CwPlus.AMap CwPlus.Cw3Threshold CwPlus.Cw4Model CwPlus.Cw4Snap CwPlus.Cw4Lemmas
  CwPlus.Cw3Model CwPlus.Cw3Lemmas CwPlus.Cw3Lemmas2 CwPlus.Cw3Lemmas4.
Open Scope N_scope.

(* a vote is accepted only from an address with no ballot yet on that proposal, before expiry, on a
   proposal not executed, with weight >= 1 taken from the fixed voter list / from the group AT THE
   PROPOSAL'S START HEIGHT; it adds exactly that one ballot *)
Theorem c06_vote : forall ms gv blk sender id v ms' out, do_vote ms gv blk sender id v = Ok (ms', out) ->
  exists p w vs s, getp ms id = Some p /\ vote_power ms gv sender p = Some w /\ 1 <= w /\
    votable (p_status p) = true /\ is_expired (p_expires p) blk = false /\
    get ordN (p_ballots p) sender = None /\ add_vote (p_votes p) v w = Some vs /\ out = [] /\
    let p1 := mkProp (p_title p) (p_start p) (p_expires p) (p_msgs p) (p_status p) vs (p_threshold p)
                     (p_total p) (p_proposer p) (p_deposit p) (set ordN (p_ballots p) sender (w, v)) in
    prop_status p1 blk = Some s /\ ms' = set_prop ms id (with_status p1 s).
Proof. exact vote_spec. Qed.

(* ballots of existing proposals never change otherwise, nor do total, threshold, start height *)
Theorem c06_ballots_frame : forall ms gv blk sender o ms' out, MInv ms -> step ms gv blk sender o = Ok (ms', out) ->
  cfg_eq ms ms' /\
  forall id p, getp ms id = Some p ->
    exists q, getp ms' id = Some q /\ static_eq p q /\
      (p_ballots q = p_ballots p \/
       exists w v, o = Vote id v /\ get ordN (p_ballots p) sender = None /\ p_ballots q = set ordN (p_ballots p) sender (w, v)).
Proof. exact step_frame. Qed.

(* cw3-fixed, every reachable state: the total is the sum of the stored voters (repeated addresses
   are refused at instantiation), every ballot carries its voter's weight, ballots never outweigh the total *)
Theorem c06_fixed : forall m gv ms cs, instantiate m gv = Ok ms -> i_flex m = false ->
  let s := hrun ms cs in
  cfg_total s = sum (voters s) /\
  forall id p, getp s id = Some p -> p_total p = cfg_total s /\ tally (p_votes p) <= p_total p /\
    forall a w v, get ordN (p_ballots p) a = Some (w, v) -> get ordN (voters s) a = Some w.
Proof. exact fixed_reachable. Qed.

(* cw3-flex: a vote's weight is the group's answer for the proposal's start height ... *)
Theorem c06_flex_vote : forall ms g blk sender id v ms' out,
  flex ms = true -> do_vote ms (gview_of g) blk sender id v = Ok (ms', out) ->
  exists p q w, getp ms id = Some p /\ getp ms' id = Some q /\
    m_at (members g) sender (p_start p) = Some w /\ 1 <= w /\
    get ordN (p_ballots p) sender = None /\ p_ballots q = set ordN (p_ballots p) sender (w, v).
Proof. exact flex_vote_snapshot. Qed.

(* ... and that answer never changes afterwards, whatever happens to the group (C09: history frozen) *)
Theorem c06_later_changes_irrelevant : forall cs g top, WInv g top -> mono top cs ->
  forall a h, h <= top -> m_at (members (Cw4Model.run g cs)) a h = m_at (members g) a h.
Proof. intros cs g top HW Hm a h Hh. exact (proj1 (proj2 (proj2 (proj2 (run_spec cs g top HW Hm)))) a h Hh). Qed.

(* the proposer's weight and the total of a new proposal are those of the same start-of-block
   snapshot PROVIDED the group was not changed earlier in that block ... *)
Theorem c06_flex_propose_outside_known : forall ms g top blk sender title msgs latest funds ms' out,
  flex ms = true -> Cw4Lemmas.Inv g top -> unchanged_in_block g (height blk) ->
  propose ms (gview_of g) blk sender title msgs latest funds = Ok (ms', out) ->
  exists p, getp ms' (pcount ms') = Some p /\ p_start p = height blk /\
    get ordN (p_ballots p) sender = (match m_at (members g) sender (height blk) with
                                     | Some w => Some (w, VYes) | None => None end) /\
    m_at (members g) sender (height blk) <> None /\
    p_total p = m_sum (members g).
Proof. exact flex_propose_snapshot. Qed.

(* over EVERY interleaving of multisig calls (any callers, nested ones included) and transactions on
   the backing group (both models), in non-decreasing blocks, that stays outside class D3 (no Propose
   accepted in a block in which the group was changed earlier): the ballots of every proposal never
   outweigh its total, because total, proposer weight and every voter's weight all come from the one
   group state the proposal was opened against *)
Theorem c06_flex_ballots_within_total : forall cs w top id p,
  Cw3Lemmas4.FInv w top -> fmono top cs -> outside_d3 w cs ->
  getp (fst (frun w cs)) id = Some p -> tally (p_votes p) <= p_total p.
Proof. exact flex_ballots_within_total. Qed.

Theorem c06_flex_initial : forall m gv ms g top, Cw3Model.instantiate m gv = Ok ms -> i_flex m = true ->
  Cw4Lemmas.WInv g top -> Cw3Lemmas4.FInv (ms, g) top.
Proof. exact flex_initial. Qed.

(* ... and NOT otherwise: known finding D3 (a concrete history of the faithful model in which the
   ballots, 11, outweigh the recorded total, 2) *)
Theorem c06_refuted :
  exists g0 g1 ms1 ms2 p,
    d3_group0 = Ok g0 /\
    g1 = Cw4Model.tx_state g0 (mkBlock 20 0, 9, UpdateMembers [] [Some 3], true) /\
    propose (mkMs true [] 0 (AbsCount 2) (DHeight 5) None None [] 0) (gview_of g1) (mkBlock 20 0) 1 1 [] None [] = Ok (ms1, []) /\
    do_vote ms1 (gview_of g1) (mkBlock 21 0) 3 1 VYes = Ok (ms2, []) /\
    getp ms2 1 = Some p /\ p_total p = 2 /\ tally (p_votes p) = 11 /\
    ~ unchanged_in_block g1 20.
Proof. exact d3_refuted. Qed.

Print Assumptions c06_vote.
Print Assumptions c06_ballots_frame.
Print Assumptions c06_fixed.
Print Assumptions c06_flex_vote.
Print Assumptions c06_later_changes_irrelevant.
Print Assumptions c06_flex_propose_outside_known.
Print Assumptions c06_flex_ballots_within_total.
Print Assumptions c06_flex_initial.
Print Assumptions c06_refuted.
