(* Props/C05.v — cw3: passed proposals execute at most once; the lifecycle only moves forward. *)
Require Import CwPlus.Params CwPlus.Base CwPlus.AMap CwPlus.Cw3Threshold CwPlus.Cw4Model CwPlus.Cw3Model
  CwPlus.Cw3ThresholdLemmas CwPlus.Cw3Lemmas CwPlus.Cw3Lemmas2 CwPlus.Cw3Lemmas3 CwPlus.Cw4Lemmas CwPlus.Cw3Lemmas4 CwPlus.Cw3Lemmas5.
Open Scope N_scope.

(* Execute is accepted only while the proposal's status (the same function the queries report) is
   Passed and, on a flex multisig with an executor rule, only for an authorised caller; it emits the
   deposit refund (if any) followed by exactly the proposed messages, and marks the proposal Executed *)
Theorem c05_exec_guard : forall ms gv blk sender id ms' out, do_execute ms gv blk sender id = Ok (ms', out) ->
  exists p, getp ms id = Some p /\ prop_status p blk = Some Passed /\
    (flex ms = true -> authorized ms gv sender = true) /\
    out = (match p_deposit p with Some d => [refund_msg d (p_proposer p)] | None => [] end) ++ map EUser (p_msgs p) /\
    ms' = set_prop ms id (with_status p Executed).
Proof. exact execute_spec. Qed.

(* Close is accepted only on an expired proposal whose status is not Passed (and not yet settled);
   it dispatches nothing but, at most, the deposit refund *)
Theorem c05_close_guard : forall ms blk id ms' out, do_close ms blk id = Ok (ms', out) ->
  exists p s, getp ms id = Some p /\ (p_status p = Open \/ p_status p = Pending) /\
    prop_status p blk = Some s /\ s <> Passed /\ is_expired (p_expires p) blk = true /\
    out = (match p_deposit p with
           | Some d => if d_refund_failed d then [refund_msg d (p_proposer p)] else []
           | None => [] end) /\
    ms' = set_prop ms id (with_status p Rejected).
Proof. exact close_spec. Qed.

(* over EVERY history of handler calls from a reachable state — any callers, the multisig itself
   included (re-entrant and nested calls are just further handler calls), any blocks, any group views,
   failed calls rolled back — a proposal is settled (Execute or Close accepted) at most once: in
   particular its messages are dispatched at most once in its lifetime *)
Theorem c05_once : forall cs ms id, MInv ms -> (settle_count id ms cs <= 1)%nat.
Proof. exact settle_at_most_once. Qed.

(* once Executed or stored Rejected, every later Execute / Close of that proposal fails, whatever is
   called in between *)
Theorem c05_finished_stays : forall ms gv blk sender o ms' out id, MInv ms -> finished ms id ->
  step ms gv blk sender o = Ok (ms', out) -> finished ms' id /\ o <> Execute id /\ o <> Close id.
Proof. exact finished_step. Qed.

(* content, threshold, total, proposer, start height, expiry and deposit of an existing proposal never
   change; its ballots change only by the voter's own new ballot; the configuration never changes *)
Theorem c05_immutable : forall ms gv blk sender o ms' out, MInv ms -> step ms gv blk sender o = Ok (ms', out) ->
  cfg_eq ms ms' /\
  forall id p, getp ms id = Some p ->
    exists q, getp ms' id = Some q /\ static_eq p q /\
      (p_ballots q = p_ballots p \/
       exists w v, o = Vote id v /\ get ordN (p_ballots p) sender = None /\ p_ballots q = set ordN (p_ballots p) sender (w, v)).
Proof. exact step_frame. Qed.

(* a new proposal gets the next id (ids are 1,2,3,... in creation order), starts at the current
   height and never expires later than max_voting_period after the current block; an expiry of the
   other kind than the period is refused *)
Theorem c05_propose : forall ms gv blk sender title msgs latest funds ms' out,
  propose ms gv blk sender title msgs latest funds = Ok (ms', out) ->
  exists power max_exp expires s id,
    propose_power ms gv sender = Some power /\ duration_after (cfg_period ms) blk = Some max_exp /\
    (exp_cmp expires max_exp = Some Lt \/ exp_cmp expires max_exp = Some Eq \/ expires = max_exp) /\
    add64 (pcount ms) 1 = Some id /\
    (flex ms = true -> forall d, cfg_deposit ms = Some d -> native_deposit_paid d funds = true) /\
    let dep := if flex ms then cfg_deposit ms else None in
    let total := if flex ms then g_total gv else cfg_total ms in
    let p0 := mkProp title (height blk) expires msgs Open (mkVotes power 0 0 0) (cfg_threshold ms) total sender dep
                     [(sender, (power, VYes))] in
    prop_status p0 blk = Some s /\ out = take_msgs dep sender /\
    ms' = mkMs (flex ms) (voters ms) (cfg_total ms) (cfg_threshold ms) (cfg_period ms) (cfg_executor ms) (cfg_deposit ms)
               (set ordN (proposals ms) id (with_status p0 s)) id.
Proof. exact propose_spec. Qed.

(* the invariant assumed above (ids within 1..count, tallies = ballots, Passed/Executed have Yes
   weight) holds in every state reachable from every accepted instantiation *)
Theorem c05_reachable : forall m gv ms cs, instantiate m gv = Ok ms -> MInv (hrun ms cs).
Proof. exact reachable_inv. Qed.

(* observed over time the status only moves forward: what a query reports for a proposal before a
   call (at block b0) and after it (at block b2), blocks not going backwards, is related by
   Open -> {Open, Passed, Rejected, Executed}, Passed -> {Passed, Executed}, Rejected -> Rejected,
   Executed -> Executed.  `prange` (ballots within the total, rule validated, total <= u64) is the
   range condition of C06: on cw3-fixed it holds in every reachable state (c06_fixed). *)
Theorem c05_monotone : forall ms gv b0 b1 b2 sender o ms' out id p q s s',
  MInv ms -> step ms gv b1 sender o = Ok (ms', out) ->
  getp ms id = Some p -> getp ms' id = Some q -> prange p -> prange q ->
  block_le b0 b1 -> block_le b1 b2 ->
  prop_status p b0 = Some s -> prop_status q b2 = Some s' -> forward s s' = true.
Proof. exact status_moves_forward. Qed.

(* THE LIFECYCLE OVER WHOLE HISTORIES, range condition discharged.  cw3-fixed: take any history cs1,
   look at proposal id at a block bq not before the last call, continue with any history cs2 (blocks
   not going backwards) and look again at bq' not before its last call: the two reported statuses are
   related by `forward` (Open -> anything, Passed -> Passed | Executed, Rejected -> Rejected,
   Executed -> Executed) *)
Theorem c05_fixed_history : forall m gv ms cs1 cs2 b0 bq bq' id p q s s',
  instantiate m gv = Ok ms -> i_flex m = false -> hmono b0 cs1 -> block_le (hlast b0 cs1) bq -> hmono bq cs2 ->
  block_le (hlast bq cs2) bq' ->
  getp (hrun ms cs1) id = Some p -> getp (hrun (hrun ms cs1) cs2) id = Some q ->
  prop_status p bq = Some s -> prop_status q bq' = Some s' -> forward s s' = true.
Proof. exact fixed_forward_history. Qed.
(* cw3-flex with its group, every interleaving of multisig calls and group transactions outside D3 *)
Theorem c05_flex_history : forall m gv ms g cs1 cs2 b0 bq bq' id p q s s',
  Cw3Model.instantiate m gv = Ok ms -> i_flex m = true -> Cw4Lemmas.WInv g (height b0) ->
  fbmono b0 cs1 -> outside_d3 (ms, g) (cs1 ++ cs2) ->
  block_le (flast b0 cs1) bq -> fbmono bq cs2 -> block_le (flast bq cs2) bq' ->
  getp (fst (frun (ms, g) cs1)) id = Some p -> getp (fst (frun (frun (ms, g) cs1) cs2)) id = Some q ->
  prop_status p bq = Some s -> prop_status q bq' = Some s' -> forward s s' = true.
Proof. exact flex_forward_history. Qed.
Example c05_history_nonvacuous :
  exists ms, instantiate (mkInit false [(Some 1, 2); (Some 2, 1); (Some 3, 1)] (AbsCount 3) (DHeight 5) None None true) gview_none = Ok ms /\
    let cs1 := [(gview_none, mkBlock 10 0, 1, Propose 7 [PBank 3 5] None [])] in
    let cs2 := [(gview_none, mkBlock 11 0, 2, Vote 1 VYes); (gview_none, mkBlock 12 0, 3, Execute 1)] in
    hmono (mkBlock 10 0) cs1 /\ hmono (mkBlock 10 0) cs2 /\
    q_status (hrun ms cs1) (mkBlock 10 0) 1 = Some Open /\ q_status (hrun (hrun ms cs1) cs2) (mkBlock 12 0) 1 = Some Executed.
Proof.
  eexists. split; [reflexivity|]. cbv zeta. split; [apply hmono_b_sound; vm_compute; reflexivity|].
  split; [apply hmono_b_sound; vm_compute; reflexivity|]. split; vm_compute; reflexivity.
Qed.
Example c05_nonvacuous :
  exists ms, instantiate (mkInit false [(Some 1, 2); (Some 2, 1)] (AbsCount 2) (DHeight 5) None None true) gview_none = Ok ms /\
    let cs := [(gview_none, mkBlock 10 0, 1, Propose 7 [PSelfExec 1; PBank 3 5] None []);
               (gview_none, mkBlock 11 0, 2, Execute 1);
               (gview_none, mkBlock 11 0, 1000, Execute 1);      (* the re-entrant call of its own first message *)
               (gview_none, mkBlock 12 0, 1, Execute 1)] in
    settle_count 1 ms cs = 1%nat /\ q_status (hrun ms cs) (mkBlock 12 0) 1 = Some Executed.
Proof. eexists. split; [reflexivity|]. vm_compute. split; reflexivity. Qed.

Print Assumptions c05_exec_guard.
Print Assumptions c05_close_guard.
Print Assumptions c05_once.
Print Assumptions c05_finished_stays.
Print Assumptions c05_immutable.
Print Assumptions c05_propose.
Print Assumptions c05_reachable.
Print Assumptions c05_monotone.
Print Assumptions c05_fixed_history.
Print Assumptions c05_flex_history.
