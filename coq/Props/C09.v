(* Props/C09.v — cw4: totals and point-in-time member weights always match the true history. *)
Require Import CwPlus.Params CwPlus.Base CwPlus.AMap CwPlus.Cw4Model CwPlus.Cw4Snap CwPlus.Cw4Lemmas CwPlus.Cw4Check CwPlus.Cw4Lemmas2.
Open Scope N_scope.

(* in every state reachable from any accepted instantiation (cw4-group or cw4-stake) by any history
   of calls in non-decreasing blocks: the reported total is the sum of the listed weights (<= u64) *)
Theorem c09_total_sum : forall m blk st cs, instantiate m blk = Ok st -> mono (height blk) cs ->
  q_total (run st cs) None = sumN (map snd (q_list_all (run st cs))) /\ q_total (run st cs) None <= u64max.
Proof. exact total_is_sum. Qed.

(* Member{a, at_height = h}, for EVERY address and EVERY height (before instantiation up to the future):
   nothing for h up to the instantiation block, otherwise the weight a had after the last call made
   in a block < h, i.e. the value at the start of block h, unaffected by changes in block h or later *)
Theorem c09_member_at : forall m blk st cs a h, instantiate m blk = Ok st -> mono (height blk) cs ->
  q_member (run st cs) a (Some h) =
  if h <=? height blk then None else q_member (run st (before h cs)) a None.
Proof. exact member_at_history. Qed.

(* the same for cw4-group's TotalWeight{at_height} *)
Theorem c09_total_at : forall m blk st cs h, instantiate m blk = Ok st -> i_stake m = false -> mono (height blk) cs ->
  q_total (run st cs) (Some h) = if h <=? height blk then 0 else q_total (run st (before h cs)) None.
Proof. exact total_at_history. Qed.

(* soundness of the step contract S_C09 evaluated on the implementation: ANY sequence of observations
   in which every call leaves the answers for h <= its block unchanged and answers the current value
   for h > its block gives at-height answers equal to the value before the first call in a block >= h *)
Theorem c09_sound : forall p l, (forall h, a_h p < h -> a_at p h = a_cur p) -> chain p l ->
  forall h, a_h p < h -> a_at (final p l) h = value_before h p l.
Proof. exact frozen_chain_sound. Qed.

(* every transaction of the model satisfies that step contract, for every address *)
Theorem c09_model : forall st c top a, WInv st top -> top <= height (c_blk c) ->
  frozen_step (aobs_member st top a) (aobs_member (tx_state st c) (height (c_blk c)) a).
Proof. exact tx_frozen_step. Qed.

(* the true history, one step: an accepted UpdateMembers (no address twice in the add list, or the call is refused)
   leaves every removed address without membership, gives every other added address the weight listed for it, and
   touches nobody else (S_C09 clause 8 checks exactly this on the implementation) *)
Theorem c09_update_members_pointwise : forall st blk sender add rem st' ms top,
  Inv st top -> top <= height blk -> update_members st blk sender add rem = Ok (st', ms) ->
  exists add' rem', validate_members add = Some add' /\ validate_args rem = Some rem' /\
    has_dup (sort_members add') = false /\
    forall a, m_cur (members st') a =
      if existsb (N.eqb a) rem' then None
      else match lassoc (sort_members add') a with Some w => Some w | None => m_cur (members st) a end.
Proof. exact update_members_pointwise. Qed.
(* the step-contract clause S_C09/8 that every run evaluates on the implementation (computed from the
   SUBMITTED add/remove lists: any removal wins, otherwise the last weight given, otherwise unchanged) never
   fires on the model's own accepted UpdateMembers, whenever the observed point queries are the model's *)
Theorem c09_update_contract_never_fires_on_model : forall npool pre post st blk sender add rem st' ms top,
  Inv st top -> top <= height blk ->
  (forall a, lookup (ob_now pre) a = m_cur (members st) a) ->
  (forall a, lookup (ob_now post) a = m_cur (members st') a) ->
  update_members st blk sender add rem = Ok (st', ms) ->
  s_c09_update npool pre post (UpdateMembers add rem) true = 0.
Proof. exact s_c09_update_sound. Qed.

Example c09_nonvacuous :
  exists st, instantiate (mkInit false (Some (Some 0)) [(Some 1, 5); (Some 2, 7)] cfg_default) (mkBlock 10 0) = Ok st /\
    let cs := [(mkBlock 12 0, 0, UpdateMembers [(Some 1, 9)] [Some 2], true);
               (mkBlock 12 0, 0, UpdateMembers [(Some 2, 4)] [], true);
               (mkBlock 15 0, 0, UpdateMembers [] [Some 1], true)] in
    map (fun h => (q_member (run st cs) 1 (Some h), q_total (run st cs) (Some h))) [10; 11; 12; 13; 15; 16] =
      [(None, 0); (Some 5, 12); (Some 5, 12); (Some 9, 13); (Some 9, 13); (None, 4)] /\
    mono 10 cs.
Proof. eexists. split; [reflexivity|]. split; [vm_compute; reflexivity|cbn; lia]. Qed.

Print Assumptions c09_total_sum.
Print Assumptions c09_member_at.
Print Assumptions c09_total_at.
Print Assumptions c09_sound.
Print Assumptions c09_model.
Print Assumptions c09_update_members_pointwise.
Print Assumptions c09_update_contract_never_fires_on_model.
