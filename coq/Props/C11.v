(* Props/C11.v — cw20-ics20: escrow always covers outstanding vouchers, channel by channel. *)
Require Import CwPlus.Params CwPlus.Base CwPlus.AMap CwPlus.Ics20Model CwPlus.Ics20Lemmas CwPlus.Ics20Lemmas2 CwPlus.Ics20Lemmas3.
Open Scope N_scope.

(* For every honest key (every native denom; every cw20 token that calls Receive only from inside its
   own Send), over EVERY history of transfers, cw20 sends, incoming packets with arbitrary contents,
   acknowledgements, timeouts and donations, in any order, with payouts and refunds failing at
   arbitrary points: the contract's holdings cover the sum over channels of the outstanding balance.
   (Someone calling Receive directly only creates state under its own, dishonest, key.) *)
Theorem c11_solvent : forall H cs w, WInv H w -> Forall (honest_call H) cs -> WInv H (wrun w cs).
Proof. exact solvent_history. Qed.

Theorem c11_solvent_meaning : forall H w k, WInv H w -> H k = true -> ksum (chan_state (w_st w)) k <= hold w k.
Proof. intros H w k [_ S] Hk. apply S. exact Hk. Qed.

(* a freshly instantiated contract (nothing outstanding) satisfies the invariant whatever it holds *)
Theorem c11_initial : forall H m st hold0, instantiate m = Ok st -> WInv H (mkW st hold0).
Proof.
  intros H m st hold0 Hi. constructor; [apply (instantiate_inv _ _ Hi)|].
  intros k _. unfold instantiate in Hi. destruct (i_gov m); [|discriminate]. destruct (save_allow (i_allow m) []); [|discriminate].
  inversion Hi; subst. cbn. lia.
Qed.

(* per channel and key, in every reachable state: outstanding <= total_sent, i.e. what was paid out
   (redemptions plus refunds) on a channel never exceeds what transfers escrowed on that channel *)
Theorem c11_per_channel : forall H w c k s, WInv H w -> get_cs (w_st w) c k = Some s ->
  outstanding s <= total_sent s /\ total_sent s <= u128max.
Proof. exact per_channel_bound. Qed.

(* packets that are unparsable, name another port or channel, a foreign denomination, or more than
   the receiving channel's outstanding balance: error acknowledgement, no payout, no state change *)
Theorem c11_foreign_nothing : forall st p,
  (match ip_data p with
   | Some d => match parse_voucher p (pd_denom d) with
               | Some (BKey k) => out_of st (ip_dest_chan p) k < pd_amount d
               | _ => True end
   | None => True end) ->
  do_receive st p = (st, AckErr, []).
Proof. exact foreign_packet_releases_nothing. Qed.

(* ... and the same with migrations anywhere in the history, the balance-rewriting ones (from the 0.11
   - 0.13 layouts, which set outstanding := actual escrow for the single open channel) included.
   chan_ok: every channel-state entry belongs to a registered channel (true initially, kept by all) *)
Theorem c11_solvent_with_migrations : forall H cs w, WInv H w -> chan_ok (w_st w) -> Forall (honest_call2 H) cs ->
  WInv H (wrun w cs) /\ chan_ok (w_st (wrun w cs)).
Proof. exact solvent_history_all. Qed.

Theorem c11_initial_chan_ok : forall m st, instantiate m = Ok st -> chan_ok st.
Proof. exact instantiate_chan_ok. Qed.

Example c11_nonvacuous :
  exists st, instantiate (mkInit 100 (Some 5) (Some 0) [] [1; 7]) = Ok st /\
    let w := mkW st [] in
    let cs := [(mkBlock 1 0, WExec 3 (Transfer 1 9 None None [(DPlain 0, 100)]));
               (mkBlock 2 0, WSendCw20 5 3 60 (Some (7, 9, None, None)));
               (mkBlock 3 0, WRecv (mkIn 0 15 1 (Some (mkPd 30 (PVoucher 0 15 (BKey 0)) None (Some 4) None))) true);
               (mkBlock 3 0, WRecv (mkIn 0 15 1 (Some (mkPd 500 (PVoucher 0 15 (BKey 0)) None (Some 4) None))) true);
               (mkBlock 4 0, WFail (mkOut 7 60 11 3 9 None 0) false)] in
    let w' := wrun w cs in
    (hold w' 0, ksum (chan_state (w_st w')) 0, hold w' 11, ksum (chan_state (w_st w')) 11) = (70, 70, 60, 0).
Proof. eexists. split; [reflexivity|]. vm_compute. reflexivity. Qed.

Print Assumptions c11_solvent.
Print Assumptions c11_solvent_meaning.
Print Assumptions c11_initial.
Print Assumptions c11_per_channel.
Print Assumptions c11_foreign_nothing.
Print Assumptions c11_solvent_with_migrations.
Print Assumptions c11_initial_chan_ok.
