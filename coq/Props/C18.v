(* Props/C18.v — cw20-ics20: the token allow-list is governance-only and only ever loosens. *)
Require Import CwPlus.Params CwPlus.Base CwPlus.AMap CwPlus.Ics20Model CwPlus.Ics20Lemmas CwPlus.Ics20Lemmas2 CwPlus.Ics20Lemmas3 CwPlus.Ics20Lemmas5.
Open Scope N_scope.

(* every accepted execute call: the allow list only loosens (no entry disappears, no gas limit is
   lowered, unlimited stays unlimited); the allow list or the governance address change only in a call
   by the current governance address; the default gas limit and timeout never change *)
Theorem c18_gov_only : forall st blk sender o st' ms, Inv st -> step st blk sender o = Ok (st', ms) ->
  loosens (allow st) (allow st') /\
  ((allow st' <> allow st \/ admin st' <> admin st) -> admin st = Some sender) /\
  default_gas st' = default_gas st /\ default_timeout st' = default_timeout st.
Proof. exact governance_only. Qed.

(* the IBC entry points leave allow list, governance and default gas limit alone *)
Theorem c18_ibc_frame : forall st p pay_ok st' a ms, Inv st -> tx_receive st p pay_ok = Some (st', a, ms) ->
  allow st' = allow st /\ admin st' = admin st /\ default_gas st' = default_gas st.
Proof. exact ibc_keeps_governance. Qed.
Theorem c18_failure_frame : forall st p st' ms, Inv st -> on_failure st p = Ok (st', ms) -> same_but_cs st st'.
Proof. intros st p st' ms HI H. destruct (failure_spec _ _ _ _ HI H) as (g & _ & _ & _ & _ & _ & _ & S). exact S. Qed.

(* migrate (the chain's migration authority, not an execute call) never touches the allow list, sets
   the governance address only when converting the pre-allow-list layout (to the address stored
   there), and keeps the default gas limit unless asked to replace it *)
Theorem c18_migrate : forall st g ok bal st', migrate st g ok bal = Ok st' ->
  allow st' = allow st /\
  (ver st <> V1 -> admin st' = admin st) /\
  (ver st = V1 -> admin st' = v1_gov st /\ default_gas st' = g) /\
  (ver st <> V1 -> default_gas st' = match g with Some x => Some x | None => default_gas st end).
Proof. exact migrate_governance. Qed.

(* a cw20 transfer is accepted only if the token is on the allow list or a default gas limit is set *)
Theorem c18_gate : forall st blk tok from n tmsg fa st' ms, Inv st ->
  step st blk tok (Receive from n tmsg fa) = Ok (st', ms) ->
  default_gas st <> None \/ get ordN (allow st) tok <> None.
Proof. exact cw20_gate. Qed.

(* every payout / refund sub-message (c12_ack_ok, c12_failed_send) carries check_gas_limit's answer:
   none for native tokens; for a cw20 the token's own limit when it is on the list, else the default *)
Theorem c18_payout_gas : forall st k gas, check_gas_limit st k = Some gas ->
  (key_is_cw20 k = false -> gas = None) /\
  (key_is_cw20 k = true ->
     match get ordN (allow st) (key_addr k) with
     | Some g => gas = g
     | None => exists b, default_gas st = Some b /\ gas = Some b
     end).
Proof. exact payout_gas. Qed.

(* loosening composes, so an allowed token stays allowed, with at least its limit, for ever *)
Theorem c18_loosens_trans : forall a b c, loosens a b -> loosens b c -> loosens a c.
Proof. exact loosens_trans. Qed.

(* over EVERY history of world operations - calls by anybody, cw20 sends, incoming packets with either payout
   outcome, acknowledgements, timeouts, donations and migrations, in any order - the allow list only ever
   loosens: a token once allowed stays allowed, and its gas limit never gets tighter *)
Theorem c18_allow_only_loosens_history : forall cs w, Inv (w_st w) ->
  Inv (w_st (wrun w cs)) /\ loosens (allow (w_st w)) (allow (w_st (wrun w cs))).
Proof. exact allow_only_loosens. Qed.

(* what a single world operation may do to the governance data: only a call by the governance address (Allow /
   UpdateAdmin) moves the allow list or the address; migrate keeps the list, keeps the address unless it
   converts the V1 layout, and replaces the default gas limit only as asked; everything else - transfers,
   packets, acknowledgements, timeouts, donations - leaves all three alone *)
Theorem c18_world_step : forall w blk o, Inv (w_st w) ->
  Inv (w_st (wstep w blk o)) /\ gov_step w o (w_st (wstep w blk o)).
Proof. exact wstep_gov. Qed.

(* hence a history without governance calls and migrations changes none of them *)
Theorem c18_no_governance_call_no_change : forall cs w, Inv (w_st w) -> Forall not_gov cs ->
  gov_frame (w_st w) (w_st (wrun w cs)).
Proof. exact no_gov_call_no_change. Qed.

Example c18_nonvacuous :
  exists st, instantiate (mkInit 100 None (Some 0) [(Some 5, Some 7)] [1]) = Ok st /\
    is_ok (step st (mkBlock 1 0) 0 (Allow (Some 5) (Some 6))) = false /\
    is_ok (step st (mkBlock 1 0) 0 (Allow (Some 5) (Some 9))) = true /\
    is_ok (step st (mkBlock 1 0) 0 (Allow (Some 5) None)) = true /\
    is_ok (step st (mkBlock 1 0) 3 (Allow (Some 6) None)) = false /\
    is_ok (step st (mkBlock 1 0) 6 (Receive (Some 3) 5 (Some (1, 9, None, None)) false)) = false /\
    is_ok (step st (mkBlock 1 0) 5 (Receive (Some 3) 5 (Some (1, 9, None, None)) false)) = true.
Proof. eexists. split; [reflexivity|]. vm_compute. repeat split. Qed.

Print Assumptions c18_gov_only.
Print Assumptions c18_ibc_frame.
Print Assumptions c18_failure_frame.
Print Assumptions c18_migrate.
Print Assumptions c18_gate.
Print Assumptions c18_payout_gas.
Print Assumptions c18_loosens_trans.
Print Assumptions c18_allow_only_loosens_history.
Print Assumptions c18_world_step.
Print Assumptions c18_no_governance_call_no_change.
