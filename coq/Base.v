(* Base.v — shared conventions of all models (DESIGN.md section 4).
   Numbers are N; every Rust arithmetic site is modelled by the operation the code uses,
   with None standing for a panic/abort (or an Err of a checked operation). *)
From Coq Require Export NArith List Bool Lia.
Export ListNotations.
Open Scope N_scope.

Arguments N.add : simpl never.
Arguments N.sub : simpl never.
Arguments N.mul : simpl never.
Arguments N.div : simpl never.
Arguments N.modulo : simpl never.
Arguments N.eqb : simpl never.
Arguments N.ltb : simpl never.
Arguments N.leb : simpl never.
Arguments N.pow : simpl never.

Definition u64max : N := 18446744073709551615.
Definition u128max : N := 340282366920938463463374607431768211455.
Definition two64 : N := 18446744073709551616.

(* checked arithmetic: None = the Rust code panics (overflow checks are on in dev and in the
   workspace's release profile) or a checked_* operation returns Err *)
Definition add64 (a b : N) : option N := let s := a + b in if s <=? u64max then Some s else None.
Definition sub64 (a b : N) : option N := if b <=? a then Some (a - b) else None.
Definition add128 (a b : N) : option N := let s := a + b in if s <=? u128max then Some s else None.
Definition sub128 (a b : N) : option N := if b <=? a then Some (a - b) else None.

Definition obind {A B} (o : option A) (f : A -> option B) : option B :=
  match o with Some a => f a | None => None end.
Notation "'do' x <- e ; f" := (obind e (fun x => f)) (at level 200, x name, e at level 100, f at level 200).

(* outcome of a contract call: Ok, contract error, or abort (panic). Both failures roll back. *)
Inductive result (A : Type) := Ok (a : A) | Err | Abort.
Arguments Ok {A} a.
Arguments Err {A}.
Arguments Abort {A}.
Definition rbind {A B} (r : result A) (f : A -> result B) : result B :=
  match r with Ok a => f a | Err => Err | Abort => Abort end.
Notation "'dor' x <- e ; f" := (rbind e (fun x => f)) (at level 200, x name, e at level 100, f at level 200).
Definition is_ok {A} (r : result A) : bool := match r with Ok _ => true | _ => false end.
Definition of_opt_abort {A} (o : option A) : result A := match o with Some a => Ok a | None => Abort end.
Definition of_opt_err {A} (o : option A) : result A := match o with Some a => Ok a | None => Err end.

(* blocks and expirations, as cw-utils 2.0.0 *)
Record block := mkBlock { height : N; time : N }.
Inductive expiration := AtHeight (h : N) | AtTime (t : N) | Never.
Definition is_expired (e : expiration) (b : block) : bool :=
  match e with
  | AtHeight h => h <=? height b
  | AtTime t => t <=? time b
  | Never => false
  end.
Definition exp_eqb (a b : expiration) : bool :=
  match a, b with
  | AtHeight x, AtHeight y => x =? y
  | AtTime x, AtTime y => x =? y
  | Never, Never => true
  | _, _ => false
  end.
Lemma exp_eqb_eq a b : exp_eqb a b = true <-> a = b.
Proof.
  destruct a, b; simpl; split; intros H; try discriminate; try reflexivity;
    try (apply N.eqb_eq in H; subst; reflexivity); try (inversion H; apply N.eqb_refl).
Qed.

Definition opt_eqb {A} (eqb : A -> A -> bool) (a b : option A) : bool :=
  match a, b with Some x, Some y => eqb x y | None, None => true | _, _ => false end.

Fixpoint list_eqb {A} (eqb : A -> A -> bool) (a b : list A) : bool :=
  match a, b with
  | [], [] => true
  | x :: a', y :: b' => eqb x y && list_eqb eqb a' b'
  | _, _ => false
  end.
Lemma list_eqb_eq {A} (eqb : A -> A -> bool) :
  (forall x y, eqb x y = true <-> x = y) -> forall a b, list_eqb eqb a b = true <-> a = b.
Proof.
  intros He a. induction a as [|x a IH]; intros [|y b]; simpl; split; intros H;
    try discriminate; try reflexivity.
  - apply andb_true_iff in H. destruct H as [H1 H2]. apply He in H1. apply IH in H2. subst. reflexivity.
  - inversion H; subst. apply andb_true_iff. split; [apply He; reflexivity | apply IH; reflexivity].
Qed.

Definition sumN (l : list N) : N := fold_right N.add 0 l.

(* the report of one history: a concrete step-contract clause (code >= 100), found possibly after the
   model and the implementation had already parted, is preferred to the divergence that preceded it *)
Definition prefer_clause (l : list (N * N)) : list (N * N) :=
  match find (fun x => 100 <=? snd x) l with
  | Some x => [x]
  | None => match l with x :: _ => [x] | [] => [] end
  end.
