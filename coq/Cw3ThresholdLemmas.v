(* Cw3ThresholdLemmas.v — proofs about model F2 (C04; reused by C03/C05). *)
Require Import CwPlus.Params CwPlus.Base CwPlus.Cw3Threshold.
From Coq Require Import ZArith Lia ZifyBool ZifyN.
Open Scope N_scope.

Ltac unfold_consts := unfold PF, DEN, precision_factor, u64max, u128max, two64 in *.

(* ---- integer division facts over Z (as in the design probe) ---- *)
Lemma Zge_ceil_div y a d : (0 < d -> (y >= (a + d - 1) / d <-> y * d >= a))%Z.
Proof.
  intros Hd. split; intros H.
  - assert ((a + d - 1) / d * d > a + d - 1 - d)%Z
      by (pose proof (Z.mod_pos_bound (a+d-1) d Hd); pose proof (Z.div_mod (a+d-1) d); nia).
    nia.
  - assert (a + d - 1 < (y + 1) * d)%Z by nia.
    assert ((a + d - 1) / d < y + 1)%Z by (apply Z.div_lt_upper_bound; lia). lia.
Qed.

Lemma Zge_floor_div x a d : (0 < d -> (x >= a / d <-> (x + 1) * d > a))%Z.
Proof.
  intros Hd. split; intros H.
  - pose proof (Z.mod_pos_bound a d Hd); pose proof (Z.div_mod a d); nia.
  - assert (a / d < x + 1)%Z by (apply Z.div_lt_upper_bound; lia). lia.
Qed.

(* the pure quotient the code computes *)
Definition vn (w p : N) : N := ((PF * w * p) / DEN + PF - 1) / PF.

Lemma vn_spec w p y : vn w p <= y <-> PF * w * p < (y * PF + 1) * DEN.
Proof.
  unfold vn.
  assert (HZ: (Z.of_N y >= (Z.of_N (PF * w * p) / Z.of_N DEN + Z.of_N PF - 1) / Z.of_N PF
               <-> (Z.of_N y * Z.of_N PF + 1) * Z.of_N DEN > Z.of_N (PF * w * p))%Z).
  { rewrite Zge_ceil_div by (unfold_consts; lia).
    rewrite Zge_floor_div by (unfold_consts; lia). reflexivity. }
  rewrite <- N2Z.inj_div in HZ.
  split; intros H.
  - assert (Z.of_N y >= (Z.of_N (PF * w * p / DEN) + Z.of_N PF - 1) / Z.of_N PF)%Z.
    { replace (Z.of_N (PF * w * p / DEN) + Z.of_N PF - 1)%Z
        with (Z.of_N (PF * w * p / DEN + PF - 1)) by (unfold_consts; lia).
      rewrite <- N2Z.inj_div. lia. }
    apply HZ in H0. lia.
  - assert ((Z.of_N y * Z.of_N PF + 1) * Z.of_N DEN > Z.of_N (PF * w * p))%Z by lia.
    apply HZ in H0.
    replace (Z.of_N (PF * w * p / DEN) + Z.of_N PF - 1)%Z
      with (Z.of_N (PF * w * p / DEN + PF - 1)) in H0 by (unfold_consts; lia).
    rewrite <- N2Z.inj_div in H0. lia.
Qed.

Lemma vn_le_weight w p : p <= DEN -> vn w p <= w.
Proof. intros Hp. apply vn_spec. unfold_consts. nia. Qed.

Lemma vn_mono w1 w2 p : w1 <= w2 -> vn w1 p <= vn w2 p.
Proof.
  intros Hw. apply vn_spec.
  assert (H2: vn w2 p <= vn w2 p) by lia. apply vn_spec in H2.
  unfold_consts. nia.
Qed.

(* the code's votes_needed never aborts and equals vn on validated inputs *)
Lemma votes_needed_ok w p : w <= u64max -> p <= DEN -> votes_needed w p = Some (vn w p).
Proof.
  intros Hw Hp. unfold votes_needed.
  assert (Hs: PF * w <= u128max) by (unfold_consts; lia).
  destruct (u128max <? PF * w) eqn:E1; [lia|].
  assert (Ha: PF * w * p / DEN <= PF * w).
  { apply N.div_le_upper_bound; [unfold_consts; lia|]. unfold_consts. nia. }
  destruct (u128max <? PF * w * p / DEN) eqn:E2; [lia|].
  unfold add128. cbn [obind].
  assert (Hb: PF * w * p / DEN + PF <= u128max) by (unfold_consts; lia).
  destruct (PF * w * p / DEN + PF <=? u128max) eqn:E3; [|lia].
  cbn [obind]. f_equal.
  replace (PF * w * p / DEN + PF - 1) with (PF * w * p / DEN + PF - 1) by reflexivity.
  fold (vn w p).
  assert (vn w p <= w) by (apply vn_le_weight; exact Hp).
  apply N.mod_small. unfold_consts. lia.
Qed.

Lemma vn_zero_weight p : vn 0 p = 0.
Proof. unfold vn. rewrite N.mul_0_r, N.mul_0_l. unfold_consts. reflexivity. Qed.

(* ---- the code's decisions as pure booleans, under the property's hypotheses ---- *)
Definition in_range (th : threshold) (T : N) (v : votes) : Prop :=
  threshold_wf th = true /\ tally v <= T /\ T <= u64max.

Definition pass_fn (th : threshold) (T : N) (v : votes) (e : bool) : bool :=
  negb (yes v =? 0) &&
  match th with
  | AbsCount w => w <=? yes v
  | AbsPct p => vn (T - abstain v) p <=? yes v
  | ThQuorum t q =>
      (vn T q <=? tally v) && (vn ((if e then tally v else T) - abstain v) t <=? yes v)
  end.

Definition rej_fn (th : threshold) (T : N) (v : votes) (e : bool) : bool :=
  match th with
  | AbsCount w => T - w <? no v
  | AbsPct p => vn (T - abstain v) (DEN - p) <? no v
  | ThQuorum t _ => vn ((if e then tally v else T) - abstain v) (DEN - t) <? no v
  end.

Lemma votes_total_ok v : tally v <= u64max -> votes_total v = Some (tally v).
Proof.
  intros H. unfold votes_total, tally, add64 in *.
  destruct (yes v + no v <=? u64max) eqn:E1; [|lia]. cbn [obind].
  destruct (yes v + no v + abstain v <=? u64max) eqn:E2; [|lia]. cbn [obind].
  destruct (yes v + no v + abstain v + veto v <=? u64max) eqn:E3; [|lia]. reflexivity.
Qed.

Lemma sub64_ok a b : b <= a -> sub64 a b = Some (a - b).
Proof. intros H. unfold sub64. destruct (b <=? a) eqn:E; [reflexivity|lia]. Qed.

Lemma one_minus_ok p : p <= DEN -> one_minus p = Some (DEN - p).
Proof. intros H. unfold one_minus, sub128. destruct (p <=? DEN) eqn:E; [reflexivity|lia]. Qed.

Lemma wf_pct p : valid_pct p = true -> p <= DEN /\ DEN <= 2 * p.
Proof. unfold valid_pct. unfold_consts. intros H. lia. Qed.
Lemma wf_quorum q : valid_quorum q = true -> 0 < q /\ q <= DEN.
Proof. unfold valid_quorum. intros H. lia. Qed.

Lemma is_passed_eq th T v e : in_range th T v -> is_passed th T v e = Some (pass_fn th T v e).
Proof.
  intros (Hwf & Ht & HT). unfold is_passed, pass_fn.
  destruct (yes v =? 0) eqn:Ey; [reflexivity|]. cbn [negb andb].
  assert (Ha: abstain v <= T) by (unfold tally in Ht; lia).
  destruct th as [w|p|t q]; cbn [threshold_wf] in Hwf.
  - reflexivity.
  - apply wf_pct in Hwf. rewrite sub64_ok by exact Ha. cbn [obind].
    rewrite votes_needed_ok by lia. reflexivity.
  - apply andb_true_iff in Hwf. destruct Hwf as [Hp Hq]. apply wf_pct in Hp. apply wf_quorum in Hq.
    rewrite votes_total_ok by lia. cbn [obind].
    rewrite votes_needed_ok by lia. cbn [obind].
    destruct (tally v <? vn T q) eqn:Eq.
    + replace (vn T q <=? tally v) with false by lia. reflexivity.
    + replace (vn T q <=? tally v) with true by lia. cbn [andb].
      destruct e.
      * rewrite sub64_ok by (unfold tally; lia). cbn [obind].
        rewrite votes_needed_ok by lia. reflexivity.
      * rewrite sub64_ok by exact Ha. cbn [obind].
        rewrite votes_needed_ok by lia. reflexivity.
Qed.

Lemma is_rejected_eq th T v e : in_range th T v -> is_rejected th T v e = Some (rej_fn th T v e).
Proof.
  intros (Hwf & Ht & HT). unfold is_rejected, rej_fn.
  assert (Ha: abstain v <= T) by (unfold tally in Ht; lia).
  destruct th as [w|p|t q]; cbn [threshold_wf] in Hwf.
  - reflexivity.
  - apply wf_pct in Hwf. rewrite sub64_ok by exact Ha. cbn [obind].
    rewrite one_minus_ok by lia. cbn [obind].
    rewrite votes_needed_ok by lia. reflexivity.
  - apply andb_true_iff in Hwf. destruct Hwf as [Hp Hq]. apply wf_pct in Hp.
    destruct e.
    + rewrite votes_total_ok by lia. cbn [obind].
      rewrite sub64_ok by (unfold tally; lia). cbn [obind].
      rewrite one_minus_ok by lia. cbn [obind].
      rewrite votes_needed_ok by lia. reflexivity.
    + rewrite sub64_ok by exact Ha. cbn [obind].
      rewrite one_minus_ok by lia. cbn [obind].
      rewrite votes_needed_ok by lia. reflexivity.
Qed.

Definition status_fn (st : status) (th : threshold) (T : N) (v : votes) (e : bool) : status :=
  match st with
  | Open => if pass_fn th T v e then Passed
            else if rej_fn th T v e || e then Rejected else Open
  | _ => st
  end.

Lemma current_status_eq st th T v e :
  in_range th T v -> current_status st th T v e = Some (status_fn st th T v e).
Proof.
  intros H. unfold current_status, status_fn.
  destruct st; cbn [status_eqb obind]; try reflexivity.
  rewrite is_passed_eq by exact H. cbn [obind].
  destruct (pass_fn th T v e); cbn [status_eqb]; [reflexivity|].
  rewrite is_rejected_eq by exact H. cbn [obind]. reflexivity.
Qed.

(* ---- C04 statements on the pure booleans ---- *)

(* exactness for percentages with at most 9 decimals *)
Definition nine_decimals (th : threshold) : Prop :=
  match th with
  | AbsCount _ => True
  | AbsPct p => p mod PF = 0
  | ThQuorum t q => t mod PF = 0 /\ q mod PF = 0
  end.

Lemma vn_exact9 w p y : p mod PF = 0 -> (vn w p <=? y) = (p * w <=? y * DEN).
Proof.
  intros Hm.
  assert (Hp: p = PF * (p / PF)).
  { pose proof (N.div_mod p PF). unfold_consts. lia. }
  set (k := p / PF) in *.
  destruct (vn w p <=? y) eqn:E.
  - apply N.leb_le in E. apply vn_spec in E. symmetry. apply N.leb_le.
    rewrite Hp in *. unfold_consts. nia.
  - apply N.leb_gt in E. symmetry. apply N.leb_gt.
    assert (~ (vn w p <= y)) by lia. rewrite vn_spec in H.
    rewrite Hp in *. unfold_consts. nia.
Qed.

Lemma pass_expired_exact9 th T v :
  nine_decimals th -> pass_fn th T v true = spec_pass_expired th T v.
Proof.
  intros H9. unfold pass_fn, spec_pass_expired.
  replace (negb (yes v =? 0)) with (0 <? yes v) by lia.
  destruct th as [w|p|t q]; cbn [nine_decimals] in H9.
  - reflexivity.
  - rewrite vn_exact9 by exact H9. reflexivity.
  - destruct H9 as [H1 H2]. rewrite !vn_exact9 by assumption. reflexivity.
Qed.

Lemma vn_never_stricter w p y : p * w <= y * DEN -> vn w p <= y.
Proof. intros H. apply vn_spec. unfold_consts. nia. Qed.

Lemma vn_within_one w p y : vn w p <= y -> p * w < (y + 1) * DEN.
Proof. intros H. apply vn_spec in H. unfold_consts. nia. Qed.

Lemma pass_expired_never_stricter th T v :
  spec_pass_expired th T v = true -> pass_fn th T v true = true.
Proof.
  unfold pass_fn, spec_pass_expired.
  replace (negb (yes v =? 0)) with (0 <? yes v) by lia.
  intros H. apply andb_true_iff in H. destruct H as [Hy H]. rewrite Hy. cbn [andb].
  destruct th as [w|p|t q].
  - exact H.
  - apply N.leb_le. apply vn_never_stricter. lia.
  - apply andb_true_iff in H. destruct H as [H1 H2].
    apply andb_true_iff. split; apply N.leb_le; apply vn_never_stricter; lia.
Qed.

(* the relaxed formula: one more Yes vote (and, for the quorum, one more vote) would satisfy
   the exact rule *)
Definition spec_pass_expired_plus1 (th : threshold) (T : N) (v : votes) : Prop :=
  0 < yes v /\
  match th with
  | AbsCount w => w <= yes v
  | AbsPct p => p * (T - abstain v) < (yes v + 1) * DEN
  | ThQuorum t q =>
      q * T < (tally v + 1) * DEN /\ t * (tally v - abstain v) < (yes v + 1) * DEN
  end.

Lemma pass_expired_within_one th T v :
  pass_fn th T v true = true -> spec_pass_expired_plus1 th T v.
Proof.
  unfold pass_fn, spec_pass_expired_plus1. intros H.
  apply andb_true_iff in H. destruct H as [Hy H]. split; [lia|].
  destruct th as [w|p|t q].
  - lia.
  - apply vn_within_one. lia.
  - apply andb_true_iff in H. destruct H as [H1 H2].
    split; apply vn_within_one; lia.
Qed.

(* early pass is sound: every completion passes at expiry (and keeps passing before it) *)
Lemma early_pass_sound th T v v' e' :
  in_range th T v -> completes T v v' ->
  pass_fn th T v false = true -> pass_fn th T v' e' = true.
Proof.
  intros (Hwf & Ht & HT) (Hy & Hn & Ha & Hv & Ht') H.
  unfold pass_fn in *. apply andb_true_iff in H. destruct H as [Hy0 H].
  apply andb_true_iff. split; [lia|].
  destruct th as [w|p|t q]; cbn [threshold_wf] in Hwf.
  - lia.
  - apply N.leb_le. apply N.leb_le in H.
    pose proof (vn_mono (T - abstain v') (T - abstain v) p). lia.
  - apply andb_true_iff in H. destruct H as [H1 H2].
    apply andb_true_iff. split.
    + unfold tally in *. lia.
    + apply N.leb_le. apply N.leb_le in H2.
      assert (Hle: (if e' then tally v' else T) - abstain v' <= T - abstain v)
        by (destruct e'; unfold tally in *; lia).
      pose proof (vn_mono _ _ t Hle). lia.
Qed.

(* early pass is complete: if every completion passes at expiry the code already says Passed.
   The two worst completions: nobody else votes (quorum), everybody else votes No (threshold). *)
Definition all_no (T : N) (v : votes) : votes :=
  mkVotes (yes v) (no v + (T - tally v)) (abstain v) (veto v).

Lemma early_pass_complete th T v :
  in_range th T v ->
  (forall v', completes T v v' -> pass_fn th T v' true = true) ->
  pass_fn th T v false = true.
Proof.
  intros (Hwf & Ht & HT) Hall.
  assert (C1: completes T v v) by (unfold completes; repeat split; lia).
  assert (C2: completes T v (all_no T v)).
  { unfold completes, all_no, tally in *. cbn. repeat split; lia. }
  pose proof (Hall _ C1) as H1. pose proof (Hall _ C2) as H2.
  unfold pass_fn in *. destruct th as [w|p|t q].
  - exact H1.
  - exact H1.
  - apply andb_true_iff in H1. destruct H1 as [Hy H1]. apply andb_true_iff in H1. destruct H1 as [Hq _].
    apply andb_true_iff in H2. destruct H2 as [_ H2]. apply andb_true_iff in H2. destruct H2 as [_ Hth].
    rewrite Hy, Hq. cbn [andb].
    unfold all_no, tally in Hth. cbn in Hth.
    match type of Hth with (vn ?x t <=? _) = true =>
      replace x with (T - abstain v) in Hth by (unfold tally in *; lia) end.
    exact Hth.
Qed.

(* early rejection is sound: no completion passes at expiry, or before it *)
Lemma early_reject_sound th T v v' e' :
  in_range th T v -> completes T v v' ->
  rej_fn th T v false = true -> pass_fn th T v' e' = false.
Proof.
  intros (Hwf & Ht & HT) (Hy & Hn & Ha & Hv & Ht') H.
  unfold rej_fn in H. unfold pass_fn. apply andb_false_iff. right.
  destruct th as [w|p|t q]; cbn [threshold_wf] in Hwf.
  - unfold tally in *. lia.
  - apply wf_pct in Hwf. apply N.leb_gt.
    assert (Hm: vn (T - abstain v') (DEN - p) <= vn (T - abstain v) (DEN - p)) by (apply vn_mono; lia).
    assert (Hr: vn (T - abstain v') (DEN - p) <= no v' - 1) by lia.
    apply vn_spec in Hr.
    destruct (N.le_gt_cases (vn (T - abstain v') p) (yes v')) as [Hc|Hc]; [|lia].
    exfalso. apply vn_spec in Hc. unfold tally in *. unfold_consts. nia.
  - apply andb_true_iff in Hwf. destruct Hwf as [Hp Hq]. apply wf_pct in Hp.
    apply andb_false_iff. right. apply N.leb_gt.
    set (B' := (if e' then tally v' else T) - abstain v').
    assert (HB: B' <= T - abstain v) by (subst B'; destruct e'; unfold tally in *; lia).
    assert (HB2: yes v' + no v' <= B') by (subst B'; destruct e'; unfold tally in *; lia).
    assert (Hm: vn B' (DEN - t) <= vn (T - abstain v) (DEN - t)) by (apply vn_mono; lia).
    assert (Hr: vn B' (DEN - t) <= no v' - 1) by lia.
    apply vn_spec in Hr.
    destruct (N.le_gt_cases (vn B' t) (yes v')) as [Hc|Hc]; [|lia].
    exfalso. apply vn_spec in Hc. unfold_consts. nia.
Qed.

Lemma never_both th T v e :
  in_range th T v -> pass_fn th T v e = true -> rej_fn th T v e = true -> False.
Proof.
  intros (Hwf & Ht & HT) Hp Hr. unfold pass_fn, rej_fn in *.
  apply andb_true_iff in Hp. destruct Hp as [Hy Hp].
  destruct th as [w|p|t q]; cbn [threshold_wf] in Hwf.
  - unfold tally in *. lia.
  - apply wf_pct in Hwf.
    assert (H1: vn (T - abstain v) p <= yes v) by lia. apply vn_spec in H1.
    assert (H2: vn (T - abstain v) (DEN - p) <= no v - 1) by lia. apply vn_spec in H2.
    unfold tally in *. unfold_consts. nia.
  - apply andb_true_iff in Hwf. destruct Hwf as [Hp' Hq]. apply wf_pct in Hp'.
    apply andb_true_iff in Hp. destruct Hp as [_ Hp].
    set (B := (if e then tally v else T) - abstain v) in *.
    assert (HB: yes v + no v <= B) by (subst B; destruct e; unfold tally in *; lia).
    assert (H1: vn B t <= yes v) by lia. apply vn_spec in H1.
    assert (H2: vn B (DEN - t) <= no v - 1) by lia. apply vn_spec in H2.
    unfold_consts. nia.
Qed.
