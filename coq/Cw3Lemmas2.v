(* Cw3Lemmas2.v — cw3: weights and totals (C06), deposits (C15), known findings D3 / D6 as theorems. *)
Require Import CwPlus.Params CwPlus.Base CwPlus.AMap CwPlus.Cw3Threshold CwPlus.Cw3ThresholdLemmas
  CwPlus.Cw3ThresholdContract CwPlus.Cw3ThresholdContractLemmas CwPlus.Cw4Model CwPlus.Cw4Snap CwPlus.Cw4Lemmas
  CwPlus.Cw3Model CwPlus.Cw3Lemmas.
Open Scope N_scope.

(* ---------------------------------------------------------------------------------------- *)
(* a map dominated pointwise by another sums to at most the other's sum *)
Lemma sumf_dominated {A B} (f : A -> N) (g : B -> N) (m : amap N A) : forall (v : amap N B),
  sorted ordN m -> sorted ordN v -> (forall k, getf f ordN m k <= getf g ordN v k) -> sumf f m <= sumf g v.
Proof.
  induction m as [|[k x] r IH]; intros v Hm Hv Hd; cbn [sumf]; [lia|].
  inversion Hm as [|k0 x0 r0 Ha Hr]; subst.
  pose proof (sumf_remove g ordN v k Hv) as Er.
  assert (Hk: f x <= getf g ordN v k).
  { specialize (Hd k). unfold getf at 1 in Hd. unfold get in Hd. cbn in Hd. rewrite N.eqb_refl in Hd. exact Hd. }
  assert (IHr: sumf f r <= sumf g (remove ordN v k)).
  { apply IH; [exact Hr|apply remove_sorted; exact Hv|].
    intros j. destruct (N.eq_dec j k) as [->|Hn].
    - unfold getf at 1. rewrite (above_get_none ordN k r Ha). lia.
    - unfold getf at 2. rewrite get_remove_neq by exact Hn. fold (getf g ordN v j).
      specialize (Hd j). unfold getf at 1 in Hd. unfold get in Hd. cbn in Hd.
      rewrite (proj2 (N.eqb_neq j k) Hn) in Hd. exact Hd. }
  lia.
Qed.

(* ---------------------------------------------------------------------------------------- *)
(* cw3-fixed: the configured total is the sum of the stored voters *)
Lemma save_voters_spec l : forall m m', save_voters l m = Some m' -> sorted ordN m ->
  sorted ordN m' /\ sum m' = sum m + sumN (map snd l).
Proof.
  induction l as [|[[a|] w] r IH]; intros m m' H Hs; cbn [save_voters] in H.
  - inversion H; subst. split; [exact Hs|]. unfold sumN. cbn. lia.
  - destruct (get ordN m a) eqn:G; [discriminate|].
    destruct (IH _ _ H (set_sorted ordN m a w Hs)) as [S E]. split; [exact S|].
    pose proof (sumf_set (fun x => x) ordN m a w Hs) as Es. unfold getf in Es. rewrite G in Es.
    unfold sum in *. unfold sumN in *. cbn [map fold_right snd]. cbv beta in Es. unfold arg in *. lia.
  - discriminate.
Qed.

Record FInv (ms : mstate) : Prop := {
  fi_sorted : sorted ordN (voters ms);
  fi_total : cfg_total ms = sum (voters ms) }.

Lemma instantiate_fixed m gv ms : instantiate m gv = Ok ms -> i_flex m = false -> FInv ms /\ flex ms = false.
Proof.
  unfold instantiate. intros H F. rewrite F in H. destruct (i_voters m) as [|x r]; [discriminate|].
  destruct (u64max <? sumN (map snd (x :: r))); [discriminate|].
  destruct (negb (threshold_validate (i_threshold m) (sumN (map snd (x :: r))))); [discriminate|].
  destruct (save_voters (x :: r) []) as [vm|] eqn:Sv; [|discriminate]. inversion H; subst.
  destruct (save_voters_spec _ _ _ Sv (sorted_nil ordN)) as [S E]. split; [|reflexivity].
  constructor; cbn [voters cfg_total]; [exact S|]. rewrite E. unfold sum. cbn [sumf]. rewrite N.add_0_l. reflexivity.
Qed.

Lemma FInv_step ms gv blk sender o ms' out : MInv ms -> FInv ms -> step ms gv blk sender o = Ok (ms', out) -> FInv ms'.
Proof.
  intros HI [A B] Hst. destruct (step_frame _ _ _ _ _ _ _ HI Hst) as ((_ & Ev & Et & _) & _).
  constructor; congruence.
Qed.

(* every ballot of a cw3-fixed proposal carries that voter's weight, so ballots never outweigh the total *)
Definition fixed_ballots_ok (ms : mstate) : Prop :=
  forall id p, getp ms id = Some p ->
    p_total p = cfg_total ms /\
    forall a w v, get ordN (p_ballots p) a = Some (w, v) -> get ordN (voters ms) a = Some w.

Lemma fixed_ballots_step ms gv blk sender o ms' out : MInv ms -> flex ms = false -> fixed_ballots_ok ms ->
  step ms gv blk sender o = Ok (ms', out) -> fixed_ballots_ok ms'.
Proof.
  intros HI F HB Hst. destruct (step_frame _ _ _ _ _ _ _ HI Hst) as ((_ & Ev & Et & _) & Fr).
  destruct o as [title msgs latest funds|id v|id|id]; cbn [step] in Hst.
  - destruct (propose_spec _ _ _ _ _ _ _ _ _ _ Hst) as (power & mx & ex & s & id & Hp & _ & _ & Hi & _ & Hz).
    cbv zeta in Hz. destruct Hz as (_ & _ & ->). rewrite F in *. unfold propose_power in Hp. rewrite F in Hp.
    intros j p. unfold getp. cbn [proposals cfg_total voters]. destruct (N.eq_dec j id) as [->|Hn].
    + rewrite get_set_eq. intros E. inversion E; subst. cbn [with_status p_total p_ballots]. split; [reflexivity|].
      intros a w v. unfold get. cbn. destruct (a =? sender) eqn:Ea; [|discriminate].
      apply N.eqb_eq in Ea. subst a. intros E2. inversion E2; subst. exact Hp.
    + rewrite get_set_neq by exact Hn. apply HB.
  - destruct (vote_spec _ _ _ _ _ _ _ _ Hst) as (p & w & vs & s & Gp & Hw & _ & _ & _ & Hb & _ & _ & Hz).
    cbv zeta in Hz. destruct Hz as (_ & ->). unfold vote_power in Hw. rewrite F in Hw.
    intros j q. destruct (N.eq_dec j id) as [->|Hn].
    + rewrite getp_set_eq. intros E. inversion E; subst. cbn [with_status p_total p_ballots set_prop cfg_total voters].
      destruct (HB _ _ Gp) as [T0 W0]. split; [exact T0|]. intros a w' v'. destruct (N.eq_dec a sender) as [->|Ha].
      * rewrite get_set_eq. intros E2. inversion E2; subst. exact Hw.
      * rewrite get_set_neq by exact Ha. apply W0.
    + rewrite getp_set_neq by exact Hn. apply HB.
  - destruct (execute_spec _ _ _ _ _ _ _ Hst) as (p & Gp & _ & _ & _ & ->).
    intros j q. destruct (N.eq_dec j id) as [->|Hn].
    + rewrite getp_set_eq. intros E. inversion E; subst. apply (HB _ _ Gp).
    + rewrite getp_set_neq by exact Hn. apply HB.
  - destruct (close_spec _ _ _ _ _ Hst) as (p & s & Gp & _ & _ & _ & _ & _ & ->).
    intros j q. destruct (N.eq_dec j id) as [->|Hn].
    + rewrite getp_set_eq. intros E. inversion E; subst. apply (HB _ _ Gp).
    + rewrite getp_set_neq by exact Hn. apply HB.
Qed.

Definition ballots_weight_m (m : amap N (N * vote)) : N := sumf (fun b => fst b) m.
Lemma tally_is_weight m : tally (tally_m m) = ballots_weight_m m.
Proof.
  unfold tally, tally_m, ballots_weight_m. cbn [yes no abstain veto].
  induction m as [|[k [w v]] r IH]; cbn [sumf]; [reflexivity|].
  unfold fyes, fno, fabs, fveto in *. cbn [fst snd] in *. destruct v; lia.
Qed.

Theorem fixed_ballots_le_total ms id p : MInv ms -> FInv ms -> fixed_ballots_ok ms -> getp ms id = Some p ->
  tally (p_votes p) <= p_total p.
Proof.
  intros HI [FS FT] HB G. destruct (HB _ _ G) as [T0 W0]. destruct (mi_props _ HI _ _ G) as [P1 P2 _ _].
  rewrite P2, tally_is_weight, T0, FT. unfold ballots_weight_m, sum.
  apply sumf_dominated; [exact P1|exact FS|].
  intros k. unfold getf. destruct (get ordN (p_ballots p) k) as [[w v]|] eqn:E; [|lia].
  rewrite (W0 _ _ _ E). cbn [fst]. lia.
Qed.

(* ---------------------------------------------------------------------------------------- *)
(* cw3-flex: which snapshot the weights come from *)
Definition unchanged_in_block (g : Cw4Model.state) (h : N) : Prop :=
  forall a, m_at (members g) a h = m_cur (members g) a.

(* when the group has not been changed earlier in the block, the proposer's weight and the total a
   new proposal records are those of the start of its block, the same snapshot later votes read *)
Theorem flex_propose_snapshot ms g top blk sender title msgs latest funds ms' out :
  flex ms = true -> Cw4Lemmas.Inv g top -> unchanged_in_block g (height blk) ->
  propose ms (gview_of g) blk sender title msgs latest funds = Ok (ms', out) ->
  exists p, getp ms' (pcount ms') = Some p /\ p_start p = height blk /\
    get ordN (p_ballots p) sender = (match m_at (members g) sender (height blk) with
                                     | Some w => Some (w, VYes) | None => None end) /\
    m_at (members g) sender (height blk) <> None /\
    p_total p = m_sum (members g).
Proof.
  intros F [_ _ _ It _] Hu H.
  destruct (propose_spec _ _ _ _ _ _ _ _ _ _ H) as (power & mx & ex & s & id & Hp & _ & _ & _ & _ & Hz).
  cbv zeta in Hz. destruct Hz as (_ & _ & ->). rewrite F in *. unfold propose_power in Hp. rewrite F in Hp.
  cbn [gview_of g_now g_total] in *. eexists. unfold getp. cbn [proposals pcount]. rewrite get_set_eq.
  split; [reflexivity|]. cbn [with_status p_start p_ballots p_total]. split; [reflexivity|].
  rewrite (Hu sender), Hp. split; [|split; [discriminate|]].
  - unfold get. cbn. rewrite N.eqb_refl. reflexivity.
  - rewrite It. reflexivity.
Qed.

Theorem flex_vote_snapshot ms g blk sender id v ms' out :
  flex ms = true -> do_vote ms (gview_of g) blk sender id v = Ok (ms', out) ->
  exists p q w, getp ms id = Some p /\ getp ms' id = Some q /\
    m_at (members g) sender (p_start p) = Some w /\ 1 <= w /\
    get ordN (p_ballots p) sender = None /\ p_ballots q = set ordN (p_ballots p) sender (w, v).
Proof.
  intros F H. destruct (vote_spec _ _ _ _ _ _ _ _ H) as (p & w & vs & s & Gp & Hw & Lw & _ & _ & Hb & _ & _ & Hz).
  cbv zeta in Hz. destruct Hz as (_ & ->). unfold vote_power in Hw. rewrite F in Hw. cbn [gview_of g_at] in Hw.
  eexists p, _, w. rewrite getp_set_eq. repeat split; auto.
Qed.

(* ---------------------------------------------------------------------------------------- *)
(* C15 *)
Lemma native_deposit_paid_exact d dn funds : d_token d = Native dn -> native_deposit_paid d funds = true ->
  funds = [(dn, d_amount d)] /\ d_amount d <> 0.
Proof.
  unfold native_deposit_paid. intros ->. destruct funds as [|[dn' n] [|? ?]]; try discriminate.
  intros H. apply andb_true_iff in H. destruct H as [H H3]. apply andb_true_iff in H. destruct H as [H1 H2].
  apply N.eqb_eq in H2, H3. subst. split; [reflexivity|]. destruct (d_amount d =? 0) eqn:Z; [discriminate|].
  apply N.eqb_neq in Z. exact Z.
Qed.

Definition is_refund (m : emsg) : bool := match m with ERefund _ _ _ => true | _ => false end.

(* which calls return a deposit, and what they return *)
Theorem refund_spec ms gv blk sender o ms' out : step ms gv blk sender o = Ok (ms', out) ->
  match o with
  | Execute id => exists p, getp ms id = Some p /\
      filter is_refund out = match p_deposit p with Some d => [refund_msg d (p_proposer p)] | None => [] end
  | Close id => exists p, getp ms id = Some p /\
      out = match p_deposit p with
            | Some d => if d_refund_failed d then [refund_msg d (p_proposer p)] else []
            | None => [] end
  | _ => filter is_refund out = []
  end.
Proof.
  intros Hst. destruct o as [title msgs latest funds|id v|id|id]; cbn [step] in Hst.
  - destruct (propose_spec _ _ _ _ _ _ _ _ _ _ Hst) as (power & mx & ex & s & id & _ & _ & _ & _ & _ & Hz).
    cbv zeta in Hz. destruct Hz as (_ & -> & _). unfold take_msgs.
    destruct (if flex ms then cfg_deposit ms else None) as [d|]; [|reflexivity].
    destruct (d_token d); [reflexivity|]. destruct (d_amount d =? 0); reflexivity.
  - destruct (vote_spec _ _ _ _ _ _ _ _ Hst) as (p & w & vs & s & _ & _ & _ & _ & _ & _ & _ & -> & _). reflexivity.
  - destruct (execute_spec _ _ _ _ _ _ _ Hst) as (p & Gp & _ & _ & -> & _). exists p. split; [exact Gp|].
    rewrite filter_app. assert (Z: forall l, filter is_refund (map EUser l) = []).
    { intros l. induction l as [|m r IH]; [reflexivity|exact IH]. }
    rewrite (Z (p_msgs p)), app_nil_r. destruct (p_deposit p); reflexivity.
  - destruct (close_spec _ _ _ _ _ Hst) as (p & s & Gp & _ & _ & _ & _ & -> & _). exists p. split; [exact Gp|reflexivity].
Qed.

(* a failed (expired, not passed) proposal whose stored status is still Open can always be closed,
   and closing returns the deposit when refund_failed_proposals is set *)
Theorem close_recovers ms blk id p s : getp ms id = Some p -> p_status p = Open ->
  is_expired (p_expires p) blk = true -> prop_status p blk = Some s -> s <> Passed ->
  do_close ms blk id = Ok (set_prop ms id (with_status p Rejected),
                           match p_deposit p with
                           | Some d => if d_refund_failed d then [refund_msg d (p_proposer p)] else []
                           | None => [] end).
Proof.
  intros G Ho Ex Es Hn. unfold do_close. fold (getp ms id). rewrite G, Ho, Es, Ex.
  destruct s; try reflexivity. exfalso. apply Hn. reflexivity.
Qed.

(* ... but not every failed proposal: D6.  The stored status of proposal 1 was latched to Rejected at
   creation (`latest` already past), the deposit is refundable, and Close is refused for ever. *)
Definition d6_state : mstate :=
  mkMs true [] 0 (AbsPct 510000000000000000) (DHeight 1) None (Some (mkDep 12 (Native 0) true))
       [(1, mkProp 1 13 (AtHeight 12) [] Rejected (mkVotes 8 0 0 0) (AbsPct 510000000000000000) 30 5
                   (Some (mkDep 12 (Native 0) true)) [(5, (8, VYes))])] 1.
Theorem d6_refuted :
  exists ms gv blk sender funds,
    propose (mkMs true [] 0 (AbsPct 510000000000000000) (DHeight 1) None (Some (mkDep 12 (Native 0) true)) [] 0)
            gv blk sender 1 [] (Some (AtHeight 12)) funds = Ok (ms, []) /\ ms = d6_state /\
    (forall blk', is_expired (AtHeight 12) blk' = true -> do_close ms blk' 1 = Err) /\
    (forall blk' s, do_execute ms gv blk' s 1 = Err).
Proof.
  exists d6_state, (mkGv (fun a => if a =? 5 then Some 8 else None) 30 (fun _ _ => None)), (mkBlock 13 0), 5, [(0, 12)].
  split; [vm_compute; reflexivity|]. split; [reflexivity|]. split.
  - intros blk' _. reflexivity.
  - intros blk' s. unfold do_execute, d6_state, getp. cbn. reflexivity.
Qed.

(* D3: a group change earlier in the proposal's own block.  Member 3 (weight 10) is removed in block
   20, then member 1 proposes in the same block: the total (2) is read after the removal, yet member
   3 still votes with its start-of-block weight 10: the ballots (11) outweigh the total (2). *)
Definition d3_group0 : result Cw4Model.state :=
  Cw4Model.instantiate (Cw4Model.mkInit false (Some (Some 9)) [(Some 1, 1); (Some 2, 1); (Some 3, 10)] cfg_default) (mkBlock 10 0).
Theorem d3_refuted :
  exists g0 g1 ms1 ms2 p,
    d3_group0 = Ok g0 /\
    g1 = Cw4Model.tx_state g0 (mkBlock 20 0, 9, UpdateMembers [] [Some 3], true) /\
    propose (mkMs true [] 0 (AbsCount 2) (DHeight 5) None None [] 0) (gview_of g1) (mkBlock 20 0) 1 1 [] None [] = Ok (ms1, []) /\
    do_vote ms1 (gview_of g1) (mkBlock 21 0) 3 1 VYes = Ok (ms2, []) /\
    getp ms2 1 = Some p /\ p_total p = 2 /\ tally (p_votes p) = 11 /\
    ~ unchanged_in_block g1 20.
Proof.
  unfold d3_group0. eexists _, _, _, _, _.
  split; [vm_compute; reflexivity|]. split; [reflexivity|]. split; [vm_compute; reflexivity|].
  split; [vm_compute; reflexivity|]. split; [vm_compute; reflexivity|]. split; [reflexivity|]. split; [reflexivity|].
  intros H. specialize (H 3). vm_compute in H. discriminate.
Qed.

(* ---------------------------------------------------------------------------------------- *)
(* reachable states *)
Lemma hrun_inv cs : forall ms, MInv ms -> MInv (hrun ms cs).
Proof. induction cs as [|c r IH]; intros ms HI; [exact HI|]. cbn [hrun]. apply IH. apply hstep_inv. exact HI. Qed.

Theorem reachable_inv m gv ms cs : instantiate m gv = Ok ms -> MInv (hrun ms cs).
Proof. intros H. apply hrun_inv. apply (proj1 (instantiate_inv _ _ _ H)). Qed.

Lemma hstep_fixed ms c : MInv ms -> flex ms = false -> FInv ms -> fixed_ballots_ok ms ->
  flex (hstep ms c) = false /\ FInv (hstep ms c) /\ fixed_ballots_ok (hstep ms c).
Proof.
  destruct c as [[[gv blk] sender] o]. unfold hstep. intros HI F HF HB.
  destruct (step ms gv blk sender o) as [[ms' out]| |] eqn:E; auto.
  destruct (step_frame _ _ _ _ _ _ _ HI E) as ((Ef & _) & _).
  split; [congruence|]. split; [eapply FInv_step; eassumption|eapply fixed_ballots_step; eassumption].
Qed.

Theorem fixed_reachable m gv ms cs : instantiate m gv = Ok ms -> i_flex m = false ->
  let s := hrun ms cs in
  cfg_total s = sum (voters s) /\
  forall id p, getp s id = Some p -> p_total p = cfg_total s /\ tally (p_votes p) <= p_total p /\
    forall a w v, get ordN (p_ballots p) a = Some (w, v) -> get ordN (voters s) a = Some w.
Proof.
  intros Hi Hf. destruct (instantiate_fixed _ _ _ Hi Hf) as [HF F]. destruct (instantiate_inv _ _ _ Hi) as [HI Hc].
  assert (HB: fixed_ballots_ok ms).
  { intros id p G. exfalso. pose proof (mi_ids _ HI _ _ G). lia. }
  cbv zeta. revert ms HI F HF HB Hi Hc. induction cs as [|c r IH]; intros ms HI F HF HB Hi Hc.
  - cbn [hrun]. split; [apply (fi_total _ HF)|]. intros id p G. destruct (HB _ _ G) as [T W].
    split; [exact T|]. split; [eapply fixed_ballots_le_total; eassumption|exact W].
  - cbn [hrun]. destruct (hstep_fixed ms c HI F HF HB) as (F' & HF' & HB').
    assert (G: forall s, MInv s -> flex s = false -> FInv s -> fixed_ballots_ok s ->
               cfg_total (hrun s r) = sum (voters (hrun s r)) /\
               forall id p, getp (hrun s r) id = Some p -> p_total p = cfg_total (hrun s r) /\
                 tally (p_votes p) <= p_total p /\
                 forall a w v, get ordN (p_ballots p) a = Some (w, v) -> get ordN (voters (hrun s r)) a = Some w).
    { clear - r. induction r as [|c r IH]; intros s HI F HF HB.
      - cbn [hrun]. split; [apply (fi_total _ HF)|]. intros id p G. destruct (HB _ _ G) as [T W].
        split; [exact T|]. split; [eapply fixed_ballots_le_total; eassumption|exact W].
      - cbn [hrun]. destruct (hstep_fixed s c HI F HF HB) as (F' & HF' & HB').
        apply IH; auto. apply hstep_inv. exact HI. }
    apply G; auto. apply hstep_inv. exact HI.
Qed.
