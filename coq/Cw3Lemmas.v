(* Cw3Lemmas.v — proofs about the cw3 multisig model (C03 C05 C06 C15). *)
Require Import CwPlus.Params CwPlus.Base CwPlus.AMap CwPlus.Cw3Threshold CwPlus.Cw3ThresholdLemmas
  CwPlus.Cw3ThresholdContract CwPlus.Cw3ThresholdContractLemmas CwPlus.Cw4Model CwPlus.Cw3Model.
Open Scope N_scope.

Ltac inv H := inversion H; subst; clear H.

(* ---------------------------------------------------------------------------------------- *)
(* the parts of a proposal fixed at creation *)
Definition static_eq (p q : proposal) : Prop :=
  p_title q = p_title p /\ p_start q = p_start p /\ p_expires q = p_expires p /\ p_msgs q = p_msgs p /\
  p_threshold q = p_threshold p /\ p_total q = p_total p /\ p_proposer q = p_proposer p /\ p_deposit q = p_deposit p.
Lemma static_refl p : static_eq p p.
Proof. repeat split. Qed.
Lemma static_with_status p s : static_eq p (with_status p s).
Proof. repeat split. Qed.

Definition cfg_eq (a b : mstate) : Prop :=
  flex b = flex a /\ voters b = voters a /\ cfg_total b = cfg_total a /\ cfg_threshold b = cfg_threshold a /\
  cfg_period b = cfg_period a /\ cfg_executor b = cfg_executor a /\ cfg_deposit b = cfg_deposit a.
Lemma cfg_eq_set_prop ms id p : cfg_eq ms (set_prop ms id p).
Proof. repeat split. Qed.

Definition getp (ms : mstate) (id : N) : option proposal := get ordN (proposals ms) id.
Lemma getp_set_eq ms id p : getp (set_prop ms id p) id = Some p.
Proof. unfold getp, set_prop. cbn [proposals]. apply get_set_eq. Qed.
Lemma getp_set_neq ms id p j : j <> id -> getp (set_prop ms id p) j = getp ms j.
Proof. intros H. unfold getp, set_prop. cbn [proposals]. apply get_set_neq. exact H. Qed.

(* current_status leaves every stored status other than Open alone *)
Lemma current_status_sticky st th T v e : st <> Open -> current_status st th T v e = Some st.
Proof. intros H. unfold current_status. destruct st; try (exfalso; apply H; reflexivity); reflexivity. Qed.
Lemma current_status_open_passed th T v e : current_status Open th T v e = Some Passed ->
  is_passed th T v e = Some true.
Proof.
  unfold current_status. cbn [status_eqb]. destruct (is_passed th T v e) as [[|]|]; cbn [obind]; try discriminate; [reflexivity|].
  cbn [status_eqb]. destruct (is_rejected th T v e) as [r|]; cbn [obind]; [|discriminate].
  destruct (r || e); discriminate.
Qed.
Lemma current_status_never_pending_exec th T v e s : current_status Open th T v e = Some s ->
  s = Open \/ s = Passed \/ s = Rejected.
Proof.
  unfold current_status. cbn [status_eqb]. destruct (is_passed th T v e) as [[|]|]; cbn [obind]; try discriminate.
  - intros E. inv E. auto.
  - cbn [status_eqb]. destruct (is_rejected th T v e) as [r|]; cbn [obind]; [|discriminate].
    destruct (r || e); intros E; inv E; auto.
Qed.

(* ---------------------------------------------------------------------------------------- *)
(* handler specifications *)
Theorem execute_spec ms gv blk sender id ms' out : do_execute ms gv blk sender id = Ok (ms', out) ->
  exists p, getp ms id = Some p /\ prop_status p blk = Some Passed /\
    (flex ms = true -> authorized ms gv sender = true) /\
    out = (match p_deposit p with Some d => [refund_msg d (p_proposer p)] | None => [] end) ++ map EUser (p_msgs p) /\
    ms' = set_prop ms id (with_status p Executed).
Proof.
  unfold do_execute. fold (getp ms id). destruct (getp ms id) as [p|] eqn:Gp; [|discriminate].
  destruct (prop_status p blk) as [s|] eqn:Ep; [|discriminate].
  destruct (status_eqb s Passed) eqn:Es; [|discriminate]. cbn [negb].
  destruct (flex ms && negb (authorized ms gv sender)) eqn:Ea; [discriminate|].
  intros E. inv E. exists p. split; [reflexivity|]. split; [destruct s; try discriminate; exact Ep|].
  split; [|split; reflexivity].
  intros F. rewrite F in Ea. cbn [andb] in Ea. destruct (authorized ms gv sender); [reflexivity|discriminate].
Qed.

Theorem close_spec ms blk id ms' out : do_close ms blk id = Ok (ms', out) ->
  exists p s, getp ms id = Some p /\ (p_status p = Open \/ p_status p = Pending) /\
    prop_status p blk = Some s /\ s <> Passed /\ is_expired (p_expires p) blk = true /\
    out = (match p_deposit p with
           | Some d => if d_refund_failed d then [refund_msg d (p_proposer p)] else []
           | None => [] end) /\
    ms' = set_prop ms id (with_status p Rejected).
Proof.
  unfold do_close. fold (getp ms id). destruct (getp ms id) as [p|] eqn:Gp; [|discriminate].
  destruct (p_status p) eqn:Est; try discriminate;
    (destruct (prop_status p blk) as [s|] eqn:Ep; [|discriminate];
     destruct (status_eqb s Passed) eqn:Es; [discriminate|];
     destruct (is_expired (p_expires p) blk) eqn:Ex; [|discriminate]; cbn [negb];
     intros E; inv E; exists p, s; repeat split; auto;
     intros C; subst s; discriminate).
Qed.

Definition vote_power (ms : mstate) (gv : gview) (sender : N) (p : proposal) : option N :=
  if flex ms then g_at gv sender (p_start p) else get ordN (voters ms) sender.

Theorem vote_spec ms gv blk sender id v ms' out : do_vote ms gv blk sender id v = Ok (ms', out) ->
  exists p w vs s, getp ms id = Some p /\ vote_power ms gv sender p = Some w /\ 1 <= w /\
    votable (p_status p) = true /\ is_expired (p_expires p) blk = false /\
    get ordN (p_ballots p) sender = None /\ add_vote (p_votes p) v w = Some vs /\ out = [] /\
    let p1 := mkProp (p_title p) (p_start p) (p_expires p) (p_msgs p) (p_status p) vs (p_threshold p)
                     (p_total p) (p_proposer p) (p_deposit p) (set ordN (p_ballots p) sender (w, v)) in
    prop_status p1 blk = Some s /\ ms' = set_prop ms id (with_status p1 s).
Proof.
  unfold do_vote. fold (getp ms id). destruct (getp ms id) as [p|] eqn:Gp; [|discriminate].
  fold (vote_power ms gv sender p). destruct (vote_power ms gv sender p) as [w|] eqn:Evp; [|discriminate].
  destruct (w <? 1) eqn:Lw; [discriminate|]. apply N.ltb_ge in Lw.
  destruct (votable (p_status p)) eqn:Ev; [|discriminate]. cbn [negb].
  destruct (is_expired (p_expires p) blk) eqn:Ex; [discriminate|].
  destruct (get ordN (p_ballots p) sender) eqn:Eb; [discriminate|].
  destruct (add_vote (p_votes p) v w) as [vs|] eqn:Ea; [|discriminate].
  match goal with |- context [prop_status ?q blk] => destruct (prop_status q blk) as [s|] eqn:Es end; [|discriminate].
  intros E. inv E. exists p, w, vs, s.
  split; [reflexivity|]. split; [exact Evp|]. split; [exact Lw|]. split; [exact Ev|]. split; [exact Ex|].
  split; [exact Eb|]. split; [exact Ea|]. split; [reflexivity|]. cbv zeta. split; [exact Es|reflexivity].
Qed.

Definition propose_power (ms : mstate) (gv : gview) (sender : N) : option N :=
  if flex ms then g_now gv sender else get ordN (voters ms) sender.

Theorem propose_spec ms gv blk sender title msgs latest funds ms' out :
  propose ms gv blk sender title msgs latest funds = Ok (ms', out) ->
  exists power max_exp expires s id,
    propose_power ms gv sender = Some power /\ duration_after (cfg_period ms) blk = Some max_exp /\
    (exp_cmp expires max_exp = Some Lt \/ exp_cmp expires max_exp = Some Eq \/ expires = max_exp) /\
    add64 (pcount ms) 1 = Some id /\
    (flex ms = true -> forall d, cfg_deposit ms = Some d -> native_deposit_paid d funds = true) /\
    let dep := if flex ms then cfg_deposit ms else None in
    let total := if flex ms then g_total gv else cfg_total ms in
    let p0 := mkProp title (height blk) expires msgs Open (mkVotes power 0 0 0) (cfg_threshold ms) total sender dep
                     [(sender, (power, VYes))] in
    prop_status p0 blk = Some s /\ out = take_msgs dep sender /\
    ms' = mkMs (flex ms) (voters ms) (cfg_total ms) (cfg_threshold ms) (cfg_period ms) (cfg_executor ms) (cfg_deposit ms)
               (set ordN (proposals ms) id (with_status p0 s)) id.
Proof.
  unfold propose. fold (propose_power ms gv sender).
  destruct (if flex ms then match cfg_deposit ms with Some d => negb (native_deposit_paid d funds) | None => false end else false) eqn:Ed;
    [discriminate|].
  destruct (propose_power ms gv sender) as [power|] eqn:Epw; [|discriminate].
  destruct (duration_after (cfg_period ms) blk) as [mx|] eqn:Emx; [|discriminate].
  destruct (exp_cmp (match latest with Some e => e | None => mx end) mx) as [c|] eqn:Ec; [|discriminate].
  match goal with |- context [prop_status ?q blk] => destruct (prop_status q blk) as [s|] eqn:Es end; [|discriminate].
  destruct (add64 (pcount ms) 1) as [id|] eqn:Ei; [|discriminate].
  intros E. inv E.
  exists power, mx, (match c with Gt => mx | _ => match latest with Some e => e | None => mx end end), s, id.
  split; [reflexivity|]. split; [reflexivity|]. split.
  { destruct c; auto. }
  split; [reflexivity|]. split.
  { intros F d Hd. rewrite F, Hd in Ed. destruct (native_deposit_paid d funds); [reflexivity|discriminate]. }
  cbv zeta. split; [exact Es|]. split; reflexivity.
Qed.

(* ---------------------------------------------------------------------------------------- *)
(* invariant: ids are 1..pcount, tallies are the ballots, a Passed/Executed proposal has Yes weight *)
Definition fyes (b : N * vote) : N := match snd b with VYes => fst b | _ => 0 end.
Definition fno (b : N * vote) : N := match snd b with VNo => fst b | _ => 0 end.
Definition fabs (b : N * vote) : N := match snd b with VAbstain => fst b | _ => 0 end.
Definition fveto (b : N * vote) : N := match snd b with VVeto => fst b | _ => 0 end.
Definition tally_m (m : amap N (N * vote)) : votes :=
  mkVotes (sumf fyes m) (sumf fno m) (sumf fabs m) (sumf fveto m).

Record PInv (p : proposal) : Prop := {
  pi_sorted : sorted ordN (p_ballots p);
  pi_tally : p_votes p = tally_m (p_ballots p);
  pi_yes : (p_status p = Passed \/ p_status p = Executed) -> 0 < yes (p_votes p);
  pi_not_pending : p_status p <> Pending }.

Record MInv (ms : mstate) : Prop := {
  mi_sorted : sorted ordN (proposals ms);
  mi_ids : forall id p, getp ms id = Some p -> 1 <= id <= pcount ms;
  mi_props : forall id p, getp ms id = Some p -> PInv p }.

Lemma add_vote_tally m k w v vs : sorted ordN m -> get ordN m k = None ->
  add_vote (tally_m m) v w = Some vs -> vs = tally_m (set ordN m k (w, v)).
Proof.
  intros Hs Hn Ha. unfold tally_m.
  pose proof (sumf_set fyes ordN m k (w, v) Hs) as E1. pose proof (sumf_set fno ordN m k (w, v) Hs) as E2.
  pose proof (sumf_set fabs ordN m k (w, v) Hs) as E3. pose proof (sumf_set fveto ordN m k (w, v) Hs) as E4.
  unfold getf in E1, E2, E3, E4. rewrite Hn in E1, E2, E3, E4.
  unfold add_vote, tally_m, add64, obind in Ha. cbn [yes no abstain veto] in Ha. cbv zeta in Ha.
  assert (F1: fyes (w, v) = match v with VYes => w | _ => 0 end) by reflexivity.
  assert (F2: fno (w, v) = match v with VNo => w | _ => 0 end) by reflexivity.
  assert (F3: fabs (w, v) = match v with VAbstain => w | _ => 0 end) by reflexivity.
  assert (F4: fveto (w, v) = match v with VVeto => w | _ => 0 end) by reflexivity.
  rewrite F1 in E1. rewrite F2 in E2. rewrite F3 in E3. rewrite F4 in E4. clear F1 F2 F3 F4.
  destruct v;
    match type of Ha with context [if ?c then _ else _] => destruct c end; inv Ha; f_equal; lia.
Qed.

Lemma status_passed_yes th T v e : current_status Open th T v e = Some Passed -> 0 < yes v.
Proof.
  intros H. apply current_status_open_passed in H.
  destruct (N.eq_dec (yes v) 0) as [Z|Z]; [|lia].
  rewrite (f_no_yes_no_pass th T v e Z) in H. discriminate.
Qed.

Lemma prop_status_cases p blk s : prop_status p blk = Some s ->
  (p_status p <> Open /\ s = p_status p) \/
  (p_status p = Open /\ current_status Open (p_threshold p) (p_total p) (p_votes p) (is_expired (p_expires p) blk) = Some s).
Proof.
  unfold prop_status. intros H. destruct (p_status p) eqn:E;
    try (left; split; [discriminate|]; rewrite current_status_sticky in H by discriminate; congruence).
  right. split; [reflexivity|exact H].
Qed.

Lemma step_inv ms gv blk sender o ms' out : MInv ms -> step ms gv blk sender o = Ok (ms', out) -> MInv ms'.
Proof.
  intros [Hs Hid Hp] Hst. destruct o as [title msgs latest funds|id v|id|id]; cbn [step] in Hst.
  - destruct (propose_spec _ _ _ _ _ _ _ _ _ _ Hst) as (power & mx & ex & s & id & _ & _ & _ & Hi & _ & Hz).
    cbv zeta in Hz. destruct Hz as (Es & _ & ->).
    unfold add64 in Hi. destruct (pcount ms + 1 <=? u64max); [|discriminate]. inv Hi.
    constructor; cbn [proposals pcount].
    + apply set_sorted. exact Hs.
    + intros j p. unfold getp. cbn [proposals]. destruct (N.eq_dec j (pcount ms + 1)) as [->|Hn].
      * intros _. lia.
      * rewrite get_set_neq by exact Hn. intros G. specialize (Hid j p G). lia.
    + intros j p. unfold getp. cbn [proposals]. destruct (N.eq_dec j (pcount ms + 1)) as [->|Hn].
      * rewrite get_set_eq. intros E. inv E.
        unfold prop_status in Es. cbn [p_status p_threshold p_total p_votes p_expires] in Es.
        constructor; cbn [with_status p_ballots p_votes p_status].
        -- constructor; [intros k' v' []|constructor].
        -- unfold tally_m, sumf, fyes, fno, fabs, fveto. cbn [fst snd]. f_equal; lia.
        -- intros Hps. destruct Hps as [-> | ->].
           ++ apply status_passed_yes in Es. exact Es.
           ++ apply current_status_never_pending_exec in Es. destruct Es as [E|[E|E]]; discriminate.
        -- intros ->. apply current_status_never_pending_exec in Es. destruct Es as [E|[E|E]]; discriminate.
      * rewrite get_set_neq by exact Hn. apply Hp.
  - destruct (vote_spec _ _ _ _ _ _ _ _ Hst) as (p & w & vs & s & Gp & _ & _ & Hv & _ & Hb & Ha & _ & Hz).
    cbv zeta in Hz. destruct Hz as (Es & ->). destruct (Hp _ _ Gp) as [P1 P2 P3 P4].
    constructor; cbn [set_prop proposals pcount].
    + apply set_sorted. exact Hs.
    + intros j q. destruct (N.eq_dec j id) as [->|Hn].
      * intros _. apply (Hid _ _ Gp).
      * rewrite getp_set_neq by exact Hn. apply Hid.
    + intros j q. destruct (N.eq_dec j id) as [->|Hn].
      * rewrite getp_set_eq. intros E. inv E.
        rewrite P2 in Ha. pose proof (add_vote_tally _ _ _ _ _ P1 Hb Ha) as Et.
        constructor; cbn [with_status p_ballots p_votes p_status].
        -- apply set_sorted. exact P1.
        -- exact Et.
        -- intros Hps.
           assert (Yle: yes (p_votes p) <= yes vs).
           { rewrite P2. unfold add_vote, add64, obind, tally_m in Ha |- *. cbn [yes no abstain veto] in Ha |- *.
             cbv zeta in Ha. destruct v;
               match type of Ha with context [if ?c then _ else _] => destruct c end; inv Ha; cbn [yes]; lia. }
           destruct (prop_status_cases _ _ _ Es) as [(Hne & E)|(Ho & E)]; cbn [p_status p_threshold p_total p_votes p_expires] in *.
           ++ rewrite E in Hps. specialize (P3 Hps). lia.
           ++ destruct Hps as [-> | ->].
              ** apply status_passed_yes in E. exact E.
              ** apply current_status_never_pending_exec in E. destruct E as [E|[E|E]]; discriminate.
        -- intros Hpe. destruct (prop_status_cases _ _ _ Es) as [(Hne & E)|(Ho & E)]; cbn [p_status] in *.
           ++ rewrite E in Hpe. contradiction.
           ++ rewrite Hpe in E. apply current_status_never_pending_exec in E. destruct E as [E|[E|E]]; discriminate.
      * rewrite getp_set_neq by exact Hn. apply Hp.
  - destruct (execute_spec _ _ _ _ _ _ _ Hst) as (p & Gp & Es & _ & _ & ->). destruct (Hp _ _ Gp) as [P1 P2 P3 P4].
    constructor; cbn [set_prop proposals pcount].
    + apply set_sorted. exact Hs.
    + intros j q. destruct (N.eq_dec j id) as [->|Hn].
      * intros _. apply (Hid _ _ Gp).
      * rewrite getp_set_neq by exact Hn. apply Hid.
    + intros j q. destruct (N.eq_dec j id) as [->|Hn].
      * rewrite getp_set_eq. intros E. inv E.
        constructor; cbn [with_status p_ballots p_votes p_status]; auto; [|discriminate].
        intros _. destruct (prop_status_cases _ _ _ Es) as [(Hne & E)|(Ho & E)].
        -- apply P3. left. congruence.
        -- apply status_passed_yes in E. exact E.
      * rewrite getp_set_neq by exact Hn. apply Hp.
  - destruct (close_spec _ _ _ _ _ Hst) as (p & s & Gp & _ & _ & _ & _ & _ & ->). destruct (Hp _ _ Gp) as [P1 P2 P3 P4].
    constructor; cbn [set_prop proposals pcount].
    + apply set_sorted. exact Hs.
    + intros j q. destruct (N.eq_dec j id) as [->|Hn].
      * intros _. apply (Hid _ _ Gp).
      * rewrite getp_set_neq by exact Hn. apply Hid.
    + intros j q. destruct (N.eq_dec j id) as [->|Hn].
      * rewrite getp_set_eq. intros E. inv E.
        constructor; cbn [with_status p_ballots p_votes p_status]; auto; [|discriminate].
        intros [C|C]; discriminate.
      * rewrite getp_set_neq by exact Hn. apply Hp.
Qed.

Lemma instantiate_inv m gv ms : instantiate m gv = Ok ms -> MInv ms /\ pcount ms = 0.
Proof.
  unfold instantiate. intros H.
  assert (E: proposals ms = [] /\ pcount ms = 0).
  { destruct (i_flex m).
    - destruct (negb (i_group_ok m)); [discriminate|].
      destruct (negb (threshold_validate (i_threshold m) (g_total gv))); [discriminate|].
      destruct (match i_deposit m with Some d => d_amount d =? 0 | None => false end); [discriminate|]. inv H. auto.
    - destruct (i_voters m) as [|x r]; [discriminate|].
      destruct (u64max <? sumN (map snd (x :: r))); [discriminate|].
      destruct (negb (threshold_validate (i_threshold m) (sumN (map snd (x :: r))))); [discriminate|].
      destruct (save_voters (x :: r) []); [|discriminate]. inv H. auto. }
  destruct E as [E1 E2]. split; [|exact E2]. constructor.
  - rewrite E1. constructor.
  - intros id p. unfold getp. rewrite E1. discriminate.
  - intros id p. unfold getp. rewrite E1. discriminate.
Qed.

(* ---------------------------------------------------------------------------------------- *)
(* every handler leaves the configuration, and the static part of every existing proposal, alone;
   ballots only grow, by the caller's own one ballot in Vote *)
Theorem step_frame ms gv blk sender o ms' out : MInv ms -> step ms gv blk sender o = Ok (ms', out) ->
  cfg_eq ms ms' /\
  forall id p, getp ms id = Some p ->
    exists q, getp ms' id = Some q /\ static_eq p q /\
      (p_ballots q = p_ballots p \/
       exists w v, o = Vote id v /\ get ordN (p_ballots p) sender = None /\ p_ballots q = set ordN (p_ballots p) sender (w, v)).
Proof.
  intros HI Hst. destruct o as [title msgs latest funds|id v|id|id]; cbn [step] in Hst.
  - destruct (propose_spec _ _ _ _ _ _ _ _ _ _ Hst) as (power & mx & ex & s & id & _ & _ & _ & Hi & _ & Hz).
    cbv zeta in Hz. destruct Hz as (_ & _ & ->). split; [repeat split|].
    intros j p G. exists p. split; [|split; [apply static_refl|left; reflexivity]].
    unfold getp. cbn [proposals]. rewrite get_set_neq; [exact G|].
    unfold add64 in Hi. destruct (pcount ms + 1 <=? u64max); [|discriminate]. inv Hi.
    pose proof (mi_ids _ HI _ _ G). lia.
  - destruct (vote_spec _ _ _ _ _ _ _ _ Hst) as (p & w & vs & s & Gp & _ & _ & _ & _ & Hb & _ & _ & Hz).
    cbv zeta in Hz. destruct Hz as (_ & ->). split; [apply cfg_eq_set_prop|].
    intros j q G. destruct (N.eq_dec j id) as [->|Hn].
    + rewrite getp_set_eq. rewrite Gp in G. inv G. eexists. split; [reflexivity|]. split; [repeat split|].
      right. exists w, v. cbn [with_status p_ballots]. auto.
    + rewrite getp_set_neq by exact Hn. exists q. split; [exact G|]. split; [apply static_refl|left; reflexivity].
  - destruct (execute_spec _ _ _ _ _ _ _ Hst) as (p & Gp & _ & _ & _ & ->). split; [apply cfg_eq_set_prop|].
    intros j q G. destruct (N.eq_dec j id) as [->|Hn].
    + rewrite getp_set_eq. rewrite Gp in G. inv G. eexists. split; [reflexivity|]. split; [apply static_with_status|left; reflexivity].
    + rewrite getp_set_neq by exact Hn. exists q. split; [exact G|]. split; [apply static_refl|left; reflexivity].
  - destruct (close_spec _ _ _ _ _ Hst) as (p & s & Gp & _ & _ & _ & _ & _ & ->). split; [apply cfg_eq_set_prop|].
    intros j q G. destruct (N.eq_dec j id) as [->|Hn].
    + rewrite getp_set_eq. rewrite Gp in G. inv G. eexists. split; [reflexivity|]. split; [apply static_with_status|left; reflexivity].
    + rewrite getp_set_neq by exact Hn. exists q. split; [exact G|]. split; [apply static_refl|left; reflexivity].
Qed.

(* ---------------------------------------------------------------------------------------- *)
(* finished proposals stay finished: once the stored status is Executed or Rejected no Execute and no
   Close is ever accepted for it again, whatever else is called in between, by whomever *)
Definition finished (ms : mstate) (id : N) : Prop :=
  exists p, getp ms id = Some p /\ (p_status p = Executed \/ p_status p = Rejected).

Lemma finished_step ms gv blk sender o ms' out id : MInv ms -> finished ms id ->
  step ms gv blk sender o = Ok (ms', out) ->
  finished ms' id /\ o <> Execute id /\ o <> Close id.
Proof.
  intros HI (p & Gp & Hf) Hst. destruct o as [title msgs latest funds|j v|j|j]; cbn [step] in Hst.
  - destruct (propose_spec _ _ _ _ _ _ _ _ _ _ Hst) as (power & mx & ex & s & id' & _ & _ & _ & Hi & _ & Hz).
    cbv zeta in Hz. destruct Hz as (_ & _ & E). subst ms'.
    assert (id <> id').
    { unfold add64 in Hi. destruct (pcount ms + 1 <=? u64max); [|discriminate]. inv Hi.
      pose proof (mi_ids _ HI _ _ Gp). lia. }
    split; [|split; discriminate]. exists p. split; [|exact Hf]. unfold getp. cbn [proposals].
    rewrite get_set_neq by assumption. exact Gp.
  - destruct (vote_spec _ _ _ _ _ _ _ _ Hst) as (p0 & w & vs & s & Gp0 & _ & _ & Hv & _ & _ & _ & _ & Hz).
    cbv zeta in Hz. destruct Hz as (Es & ->). split; [|split; discriminate].
    destruct (N.eq_dec id j) as [->|Hn].
    + rewrite Gp in Gp0. inv Gp0. eexists. rewrite getp_set_eq. split; [reflexivity|]. cbn [with_status p_status].
      unfold prop_status in Es. cbn [p_status p_threshold p_total p_votes p_expires] in Es.
      rewrite current_status_sticky in Es by (destruct Hf as [-> | ->]; discriminate). inv Es. exact Hf.
    + exists p. rewrite getp_set_neq by exact Hn. auto.
  - destruct (execute_spec _ _ _ _ _ _ _ Hst) as (p0 & Gp0 & Es & _ & _ & ->).
    destruct (N.eq_dec id j) as [->|Hn].
    + exfalso. rewrite Gp in Gp0. inv Gp0. unfold prop_status in Es.
      rewrite current_status_sticky in Es by (destruct Hf as [-> | ->]; discriminate).
      destruct Hf as [E|E]; rewrite E in Es; discriminate.
    + split; [|split; [intros E; inv E; apply Hn; reflexivity|discriminate]].
      exists p. rewrite getp_set_neq by exact Hn. auto.
  - destruct (close_spec _ _ _ _ _ Hst) as (p0 & s & Gp0 & Ho & _ & _ & _ & _ & ->).
    destruct (N.eq_dec id j) as [->|Hn].
    + exfalso. rewrite Gp in Gp0. inv Gp0. destruct Hf as [E|E], Ho as [E'|E']; congruence.
    + split; [|split; [discriminate|intros E; inv E; apply Hn; reflexivity]].
      exists p. rewrite getp_set_neq by exact Hn. auto.
Qed.

Lemma execute_finishes ms gv blk sender id ms' out : do_execute ms gv blk sender id = Ok (ms', out) -> finished ms' id.
Proof.
  intros H. destruct (execute_spec _ _ _ _ _ _ _ H) as (p & _ & _ & _ & _ & ->).
  eexists. rewrite getp_set_eq. split; [reflexivity|]. left. reflexivity.
Qed.
Lemma close_finishes ms blk id ms' out : do_close ms blk id = Ok (ms', out) -> finished ms' id.
Proof.
  intros H. destruct (close_spec _ _ _ _ _ H) as (p & s & _ & _ & _ & _ & _ & _ & ->).
  eexists. rewrite getp_set_eq. split; [reflexivity|]. right. reflexivity.
Qed.

(* a history of handler calls: any callers (the multisig itself included: re-entrancy), any group
   views, any blocks; calls that fail leave the state as it is (their transaction is rolled back) *)
Definition hcall := (gview * block * N * op)%type.
Definition hstep (ms : mstate) (c : hcall) : mstate :=
  let '(gv, blk, sender, o) := c in match step ms gv blk sender o with Ok (ms', _) => ms' | _ => ms end.
Definition hok (ms : mstate) (c : hcall) : bool :=
  let '(gv, blk, sender, o) := c in is_ok (step ms gv blk sender o).
Fixpoint hrun (ms : mstate) (cs : list hcall) : mstate := match cs with [] => ms | c :: r => hrun (hstep ms c) r end.
(* number of accepted Execute id / Close id handler calls along the history *)
Fixpoint settle_count (id : N) (ms : mstate) (cs : list hcall) : nat :=
  match cs with
  | [] => O
  | c :: r =>
      (if hok ms c && match snd c with Execute j | Close j => j =? id | _ => false end then 1 else 0)%nat
      + settle_count id (hstep ms c) r
  end.

Lemma hstep_inv ms c : MInv ms -> MInv (hstep ms c).
Proof.
  destruct c as [[[gv blk] sender] o]. unfold hstep. intros HI.
  destruct (step ms gv blk sender o) as [[ms' out]| |] eqn:E; [|exact HI|exact HI]. eapply step_inv; eassumption.
Qed.

Lemma finished_no_more cs : forall ms id, MInv ms -> finished ms id -> settle_count id ms cs = O.
Proof.
  induction cs as [|c r IH]; intros ms id HI Hf; [reflexivity|]. cbn [settle_count].
  destruct c as [[[gv blk] sender] o]. cbn [hok hstep snd].
  destruct (step ms gv blk sender o) as [[ms' out]| |] eqn:E; cbn [is_ok andb].
  - destruct (finished_step _ _ _ _ _ _ _ id HI Hf E) as (Hf' & N1 & N2).
    assert (Z: match o with Execute j | Close j => j =? id | _ => false end = false).
    { destruct o as [? ? ? ?|? ?|j|j]; try reflexivity; apply N.eqb_neq; intros ->; [apply N1|apply N2]; reflexivity. }
    rewrite Z. cbn. apply IH; [eapply step_inv; eassumption|exact Hf'].
  - cbn. apply IH; assumption.
  - cbn. apply IH; assumption.
Qed.

Theorem settle_at_most_once cs : forall ms id, MInv ms -> (settle_count id ms cs <= 1)%nat.
Proof.
  induction cs as [|c r IH]; intros ms id HI; [cbn; lia|]. cbn [settle_count].
  destruct c as [[[gv blk] sender] o]. cbn [hok hstep snd].
  destruct (step ms gv blk sender o) as [[ms' out]| |] eqn:E; cbn [is_ok andb].
  - destruct (match o with Execute j | Close j => j =? id | _ => false end) eqn:Z.
    + assert (Hf: finished ms' id).
      { destruct o as [? ? ? ?|? ?|j|j]; try discriminate; apply N.eqb_eq in Z; subst j; cbn [step] in E;
          [eapply execute_finishes|eapply close_finishes]; eassumption. }
      rewrite (finished_no_more r ms' id (step_inv _ _ _ _ _ _ _ HI E) Hf). lia.
    + cbn. apply IH. eapply step_inv; eassumption.
  - cbn. apply IH. exact HI.
  - cbn. apply IH. exact HI.
Qed.
