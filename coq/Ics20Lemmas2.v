(* Ics20Lemmas2.v — cw20-ics20 at the level of whole transactions and histories: solvency (C11),
   the accounting identity (C12), the allow list over time (C18). *)
Require Import CwPlus.Params CwPlus.Base CwPlus.AMap CwPlus.Ics20Model CwPlus.Ics20Lemmas.
Open Scope N_scope.

(* ---------------------------------------------------------------------------------------- *)
(* how the per-key sums move *)
Lemma ksum_increase st c k n st' : Inv st -> increase_balance st c k n = Some st' ->
  forall k', ksum (chan_state st') k' = ksum (chan_state st) k' + (if k =? k' then n else 0).
Proof.
  intros HI H k'. destruct (increase_spec _ _ _ _ _ HI H) as (_ & _ & _ & _ & _ & _ & Ecs).
  pose proof (ksum_set (chan_state st) c k (mkCs (out_of st c k + n) (sent_of st c k + n)) k' (i_sorted _ HI)) as E.
  rewrite Ecs. unfold out_of, get_cs in *. cbn [outstanding] in E.
  destruct (k =? k'); destruct (get ordNN (chan_state st) (c, k)); lia.
Qed.

Lemma ksum_reduce st c k n st' : Inv st -> reduce_balance st c k n = Some st' ->
  forall k', ksum (chan_state st') k' + (if k =? k' then n else 0) = ksum (chan_state st) k'.
Proof.
  intros HI H k'. destruct (reduce_spec _ _ _ _ _ HI H) as (s & G & L & _ & _ & _ & Ecs & _).
  pose proof (ksum_set (chan_state st) c k (mkCs (outstanding s - n) (total_sent s)) k' (i_sorted _ HI)) as E.
  rewrite Ecs. unfold get_cs in G. rewrite G in E. cbn [outstanding] in E. destruct (k =? k'); lia.
Qed.

Lemma do_transfer_ksum st blk chan remote timeout memo k n sender st' ms : Inv st ->
  do_transfer st blk chan remote timeout memo k n sender = Ok (st', ms) ->
  forall k', ksum (chan_state st') k' = ksum (chan_state st) k' + (if k =? k' then n else 0).
Proof.
  intros HI. unfold do_transfer.
  destruct (n =? 0); [discriminate|]. destruct (negb (mem chan (channels st))); [discriminate|].
  destruct (negb (config_readable st)); [discriminate|]. destruct (key_is_cw20 k && _ && _); [discriminate|].
  destruct (mul64 _ _); [|discriminate]. destruct (add64 _ _); [|discriminate]. destruct (u64max <? n); [discriminate|].
  destruct (increase_balance st chan k n) as [st1|] eqn:I; [|discriminate]. intros E. inv E.
  apply (ksum_increase _ _ _ _ _ HI I).
Qed.

(* ---------------------------------------------------------------------------------------- *)
(* C11: solvency.  H marks the honest keys: every native denom, and every cw20 token that calls
   Receive only from inside its own Send.  An address that calls Receive directly (WExec) only
   creates state under its own, dishonest, key. *)
Record WInv (H : N -> bool) (w : world) : Prop := {
  wi_inv : Inv (w_st w);
  wi_solvent : forall k, H k = true -> ksum (chan_state (w_st w)) k <= hold w k }.

Definition honest_call (H : N -> bool) (c : wcall) : Prop :=
  match snd c with
  | WExec s (Receive _ _ _ _) => H (cw_key s) = false
  | WMigrate _ => False                     (* balance-rewriting migrations are treated separately *)
  | _ => True
  end.

Lemma Inv_with_reply st r : Inv st -> Inv (with_reply st r).
Proof. intros [A B]. constructor; assumption. Qed.
Lemma Inv_cs_eq st st2 : chan_state st2 = chan_state st -> Inv st -> Inv st2.
Proof.
  intros E [A B]. constructor; [rewrite E; exact A|]. intros c k x. unfold get_cs. rewrite E. apply B.
Qed.

Lemma hold_credit_eq w k n : hold (credit w k n) k = hold w k + n.
Proof. unfold hold, credit. cbn [w_hold]. unfold getd, getf. rewrite get_set_eq. reflexivity. Qed.
Lemma hold_credit_neq w k n j : j <> k -> hold (credit w k n) j = hold w j.
Proof. intros Hn. unfold hold, credit. cbn [w_hold]. unfold getd, getf. rewrite get_set_neq by exact Hn. reflexivity. Qed.
Lemma hold_debit_eq w k n : hold (debit w k n) k = hold w k - n.
Proof. unfold hold, debit. cbn [w_hold]. unfold getd, getf. rewrite get_set_eq. reflexivity. Qed.
Lemma hold_debit_neq w k n j : j <> k -> hold (debit w k n) j = hold w j.
Proof. intros Hn. unfold hold, debit. cbn [w_hold]. unfold getd, getf. rewrite get_set_neq by exact Hn. reflexivity. Qed.
Lemma hold_mkW st w k : hold (mkW st (w_hold w)) k = hold w k.
Proof. reflexivity. Qed.

Theorem wstep_solvent H w blk o : WInv H w -> honest_call H (blk, o) -> WInv H (wstep w blk o).
Proof.
  intros [HI HS] Hh. destruct o as [sender x|tok user n t|p pay_ok|p|p pay_ok|k n|g]; cbn [wstep].
  - destruct (step (w_st w) blk sender x) as [[st' ms]| |] eqn:Es; try (constructor; assumption).
    destruct (step_spec _ _ _ _ _ _ HI Es) as (I' & Sp).
    destruct x as [chan remote timeout memo funds|from n tmsg fa|contract gas|a].
    + destruct Sp as (d & n & -> & Ht). constructor.
      * exact I'.
      * intros k Hk. pose proof (do_transfer_ksum _ _ _ _ _ _ _ _ _ _ _ HI Ht k) as E. cbn [w_st] in *.
        destruct (N.eqb_spec (nat_key d) k) as [<-|Hn].
        -- rewrite hold_credit_eq, hold_mkW. specialize (HS _ Hk). cbv beta iota in *. cbn [credit debit w_st with_reply chan_state]. lia.
        -- rewrite hold_credit_neq by (intros C; apply Hn; symmetry; exact C). rewrite hold_mkW. specialize (HS _ Hk). cbv beta iota in *. cbn [credit debit w_st with_reply chan_state]. lia.
    + destruct Sp as (u & chan & remote & timeout & memo & -> & -> & -> & Ht). cbn [honest_call snd] in Hh.
      constructor; [exact I'|]. intros k Hk. cbn [w_st]. rewrite hold_mkW.
      pose proof (do_transfer_ksum _ _ _ _ _ _ _ _ _ _ _ HI Ht k) as E.
      destruct (N.eqb_spec (cw_key sender) k) as [<-|Hn]; [congruence|]. specialize (HS _ Hk). cbv beta iota in *. cbn [credit debit w_st with_reply chan_state]. lia.
    + destruct Sp as (_ & _ & c & _ & -> & _). constructor; [exact I'|]. intros k Hk. apply HS. exact Hk.
    + destruct Sp as (_ & _ & c & _ & ->). constructor; [exact I'|]. intros k Hk. apply HS. exact Hk.
  - destruct (step (w_st w) blk tok (Receive (Some user) n t false)) as [[st' ms]| |] eqn:Es; try (constructor; assumption).
    destruct (step_spec _ _ _ _ _ _ HI Es) as (I' & (u & chan & remote & timeout & memo & Eu & -> & _ & Ht)). inv Eu.
    constructor; [exact I'|]. intros k Hk. cbn [w_st].
    pose proof (do_transfer_ksum _ _ _ _ _ _ _ _ _ _ _ HI Ht k) as E.
    destruct (N.eqb_spec (cw_key tok) k) as [<-|Hn].
    + rewrite hold_credit_eq, hold_mkW. specialize (HS _ Hk). cbv beta iota in *. cbn [credit debit w_st with_reply chan_state]. lia.
    + rewrite hold_credit_neq by (intros C; apply Hn; symmetry; exact C). rewrite hold_mkW. specialize (HS _ Hk). cbv beta iota in *. cbn [credit debit w_st with_reply chan_state]. lia.
  - unfold do_receive.
    destruct (ip_data p) as [d|]; [|constructor; assumption].
    destruct (parse_voucher p (pd_denom d)) as [[k|]|]; [|constructor; assumption|constructor; assumption].
    destruct (check_gas_limit (w_st w) k) as [gas|]; [|constructor; assumption].
    destruct (reduce_balance (w_st w) (ip_dest_chan p) k (pd_amount d)) as [st1|] eqn:R; [|constructor; assumption].
    cbn [paid]. destruct (reduce_spec _ _ _ _ _ HI R) as (s & _ & _ & I1 & _).
    destruct (pay_ok && (pd_amount d <=? hold w k)) eqn:P.
    + apply andb_true_iff in P. destruct P as [_ P]. apply N.leb_le in P. constructor; cbn [w_st].
      * destruct I1 as [A B]. constructor; assumption.
      * intros k' Hk. pose proof (ksum_reduce _ _ _ _ _ HI R k') as E. cbn [with_reply chan_state].
        destruct (N.eqb_spec k k') as [<-|Hn].
        -- rewrite hold_debit_eq, hold_mkW. specialize (HS _ Hk). cbv beta iota in *. cbn [credit debit w_st with_reply chan_state]. lia.
        -- rewrite hold_debit_neq by (intros C; apply Hn; symmetry; exact C). rewrite hold_mkW. specialize (HS _ Hk). cbv beta iota in *. cbn [credit debit w_st with_reply chan_state]. lia.
    + destruct (reduce_undo _ _ _ _ _ HI R) as (st2 & U & Ecs & Es & _).
      unfold reply_receive_err. cbn [with_reply reply_args]. rewrite undo_with_reply, U.
      constructor; cbn [w_st].
      * apply Inv_with_reply. eapply Inv_cs_eq; eassumption.
      * intros k' Hk. cbn [with_reply chan_state]. rewrite Ecs. rewrite hold_mkW. apply HS. exact Hk.
  - constructor; assumption.
  - destruct (on_failure (w_st w) p) as [[st1 ms]| |] eqn:F; try (constructor; assumption).
    destruct (failure_spec _ _ _ _ HI F) as (gas & _ & -> & _ & _ & _ & I1 & _). cbn [paid].
    assert (K: forall k', ksum (chan_state st1) k' + (if op_key p =? k' then op_amount p else 0) = ksum (chan_state (w_st w)) k').
    { unfold on_failure in F. destruct (reduce_balance (w_st w) (op_chan p) (op_key p) (op_amount p)) as [s1|] eqn:R; [|discriminate].
      destruct (check_gas_limit s1 (op_key p)); [|discriminate]. inv F. apply (ksum_reduce _ _ _ _ _ HI R). }
    destruct (pay_ok && (op_amount p <=? hold w (op_key p))) eqn:P.
    + apply andb_true_iff in P. destruct P as [_ P]. apply N.leb_le in P. constructor; cbn [w_st]; [exact I1|].
      intros k' Hk. specialize (K k'). destruct (N.eqb_spec (op_key p) k') as [E0|Hn]; [subst k'|].
      * rewrite hold_debit_eq, hold_mkW. specialize (HS _ Hk). cbv beta iota in *. cbn [credit debit w_st with_reply chan_state]. lia.
      * rewrite hold_debit_neq by (intros C; apply Hn; symmetry; exact C). rewrite hold_mkW. specialize (HS _ Hk). cbv beta iota in *. cbn [credit debit w_st with_reply chan_state]. lia.
    + constructor; cbn [w_st]; [exact I1|]. intros k' Hk. specialize (K k'). rewrite hold_mkW. specialize (HS _ Hk).
      destruct (op_key p =? k'); lia.
  - constructor; [exact HI|]. intros k' Hk. cbn [credit w_st]. destruct (N.eq_dec k' k) as [->|Hn].
    + rewrite hold_credit_eq. specialize (HS _ Hk). cbv beta iota in *. cbn [credit debit w_st with_reply chan_state]. lia.
    + rewrite hold_credit_neq by exact Hn. apply HS. exact Hk.
  - destruct Hh.
Qed.

Theorem solvent_history H cs : forall w, WInv H w -> Forall (honest_call H) cs -> WInv H (wrun w cs).
Proof.
  induction cs as [|[blk o] r IH]; intros w HW Hh; [exact HW|]. cbn [wrun fold_left fst snd].
  inversion Hh; subst. apply IH; [|assumption]. apply wstep_solvent; assumption.
Qed.

(* per channel and key: what is outstanding never exceeds what was escrowed (total_sent), in every
   reachable state; so redemptions plus refunds on a channel never exceed the escrow on it *)
Theorem per_channel_bound H w c k s : WInv H w -> get_cs (w_st w) c k = Some s ->
  outstanding s <= total_sent s /\ total_sent s <= u128max.
Proof. intros [HI _] G. apply (i_bounded _ HI _ _ _ G). Qed.

(* packets that name a foreign denomination, another port or channel, or more than the channel's
   outstanding balance release nothing and change nothing *)
Theorem foreign_packet_releases_nothing st p :
  (match ip_data p with
   | Some d => match parse_voucher p (pd_denom d) with
               | Some (BKey k) => out_of st (ip_dest_chan p) k < pd_amount d
               | _ => True end
   | None => True end) ->
  do_receive st p = (st, AckErr, []).
Proof.
  unfold do_receive. destruct (ip_data p) as [d|]; [|reflexivity].
  destruct (parse_voucher p (pd_denom d)) as [[k|]|]; [|reflexivity|reflexivity].
  intros L. destruct (check_gas_limit st k); [|reflexivity].
  unfold reduce_balance, out_of in *. destruct (get_cs st (ip_dest_chan p) k) as [s|]; [|reflexivity].
  unfold sub128, obind. rewrite (proj2 (N.leb_gt (pd_amount d) (outstanding s))) by exact L. reflexivity.
Qed.

(* ---------------------------------------------------------------------------------------- *)
(* C12: the accounting identity over histories.  Ghost amounts of one transaction, read off the
   operation and whether the contract accepted it *)
Definition sent_amt (w : world) (blk : block) (o : wop) (c k : N) : N :=
  match o with
  | WExec s (Transfer chan r tm me [(DPlain d, n)]) =>
      if is_ok (step (w_st w) blk s (Transfer chan r tm me [(DPlain d, n)])) && (chan =? c) && (nat_key d =? k) then n else 0
  | WExec s (Receive fr n (Some (chan, r, tm, me)) fa) =>
      if is_ok (step (w_st w) blk s (Receive fr n (Some (chan, r, tm, me)) fa)) && (chan =? c) && (cw_key s =? k) then n else 0
  | WSendCw20 tok user n (Some (chan, r, tm, me)) =>
      if is_ok (step (w_st w) blk tok (Receive (Some user) n (Some (chan, r, tm, me)) false)) && (chan =? c) && (cw_key tok =? k)
      then n else 0
  | _ => 0
  end.
Definition failed_amt (w : world) (o : wop) (c k : N) : N :=
  match o with
  | WFail p _ => if is_ok (on_failure (w_st w) p) && (op_chan p =? c) && (op_key p =? k) then op_amount p else 0
  | _ => 0
  end.
Definition redeemed_amt (w : world) (o : wop) (c k : N) : N :=
  match o with
  | WRecv p pay_ok =>
      match do_receive (w_st w) p with
      | (_, AckOk, [Payout k' _ n _]) =>
          if pay_ok && (n <=? hold w k') && (ip_dest_chan p =? c) && (k' =? k) then n else 0
      | _ => 0
      end
  | _ => 0
  end.

Lemma out_of_frame st st' c k c0 k0 : (forall c' k', (c', k') <> (c0, k0) -> get_cs st' c' k' = get_cs st c' k') ->
  (c, k) <> (c0, k0) -> out_of st' c k = out_of st c k /\ sent_of st' c k = sent_of st c k.
Proof. intros F Hn. unfold out_of, sent_of. rewrite (F c k Hn). split; reflexivity. Qed.

Lemma pair_eqb_cases (c k c0 k0 : N) : ((c0 =? c) && (k0 =? k) = true /\ c = c0 /\ k = k0) \/
                                        ((c0 =? c) && (k0 =? k) = false /\ (c, k) <> (c0, k0)).
Proof.
  destruct (N.eqb_spec c0 c) as [->|Hc]; [destruct (N.eqb_spec k0 k) as [->|Hk]|]; cbn [andb].
  - left. auto.
  - right. split; [reflexivity|]. intros E. inv E. apply Hk. reflexivity.
  - right. split; [reflexivity|]. intros E. inv E. apply Hc. reflexivity.
Qed.

Lemma transfer_law st blk chan remote timeout memo k0 n sender st' ms c k : Inv st ->
  do_transfer st blk chan remote timeout memo k0 n sender = Ok (st', ms) ->
  out_of st' c k = out_of st c k + (if (chan =? c) && (k0 =? k) then n else 0) /\
  sent_of st' c k = sent_of st c k + (if (chan =? c) && (k0 =? k) then n else 0).
Proof.
  intros HI Ht. destruct (transfer_spec _ _ _ _ _ _ _ _ _ _ _ HI Ht) as (_ & _ & _ & _ & _ & _ & _ & O1 & T1 & F1).
  destruct (pair_eqb_cases c k chan k0) as [(-> & -> & ->)|(-> & Hn)].
  - split; assumption.
  - destruct (out_of_frame _ _ _ _ _ _ F1 Hn) as [A B]. rewrite A, B. split; lia.
Qed.

Definition not_migrate (o : wop) : Prop := match o with WMigrate _ => False | _ => True end.

Theorem step_law w blk o c k : Inv (w_st w) -> not_migrate o ->
  let w' := wstep w blk o in
  out_of (w_st w') c k + failed_amt w o c k + redeemed_amt w o c k = out_of (w_st w) c k + sent_amt w blk o c k /\
  sent_of (w_st w') c k = sent_of (w_st w) c k + sent_amt w blk o c k /\ Inv (w_st w').
Proof.
  intros HI Hm. cbv zeta. destruct o as [sender x|tok user n t|p pay_ok|p|p pay_ok|k0 n|g]; cbn [wstep]; try destruct Hm.
  - destruct (step (w_st w) blk sender x) as [[st' ms]| |] eqn:Es.
    + destruct (step_spec _ _ _ _ _ _ HI Es) as (I' & Sp).
      destruct x as [chan remote timeout memo funds|from n tmsg fa|contract gas|a].
      * destruct Sp as (d & n & -> & Ht). cbn [sent_amt failed_amt redeemed_amt]. rewrite Es. cbn [is_ok andb].
        destruct (transfer_law _ _ _ _ _ _ _ _ _ _ _ c k HI Ht) as [A B]. cbn [credit w_st].
        split; [rewrite A; lia|]. split; [rewrite B; reflexivity|exact I'].
      * destruct Sp as (u & chan & remote & timeout & memo & -> & -> & -> & Ht). cbn [sent_amt failed_amt redeemed_amt]. rewrite Es.
        cbn [is_ok andb]. destruct (transfer_law _ _ _ _ _ _ _ _ _ _ _ c k HI Ht) as [A B]. cbn [w_st].
        split; [rewrite A; lia|]. split; [rewrite B; reflexivity|exact I'].
      * destruct Sp as (_ & _ & c0 & _ & -> & _). cbn [sent_amt failed_amt redeemed_amt w_st]. split; [unfold out_of, get_cs; cbn; lia|].
        split; [unfold sent_of, get_cs; cbn; lia|exact I'].
      * destruct Sp as (_ & _ & c0 & _ & ->). cbn [sent_amt failed_amt redeemed_amt w_st]. split; [unfold out_of, get_cs; cbn; lia|].
        split; [unfold sent_of, get_cs; cbn; lia|exact I'].
    + assert (Z: sent_amt w blk (WExec sender x) c k = 0).
      { destruct x as [chan r tm me funds|fr n tmsg fa| |]; try reflexivity; cbn [sent_amt].
        - destruct funds as [|[[d|] n] [|? ?]]; try reflexivity. rewrite Es. reflexivity.
        - destruct tmsg as [[[[chan r] tm] me]|]; [|reflexivity]. rewrite Es. reflexivity. }
      rewrite Z. cbn [failed_amt redeemed_amt]. split; [lia|]. split; [lia|exact HI].
    + assert (Z: sent_amt w blk (WExec sender x) c k = 0).
      { destruct x as [chan r tm me funds|fr n tmsg fa| |]; try reflexivity; cbn [sent_amt].
        - destruct funds as [|[[d|] n] [|? ?]]; try reflexivity. rewrite Es. reflexivity.
        - destruct tmsg as [[[[chan r] tm] me]|]; [|reflexivity]. rewrite Es. reflexivity. }
      rewrite Z. cbn [failed_amt redeemed_amt]. split; [lia|]. split; [lia|exact HI].
  - destruct (step (w_st w) blk tok (Receive (Some user) n t false)) as [[st' ms]| |] eqn:Es.
    + destruct (step_spec _ _ _ _ _ _ HI Es) as (I' & (u & chan & remote & timeout & memo & Eu & -> & _ & Ht)). inv Eu.
      cbn [sent_amt failed_amt redeemed_amt]. rewrite Es. cbn [is_ok andb].
      destruct (transfer_law _ _ _ _ _ _ _ _ _ _ _ c k HI Ht) as [A B]. cbn [credit w_st].
      split; [rewrite A; lia|]. split; [rewrite B; reflexivity|exact I'].
    + assert (Z: sent_amt w blk (WSendCw20 tok user n t) c k = 0).
      { cbn [sent_amt]. destruct t as [[[[chan r] tm] me]|]; [|reflexivity]. rewrite Es. reflexivity. }
      rewrite Z. cbn [failed_amt redeemed_amt]. split; [lia|]. split; [lia|exact HI].
    + assert (Z: sent_amt w blk (WSendCw20 tok user n t) c k = 0).
      { cbn [sent_amt]. destruct t as [[[[chan r] tm] me]|]; [|reflexivity]. rewrite Es. reflexivity. }
      rewrite Z. cbn [failed_amt redeemed_amt]. split; [lia|]. split; [lia|exact HI].
  - cbn [sent_amt failed_amt redeemed_amt]. unfold do_receive.
    destruct (ip_data p) as [d|]; [|(cbv beta iota zeta; cbn [w_st]; split; [lia|split; [lia|exact HI]])].
    destruct (parse_voucher p (pd_denom d)) as [[k1|]|]; [|(cbv beta iota zeta; cbn [w_st]; split; [lia|split; [lia|exact HI]])|(cbv beta iota zeta; cbn [w_st]; split; [lia|split; [lia|exact HI]])].
    destruct (check_gas_limit (w_st w) k1) as [gas|]; [|(cbv beta iota zeta; cbn [w_st]; split; [lia|split; [lia|exact HI]])].
    destruct (reduce_balance (w_st w) (ip_dest_chan p) k1 (pd_amount d)) as [st1|] eqn:R; [|(cbv beta iota zeta; cbn [w_st]; split; [lia|split; [lia|exact HI]])].
    cbn [paid]. destruct (reduce_spec _ _ _ _ _ HI R) as (s & _ & _ & I1 & _ & _ & _ & O1 & T1 & F1).
    destruct (pay_ok && (pd_amount d <=? hold w k1)) eqn:P; cbn [andb].
    + cbn [debit w_st]. destruct (pair_eqb_cases c k (ip_dest_chan p) k1) as [(-> & -> & ->)|(-> & Hn)].
      * unfold out_of, sent_of, get_cs in *. cbn [with_reply chan_state]. split; [lia|]. split; [lia|].
        destruct I1 as [A B]. constructor; assumption.
      * destruct (out_of_frame _ _ _ _ _ _ F1 Hn) as [A B]. unfold out_of, sent_of, get_cs in *. cbn [with_reply chan_state].
        split; [lia|]. split; [lia|]. destruct I1 as [A' B']. constructor; assumption.
    + destruct (reduce_undo _ _ _ _ _ HI R) as (st2 & U & Ecs & Es & _).
      unfold reply_receive_err. cbn [with_reply reply_args]. rewrite undo_with_reply, U. cbn [w_st].
      unfold out_of, sent_of, get_cs. cbn [with_reply chan_state]. rewrite Ecs. split; [lia|]. split; [lia|].
      apply Inv_with_reply. eapply Inv_cs_eq; eassumption.
  - cbn [sent_amt failed_amt redeemed_amt]. split; [lia|]. split; [lia|exact HI].
  - cbn [sent_amt failed_amt redeemed_amt].
    destruct (on_failure (w_st w) p) as [[st1 ms]| |] eqn:F; cbn [is_ok andb]; try (split; [lia|split; [lia|exact HI]]).
    destruct (failure_spec _ _ _ _ HI F) as (gas & _ & -> & O1 & T1 & F1 & I1 & _). cbn [paid].
    assert (X: w_st (if pay_ok && (op_amount p <=? hold w (op_key p)) then debit (mkW st1 (w_hold w)) (op_key p) (op_amount p)
                     else mkW st1 (w_hold w)) = st1).
    { destruct (pay_ok && _); reflexivity. }
    rewrite X.
    destruct (pair_eqb_cases c k (op_chan p) (op_key p)) as [(-> & -> & ->)|(-> & Hn)].
    + split; [lia|]. split; [lia|exact I1].
    + destruct (out_of_frame _ _ _ _ _ _ F1 Hn) as [A B]. split; [lia|]. split; [lia|exact I1].
  - cbn [sent_amt failed_amt redeemed_amt credit w_st]. split; [lia|]. split; [lia|exact HI].
Qed.

Fixpoint g_sent (w : world) (cs : list wcall) (c k : N) : N :=
  match cs with [] => 0 | x :: r => sent_amt w (fst x) (snd x) c k + g_sent (wstep w (fst x) (snd x)) r c k end.
Fixpoint g_failed (w : world) (cs : list wcall) (c k : N) : N :=
  match cs with [] => 0 | x :: r => failed_amt w (snd x) c k + g_failed (wstep w (fst x) (snd x)) r c k end.
Fixpoint g_redeemed (w : world) (cs : list wcall) (c k : N) : N :=
  match cs with [] => 0 | x :: r => redeemed_amt w (snd x) c k + g_redeemed (wstep w (fst x) (snd x)) r c k end.

Theorem accounting_identity cs : forall w c k, Inv (w_st w) -> Forall (fun x => not_migrate (snd x)) cs ->
  out_of (w_st (wrun w cs)) c k + g_failed w cs c k + g_redeemed w cs c k = out_of (w_st w) c k + g_sent w cs c k /\
  sent_of (w_st (wrun w cs)) c k = sent_of (w_st w) c k + g_sent w cs c k.
Proof.
  induction cs as [|[blk o] r IH]; intros w c k HI Hm; cbn [wrun fold_left g_sent g_failed g_redeemed fst snd]; [split; lia|].
  inversion Hm as [|? ? Hm1 Hmr]; subst. cbn [snd] in Hm1.
  destruct (step_law w blk o c k HI Hm1) as (A & B & I').
  destruct (IH (wstep w blk o) c k I' Hmr) as [A2 B2].
  change (fold_left (fun x c0 => wstep x (fst c0) (snd c0)) r (wstep w blk o)) with (wrun (wstep w blk o) r).
  split; lia.
Qed.

(* ---------------------------------------------------------------------------------------- *)
(* C18: the allow list over time *)
Definition loosens (a a' : amap N (option N)) : Prop :=
  forall c g, get ordN a c = Some g -> exists g', get ordN a' c = Some g' /\ gas_le g g'.
Lemma gas_le_refl g : gas_le g g.
Proof. destruct g; unfold gas_le; [lia|exact I]. Qed.
Lemma loosens_refl a : loosens a a.
Proof. intros c g G. exists g. split; [exact G|apply gas_le_refl]. Qed.
Lemma gas_le_trans a b c : gas_le a b -> gas_le b c -> gas_le a c.
Proof. destruct a, b, c; unfold gas_le; try tauto; lia. Qed.
Lemma loosens_trans a b c : loosens a b -> loosens b c -> loosens a c.
Proof.
  intros H1 H2 x g G. destruct (H1 _ _ G) as (g1 & G1 & L1). destruct (H2 _ _ G1) as (g2 & G2 & L2).
  exists g2. split; [exact G2|eapply gas_le_trans; eassumption].
Qed.

Lemma do_transfer_gov st blk chan remote timeout memo k n sender st' ms : Inv st ->
  do_transfer st blk chan remote timeout memo k n sender = Ok (st', ms) -> same_but_cs st st'.
Proof. intros HI H. destruct (transfer_spec _ _ _ _ _ _ _ _ _ _ _ HI H) as (_ & _ & _ & _ & _ & _ & S & _). exact S. Qed.

(* only the governance address changes the allow list or hands governance over, and the allow list
   only ever loosens *)
Theorem governance_only st blk sender o st' ms : Inv st -> step st blk sender o = Ok (st', ms) ->
  loosens (allow st) (allow st') /\
  ((allow st' <> allow st \/ admin st' <> admin st) -> admin st = Some sender) /\
  default_gas st' = default_gas st /\ default_timeout st' = default_timeout st.
Proof.
  intros HI H. destruct (step_spec _ _ _ _ _ _ HI H) as (_ & Sp).
  destruct o as [chan remote timeout memo funds|from n tmsg fa|contract gas|a].
  - destruct Sp as (d & n & _ & Ht). destruct (do_transfer_gov _ _ _ _ _ _ _ _ _ _ _ HI Ht) as (A & B & C & D & _).
    rewrite D, C. split; [apply loosens_refl|]. split; [intros [X|X]; exfalso; apply X; reflexivity|auto].
  - destruct Sp as (u & chan & remote & timeout & memo & _ & _ & _ & Ht).
    destruct (do_transfer_gov _ _ _ _ _ _ _ _ _ _ _ HI Ht) as (A & B & C & D & _).
    rewrite D, C. split; [apply loosens_refl|]. split; [intros [X|X]; exfalso; apply X; reflexivity|auto].
  - destruct Sp as (Ha & _ & c & _ & -> & Hold). cbn [with_allow allow admin default_gas default_timeout].
    split; [|split; [intros _; exact Ha|split; reflexivity]].
    intros x g G. destruct (N.eq_dec x c) as [->|Hn].
    + exists gas. rewrite get_set_eq. split; [reflexivity|apply Hold; exact G].
    + exists g. rewrite get_set_neq by exact Hn. split; [exact G|apply gas_le_refl].
  - destruct Sp as (Ha & _ & x & _ & ->). cbn [with_admin allow admin default_gas default_timeout].
    split; [apply loosens_refl|]. split; [intros _; exact Ha|split; reflexivity].
Qed.

(* the IBC entry points never touch governance data *)
Theorem ibc_keeps_governance st p pay_ok st' a ms : Inv st -> tx_receive st p pay_ok = Some (st', a, ms) ->
  allow st' = allow st /\ admin st' = admin st /\ default_gas st' = default_gas st.
Proof.
  intros HI H. destruct a.
  - destruct (receive_ok_spec _ _ _ _ _ HI H) as (d & k & gas & port & chan & Ed & _ & _ & _ & _ & Ep & _).
    subst pay_ok. unfold tx_receive, do_receive in H. rewrite Ed in H.
    destruct (parse_voucher p (pd_denom d)) as [[k1|]|]; try discriminate.
    destruct (check_gas_limit st k1); [|discriminate].
    destruct (reduce_balance st (ip_dest_chan p) k1 (pd_amount d)) as [st1|] eqn:R; [|discriminate]. inv H.
    destruct (reduce_spec _ _ _ _ _ HI R) as (s & _ & _ & _ & (A & B & C & D & _) & _). cbn [with_reply allow admin default_gas]. auto.
  - destruct (receive_err_noop _ _ _ _ _ HI H) as (_ & (A & B & C & D & _)). auto.
Qed.

(* cw20 transfers are gated by the allow list or a default gas limit; payouts carry the token's
   current limit, else the default (native payouts carry none) *)
Theorem cw20_gate st blk tok from n tmsg fa st' ms : Inv st ->
  step st blk tok (Receive from n tmsg fa) = Ok (st', ms) ->
  default_gas st <> None \/ get ordN (allow st) tok <> None.
Proof.
  intros HI H. destruct (step_spec _ _ _ _ _ _ HI H) as (_ & (u & chan & remote & timeout & memo & _ & _ & _ & Ht)).
  destruct (transfer_spec _ _ _ _ _ _ _ _ _ _ _ HI Ht) as (_ & _ & _ & G & _).
  assert (K: key_is_cw20 (cw_key tok) = true).
  { unfold key_is_cw20, cw_key. rewrite N.add_comm. rewrite N.odd_add_mul_2. reflexivity. }
  destruct (G K) as [X|X]; [left; exact X|right].
  assert (E: key_addr (cw_key tok) = tok).
  { unfold key_addr, cw_key. rewrite N.mul_comm. rewrite N.div_add_l by lia. rewrite (N.div_small 1 2) by lia. lia. }
  rewrite E in X. exact X.
Qed.

Theorem payout_gas st k gas : check_gas_limit st k = Some gas ->
  (key_is_cw20 k = false -> gas = None) /\
  (key_is_cw20 k = true ->
     match get ordN (allow st) (key_addr k) with
     | Some g => gas = g
     | None => exists b, default_gas st = Some b /\ gas = Some b
     end).
Proof.
  unfold check_gas_limit. destruct (key_is_cw20 k).
  - intros H. split; [discriminate|]. intros _. destruct (get ordN (allow st) (key_addr k)) as [g|].
    + inv H. reflexivity.
    + destruct (negb (config_readable st)); [discriminate|]. destruct (default_gas st) as [b|]; [|discriminate].
      inv H. exists b. auto.
  - intros H. inv H. split; [reflexivity|discriminate].
Qed.

(* migrate never touches the allow list; it sets the governance address only when converting the
   pre-allow-list layout; it never unsets a default gas limit it is not asked to replace *)
Lemma migrate_fold_frame l : forall s0 s1,
  fold_left (fun acc b =>
    match acc with
    | None => None
    | Some s =>
        let '(c, k, held_o) := b in
        match get_cs s c k, held_o with
        | None, _ => Some s
        | Some _, None => None
        | Some cs, Some held =>
            if held <? outstanding cs then None
            else let diff := held - outstanding cs in
                 if diff =? 0 then Some s
                 else match add128 (outstanding cs) diff, add128 (total_sent cs) diff with
                      | Some o, Some t => Some (with_cs s (set ordNN (chan_state s) (c, k) (mkCs o t)))
                      | _, _ => None
                      end
        end
    end) l (Some s0) = Some s1 -> same_but_cs s0 s1 /\ reply_args s1 = reply_args s0.
Proof.
  induction l as [|[[c k] held_o] r IH]; intros s0 s1; cbn [fold_left].
  - intros E. inv E. split; [repeat split|reflexivity].
  - destruct (get_cs s0 c k) as [cs|]; [|apply IH].
    destruct held_o as [held|];
      [|intros E; exfalso; clear IH; induction r as [|x r IHr]; cbn [fold_left] in E; [discriminate|auto]].
    destruct (held <? outstanding cs).
    + intros E. exfalso. clear IH. induction r as [|x r IHr]; cbn [fold_left] in E; [discriminate|auto].
    + cbv zeta. destruct (held - outstanding cs =? 0); [apply IH|].
      destruct (add128 (outstanding cs) (held - outstanding cs)) as [o|];
        [destruct (add128 (total_sent cs) (held - outstanding cs)) as [t|]|].
      * intros E. destruct (IH _ _ E) as ((A & B & C & D & F & G & H) & R). cbn [with_cs] in *.
        split; [repeat split; assumption|exact R].
      * intros E. exfalso. clear IH. induction r as [|x r IHr]; cbn [fold_left] in E; [discriminate|auto].
      * intros E. exfalso. clear IH. induction r as [|x r IHr]; cbn [fold_left] in E; [discriminate|auto].
Qed.

Theorem migrate_governance st g ok bal st' : migrate st g ok bal = Ok st' ->
  allow st' = allow st /\
  (ver st <> V1 -> admin st' = admin st) /\
  (ver st = V1 -> admin st' = v1_gov st /\ default_gas st' = g) /\
  (ver st <> V1 -> default_gas st' = match g with Some x => Some x | None => default_gas st end).
Proof.
  unfold migrate. destruct (ver st) eqn:V; try discriminate.
  - destruct (v1_gov st) as [gv|]; [|discriminate].
    destruct (negb ok); [discriminate|].
    match goal with |- context [fold_left ?f bal (Some ?s)] => destruct (fold_left f bal (Some s)) as [s2|] eqn:F end; [|discriminate].
    destruct (migrate_fold_frame _ _ _ F) as ((A & B & C & D & _) & _). cbn [default_gas admin allow] in *.
    intros E. inv E. cbn [allow admin default_gas]. rewrite D, C, B. split; [reflexivity|]. split; [intros X; exfalso; apply X; reflexivity|].
    split; [intros _; split; [reflexivity|destruct g; reflexivity]|intros X; exfalso; apply X; reflexivity].
  - destruct (negb ok); [discriminate|].
    match goal with |- context [fold_left ?f bal (Some ?s)] => destruct (fold_left f bal (Some s)) as [s2|] eqn:F end; [|discriminate].
    destruct (migrate_fold_frame _ _ _ F) as ((A & B & C & D & _) & _).
    intros E. inv E. cbn [allow admin default_gas]. rewrite D, C, B. split; [reflexivity|]. split; [reflexivity|].
    split; [discriminate|reflexivity].
  - intros E. inv E. cbn [allow admin default_gas]. split; [reflexivity|]. split; [reflexivity|]. split; [discriminate|reflexivity].
  - intros E. inv E. cbn [allow admin default_gas]. split; [reflexivity|]. split; [reflexivity|]. split; [discriminate|reflexivity].
Qed.
