(* Cw3Check.v — step contracts S_C03, S_C05, S_C06, S_C15 and the trace checker of family F3. *)
Require Import CwPlus.Params CwPlus.Base CwPlus.AMap CwPlus.Cw3Threshold CwPlus.Cw4Model CwPlus.Cw3Model.
Open Scope N_scope.

(* one proposal as the queries show it (Proposal / ListProposals + ListVotes paged to the end) *)
Record pobs := mkPo {
  po_id : N; po_title : N; po_status : status; po_expires : expiration; po_proposer : N;
  po_deposit : option deposit; po_threshold : threshold; po_total : N; po_msgs : list pmsg;
  po_ballots : list (N * (N * vote)) }.

Record obs := mkObs {
  ob_props : list pobs;                  (* ascending ids *)
  ob_voters : list (N * N);              (* ListVoters paged (fixed: VOTERS; flex: the group's members now) *)
  ob_ms_native : N; ob_ms_cw20 : N;      (* balances of the multisig (deposit denom / deposit token) *)
  ob_native : list (N * N); ob_cw20 : list (N * N);  (* balances of every pool address *)
  ob_view_bad : list N                   (* ids whose single Proposal{id} answer differs from their ListProposals entry;
                                            0 = the reverse listing differs from the forward one *)
}.

(* what the group answers during this call (flex); recorded by the harness from the real group *)
Record genv := mkGe {
  ge_now : list (N * N);                 (* members now (raw reads) *)
  ge_total : N;                          (* raw total now *)
  ge_at : list (N * N * option N);       (* Member{a, at_height h} for every pool address x start height of a proposal *)
  ge_block_start : list (N * N);         (* ListMembers as it was when this block began *)
  ge_changed : bool;                     (* a membership change was made earlier in this very block *)
  ge_snaps : list (N * list (N * N))     (* per proposal id: ListMembers as it was when its creation block began
                                            (recorded by the harness, independent of the at-height queries) *)
}.

Definition lookup (l : list (N * N)) (a : N) : option N :=
  match find (fun kv => fst kv =? a) l with Some kv => Some (snd kv) | None => None end.
Definition lookup_at (l : list (N * N * option N)) (a h : N) : option N :=
  match find (fun x => (fst (fst x) =? a) && (snd (fst x) =? h)) l with Some x => snd x | None => None end.
Definition gview_of_env (g : genv) : gview := mkGv (lookup (ge_now g)) (ge_total g) (lookup_at (ge_at g)).
Definition find_prop (o : obs) (id : N) : option pobs := find (fun p => po_id p =? id) (ob_props o).

(* one handler invocation inside the transaction (the top-level call first, then nested self-calls
   in dispatch order), as logged by the wrapped entry point *)
Inductive hcall := HCall (sender : N) (o : op) (hok : bool) (out : list emsg).

(* ---- equality tests ---- *)
Definition token_eqb (a b : token) : bool :=
  match a, b with Native x, Native y => x =? y | Cw20 x, Cw20 y => x =? y | _, _ => false end.
Definition dep_eqb (a b : deposit) : bool :=
  (d_amount a =? d_amount b) && token_eqb (d_token a) (d_token b) && Bool.eqb (d_refund_failed a) (d_refund_failed b).
Definition pmsg_eqb (a b : pmsg) : bool :=
  match a, b with
  | PBank t1 n1, PBank t2 n2 => (t1 =? t2) && (n1 =? n2)
  | PSelfExec x, PSelfExec y | PSelfClose x, PSelfClose y | POk x, POk y | PFail x, PFail y => x =? y
  | _, _ => false
  end.
Definition emsg_eqb (a b : emsg) : bool :=
  match a, b with
  | ETake t1 o1 n1, ETake t2 o2 n2 => (t1 =? t2) && (o1 =? o2) && (n1 =? n2)
  | ERefund t1 a1 n1, ERefund t2 a2 n2 => token_eqb t1 t2 && (a1 =? a2) && (n1 =? n2)
  | EUser x, EUser y => pmsg_eqb x y
  | _, _ => false
  end.
Definition thr_eqb (a b : threshold) : bool :=
  match a, b with
  | AbsCount x, AbsCount y | AbsPct x, AbsPct y => x =? y
  | ThQuorum t1 q1, ThQuorum t2 q2 => (t1 =? t2) && (q1 =? q2)
  | _, _ => false
  end.
Definition ballot_eqb (x y : N * (N * vote)) : bool :=
  (fst x =? fst y) && (fst (snd x) =? fst (snd y)) && vote_eqb (snd (snd x)) (snd (snd y)).
Definition pobs_static_eqb (a b : pobs) : bool :=
  (po_id a =? po_id b) && (po_title a =? po_title b) && exp_eqb (po_expires a) (po_expires b) &&
  (po_proposer a =? po_proposer b) && opt_eqb dep_eqb (po_deposit a) (po_deposit b) &&
  thr_eqb (po_threshold a) (po_threshold b) && (po_total a =? po_total b) && list_eqb pmsg_eqb (po_msgs a) (po_msgs b).
Definition pobs_eqb (a b : pobs) : bool :=
  pobs_static_eqb a b && status_eqb (po_status a) (po_status b) && list_eqb ballot_eqb (po_ballots a) (po_ballots b).
Definition nn_eqb (x y : N * N) : bool := (fst x =? fst y) && (snd x =? snd y).
Definition obs_eqb (a b : obs) : bool :=
  list_eqb pobs_eqb (ob_props a) (ob_props b) && list_eqb nn_eqb (ob_voters a) (ob_voters b) &&
  (ob_ms_native a =? ob_ms_native b) && (ob_ms_cw20 a =? ob_ms_cw20 b) &&
  list_eqb nn_eqb (ob_native a) (ob_native b) && list_eqb nn_eqb (ob_cw20 a) (ob_cw20 b).

(* tally of the recorded ballots *)
Fixpoint tally_of (l : list (N * (N * vote))) : votes :=
  match l with
  | [] => mkVotes 0 0 0 0
  | (_, (w, v)) :: r =>
      let t := tally_of r in
      match v with
      | VYes => mkVotes (yes t + w) (no t) (abstain t) (veto t)
      | VNo => mkVotes (yes t) (no t + w) (abstain t) (veto t)
      | VAbstain => mkVotes (yes t) (no t) (abstain t + w) (veto t)
      | VVeto => mkVotes (yes t) (no t) (abstain t) (veto t + w)
      end
  end.
Definition ballots_weight (l : list (N * (N * vote))) : N := sumN (map (fun b => fst (snd b)) l).

(* ---------------------------------------------------------------------------------------- *)
(* S_C03: the reported status is the outcome the ballots imply (evaluated on one observation).
   Proposals whose ballots outweigh their total (class D3) make the rule itself abort: code 200. *)
Definition s_c03_prop (blk : block) (p : pobs) : N :=
  let v := tally_of (po_ballots p) in
  let e := is_expired (po_expires p) blk in
  if po_total p <? tally v then 200
  else match is_passed (po_threshold p) (po_total p) v e, is_rejected (po_threshold p) (po_total p) v false with
  | Some ps, Some rj =>
      match po_status p with
      | Passed => if ps then 0 else 1                       (* Passed without the ballots implying it *)
      | Open => if ps then 2 else if e then 3 else 0         (* still Open although passed / expired *)
      | Rejected => if ps then 4 else if e || rj then 0 else 5  (* Rejected although it passes / can still pass *)
      | Executed => 0                                        (* admitted by S_C05 only from Passed *)
      | Pending => 6
      end
  | _, _ => 7                                                (* the threshold rule aborts on an in-range tally *)
  end.
Fixpoint first_nonzero (l : list N) : N :=
  match l with [] => 0 | x :: r => if x =? 0 then first_nonzero r else x end.
Definition s_c03 (blk : block) (o : obs) : N :=
  match ob_view_bad o with
  | _ :: _ => 9                          (* the queries report one proposal (status / threshold / total) differently *)
  | [] => first_nonzero (map (s_c03_prop blk) (ob_props o))
  end.

(* ---------------------------------------------------------------------------------------- *)
(* S_C05 *)
Definition status_forward (a b : status) : bool :=
  match a, b with
  | Open, _ => negb (status_eqb b Pending)
  | Passed, (Passed | Executed) => true
  | Rejected, Rejected => true
  | Executed, Executed => true
  | _, _ => false
  end.
Definition exp_le (a b : expiration) : bool :=
  match exp_cmp a b with Some Gt => false | Some _ => true | None => false end.
Definition refund_of (p : pobs) : list emsg :=
  match po_deposit p with Some d => [refund_msg d (po_proposer p)] | None => [] end.
Definition count_exec (id : N) (cs : list hcall) : nat :=
  length (filter (fun c => match c with HCall _ (Execute i) true _ => i =? id | _ => false end) cs).

Definition s_c05_call (pre : obs) (blk : block) (gv : gview) (executor : option executor) (is_flex : bool)
           (all : list hcall) (c : hcall) : N :=
  match c with
  | HCall sender (Execute id) true out =>
      match find_prop pre id with
      | None => 1
      | Some p =>
          if negb (status_eqb (po_status p) Passed) then 1                 (* dispatched while not Passed *)
          else if negb (s_c03_prop blk p =? 0) && negb (s_c03_prop blk p =? 200) then 17
               (* dispatched although the recorded ballots do not imply Passed (ballots outweighing the total:
                  class D3, reported under C03 / C06) *)
          else if (1 <? N.of_nat (count_exec id all)) then 2                (* dispatched twice in one transaction *)
          else if negb (list_eqb emsg_eqb out (refund_of p ++ map EUser (po_msgs p))) then 3   (* not exactly as proposed *)
          else if is_flex && negb (match executor with
                                   | None => true
                                   | Some ExMember => match g_now gv sender with Some _ => true | None => false end
                                   | Some (ExOnly a) => a =? sender
                                   end) then 4                              (* unauthorised executor *)
          else 0
      end
  | HCall _ (Close id) true out =>
      match find_prop pre id with
      | None => 5
      | Some p =>
          if status_eqb (po_status p) Passed || status_eqb (po_status p) Executed then 5     (* closed a passed/executed proposal *)
          else if negb (is_expired (po_expires p) blk) then 6               (* closed before expiry *)
          else if existsb (fun m => match m with EUser _ | ETake _ _ _ => true | _ => false end) out then 7  (* close dispatched *)
          else 0
      end
  | HCall _ (Vote _ _) true out | HCall _ (Propose _ _ _ _) true out =>
      if existsb (fun m => match m with EUser _ | ERefund _ _ _ => true | _ => false end) out then 8 else 0
  | HCall _ _ false out => match out with [] => 0 | _ => 9 end
  end.

Definition s_c05 (pre post : obs) (blk : block) (gv : gview) (executor : option executor) (is_flex : bool)
           (period : duration) (calls : list hcall) (ok : bool) : N :=
  if match ob_view_bad post with _ :: _ => true | [] => false end then 16   (* the queries report one proposal differently *)
  else if negb ok then (if list_eqb pobs_eqb (ob_props pre) (ob_props post) then 0 else 10)   (* a failed transaction changed proposals *)
  else
  let c1 := first_nonzero (map (s_c05_call pre blk gv executor is_flex calls) calls) in
  if negb (c1 =? 0) then c1 else
  let npre := length (ob_props pre) in
  if negb (list_eqb N.eqb (map po_id (ob_props post)) (map (fun k => N.of_nat k) (seq 1 (length (ob_props post)))))
  then 11                                                                    (* ids not 1,2,3,... *)
  else if negb (Nat.leb npre (length (ob_props post))) then 12                 (* a proposal disappeared *)
  else if negb (list_eqb pobs_static_eqb (ob_props pre) (firstn npre (ob_props post))) then 13   (* content changed *)
  else if negb (forallb (fun pq => status_forward (po_status (fst pq)) (po_status (snd pq)))
                        (combine (ob_props pre) (ob_props post))) then 14    (* lifecycle moved backwards *)
  else if negb (forallb (fun p => match duration_after period blk with
                                  | Some mx => exp_le (po_expires p) mx
                                  | None => false end) (skipn npre (ob_props post))) then 15   (* expiry beyond the cap *)
  else 0.

(* ---------------------------------------------------------------------------------------- *)
(* S_C06.  Codes 201.. : failures inside the known class D3 (a membership change earlier in the
   proposal's own creation block). *)
Definition weight_src (is_flex : bool) (pre : obs) (g : genv) (a h : N) : option N :=
  if is_flex then lookup_at (ge_at g) a h else lookup (ob_voters pre) a.

Definition s_c06 (pre post : obs) (blk : block) (is_flex : bool) (g : genv) (sender : N) (o : op) (ok : bool) : N :=
  if negb ok then 0 else
  let npre := length (ob_props pre) in
  (* ballots of existing proposals only grow by the voter's own single ballot *)
  let grow_ok :=
    forallb (fun pq =>
      let p := fst pq in let q := snd pq in
      match o with
      | Vote id v =>
          if po_id p =? id then
            match lookup (map (fun b => (fst b, fst (snd b))) (po_ballots p)) sender with
            | Some _ => false                                               (* second ballot of the same voter *)
            | None =>
                list_eqb ballot_eqb (filter (fun b => negb (fst b =? sender)) (po_ballots q)) (po_ballots p) &&
                match find (fun b => fst b =? sender) (po_ballots q) with
                | Some (_, (w, v')) => vote_eqb v v'
                | None => false
                end
            end
          else list_eqb ballot_eqb (po_ballots p) (po_ballots q)
      | _ => list_eqb ballot_eqb (po_ballots p) (po_ballots q)
      end) (combine (ob_props pre) (ob_props post)) in
  if negb grow_ok then 1
  else 0.

(* the full S_C06 needs the start height of each proposal, which the queries do not return; the
   harness records it per proposal id *)
Definition s_c06_full (pre post : obs) (blk : block) (is_flex : bool) (g : genv) (starts : list (N * N))
           (sender : N) (o : op) (ok : bool) : N :=
  let base := s_c06 pre post blk is_flex g sender o ok in
  if negb (base =? 0) then base else
  if negb ok then 0 else
  let npre := length (ob_props pre) in
  let known := is_flex && ge_changed g in
  let c_vote :=
    match o with
    | Vote id v =>
        match find_prop pre id, find_prop post id with
        | Some p, Some q =>
            match find (fun b => fst b =? sender) (po_ballots q) with
            | Some (_, (w, _)) =>
                let h := match lookup starts id with Some x => x | None => 0 end in
                if is_expired (po_expires p) blk then 2                      (* ballot cast after expiry *)
                else if status_eqb (po_status p) Executed then 3             (* ballot on an executed proposal *)
                else if negb (opt_eqb N.eqb (weight_src is_flex pre g sender h) (Some w)) then 4  (* weight <> snapshot weight *)
                else if w <? 1 then 5                                        (* zero-weight vote *)
                else if is_flex &&
                        match find (fun x => fst x =? id) (ge_snaps g) with
                        | Some (_, snap) => negb (opt_eqb N.eqb (lookup snap sender) (Some w))
                        | None => false
                        end then 9          (* weight <> the member's weight when the proposal's block began *)
                else 0
            | None => 1
            end
        | _, _ => 1
        end
    | _ => 0
    end in
  if negb (c_vote =? 0) then c_vote else
  let c_new :=
    first_nonzero (map (fun q =>
      let snap := if is_flex then ge_block_start g else ob_voters pre in
      let want_total := sumN (map snd snap) in
      match po_ballots q with
      | [(a, (w, VYes))] =>
          if negb (a =? po_proposer q) then 6
          else if negb (opt_eqb N.eqb (lookup snap a) (Some w)) then (if known then 201 else 7)   (* proposer weight <> snapshot *)
          else if negb (po_total q =? want_total) then (if known then 202 else 8)      (* total <> sum of the snapshot *)
          else 0
      | _ => 6                                                               (* a new proposal must hold exactly the proposer's Yes *)
      end) (skipn npre (ob_props post))) in
  if negb (c_new =? 0) then c_new else
  first_nonzero (map (fun q => if po_total q <? ballots_weight (po_ballots q) then 203 else 0) (ob_props post)).

(* ---------------------------------------------------------------------------------------- *)
(* S_C15 (flex).  Code 204: the known class D6 (Close refused on an expired, failed proposal whose
   stored status was latched to Rejected by a vote or at creation). *)
Definition bal (l : list (N * N)) (a : N) : N := match lookup l a with Some x => x | None => 0 end.
Definition count_refunds (id : N) (pre : obs) (cs : list hcall) : nat :=
  match find_prop pre id with
  | Some p =>
      length (filter (fun c => match c with
                               | HCall _ (Execute i) true out | HCall _ (Close i) true out =>
                                   (i =? id) && existsb (fun m => match m with ERefund _ _ _ => true | _ => false end) out
                               | _ => false end) cs)
  | None => O
  end.

Definition s_c15 (pre post : obs) (blk : block) (cfg_dep : option deposit) (sender : N) (o : op)
           (calls : list hcall) (ok : bool) : N :=
  let top := match calls with c :: _ => Some c | [] => None end in
  (* refunds: only in Execute (always) and Close (when the flag is set), to the proposer, of the recorded deposit *)
  let c_ref := first_nonzero (map (fun c =>
      match c with
      | HCall _ (Execute id) true out =>
          match find_prop pre id with
          | Some p => if list_eqb emsg_eqb (filter (fun m => match m with ERefund _ _ _ => true | _ => false end) out) (refund_of p)
                      then 0 else 1                                           (* executed proposal not refunded exactly once *)
          | None => 1
          end
      | HCall _ (Close id) true out =>
          match find_prop pre id with
          | Some p =>
              let want := match po_deposit p with
                          | Some d => if d_refund_failed d then [refund_msg d (po_proposer p)] else []
                          | None => [] end in
              if list_eqb emsg_eqb out want then 0 else 2                     (* close: refund missing / unexpected *)
          | None => 2
          end
      | HCall _ _ _ out => if existsb (fun m => match m with ERefund _ _ _ => true | _ => false end) out then 3 else 0
      end) calls) in
  if negb (c_ref =? 0) then c_ref else
  match o, top with
  | Propose _ _ _ funds, Some (HCall _ _ true out) =>
      if negb ok then 0 else
      match cfg_dep with
      | None => (match out with [] => 0 | _ => 4 end)
      | Some d =>
          match skipn (length (ob_props pre)) (ob_props post) with
          | [q] =>
              if negb (opt_eqb dep_eqb (po_deposit q) (Some d)) then 5       (* recorded deposit <> configured *)
              else match d_token d with
              | Native dn =>
                  if negb (list_eqb nn_eqb funds [(dn, d_amount d)]) then 6   (* accepted with other than exactly the deposit *)
                  else if negb ((ob_ms_native post =? ob_ms_native pre + d_amount d) &&
                                (bal (ob_native post) sender + d_amount d =? bal (ob_native pre) sender)) then 7
                  else (match out with [] => 0 | _ => 8 end)
              | Cw20 t =>
                  if negb (list_eqb emsg_eqb out [ETake t sender (d_amount d)]) then 8          (* not exactly one pull of the amount *)
                  else if negb ((ob_ms_cw20 post =? ob_ms_cw20 pre + d_amount d) &&
                                (bal (ob_cw20 post) sender + d_amount d =? bal (ob_cw20 pre) sender)) then 7
                  else 0
              end
          | _ => 5
          end
      end
  | Close id, Some (HCall _ _ false _) =>
      (* recoverability: an expired proposal that did not pass and was not executed must be closable *)
      match find_prop pre id with
      | Some p =>
          if is_expired (po_expires p) blk && status_eqb (po_status p) Rejected &&
             match po_deposit p with Some d => d_refund_failed d | None => false end
          then 204 else 0
      | None => 0
      end
  | _, _ => 0
  end.

(* ---------------------------------------------------------------------------------------- *)
Inductive tstep :=
| TCall (blk : block) (sender : N) (o : op) (g : genv)
        (before : obs)              (* observation at the call's block, before the call *)
        (calls : list hcall) (ok : bool)
        (after : obs).

Record trace := mkTrace {
  t_init : init_msg; t_init_genv : genv; t_self : N; t_init_ok : bool; t_starts : list (N * N);
  t_steps : list tstep }.

(* model state vs observation *)
Definition pobs_of (blk : block) (id : N) (p : proposal) : option pobs :=
  match prop_status p blk with
  | Some s => Some (mkPo id (p_title p) s (p_expires p) (p_proposer p) (p_deposit p) (p_threshold p) (p_total p)
                         (p_msgs p) (p_ballots p))
  | None => None
  end.
(* the part of a proposal each property's correspondence compares (its own slice) *)
Definition pobs_eqb_for (prop : N) (a b : pobs) : bool :=
  match prop with
  | 6 => (po_id a =? po_id b) && (po_total a =? po_total b) && list_eqb ballot_eqb (po_ballots a) (po_ballots b) &&
         (po_proposer a =? po_proposer b)
  | 15 => (po_id a =? po_id b) && opt_eqb dep_eqb (po_deposit a) (po_deposit b) && (po_proposer a =? po_proposer b)
  | _ => pobs_eqb a b
  end.
Fixpoint corr_props (prop : N) (blk : block) (l : amap N proposal) (o : list pobs) : bool :=
  match l, o with
  | [], [] => true
  | (id, p) :: r, q :: r' =>
      match pobs_of blk id p with
      | Some x => pobs_eqb_for prop x q && corr_props prop blk r r'
      | None => true                     (* the status query of this proposal aborts (class D3): not comparable *)
      end
  | _, _ => false
  end.

(* acceptance of which operations belongs to which property's slice *)
Definition owns_acceptance (prop : N) (o : op) : bool :=
  match prop, o with
  | 3, Propose _ _ _ _ => false          (* C03 speaks about votes, status and the admission of Execute / Close *)
  | 5, Vote _ _ => false                 (* C05 about proposing, executing, closing *)
  | 6, (Propose _ _ _ _ | Vote _ _) => true
  | 6, _ => false
  | 15, Vote _ _ => false
  | _, _ => true
  end.

(* S_C03, admission: the status the queries report is the status Execute is admitted on *)
Definition s_c03_admit (pre : obs) (gv : gview) (executor : option executor) (is_flex : bool)
           (sender : N) (o : op) (calls : list hcall) : N :=
  match o, calls with
  | Execute id, HCall _ _ false _ :: _ =>
      match find_prop pre id with
      | Some p =>
          if status_eqb (po_status p) Passed &&
             (negb is_flex || match executor with
                              | None => true
                              | Some ExMember => match g_now gv sender with Some _ => true | None => false end
                              | Some (ExOnly a) => a =? sender
                              end)
          then 10                         (* Execute refused although the proposal is reported Passed and the caller authorised *)
          else 0
      | None => 0
      end
  | _, _ => 0
  end.

Definition contract (prop : N) (ms : mstate) (starts : list (N * N)) (pre post : obs) (blk : block) (g : genv)
           (sender : N) (o : op) (calls : list hcall) (ok : bool) : N :=
  match prop with
  | 3 => let a := s_c03 blk pre in if negb (a =? 0) then a else
         let b := s_c03 blk post in if negb (b =? 0) then b else
         s_c03_admit pre (gview_of_env g) (cfg_executor ms) (flex ms) sender o calls
  | 5 => s_c05 pre post blk (gview_of_env g) (cfg_executor ms) (flex ms) (cfg_period ms) calls ok
  | 6 => s_c06_full pre post blk (flex ms) g starts sender o ok
  | 15 => if flex ms then s_c15 pre post blk (cfg_deposit ms) sender o calls ok else 0
  | _ => 0
  end.

(* the model and the implementation have parted (at instantiation, or at some step): the step contracts are still
   evaluated on the implementation's steps (they need the configuration only), so that a concrete
   failing input is reported when there is one; otherwise the divergence itself is *)
Fixpoint contracts_only (prop : N) (starts : list (N * N)) (i : N) (cfg : mstate) (l : list tstep) : list (N * N) :=
  match l with
  | [] => []
  | TCall blk sender o g before calls ok after :: r =>
      let c := contract prop cfg starts before after blk g sender o calls ok in
      if negb (c =? 0) && (c <? 200) then [(i, 100 + c)] else contracts_only prop starts (i + 1) cfg r
  end.

(* result codes: 100+c contract clause c (c >= 200: failure inside a known-finding class, reported and
   the run continues); 50 projection differs; 49 acceptance differs; 51 handler messages differ *)
Fixpoint check_steps (prop : N) (self : N) (starts : list (N * N)) (i : N) (ms : mstate) (l : list tstep)
  : list (N * N) :=
  match l with
  | [] => []
  | TCall blk sender o g before calls ok after :: r =>
      let c := contract prop ms starts before after blk g sender o calls ok in
      if negb (c =? 0) && (c <? 200) then [(i, 100 + c)] else
      let known := if 200 <=? c then [(i, 100 + c)] else [] in
      let gv := gview_of_env g in
      let '(hok, out) := match calls with HCall _ _ h m :: _ => (h, m) | [] => (false, []) end in
      let hok_m := is_ok (step ms gv blk sender o) in
      let '(ms', ok_m) := tx ms gv blk self sender o (Bool.eqb ok hok) in
      if negb (Bool.eqb hok hok_m) || (ok && negb ok_m)
      then (if owns_acceptance prop o then known ++ [(i, 49)] ++ contracts_only prop starts (i + 1) ms r
            else known ++ contracts_only prop starts (i + 1) ms r)
      else if negb (corr_props prop blk (proposals ms') (ob_props after))
      then known ++ [(i, 50)] ++ contracts_only prop starts (i + 1) ms r
      else if ((prop =? 5) || (prop =? 15)) && hok &&
              negb (list_eqb emsg_eqb out (match step ms gv blk sender o with Ok (_, m) => m | _ => [] end))
           then known ++ [(i, 51)] ++ contracts_only prop starts (i + 1) ms r
      else known ++ check_steps prop self starts (i + 1) ms' r
  end.

Definition check_trace (prop : N) (t : trace) : list (N * N) :=
  match instantiate (t_init t) (gview_of_env (t_init_genv t)) with
  | Ok ms => if t_init_ok t then check_steps prop (t_self t) (t_starts t) 1 ms (t_steps t) else [(0, 49)]
  | _ => if t_init_ok t then
           let m := t_init t in
           let cfg := mkMs (i_flex m) [] 0 (i_threshold m) (i_period m) (i_executor m) (i_deposit m) [] 0 in
           match contracts_only prop (t_starts t) 1 cfg (t_steps t) with
           | [] => [(0, 49)]
           | x => x
           end
         else []
  end.

(* per trace: the first known-class report (code >= 300) and the first other report *)
Definition summarize (l : list (N * N)) : list (N * N) :=
  let k := find (fun x => 300 <=? snd x) l in
  (* a concrete clause (found on a later step of the same history) is preferred to the divergence that preceded it *)
  let f := match find (fun x => (100 <=? snd x) && (snd x <? 300)) l with
           | Some x => Some x
           | None => find (fun x => snd x <? 300) l
           end in
  (match k with Some x => [x] | None => [] end) ++ (match f with Some x => [x] | None => [] end).

Fixpoint check_traces (prop : N) (i : N) (ts : list trace) : list (N * N) :=
  match ts with
  | [] => []
  | t :: r => map (fun sc => (i, fst sc * 1000 + snd sc)) (summarize (check_trace prop t)) ++ check_traces prop (i + 1) r
  end.
