(* Cw4Model.v — family F5: cw4-group and cw4-stake (C09 C10 C14), transliterated from
   contracts/cw4-group/src/{contract,helpers}.rs, contracts/cw4-stake/src/contract.rs,
   cw-storage-plus 2.0.0 snapshot/{mod,map,item}.rs (Strategy::EveryBlock) and
   cw-controllers 2.0.0 {admin,hooks,claim}.rs.  No proofs here: the model must keep running. *)
Require Import CwPlus.Params CwPlus.Base CwPlus.AMap.
Open Scope N_scope.

(* ---------------------------------------------------------------------------------------- *)
(* SnapshotMap / SnapshotItem, one key: primary value + changelog keyed by height (iteration of
   the real changelog is in key order = height order: a sorted amap).  write_change: only the
   FIRST write in a block records the old value. *)
Record snapv := mkSnap { cur : option N; slog : amap N (option N) }.
Definition snap_empty : snapv := mkSnap None [].

Definition snap_write (s : snapv) (h : N) (v : option N) : snapv :=
  mkSnap v (match get ordN (slog s) h with
            | Some _ => slog s
            | None => set ordN (slog s) h (cur s)
            end).

(* changelog.prefix(k).range(Bound::inclusive(h).., Ascending).next() *)
Fixpoint first_ge (h : N) (l : amap N (option N)) : option (option N) :=
  match l with
  | [] => None
  | (g, old) :: r => if h <=? g then Some old else first_ge h r
  end.

Definition snap_at (s : snapv) (h : N) : option N :=
  match first_ge h (slog s) with Some old => old | None => cur s end.

Definition mmap := amap N snapv.
Definition getm (ms : mmap) (a : N) : snapv := match get ordN ms a with Some s => s | None => snap_empty end.
Definition m_cur (ms : mmap) (a : N) : option N := cur (getm ms a).
Definition m_at (ms : mmap) (a : N) (h : N) : option N := snap_at (getm ms a) h.
Definition m_write (ms : mmap) (a : N) (h : N) (v : option N) : mmap := set ordN ms a (snap_write (getm ms a) h v).
Definition wt (s : snapv) : N := match cur s with Some w => w | None => 0 end.
Definition m_sum (ms : mmap) : N := sumf wt ms.
(* MEMBERS.range(..): primary entries only, ascending *)
Fixpoint m_list (ms : mmap) : list (N * N) :=
  match ms with
  | [] => []
  | (a, s) :: r => match cur s with Some w => (a, w) :: m_list r | None => m_list r end
  end.

(* ---------------------------------------------------------------------------------------- *)
Inductive token := Native (d : N) | Cw20 (a : N).
Inductive duration := DHeight (n : N) | DTime (secs : N).
Definition mul64 (a b : N) : option N := let p := a * b in if p <=? u64max then Some p else None.
(* cw-utils Duration::after: plain u64 arithmetic / Timestamp::plus_seconds (panic on overflow) *)
Definition duration_after (d : duration) (b : block) : option expiration :=
  match d with
  | DHeight n => do x <- add64 (height b) n; Some (AtHeight x)
  | DTime s => do ns <- mul64 s 1000000000; do x <- add64 (time b) ns; Some (AtTime x)
  end.

Record config := mkCfg { c_token : token; c_tpw : N; c_min_bond : N; c_unbond : duration }.
Definition cfg_default : config := mkCfg (Native 0) 1 1 (DHeight 0).

Definition arg := option N.                       (* None = a string addr_validate rejects *)
Definition diff := (N * option N * option N)%type. (* MemberDiff: key, old, new *)

Inductive msg :=
| HookMsg (to : N) (diffs : list diff)             (* MemberChangedHookMsg to one registered hook *)
| Pay (tok : token) (to : N) (n : N).              (* BankMsg::Send / Cw20 Transfer of a claim *)

Record state := mkSt {
  is_stake : bool;
  admin : option N;
  hooks : list N;
  members : mmap;
  total_s : snapv;                                 (* group: SnapshotItem; stake: plain Item (log unused) *)
  cfg : config;
  stake : amap N N;
  claims : amap N (list (N * expiration));
  held : N                                         (* ledger: the contract's balance of the staking token *)
}.

Definition with_core (st : state) (a : option N) (hk : list N) : state :=
  mkSt (is_stake st) a hk (members st) (total_s st) (cfg st) (stake st) (claims st) (held st).
Definition with_members (st : state) (ms : mmap) (t : snapv) : state :=
  mkSt (is_stake st) (admin st) (hooks st) ms t (cfg st) (stake st) (claims st) (held st).
Definition with_stake (st : state) (sk : amap N N) (cl : amap N (list (N * expiration))) : state :=
  mkSt (is_stake st) (admin st) (hooks st) (members st) (total_s st) (cfg st) sk cl (held st).
Definition with_held (st : state) (x : N) : state :=
  mkSt (is_stake st) (admin st) (hooks st) (members st) (total_s st) (cfg st) (stake st) (claims st) x.

Inductive op :=
| UpdateAdmin (a : option arg)
| AddHook (a : arg)
| RemoveHook (a : arg)
| UpdateMembers (add : list (arg * N)) (remove : list arg)   (* cw4-group only *)
| Bond (funds : list (N * N))                                (* native coins attached to the call *)
| Unbond (n : N)
| Claim
| Receive (from : arg) (n : N) (payload_ok : bool)           (* Cw20ReceiveMsg; the caller is the token *)
| SendCw20 (tok : N) (n : N) (payload_ok : bool)             (* tx level: user -> token.Send -> Receive *)
| Donate (n : N).                                            (* tx level: staking tokens sent outside the protocol *)

(* ---------------------------------------------------------------------------------------- *)
(* cw-controllers *)
Definition is_admin (st : state) (s : N) : bool := match admin st with Some a => a =? s | None => false end.
Definition mem (x : N) (l : list N) : bool := existsb (N.eqb x) l.
Fixpoint remove_first (x : N) (l : list N) : list N :=
  match l with [] => [] | y :: r => if y =? x then r else y :: remove_first x r end.

(* ---------------------------------------------------------------------------------------- *)
(* cw4-group *)
(* validate_unique_members: sort by address string, reject equal neighbours.  Invalid strings
   are rejected later by addr_validate; either way the call fails, so they are rejected here. *)
Fixpoint insert_sorted (x : N * N) (l : list (N * N)) : list (N * N) :=
  match l with
  | [] => [x]
  | y :: r => if fst x <=? fst y then x :: y :: r else y :: insert_sorted x r
  end.
Definition sort_members (l : list (N * N)) : list (N * N) := fold_right insert_sorted [] l.
Fixpoint has_dup (l : list (N * N)) : bool :=
  match l with
  | x :: ((y :: _) as r) => (fst x =? fst y) || has_dup r
  | _ => false
  end.
Fixpoint validate_members (l : list (arg * N)) : option (list (N * N)) :=
  match l with
  | [] => Some []
  | (Some a, w) :: r => if w <=? u64max then do r' <- validate_members r; Some ((a, w) :: r') else None
  | (None, _) :: _ => None
  end.
Fixpoint validate_args (l : list arg) : option (list N) :=
  match l with
  | [] => Some []
  | Some a :: r => do r' <- validate_args r; Some (a :: r')
  | None :: _ => None
  end.

Definition unw (o : option N) : N := match o with Some x => x | None => 0 end.

(* the add loop: MEMBERS.update(addr, height, |old| { total -= old; total += w; diffs.push; w }) *)
Fixpoint add_loop (h : N) (l : list (N * N)) (ms : mmap) (total : N) (ds : list diff)
  : option (mmap * N * list diff) :=
  match l with
  | [] => Some (ms, total, ds)
  | (a, w) :: r =>
      let old := m_cur ms a in
      do t1 <- sub64 total (unw old);
      do t2 <- add64 t1 w;
      add_loop h r (m_write ms a h (Some w)) t2 (ds ++ [(a, old, Some w)])
  end.
Fixpoint remove_loop (h : N) (l : list N) (ms : mmap) (total : N) (ds : list diff)
  : option (mmap * N * list diff) :=
  match l with
  | [] => Some (ms, total, ds)
  | a :: r =>
      match m_cur ms a with
      | Some w => do t1 <- sub64 total w;
                  remove_loop h r (m_write ms a h None) t1 (ds ++ [(a, Some w, None)])
      | None => remove_loop h r ms total ds
      end
  end.

Definition hook_msgs (st : state) (ds : list diff) : list msg := map (fun hk => HookMsg hk ds) (hooks st).

Definition update_members (st : state) (blk : block) (sender : N) (add : list (arg * N)) (rem : list arg)
  : result (state * list msg) :=
  match validate_members add with
  | None => Err
  | Some add' =>
      let sorted := sort_members add' in
      if has_dup sorted then Err
      else if negb (is_admin st sender) then Err
      else match validate_args rem with
      | None => Err
      | Some rem' =>
          match cur (total_s st) with
          | None => Err
          | Some t0 =>
              match add_loop (height blk) sorted (members st) t0 [] with
              | None => Err
              | Some (ms1, t1, ds1) =>
                  match remove_loop (height blk) rem' ms1 t1 ds1 with
                  | None => Err
                  | Some (ms2, t2, ds2) =>
                      let st' := with_members st ms2 (snap_write (total_s st) (height blk) (Some t2)) in
                      Ok (st', hook_msgs st ds2)
                  end
              end
          end
      end
  end.

(* ---------------------------------------------------------------------------------------- *)
(* cw4-stake *)
Definition calc_weight (c : config) (stk : N) : result (option N) :=
  if stk <? c_min_bond c then Ok None
  else if c_tpw c =? 0 then Abort                    (* division by zero *)
  else let w := stk / c_tpw c in if w <=? u64max then Ok (Some w) else Err.

Definition optN_eqb (a b : option N) : bool := opt_eqb N.eqb a b.

Definition update_membership (st : state) (who : N) (new_stake : N) (h : N) : result (state * list msg) :=
  dor new <- calc_weight (cfg st) new_stake;
  let old := m_cur (members st) who in
  if optN_eqb new old then Ok (st, [])
  else
    let ms := m_write (members st) who h new in
    match cur (total_s st) with
    | None => Err
    | Some t =>
        match add64 t (unw new) with
        | None => Abort
        | Some t1 => match sub64 t1 (unw old) with
                     | None => Abort
                     | Some t2 =>
                         let st' := with_members st ms (mkSnap (Some t2) (slog (total_s st))) in
                         Ok (st', hook_msgs st [(who, old, new)])
                     end
        end
    end.

Definition must_pay (funds : list (N * N)) (d : N) : option N :=
  match funds with
  | [(d', n)] => if d' =? d then Some n else None
  | _ => None
  end.

Definition bond (st : state) (blk : block) (who : N) (amount : N) : result (state * list msg) :=
  match add128 (getd ordN (stake st) who) amount with
  | None => Abort
  | Some ns => update_membership (with_stake st (set ordN (stake st) who ns) (claims st)) who ns (height blk)
  end.

Definition get_claims (st : state) (a : N) : list (N * expiration) :=
  match get ordN (claims st) a with Some l => l | None => [] end.

Definition unbond (st : state) (blk : block) (sender : N) (n : N) : result (state * list msg) :=
  match sub128 (getd ordN (stake st) sender) n with
  | None => Err
  | Some ns =>
      match duration_after (c_unbond (cfg st)) blk with
      | None => Abort
      | Some rel =>
          let cl := set ordN (claims st) sender (get_claims st sender ++ [(n, rel)]) in
          update_membership (with_stake st (set ordN (stake st) sender ns) cl) sender ns (height blk)
      end
  end.

Definition matured (blk : block) (c : N * expiration) : bool := is_expired (snd c) blk.
Definition sum_claims (l : list (N * expiration)) : N := sumN (map fst l).

Definition claim (st : state) (blk : block) (sender : N) : result (state * list msg) :=
  let l := get_claims st sender in
  let rel := sum_claims (filter (matured blk) l) in
  if u128max <? rel then Abort
  else if rel =? 0 then Err
  else Ok (with_stake st (stake st) (set ordN (claims st) sender (filter (fun c => negb (matured blk c)) l)),
           [Pay (c_token (cfg st)) sender rel]).

(* ---------------------------------------------------------------------------------------- *)
Definition step (st : state) (blk : block) (sender : N) (o : op) : result (state * list msg) :=
  match o with
  | UpdateAdmin a =>
      match a with
      | Some None => Err
      | _ => if is_admin st sender
             then Ok (with_core st (match a with Some x => x | None => None end) (hooks st), [])
             else Err
      end
  | AddHook a =>
      match a with
      | None => Err
      | Some x => if negb (is_admin st sender) then Err
                  else if mem x (hooks st) then Err
                  else Ok (with_core st (admin st) (hooks st ++ [x]), [])
      end
  | RemoveHook a =>
      match a with
      | None => Err
      | Some x => if negb (is_admin st sender) then Err
                  else if negb (mem x (hooks st)) then Err
                  else Ok (with_core st (admin st) (remove_first x (hooks st)), [])
      end
  | UpdateMembers add rem => if is_stake st then Err else update_members st blk sender add rem
  | Bond funds =>
      if negb (is_stake st) then Err else
      match c_token (cfg st) with
      | Native d => match must_pay funds d with Some n => bond st blk sender n | None => Err end
      | Cw20 _ => Err
      end
  | Unbond n => if negb (is_stake st) then Err else unbond st blk sender n
  | Claim => if negb (is_stake st) then Err else claim st blk sender
  | Receive from n pok =>
      if negb (is_stake st) then Err
      else if negb pok then Err
      else match from with
           | None => Err
           | Some u => match c_token (cfg st) with
                       | Cw20 t => if t =? sender then bond st blk u n else Err
                       | Native _ => Err
                       end
           end
  | SendCw20 _ _ _ | Donate _ => Err                 (* not handler calls: see tx *)
  end.

(* tokens the call pays out (Claim) *)
Fixpoint paid_out (ms : list msg) : N :=
  match ms with [] => 0 | Pay _ _ n :: r => n + paid_out r | _ :: r => paid_out r end.

(* One transaction.  Funds / cw20 tokens are credited to the contract before the handler runs,
   messages are dispatched after it; anything failing rolls everything back (chain atomicity).
   dok = every emitted sub-message other than the claim payout was accepted by its target. *)
Definition credit_of (st : state) (o : op) : N :=
  match o with
  | Bond funds => match c_token (cfg st) with Native d => unw (must_pay funds d) | _ => 0 end
  | SendCw20 _ n _ => n
  | _ => 0
  end.

Definition tx (st : state) (blk : block) (sender : N) (o : op) (dok : bool) : state * bool * list msg :=
  match o with
  | Donate n => if held st + n <=? u128max then (with_held st (held st + n), true, []) else (st, false, [])
  | _ =>
      let '(caller, o') := match o with
                           | SendCw20 tok n pok => (tok, Receive (Some sender) n pok)
                           | _ => (sender, o)
                           end in
      match step st blk caller o' with
      | Ok (st', ms) =>
          let h1 := held st + credit_of st o in
          if dok && (h1 <=? u128max) && (paid_out ms <=? h1)
          then (with_held st' (h1 - paid_out ms), true, ms)
          else (st, false, [])
      | _ => (st, false, [])
      end
  end.

Definition call := (block * N * op * bool)%type.
Definition tx_state (st : state) (c : call) : state :=
  let '(blk, sender, o, dok) := c in fst (fst (tx st blk sender o dok)).
Definition run (st : state) (cs : list call) : state := fold_left tx_state cs st.

(* ---------------------------------------------------------------------------------------- *)
(* instantiation *)
Record init_msg := mkInit {
  i_stake : bool;
  i_admin : option arg;
  i_members : list (arg * N);                      (* group *)
  i_cfg : config                                   (* stake (min_bond as sent) *)
}.

Fixpoint create_loop (h : N) (l : list (N * N)) (ms : mmap) (total : N) : option (mmap * N) :=
  match l with
  | [] => Some (ms, total)
  | (a, w) :: r => do t <- add64 total w; create_loop h r (m_write ms a h (Some w)) t
  end.

Definition instantiate (m : init_msg) (blk : block) : result state :=
  match i_admin m with
  | Some None => Err
  | adm =>
      let adm' := match adm with Some x => x | None => None end in
      if i_stake m then
        let c := i_cfg m in
        Ok (mkSt true adm' [] [] (mkSnap (Some 0) [])
                 (mkCfg (c_token c) (c_tpw c) (N.max (c_min_bond c) 1) (c_unbond c)) [] [] 0)
      else
        match validate_members (i_members m) with
        | None => Err
        | Some l =>
            let sorted := sort_members l in
            if has_dup sorted then Err
            else match create_loop (height blk) sorted [] 0 with
                 | None => Err
                 | Some (ms, t) =>
                     Ok (mkSt false adm' [] ms (snap_write snap_empty (height blk) (Some t)) cfg_default [] [] 0)
                 end
        end
  end.

(* ---------------------------------------------------------------------------------------- *)
(* queries *)
Definition q_member (st : state) (a : N) (h : option N) : option N :=
  match h with Some x => m_at (members st) a x | None => m_cur (members st) a end.
Definition q_total (st : state) (h : option N) : N :=
  unw (match h with Some x => snap_at (total_s st) x | None => cur (total_s st) end).
Definition q_list_all (st : state) : list (N * N) := m_list (members st).
Definition q_staked (st : state) (a : N) : N := getd ordN (stake st) a.
Definition q_claims (st : state) (a : N) : list (N * expiration) := get_claims st a.
