(* Cw20CheckLemmas.v — the model meets the step contracts; C02 (authorised debits, allowance frame,
   cumulative bound, notifications). *)
Require Import CwPlus.Params CwPlus.Base CwPlus.AMap CwPlus.Cw20Model CwPlus.Cw20Lemmas CwPlus.Cw20Check.
From Coq Require Import Lia ZifyBool ZifyN.
Open Scope N_scope.

Lemma bal_all_intro post expected l : (forall a, bal post a = expected a) -> bal_all post expected l = true.
Proof. intros H. unfold bal_all. apply forallb_forall. intros a _. apply N.eqb_eq. apply H. Qed.

Lemma burn_bal st a x j :
  bal (set_supply (set_balances st (set ordN (balances st) a (bal st a - x))) (supply st - x)) j =
  (if j =? a then bal st j - x else bal st j).
Proof.
  unfold bal. cbn. destruct (j =? a) eqn:E.
  - apply N.eqb_eq in E. subst. apply getd_set_eq.
  - apply N.eqb_neq in E. apply getd_set_neq. exact E.
Qed.

(* every successful model step has exactly the supply/balance deltas S_C01 demands *)
Theorem model_s_c01_delta st blk sender o st' ms :
  step st blk sender o = Ok (st', ms) -> s_c01_delta st st' sender o = true.
Proof.
  intros H. destruct o; unfold s_c01_delta.
  - pose proof H as H'. apply transfer_spec in H'. destruct H' as (r & -> & Hm & _).
    pose proof (move_spec _ _ _ _ _ Hm) as (Hle & _ & _ & _ & Hs & _).
    rewrite Hs, N.eqb_refl. cbn [andb]. replace (n <=? bal st sender) with true by lia. cbn [andb].
    apply bal_all_intro. intros a. unfold moved. apply (move_bal _ _ _ _ _ a Hm).
  - apply burn_spec in H. destruct H as (Hle & Hle2 & _ & Hst). subst st'.
    replace (n <=? supply st) with true by lia. cbn [andb supply set_supply].
    rewrite N.eqb_refl. replace (n <=? bal st sender) with true by lia. cbn [andb].
    apply bal_all_intro. intros a. apply burn_bal.
  - pose proof H as H'. apply send_spec in H'. destruct H' as (r & -> & Hm & _).
    pose proof (move_spec _ _ _ _ _ Hm) as (Hle & _ & _ & _ & Hs & _).
    rewrite Hs, N.eqb_refl. cbn [andb]. replace (n <=? bal st sender) with true by lia. cbn [andb].
    apply bal_all_intro. intros a. unfold moved. apply (move_bal _ _ _ _ _ a Hm).
  - apply mint_spec in H. destruct H as (r & cap & -> & _ & _ & _ & _ & _ & Hst). subst st'.
    cbn [supply set_balances set_supply]. rewrite N.eqb_refl. cbn [andb].
    apply bal_all_intro. intros a. unfold bal. cbn. destruct (a =? r) eqn:E.
    + apply N.eqb_eq in E. subst. apply getd_set_eq.
    + apply N.eqb_neq in E. apply getd_set_neq. exact E.
  - pose proof H as H'. apply increase_spec in H'. destruct H' as (s & _ & _ & -> & _).
    apply neutral_spec in H; [|reflexivity]. destruct H as (Hb & Hs & _).
    rewrite Hs, N.eqb_refl. cbn [andb]. apply bal_all_intro. intros a. unfold bal. rewrite Hb. reflexivity.
  - pose proof H as H'. apply decrease_spec in H'. destruct H' as (s & _ & -> & _).
    apply neutral_spec in H; [|reflexivity]. destruct H as (Hb & Hs & _).
    rewrite Hs, N.eqb_refl. cbn [andb]. apply bal_all_intro. intros a. unfold bal. rewrite Hb. reflexivity.
  - apply transfer_from_spec in H. destruct H as (ow & r & st1 & -> & -> & Hd & Hm & _).
    apply deduct_allowance_frame in Hd. destruct Hd as (Hb & Hsu & _).
    pose proof (move_spec _ _ _ _ _ Hm) as (Hle & _ & _ & _ & Hs & _).
    assert (Hbal: forall a, bal st1 a = bal st a) by (intros a; unfold bal; rewrite Hb; reflexivity).
    rewrite Hs, Hsu, N.eqb_refl. cbn [andb]. rewrite Hbal in Hle.
    replace (n <=? bal st ow) with true by lia. cbn [andb].
    apply bal_all_intro. intros a. unfold moved. rewrite (move_bal _ _ _ _ _ a Hm). cbn zeta.
    rewrite Hbal. reflexivity.
  - apply burn_from_spec in H. destruct H as (ow & st1 & -> & Hd & Hle & Hle2 & _ & Hst).
    apply deduct_allowance_frame in Hd. destruct Hd as (Hb & Hsu & _).
    assert (Hbal: forall a, bal st1 a = bal st a) by (intros a; unfold bal; rewrite Hb; reflexivity).
    subst st'. rewrite Hbal in Hle. rewrite Hsu in Hle2.
    replace (n <=? supply st) with true by lia. cbn [andb supply set_supply].
    rewrite Hsu, N.eqb_refl. replace (n <=? bal st ow) with true by lia. cbn [andb].
    apply bal_all_intro. intros a. rewrite <- Hsu. rewrite burn_bal. rewrite !Hbal. reflexivity.
  - apply send_from_spec in H. destruct H as (ow & r & st1 & -> & -> & Hd & Hm & _).
    apply deduct_allowance_frame in Hd. destruct Hd as (Hb & Hsu & _).
    pose proof (move_spec _ _ _ _ _ Hm) as (Hle & _ & _ & _ & Hs & _).
    assert (Hbal: forall a, bal st1 a = bal st a) by (intros a; unfold bal; rewrite Hb; reflexivity).
    rewrite Hs, Hsu, N.eqb_refl. cbn [andb]. rewrite Hbal in Hle.
    replace (n <=? bal st ow) with true by lia. cbn [andb].
    apply bal_all_intro. intros a. unfold moved. rewrite (move_bal _ _ _ _ _ a Hm). cbn zeta.
    rewrite Hbal. reflexivity.
  - apply neutral_spec in H; [|reflexivity]. destruct H as (Hb & Hs & _).
    rewrite Hs, N.eqb_refl. cbn [andb]. apply bal_all_intro. intros a. unfold bal. rewrite Hb. reflexivity.
  - apply neutral_spec in H; [|reflexivity]. destruct H as (Hb & Hs & _).
    rewrite Hs, N.eqb_refl. cbn [andb]. apply bal_all_intro. intros a. unfold bal. rewrite Hb. reflexivity.
  - apply neutral_spec in H; [|reflexivity]. destruct H as (Hb & Hs & _).
    rewrite Hs, N.eqb_refl. cbn [andb]. apply bal_all_intro. intros a. unfold bal. rewrite Hb. reflexivity.
Qed.

(* ---------------------------------------------------------------------------------------- *)
(* C02 *)

(* a move lowers only the source account, by exactly n *)
Lemma move_decrease st from to n st' a : move st from to n = Ok st' -> bal st' a < bal st a ->
  a = from /\ bal st a - bal st' a = n.
Proof.
  intros Hm Hlt. pose proof (move_spec _ _ _ _ _ Hm) as (Hle & _).
  rewrite (move_bal _ _ _ _ _ a Hm) in *. cbn zeta in *.
  destruct (a =? from) eqn:Ef; destruct (a =? to) eqn:Et; try lia.
  apply N.eqb_eq in Ef. subst a. split; [reflexivity|lia].
Qed.

Lemma deduct_allowance_get st blk ow sp n st1 : deduct_allowance st blk ow sp n = Ok st1 ->
  exists al, get ordNN (allow st) (ow, sp) = Some al /\ is_expired (al_exp al) blk = false /\
             n <= al_amt al /\ get ordNN (allow st1) (ow, sp) = Some (mkAl (al_amt al - n) (al_exp al)) /\
             (forall k, k <> (ow, sp) -> get ordNN (allow st1) k = get ordNN (allow st) k).
Proof.
  intros H. apply deduct_allowance_spec in H. destruct H as (a & a2 & Ga & He & Hn & _ & _ & _ & Hst).
  exists a. subst st1. cbn. repeat split; try assumption.
  - apply get_set_eq.
  - intros k Hk. apply get_set_neq. exact Hk.
Qed.

(* an account's balance decreases only by its holder's own transfer/send/burn, or by a draw on a
   stored, unexpired, sufficient allowance it granted to the caller, which is lowered by exactly
   the amount moved *)
Theorem debit_authorised st blk sender o st' ms a :
  step st blk sender o = Ok (st', ms) -> bal st' a < bal st a ->
  (a = sender /\ is_self_debit o = true) \/
  (exists n al, draw_of o = Some (a, n) /\ get ordNN (allow st) (a, sender) = Some al /\
                is_expired (al_exp al) blk = false /\ n <= al_amt al /\
                get ordNN (allow st') (a, sender) = Some (mkAl (al_amt al - n) (al_exp al)) /\
                bal st a - bal st' a = n).
Proof.
  intros H Hlt. destruct o.
  - apply transfer_spec in H. destruct H as (r & _ & Hm & _).
    destruct (move_decrease _ _ _ _ _ _ Hm Hlt) as [-> _]. left. split; reflexivity.
  - apply burn_spec in H. destruct H as (_ & _ & _ & Hst). subst st'. rewrite burn_bal in Hlt.
    destruct (a =? sender) eqn:E; [|lia]. apply N.eqb_eq in E. left. split; [exact E|reflexivity].
  - apply send_spec in H. destruct H as (r & _ & Hm & _).
    destruct (move_decrease _ _ _ _ _ _ Hm Hlt) as [-> _]. left. split; reflexivity.
  - apply mint_spec in H. destruct H as (r & cap & _ & _ & _ & _ & _ & _ & Hst). subst st'.
    exfalso. unfold bal in Hlt. cbn in Hlt. destruct (N.eq_dec a r) as [->|Hne].
    + rewrite getd_set_eq in Hlt. unfold bal in Hlt. lia.
    + rewrite getd_set_neq in Hlt by exact Hne. lia.
  - apply neutral_spec in H; [|reflexivity]. destruct H as (Hb & _). unfold bal in Hlt. rewrite Hb in Hlt. lia.
  - apply neutral_spec in H; [|reflexivity]. destruct H as (Hb & _). unfold bal in Hlt. rewrite Hb in Hlt. lia.
  - apply transfer_from_spec in H. destruct H as (ow & r & st1 & -> & -> & Hd & Hm & _).
    pose proof (deduct_allowance_frame _ _ _ _ _ _ Hd) as (Hb & _).
    assert (Hbal: forall x, bal st1 x = bal st x) by (intros x; unfold bal; rewrite Hb; reflexivity).
    rewrite <- Hbal in Hlt. destruct (move_decrease _ _ _ _ _ _ Hm Hlt) as [-> Hn].
    apply deduct_allowance_get in Hd. destruct Hd as (al & G & He & Hle & G' & _).
    pose proof (move_al_frame _ _ _ _ _ Hm) as (Ea & _).
    right. exists n, al. cbn [draw_of]. rewrite Ea, <- Hbal. repeat split; assumption.
  - apply burn_from_spec in H. destruct H as (ow & st1 & -> & Hd & Hbl & _ & _ & Hst).
    pose proof (deduct_allowance_frame _ _ _ _ _ _ Hd) as (Hb & _).
    assert (Hbal: forall x, bal st1 x = bal st x) by (intros x; unfold bal; rewrite Hb; reflexivity).
    subst st'. rewrite burn_bal in Hlt. rewrite Hbal in Hlt. rewrite Hbal in Hbl.
    destruct (a =? ow) eqn:E; [|lia]. apply N.eqb_eq in E. subst a.
    apply deduct_allowance_get in Hd. destruct Hd as (al & G & He & Hle & G' & _).
    right. exists n, al. cbn [draw_of allow set_supply set_balances]. rewrite burn_bal, N.eqb_refl, Hbal.
    repeat split; try assumption. lia.
  - apply send_from_spec in H. destruct H as (ow & r & st1 & -> & -> & Hd & Hm & _).
    pose proof (deduct_allowance_frame _ _ _ _ _ _ Hd) as (Hb & _).
    assert (Hbal: forall x, bal st1 x = bal st x) by (intros x; unfold bal; rewrite Hb; reflexivity).
    rewrite <- Hbal in Hlt. destruct (move_decrease _ _ _ _ _ _ Hm Hlt) as [-> Hn].
    apply deduct_allowance_get in Hd. destruct Hd as (al & G & He & Hle & G' & _).
    pose proof (move_al_frame _ _ _ _ _ Hm) as (Ea & _).
    right. exists n, al. cbn [draw_of]. rewrite Ea, <- Hbal. repeat split; assumption.
  - apply neutral_spec in H; [|reflexivity]. destruct H as (Hb & _). unfold bal in Hlt. rewrite Hb in Hlt. lia.
  - apply neutral_spec in H; [|reflexivity]. destruct H as (Hb & _). unfold bal in Hlt. rewrite Hb in Hlt. lia.
  - apply neutral_spec in H; [|reflexivity]. destruct H as (Hb & _). unfold bal in Hlt. rewrite Hb in Hlt. lia.
Qed.

(* Send / SendFrom notify exactly once, naming the caller, the amount moved and the payload;
   nothing else emits messages *)
Theorem notify_exact st blk sender o st' ms :
  step st blk sender o = Ok (st', ms) -> ms = expected_msgs sender o.
Proof.
  intros H. destruct o; cbn [expected_msgs].
  - apply transfer_spec in H. destruct H as (r & _ & _ & Hm). exact Hm.
  - apply burn_spec in H. tauto.
  - apply send_spec in H. destruct H as (r & -> & _ & Hm). exact Hm.
  - apply mint_spec in H. destruct H as (r & cap & _ & _ & _ & _ & _ & Hm & _). exact Hm.
  - apply neutral_spec in H; [|reflexivity]. tauto.
  - apply neutral_spec in H; [|reflexivity]. tauto.
  - apply transfer_from_spec in H. destruct H as (ow & r & st1 & _ & _ & _ & _ & Hm). exact Hm.
  - apply burn_from_spec in H. destruct H as (ow & st1 & _ & _ & _ & _ & Hm & _). exact Hm.
  - apply send_from_spec in H. destruct H as (ow & r & st1 & _ & -> & _ & _ & Hm). exact Hm.
  - apply neutral_spec in H; [|reflexivity]. tauto.
  - apply neutral_spec in H; [|reflexivity]. tauto.
  - apply neutral_spec in H; [|reflexivity]. tauto.
Qed.

(* ---- the allowance entry (ow, sp): how one successful call changes it ---- *)
Definition al_of (st : state) (ow sp : addr) : N := al_amt (q_allowance st ow sp).

Definition grant_of (sender : addr) (o : op) (ow sp : addr) : N :=
  match o with
  | IncreaseAllowance (Some s) n _ => if (sender =? ow) && (s =? sp) then n else 0
  | _ => 0
  end.
Definition drawn_of (sender : addr) (o : op) (ow sp : addr) : N :=
  match draw_of o with
  | Some (o1, n) => if (o1 =? ow) && (sender =? sp) then n else 0
  | None => 0
  end.

Lemma al_of_frame st st' ow sp : get ordNN (allow st') (ow, sp) = get ordNN (allow st) (ow, sp) ->
  al_of st' ow sp = al_of st ow sp.
Proof. intros H. unfold al_of, q_allowance. rewrite H. reflexivity. Qed.

Lemma draw_al st blk sender ow0 n st1 ow sp :
  deduct_allowance st blk ow0 sender n = Ok st1 ->
  al_of st1 ow sp + (if (ow0 =? ow) && (sender =? sp) then n else 0) = al_of st ow sp.
Proof.
  intros Hd. apply deduct_allowance_get in Hd. destruct Hd as (al & G & _ & Hle & G' & Hfr).
  destruct ((ow0 =? ow) && (sender =? sp)) eqn:E.
  - apply andb_true_iff in E. destruct E as [E1 E2]. apply N.eqb_eq in E1, E2. subst.
    unfold al_of, q_allowance. rewrite G, G'. cbn. lia.
  - rewrite (al_of_frame st st1); [lia|]. apply Hfr. intros Heq. inversion Heq. subst.
    rewrite !N.eqb_refl in E. discriminate.
Qed.

(* per call: new allowance + drawn in this call <= old allowance + granted in this call *)
Theorem allowance_step st blk sender o st' ms ow sp :
  sorted ordNN (allow st) -> step st blk sender o = Ok (st', ms) ->
  al_of st' ow sp + drawn_of sender o ow sp <= al_of st ow sp + grant_of sender o ow sp.
Proof.
  intros Hsorted H. unfold drawn_of, grant_of.
  destruct o; cbn [draw_of];
    try (apply al_neutral_spec in H; [|reflexivity]; destruct H as (Ea & _);
         rewrite (al_of_frame st st') by (rewrite Ea; reflexivity); lia).
  - (* Increase *) apply increase_spec in H. destruct H as (s & a1 & a2 & -> & _ & _ & H1 & _ & Hst).
    apply inc_update_spec in H1. cbn zeta in H1. destruct H1 as (Hamt & _). subst st'.
    destruct ((sender =? ow) && (s =? sp)) eqn:E.
    + apply andb_true_iff in E. destruct E as [E1 E2]. apply N.eqb_eq in E1, E2. subst.
      unfold al_of, q_allowance. cbn [allow set_allow_sp set_allow]. rewrite get_set_eq.
      rewrite Hamt. destruct (get ordNN (allow st) (ow, sp)); cbn; lia.
    + rewrite (al_of_frame st); [lia|]. cbn [allow set_allow_sp set_allow]. apply get_set_neq.
      intros Heq. inversion Heq. subst. rewrite !N.eqb_refl in E. discriminate.
  - (* Decrease *) apply decrease_spec in H.
    destruct H as (s & a & -> & _ & _ & G & [(Hlt & ex & _ & _ & Hst)|(Hge & Hst)]); subst st'.
    + destruct (N.eq_dec sender ow) as [->|Ho]; [destruct (N.eq_dec s sp) as [->|Hs]|].
      * unfold al_of, q_allowance. cbn [allow set_allow_sp set_allow]. rewrite get_set_eq, G. cbn. lia.
      * rewrite (al_of_frame st); [lia|]. cbn [allow set_allow_sp set_allow]. apply get_set_neq. congruence.
      * rewrite (al_of_frame st); [lia|]. cbn [allow set_allow_sp set_allow]. apply get_set_neq. congruence.
    + destruct (N.eq_dec sender ow) as [->|Ho]; [destruct (N.eq_dec s sp) as [->|Hs]|].
      * unfold al_of, q_allowance. cbn [allow set_allow_sp set_allow].
        rewrite get_remove_eq by exact Hsorted. cbn. lia.
      * rewrite (al_of_frame st); [lia|]. cbn [allow set_allow_sp set_allow]. apply get_remove_neq. congruence.
      * rewrite (al_of_frame st); [lia|]. cbn [allow set_allow_sp set_allow]. apply get_remove_neq. congruence.
  - (* TransferFrom *) apply transfer_from_spec in H. destruct H as (ow0 & r & st1 & -> & _ & Hd & Hm & _).
    pose proof (move_al_frame _ _ _ _ _ Hm) as (Ea & _).
    rewrite (al_of_frame st1 st') by (rewrite Ea; reflexivity).
    pose proof (draw_al _ _ _ _ _ _ ow sp Hd). lia.
  - (* BurnFrom *) apply burn_from_spec in H. destruct H as (ow0 & st1 & -> & Hd & _ & _ & _ & Hst). subst st'.
    rewrite (al_of_frame st1) by reflexivity.
    pose proof (draw_al _ _ _ _ _ _ ow sp Hd). lia.
  - (* SendFrom *) apply send_from_spec in H. destruct H as (ow0 & r & st1 & -> & _ & Hd & Hm & _).
    pose proof (move_al_frame _ _ _ _ _ Hm) as (Ea & _).
    rewrite (al_of_frame st1 st') by (rewrite Ea; reflexivity).
    pose proof (draw_al _ _ _ _ _ _ ow sp Hd). lia.
  - (* Migrate *) cbn [step] in H. destruct (ver_old st); inversion H; subst.
    + rewrite (al_of_frame st); [lia|reflexivity].
    + lia.
Qed.

(* an allowance entry changes only by its owner's increase/decrease naming the spender, or by the
   spender's own draw on the owner *)
Theorem allowance_frame st blk sender o st' ms ow sp :
  step st blk sender o = Ok (st', ms) ->
  get ordNN (allow st') (ow, sp) <> get ordNN (allow st) (ow, sp) ->
  (sender = ow /\ exists n e, o = IncreaseAllowance (Some sp) n e \/ o = DecreaseAllowance (Some sp) n e) \/
  (sender = sp /\ exists n, draw_of o = Some (ow, n)).
Proof.
  intros H Hne.
  destruct o;
    try (exfalso; apply al_neutral_spec in H; [|reflexivity]; destruct H as (Ea & _);
         apply Hne; rewrite Ea; reflexivity).
  - apply increase_spec in H. destruct H as (s & a1 & a2 & -> & _ & _ & _ & _ & Hst). subst st'.
    cbn [allow set_allow_sp set_allow] in Hne.
    destruct (N.eq_dec sender ow) as [->|Ho]; [destruct (N.eq_dec s sp) as [->|Hs]|].
    + left. split; [reflexivity|]. exists n, e. left. reflexivity.
    + exfalso. apply Hne. apply get_set_neq. congruence.
    + exfalso. apply Hne. apply get_set_neq. congruence.
  - apply decrease_spec in H.
    destruct H as (s & a & -> & _ & _ & _ & [(_ & ex & _ & _ & Hst)|(_ & Hst)]); subst st';
      cbn [allow set_allow_sp set_allow] in Hne;
      (destruct (N.eq_dec sender ow) as [->|Ho]; [destruct (N.eq_dec s sp) as [->|Hs]|]);
      try (left; split; [reflexivity|]; exists n, e; right; reflexivity);
      try (exfalso; apply Hne; apply get_set_neq; congruence);
      try (exfalso; apply Hne; apply get_remove_neq; congruence).
  - apply transfer_from_spec in H. destruct H as (ow0 & r & st1 & -> & _ & Hd & Hm & _).
    pose proof (move_al_frame _ _ _ _ _ Hm) as (Ea & _). rewrite Ea in Hne.
    apply deduct_allowance_get in Hd. destruct Hd as (al & _ & _ & _ & _ & Hfr).
    destruct (N.eq_dec ow0 ow) as [->|Ho]; [destruct (N.eq_dec sender sp) as [->|Hs]|].
    + right. split; [reflexivity|]. exists n. reflexivity.
    + exfalso. apply Hne. apply Hfr. congruence.
    + exfalso. apply Hne. apply Hfr. congruence.
  - apply burn_from_spec in H. destruct H as (ow0 & st1 & -> & Hd & _ & _ & _ & Hst). subst st'.
    cbn [allow set_supply set_balances] in Hne.
    apply deduct_allowance_get in Hd. destruct Hd as (al & _ & _ & _ & _ & Hfr).
    destruct (N.eq_dec ow0 ow) as [->|Ho]; [destruct (N.eq_dec sender sp) as [->|Hs]|].
    + right. split; [reflexivity|]. exists n. reflexivity.
    + exfalso. apply Hne. apply Hfr. congruence.
    + exfalso. apply Hne. apply Hfr. congruence.
  - apply send_from_spec in H. destruct H as (ow0 & r & st1 & -> & _ & Hd & Hm & _).
    pose proof (move_al_frame _ _ _ _ _ Hm) as (Ea & _). rewrite Ea in Hne.
    apply deduct_allowance_get in Hd. destruct Hd as (al & _ & _ & _ & _ & Hfr).
    destruct (N.eq_dec ow0 ow) as [->|Ho]; [destruct (N.eq_dec sender sp) as [->|Hs]|].
    + right. split; [reflexivity|]. exists n. reflexivity.
    + exfalso. apply Hne. apply Hfr. congruence.
    + exfalso. apply Hne. apply Hfr. congruence.
  - cbn [step] in H. destruct (ver_old st); inversion H; subst; exfalso; apply Hne; reflexivity.
Qed.

(* cumulative bound over whole histories: (granted, drawn, final state), counting committed calls only *)
Fixpoint ghost (st : state) (cs : list call) (ow sp : addr) : N * N * state :=
  match cs with
  | [] => (0, 0, st)
  | (blk, sender, o, rok) :: r =>
      let '(st', ok, _) := tx st blk sender o rok in
      let '(g, d, stf) := ghost st' r ow sp in
      ((if ok then grant_of sender o ow sp else 0) + g,
       (if ok then drawn_of sender o ow sp else 0) + d, stf)
  end.

Theorem cumulative_bound cs : forall st ow sp, Inv19 st ->
  let '(g, d, stf) := ghost st cs ow sp in
  stf = run st cs /\ d + al_of stf ow sp <= g + al_of st ow sp.
Proof.
  induction cs as [|[[[blk sender] o] rok] cs IH]; intros st ow sp Hi; cbn [ghost].
  - split; [reflexivity|lia].
  - destruct (tx_cases st blk sender o rok) as [(st' & ms & Hs & Ht)|Ht]; rewrite Ht.
    + assert (Hi': Inv19 st') by (eapply step_inv19; eassumption).
      specialize (IH st' ow sp Hi'). destruct (ghost st' cs ow sp) as [[g d] stf].
      destruct IH as [Hr Hb].
      assert (E: tx_state st (blk, sender, o, rok) = st') by (unfold tx_state; rewrite Ht; reflexivity).
      split; [cbn [run fold_left]; rewrite E; exact Hr|].
      destruct Hi as (Hsorted & _).
      pose proof (allowance_step st blk sender o st' ms ow sp Hsorted Hs). lia.
    + specialize (IH st ow sp Hi). destruct (ghost st cs ow sp) as [[g d] stf].
      destruct IH as [Hr Hb].
      assert (E: tx_state st (blk, sender, o, rok) = st) by (unfold tx_state; rewrite Ht; reflexivity).
      split; [cbn [run fold_left]; rewrite E; exact Hr|lia].
Qed.

Theorem drawn_le_granted m st cs ow sp : instantiate m = Ok st ->
  let '(g, d, stf) := ghost st cs ow sp in d + al_of stf ow sp <= g.
Proof.
  intros H. pose proof (instantiate_inv19 _ _ H) as Hi.
  pose proof (cumulative_bound cs st ow sp Hi) as Hc.
  destruct (ghost st cs ow sp) as [[g d] stf]. destruct Hc as [_ Hb].
  assert (al_of st ow sp = 0).
  { unfold instantiate in H.
    destruct (has_dup_args (i_balances m)); [discriminate|].
    destruct (create_accounts (i_balances m) [] 0) as [[b tot]| |]; cbn [rbind] in H; try discriminate.
    destruct (match i_minter m with Some (_, Some limit) => limit <? tot | _ => false end); [discriminate|].
    destruct (match i_minter m with Some (a, cap) => dor x <- validate a; Ok (Some (x, cap)) | None => Ok None end)
      as [mt| |]; cbn [rbind] in H; try discriminate.
    inversion H. subst. reflexivity. }
  lia.
Qed.

(* ---------------------------------------------------------------------------------------- *)
(* The step contracts never fire on the model.  The contracts read the states p, q off the observations
   (state_of_obs); the statements are about exactly those states. *)

Theorem s_c01_sound pre post blk sender o ms :
  let st := state_of_obs pre false in let st' := state_of_obs post false in
  Inv01 st -> ob_unlisted post = [] -> step st blk sender o = Ok (st', ms) -> s_c01 pre post sender o true = 0.
Proof.
  cbv zeta. set (st := state_of_obs pre false). set (st' := state_of_obs post false). intros H01 Hu H.
  destruct (step_inv01 _ _ _ _ _ _ H01 H) as (_ & E & L).
  unfold s_c01. fold st. fold st'. rewrite Hu.
  rewrite (proj2 (N.eqb_eq _ _) E). cbn [negb]. rewrite (proj2 (N.leb_le _ _) L). cbn [negb].
  rewrite (model_s_c01_delta _ _ _ _ _ _ H). reflexivity.
Qed.

Theorem s_c01_sound_refused pre sender o :
  let st := state_of_obs pre false in Inv01 st -> ob_unlisted pre = [] -> s_c01 pre pre sender o false = 0.
Proof.
  cbv zeta. set (st := state_of_obs pre false). intros (_ & E & L) Hu. unfold s_c01. fold st. rewrite Hu.
  rewrite (proj2 (N.eqb_eq _ _) E). cbn [negb]. rewrite (proj2 (N.leb_le _ _) L). cbn [negb].
  rewrite N.eqb_refl. cbn [andb].
  assert (F: bal_all st (bal st) (addrs_of st st []) = true).
  { unfold bal_all. apply forallb_forall. intros a _. apply N.eqb_refl. }
  rewrite F. reflexivity.
Qed.


Lemma minter_eqb_refl x : minter_eqb x x = true.
Proof.
  unfold minter_eqb. destruct x as [[a [c|]]|]; cbn; rewrite ?N.eqb_refl; reflexivity.
Qed.
Lemma minter_eqb_neq x y : minter_eqb x y = false -> x <> y.
Proof. intros H E. subst. rewrite minter_eqb_refl in H. discriminate. Qed.

(* S_C13 never fires on the model: accepted step *)
Theorem s_c13_sound pre post blk sender o ms :
  let st := state_of_obs pre false in let st' := state_of_obs post false in
  Inv01 st -> InvCap st -> step st blk sender o = Ok (st', ms) -> s_c13 pre post sender o true = 0.
Proof.
  cbv zeta. set (st := state_of_obs pre false). set (st' := state_of_obs post false). intros H01 Hc H.
  pose proof (step_inv_cap _ _ _ _ _ _ Hc H) as Hc'. pose proof (step_inv01 _ _ _ _ _ _ H01 H) as H01'.
  unfold s_c13. fold st. fold st'.
  (* clause 1 *)
  destruct (supply st <? supply st') eqn:L.
  - apply N.ltb_lt in L. destruct (mint_guard _ _ _ _ _ _ H L) as (rc & n & cap & -> & Hm & _).
    rewrite Hm. rewrite N.eqb_refl. cbn [andb negb].
    (* clause 2 *)
    destruct (minter st') as [[m' [c|]]|] eqn:Em'.
    + pose proof (Hc' m' c Em') as Le. destruct (c <? supply st') eqn:C; [apply N.ltb_lt in C; lia|].
      destruct (negb (minter_eqb (Some (sender, cap)) (Some (m', Some c)))) eqn:Mq.
      * exfalso. apply negb_true_iff in Mq. apply minter_eqb_neq in Mq.
        destruct (minter_change_guard _ _ _ _ _ _ H) as (nm & cap' & X & _); [rewrite Em', Hm; congruence|discriminate].
      * cbn [andb]. destruct H01' as (_ & E & _). rewrite <- E. rewrite C. reflexivity.
    + destruct (negb (minter_eqb (Some (sender, cap)) (Some (m', None)))) eqn:Mq.
      * exfalso. apply negb_true_iff in Mq. apply minter_eqb_neq in Mq.
        destruct (minter_change_guard _ _ _ _ _ _ H) as (nm & cap' & X & _); [rewrite Em', Hm; congruence|discriminate].
      * reflexivity.
    + exfalso. destruct (minter_change_guard _ _ _ _ _ _ H) as (nm & cap' & X & _); [rewrite Em', Hm; discriminate|discriminate].
  - cbn [andb].
    assert (C2: match minter st' with Some (_, Some c) => c <? supply st' | _ => false end = false).
    { destruct (minter st') as [[m' [c|]]|] eqn:Em'; try reflexivity. pose proof (Hc' m' c Em'). apply N.ltb_ge. lia. }
    rewrite C2.
    assert (C5: match minter st' with Some (_, Some c) => c <? sum (balances st') | _ => false end = false).
    { destruct H01' as (_ & E & _). rewrite <- E. exact C2. }
    destruct (minter_eqb (minter st) (minter st')) eqn:Mq; cbn [negb andb].
    + (* role unchanged *)
      destruct o; try (rewrite ?andb_false_r; rewrite C5; reflexivity).
      * (* Mint accepted: by the minter *)
        pose proof H as H'. apply mint_spec in H'. destruct H' as (r & cap & _ & Hm & _). rewrite Hm, N.eqb_refl. cbn [negb andb]. rewrite C5. reflexivity.
      * pose proof H as H'. apply update_minter_spec in H'. destruct H' as (cap & Hm & _). rewrite Hm, N.eqb_refl. cbn [negb andb]. rewrite C5. reflexivity.
    + apply minter_eqb_neq in Mq.
      destruct (minter_change_guard _ _ _ _ _ _ H (fun E => Mq (eq_sym E))) as (nm & cap & -> & Hm & _).
      rewrite Hm, N.eqb_refl. cbn [andb negb].
      pose proof H as H'. apply update_minter_spec in H'. destruct H' as (cap2 & Hm2 & _ & [[-> Hst]|(x & -> & Hst)]).
      * rewrite Hst. cbn [minter set_minter]. cbn [minter_eqb opt_eqb negb]. rewrite Hst in C5. cbn [minter set_minter] in C5. reflexivity.
      * rewrite Hm in Hm2. inversion Hm2; subst cap2. rewrite Hst. cbn [minter set_minter]. rewrite minter_eqb_refl. cbn [negb].
        rewrite Hst in C5. cbn [minter set_minter balances] in C5. cbn [set_minter balances]. rewrite C5. reflexivity.
Qed.

(* ... and on a refused call, which leaves everything as it was *)
Theorem s_c13_sound_refused pre sender o :
  let st := state_of_obs pre false in Inv01 st -> InvCap st -> s_c13 pre pre sender o false = 0.
Proof.
  cbv zeta. set (st := state_of_obs pre false). intros (_ & E & _) Hc. unfold s_c13. fold st.
  rewrite N.ltb_irrefl. cbn [andb]. rewrite minter_eqb_refl. cbn [negb andb].
  assert (C2: match minter st with Some (_, Some c) => c <? supply st | _ => false end = false).
  { destruct (minter st) as [[m' [c|]]|] eqn:Em'; try reflexivity. pose proof (Hc m' c Em'). apply N.ltb_ge. lia. }
  rewrite C2. rewrite <- E. rewrite C2. reflexivity.
Qed.


Lemma al_eqb_refl a : al_eqb a a = true.
Proof. unfold al_eqb. rewrite N.eqb_refl. rewrite (proj2 (exp_eqb_eq _ _) eq_refl). reflexivity. Qed.
Lemma entry_eqb_refl e : entry_eqb e e = true.
Proof. unfold entry_eqb, key_eqb. rewrite !N.eqb_refl, al_eqb_refl. reflexivity. Qed.
Lemma list_eqb_refl' {A} (eqb : A -> A -> bool) : (forall x, eqb x x = true) -> forall l, list_eqb eqb l l = true.
Proof. intros H l. induction l as [|x r IH]; cbn [list_eqb]; [reflexivity|]. rewrite H, IH. reflexivity. Qed.

Theorem s_c19_sound post :
  let st := state_of_obs post false in Inv19 st ->
  ob_point post = filter (fun e => negb (is_default (snd e))) (ob_owner post) ->
  s_c19 post = 0.
Proof.
  cbv zeta. intros (S1 & S2 & M & _) Hp. unfold s_c19. rewrite Hp. rewrite (list_eqb_refl' entry_eqb entry_eqb_refl). cbn [negb].
  cbn [state_of_obs allow allow_sp] in S1, S2, M.
  assert (F2: forallb (fun e => match get ordNN (ob_owner post) (fst (flip e)) with
                                | Some a => al_eqb a (snd e) | None => false end) (ob_spender post) = true).
  { apply forallb_forall. intros [[s o] a] Hin. cbn [flip fst snd].
    pose proof (in_get ordNN _ _ _ S2 Hin) as G. rewrite (M o s), G. apply al_eqb_refl. }
  rewrite F2. cbn [negb].
  assert (F3: forallb (fun e => match get ordNN (ob_spender post) (fst (flip e)) with
                                | Some a => al_eqb a (snd e) | None => false end) (ob_owner post) = true).
  { apply forallb_forall. intros [[o s] a] Hin. cbn [flip fst snd].
    pose proof (in_get ordNN _ _ _ S1 Hin) as G. rewrite <- (M o s), G. apply al_eqb_refl. }
  rewrite F3. reflexivity.
Qed.

(* S_C02 *)

Lemma al_eqb_fields a amt ex : al_amt a = amt -> al_exp a = ex -> al_eqb a (mkAl amt ex) = true.
Proof. intros <- <-. unfold al_eqb. cbn [al_amt al_exp]. rewrite N.eqb_refl, (proj2 (exp_eqb_eq _ _) eq_refl). reflexivity. Qed.
Lemma opt_al_refl o : opt_eqb al_eqb o o = true.
Proof. destruct o as [a|]; cbn; [apply al_eqb_refl|reflexivity]. Qed.
Lemma msg_eqb_refl m : msg_eqb m m = true.
Proof. destruct m as [[[c s] n] p]. unfold msg_eqb. rewrite !N.eqb_refl. reflexivity. Qed.

(* the allowance table after a draw by `sender` on `ow` *)
Lemma draw_allow st blk sender o st' ms ow n : step st blk sender o = Ok (st', ms) -> draw_of o = Some (ow, n) ->
  exists a, get ordNN (allow st) (ow, sender) = Some a /\ is_expired (al_exp a) blk = false /\ n <= al_amt a /\
    allow st' = set ordNN (allow st) (ow, sender) (mkAl (al_amt a - n) (al_exp a)).
Proof.
  intros H D. destruct o; cbn [draw_of] in D; try discriminate.
  - destruct owner as [ow'|]; [|discriminate]. inversion D; subst ow' n0.
    destruct (transfer_from_spec _ _ _ _ _ _ _ _ H) as (ow2 & r & st1 & E1 & _ & Hd & Hm & _). inversion E1; subst ow2.
    destruct (deduct_allowance_spec _ _ _ _ _ _ Hd) as (a & a2 & G & Ex & Le & _ & _ & _ & ->).
    exists a. repeat split; try assumption. destruct (move_al_frame _ _ _ _ _ Hm) as (E & _). rewrite E. reflexivity.
  - destruct owner as [ow'|]; [|discriminate]. inversion D; subst ow' n0.
    destruct (burn_from_spec _ _ _ _ _ _ _ H) as (ow2 & st1 & E1 & Hd & _ & _ & _ & ->). inversion E1; subst ow2.
    destruct (deduct_allowance_spec _ _ _ _ _ _ Hd) as (a & a2 & G & Ex & Le & _ & _ & _ & ->).
    exists a. repeat split; try assumption.
  - destruct owner as [ow'|]; [|discriminate]. inversion D; subst ow' n0.
    destruct (send_from_spec _ _ _ _ _ _ _ _ _ H) as (ow2 & r & st1 & E1 & _ & Hd & Hm & _). inversion E1; subst ow2.
    destruct (deduct_allowance_spec _ _ _ _ _ _ Hd) as (a & a2 & G & Ex & Le & _ & _ & _ & ->).
    exists a. repeat split; try assumption. destruct (move_al_frame _ _ _ _ _ Hm) as (E & _). rewrite E. reflexivity.
Qed.

Theorem s_c02_sound pre post blk sender o ms :
  let st := state_of_obs pre false in let st' := state_of_obs post false in
  sorted ordNN (allow st) -> step st blk sender o = Ok (st', ms) -> s_c02 pre post blk sender o true ms = 0.
Proof.
  cbv zeta. set (st := state_of_obs pre false). set (st' := state_of_obs post false). intros Hs H.
  unfold s_c02. fold st. fold st'. cbn [andb negb].
  (* clause 1 *)
  assert (F1: forallb (fun a => (bal st a <=? bal st' a) || debit_ok st st' blk sender o a) (addrs_of st st' []) = true).
  { apply forallb_forall. intros a _. destruct (bal st a <=? bal st' a) eqn:L; [reflexivity|]. cbn [orb].
    apply N.leb_gt in L. destruct (debit_authorised _ _ _ _ _ _ a H L) as [[-> Hself]|(n & al & D & G & Ex & Le & G' & Eb)].
    - unfold debit_ok. rewrite N.eqb_refl, Hself. reflexivity.
    - unfold debit_ok. rewrite D. rewrite N.eqb_refl. cbn [andb].
      unfold q_al, q_allowance, has. rewrite G, G'. rewrite Ex. cbn [negb andb].
      rewrite (proj2 (N.leb_le _ _) Le). cbn [andb]. rewrite al_eqb_refl, orb_true_r. cbn [andb].
      rewrite Eb, N.eqb_refl. apply orb_true_r. }
  rewrite F1. cbn [negb].
  (* clause 2 *)
  assert (F2: forallb (fun k => opt_eqb al_eqb (get ordNN (allow st) k) (get ordNN (allow st') k)
                               || al_change_ok st st' blk sender o (fst k) (snd k)) (pair_keys st st') = true).
  { apply forallb_forall. intros [ow sp] _. cbn [fst snd].
    destruct (opt_eqb al_eqb (get ordNN (allow st) (ow, sp)) (get ordNN (allow st') (ow, sp))) eqn:Eq; [reflexivity|]. cbn [orb].
    assert (Hne: get ordNN (allow st') (ow, sp) <> get ordNN (allow st) (ow, sp)).
    { intros E. rewrite E, opt_al_refl in Eq. discriminate. }
    destruct (allowance_frame _ _ _ _ _ _ ow sp H Hne) as [(-> & n & e & [->| ->])|(-> & n & D)].
    - (* increase *)
      destruct (increase_spec _ _ _ _ _ _ _ _ H) as (s & a1 & a2 & E & _ & _ & I1 & _ & Hst). inversion E; subst s.
      unfold al_change_ok. rewrite !N.eqb_refl. cbn [andb]. rewrite Hst. cbn [allow set_allow set_allow_sp]. rewrite get_set_eq.
      destruct (inc_update_spec _ _ _ _ _ I1) as (A1 & _ & A2 & _). cbn zeta in A1, A2. cbn [opt_eqb].
      apply al_eqb_fields; assumption.
    - (* decrease *)
      destruct (decrease_spec _ _ _ _ _ _ _ _ H) as (s & a & E & _ & _ & G & [(Lt & ex & -> & _ & Hst)|(Le & Hst)]); inversion E; subst s;
        unfold al_change_ok; rewrite !N.eqb_refl; cbn [andb]; rewrite G, Hst; cbn [allow set_allow set_allow_sp].
      + rewrite (proj2 (N.ltb_lt _ _) Lt). rewrite get_set_eq. cbn [opt_eqb]. apply al_eqb_refl.
      + rewrite (proj2 (N.ltb_ge _ _) Le). rewrite get_remove_eq by exact Hs. reflexivity.
    - (* a draw by the spender *)
      destruct (draw_allow _ _ _ _ _ _ _ _ H D) as (a & G & Ex & Le & Hal).
      unfold al_change_ok. rewrite D, G.
      assert (X: match o with
                 | IncreaseAllowance (Some _) _ _ | DecreaseAllowance (Some _) _ _ => False
                 | _ => True end) by (destruct o; cbn [draw_of] in D; try discriminate; exact I).
      destruct o as [| | | |s0 n0 e0|s0 n0 e0| | | | | |]; try destruct s0; try contradiction;
        rewrite ?N.eqb_refl; cbn [andb]; rewrite (proj2 (N.leb_le _ _) Le); cbn [andb]; rewrite Hal, get_set_eq; cbn [opt_eqb]; apply al_eqb_refl. }
  rewrite F2. cbn [negb].
  (* clauses 3, 4, 5 *)
  rewrite (notify_exact _ _ _ _ _ _ H). rewrite (list_eqb_refl' msg_eqb msg_eqb_refl). cbn [negb].
  destruct (draw_of o); [rewrite (model_s_c01_delta _ _ _ _ _ _ H)|]; reflexivity.
Qed.

Theorem s_c02_sound_refused pre blk sender o : s_c02 pre pre blk sender o false [] = 0.
Proof.
  unfold s_c02. set (st := state_of_obs pre false). cbn [andb negb].
  assert (F1: forallb (fun a => (bal st a <=? bal st a) || false) (addrs_of st st []) = true).
  { apply forallb_forall. intros a _. rewrite N.leb_refl. reflexivity. }
  rewrite F1. cbn [negb].
  assert (F2: forallb (fun k => opt_eqb al_eqb (get ordNN (allow st) k) (get ordNN (allow st) k) || false) (pair_keys st st) = true).
  { apply forallb_forall. intros k _. rewrite opt_al_refl. reflexivity. }
  rewrite F2. reflexivity.
Qed.
