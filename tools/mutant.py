#!/usr/bin/env python3
"""Confirm a seeded change produced by a sub-agent and run the checks against it.

usage: mutant.py confirm Cxx mK          (in the scratch worktree /tmp/mut/Cxx: suite passes with the patch,
                                          demo passes without it and fails with it)
       mutant.py detect  Cxx mK [Cyy..]  (apply to /repo, run ./check for Cxx (and the listed neighbours), undo)
       mutant.py keep    Cxx mK          (copy to /verif/seeded/Cxx_mK with meta.json)
"""
import json
import os
import re
import shutil
import subprocess
import sys

VERIF = os.path.dirname(os.path.dirname(os.path.abspath(__file__)))
ENV = dict(os.environ, CARGO_NET_OFFLINE="true", RUST_BACKTRACE="0")
STATE = os.path.join("/tmp/mut", "results.json")


def sh(cmd, cwd=None, timeout=3600):
    p = subprocess.run(cmd, cwd=cwd, shell=True, stdout=subprocess.PIPE, stderr=subprocess.STDOUT, env=ENV, timeout=timeout)
    return p.returncode, p.stdout.decode("utf-8", "replace")


def load():
    try:
        return json.load(open(STATE))
    except Exception:
        return {}


def save(d):
    json.dump(d, open(STATE, "w"), indent=1)


def demo_cmd(out):
    diff = open(os.path.join(out, "demo.diff")).read()
    m = re.search(r"^\+\+\+ b/((?:contracts|packages)/([\w-]+)/tests/([\w-]+)\.rs)", diff, re.M)
    if m:
        return "cargo test --offline -p %s --test %s" % (m.group(2), m.group(3))
    notes = open(os.path.join(out, "notes.md")).read()
    m = re.search(r"`(?:[^`]*?&& )?(?:CARGO_NET_OFFLINE=true )?(cargo test [^`]+)`", notes)
    return m.group(1) if m else None


def confirm(pid, mk):
    wt, out = "/tmp/mut/%s" % pid, "/tmp/mut/%s.out/%s" % (pid, mk)
    res = {}
    sh("git checkout -- . && git clean -fdq -e target", cwd=wt)
    cmd = demo_cmd(out)
    res["demo_cmd"] = cmd
    rc, o = sh("git apply %s/patch.diff" % out, cwd=wt)
    if rc != 0:
        res["error"] = "patch does not apply: " + o[-300:]
        return res
    rc, o = sh("cargo test --workspace --offline 2>&1 | grep -E '^test result|FAILED|failed|error' ", cwd=wt)
    oks = len(re.findall(r"test result: ok", o))
    bad = len(re.findall(r"FAILED|test result: FAILED|error", o))
    passed = sum(int(x) for x in re.findall(r"test result: ok\. (\d+) passed", o))
    res["suite_with_patch"] = {"ok_results": oks, "failed_markers": bad, "passed": passed}
    rc, o = sh("git apply %s/demo.diff" % out, cwd=wt)
    if rc != 0:
        res["error"] = "demo does not apply on top of patch: " + o[-300:]
        sh("git checkout -- . && git clean -fdq -e target", cwd=wt)
        return res
    rc, o = sh(cmd + " 2>&1 | tail -40", cwd=wt)
    res["demo_with_patch_fails"] = ("test result: FAILED" in o) or ("panicked" in o)
    res["demo_with_patch_tail"] = o[-600:]
    sh("git apply -R %s/patch.diff" % out, cwd=wt)
    rc, o = sh(cmd + " 2>&1 | tail -15", cwd=wt)
    res["demo_without_patch_passes"] = ("test result: ok" in o) and ("FAILED" not in o)
    sh("git checkout -- . && git clean -fdq -e target", cwd=wt)
    res["confirmed"] = bool(bad == 0 and passed >= 175 and res["demo_with_patch_fails"] and res["demo_without_patch_passes"])
    return res


def detect(pid, mk, props):
    out = "/tmp/mut/%s.out/%s" % (pid, mk)
    rc, o = sh("git -C /repo status --porcelain")
    if o.strip():
        return {"error": "/repo not clean"}
    rc, o = sh("git -C /repo apply %s/patch.diff" % out)
    if rc != 0:
        return {"error": "apply failed " + o[-200:]}
    res = {}
    try:
        for p in props:
            rc, o = sh("./check %s --tier quick" % p, cwd=VERIF)
            line = [l for l in o.splitlines() if l.startswith(("VIOLATION", "OK", "KNOWN"))]
            res[p] = {"rc": rc, "line": line[-1] if line else o[-300:]}
            if rc != 0:
                m = re.search(r"replay=(\S+)", o)
                if m and os.path.exists(m.group(1)):
                    res[p]["replay_head"] = open(m.group(1)).read()[:400]
    finally:
        sh("git -C /repo checkout -- .")
    return res


def keep(pid, mk, info):
    out = "/tmp/mut/%s.out/%s" % (pid, mk)
    dst = os.path.join(VERIF, "seeded", "%s_%s" % (pid, mk))
    os.makedirs(dst, exist_ok=True)
    for f in ("patch.diff", "demo.diff", "notes.md"):
        shutil.copy(os.path.join(out, f), os.path.join(dst, f))
    json.dump(info, open(os.path.join(dst, "meta.json"), "w"), indent=1)


def main():
    mode, pid, mk = sys.argv[1:4]
    key = "%s_%s" % (pid, mk)
    d = load()
    e = d.setdefault(key, {})
    if mode == "confirm":
        e["confirm"] = confirm(pid, mk)
        print(json.dumps(e["confirm"], indent=1)[:1500])
    elif mode == "detect":
        props = [pid] + sys.argv[4:]
        e["detect"] = detect(pid, mk, props)
        print(json.dumps(e["detect"], indent=1)[:2500])
    elif mode == "keep":
        notes = open("/tmp/mut/%s.out/%s/notes.md" % (pid, mk)).read()
        info = {"property": pid, "mutation": mk, "confirmed_by": "tools/mutant.py confirm (scratch worktree: whole suite passes with "
                "the patch; demonstration passes without it and fails with it)", "confirm": e.get("confirm"),
                "detected_by": e.get("detect"), "needs": notes[:1500]}
        keep(pid, mk, info)
    d = load()          # merge: several instances may run in parallel
    d.setdefault(key, {}).update(e)
    save(d)


if __name__ == "__main__":
    main()
