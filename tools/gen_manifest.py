#!/usr/bin/env python3
"""Writes MANIFEST.json from the registry in tools/props.py (keeps it valid at all times)."""
import json
import os
import sys

VERIF = os.path.dirname(os.path.dirname(os.path.abspath(__file__)))
sys.path.insert(0, os.path.join(VERIF, "tools"))
from props import PROPS  # noqa: E402

ALL = ["C%02d" % i for i in range(1, 21)]
BASELINE = ("cd /repo && cargo nextest run --workspace --no-fail-fast --offline || "
            "(cd /repo && cargo test --workspace --no-fail-fast --offline)")

LEVEL_NOTE = ("Trusted: Coq 8.16.1 kernel (+ its VM for vm_compute; no native_compute), zero axioms (Print Assumptions "
              "of every property theorem must say 'Closed under the global context', enforced on every run); the "
              "hand-written Gallina model is tied to /repo only by the differential run (harness on cw-multi-test 2.0.0 "
              "executes generated histories on the real contracts; Coq evaluates the step contract on every "
              "implementation step and compares the model's answers) - that part is testing; cosmwasm-std, "
              "cw-storage-plus, cw-utils, cw-controllers and chain semantics (atomic rollback, depth-first dispatch) "
              "are modelled, not verified; tools/extract_params.py re-reads the numeric constants each run.")


def main():
    checks = []
    for pid in ALL:
        if pid not in PROPS:
            continue
        p = PROPS[pid]
        checks.append({
            "property_id": pid,
            "quick_cmd": "./check %s --tier quick" % pid,
            "thorough_cmd": "./check %s --tier thorough" % pid,
            "evidence_file": "evidence/%s.json" % pid,
            "replay_cmd_template": "./check %s --replay {path}" % pid,
            "engine": "coq-model+differential",
            "level_claimed": {
                "category": "proof",
                "text": p["level_text"],
                "design_ref": p.get("design_ref", "DESIGN.md section 6 (%s)" % pid),
            },
            "level_note": LEVEL_NOTE,
            "technique": p.get("technique", "Coq 8.16 theorems over a hand-written Gallina model (induction over histories / "
                                            "whole-range arithmetic) + differential correspondence check against the Rust on every run"),
        })
    na = [{"property_id": pid, "reason": "not claimed yet: the check for this property is still being built "
                                        "(machine-checked proof applies; see DESIGN.md section 6)"}
          for pid in ALL if pid not in PROPS]
    m = {
        "version": 1,
        "setup_cmd": "./setup.sh",
        "hooks": {
            "guard": "cw_plus_verif",
            "enable": "none needed: the harness links the unmodified contract crates by path (RUSTFLAGS='--cfg cw_plus_verif' is reserved, no source uses it)",
            "baseline_off_cmd": BASELINE,
            "source_commits": [],
            "add_only": True,
        },
        "engines": [{
            "name": "coq-model+differential",
            "path": "coq/ (models, step contracts, theorems), harness/ (Rust driver of the real contracts), tools/check.py",
            "serves_properties": [c["property_id"] for c in checks],
            "kind_free_text": "machine-checked proof in Coq 8.16.1 over hand-written executable models; models tied to the "
                              "code by a per-run differential correspondence check evaluated inside Coq (vm_compute)",
        }],
        "checks": checks,
        "not_applicable": na,
        "notes": "Defect repairs in /repo are unguarded 'fix:' commits listed in known_findings.json; no instrumentation hooks.",
    }
    with open(os.path.join(VERIF, "MANIFEST.json"), "w") as f:
        json.dump(m, f, indent=1)
        f.write("\n")


if __name__ == "__main__":
    main()
