#!/bin/bash
# usage: redetect.sh Cxx_mK ...   (applies /verif/seeded/<name>/patch.diff to /repo, runs the own check, undoes)
cd /verif
for n in "$@"; do
  p=${n%%_*}
  if [ -n "$(git -C /repo status --porcelain)" ]; then echo "repo dirty"; exit 1; fi
  git -C /repo apply /verif/seeded/$n/patch.diff || { echo "$n apply failed"; continue; }
  out=$(./check $p 2>&1 | grep -E "^(VIOLATION|OK)" | tail -1)
  git -C /repo checkout -- .
  echo "$n: $out"
done
echo REDETECT-DONE
