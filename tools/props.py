"""Per-property configuration and differential runs used by tools/check.py."""
import glob
import json
import os
import shutil
import subprocess

VERIF = os.path.dirname(os.path.dirname(os.path.abspath(__file__)))
CACHE = os.path.join(VERIF, ".cache")
HBIN = os.path.join(VERIF, "harness", "target", "debug", "verif-harness")


def _check():
    import check  # late import (check imports props)
    return check


def harness(args, timeout=3000):
    env = dict(os.environ, RUST_BACKTRACE="0")
    p = subprocess.run([HBIN] + args, stdout=subprocess.PIPE, stderr=subprocess.STDOUT, timeout=timeout, env=env)
    return p.returncode, p.stdout.decode("utf-8", "replace")


def fresh_dir(name):
    d = os.path.join(CACHE, "run", name)
    shutil.rmtree(d, ignore_errors=True)
    os.makedirs(d)
    return d


def eval_dir(d, prefix):
    ck = _check()
    shards = sorted(glob.glob(os.path.join(d, prefix + "_*.v")))
    results, errors = ck.eval_shards(shards)
    cases = [l for l in open(os.path.join(d, "cases.jsonl")).read().splitlines() if l.strip()]
    stats = json.load(open(os.path.join(d, "stats.json")))
    return results, errors, cases, stats


# ------------------------------------------------------------------------------------------
# C04: one case = one input tuple of the threshold library
C04_CLAUSES = {
    1: "abort (panic) on an in-range input", 2: "Passed without Yes weight", 3: "both passed and rejected",
    4: "after expiry stricter than the exact documented formula", 5: "after expiry passes more than one vote below the exact formula",
    6: "after expiry differs from the exact formula (<= 9 decimals)", 7: "before expiry: certain pass not reported",
    8: "before expiry: Passed although a completion fails", 9: "before expiry differs from exact certain-pass (<= 9 decimals)",
    10: "before expiry: Rejected although a completion passes", 11: "current_status inconsistent with is_passed/is_rejected/expiry",
}


def run_c04(prop, tier, seed, replay, coverage):
    failing, divergent, errors = [], [], []
    total_cases, classes, samples = 0, {}, []

    def absorb(d, label):
        nonlocal total_cases
        results, errs, cases, stats = eval_dir(d, "c04")
        errors.extend(errs)
        total_cases += len(cases)
        for k, v in stats.get("classes", {}).items():
            classes[k] = classes.get(k, 0) + v
        if cases and len(samples) < 6:
            samples.extend(json.loads(c) for c in cases[:3])
        for idx, code in results:
            case = cases[idx] if idx < len(cases) else "{}"
            if code >= 100:
                failing.append({"why": "%d (%s)" % (code - 100, C04_CLAUSES.get(code - 100, "?")), "case": case, "src": label})
            else:
                divergent.append({"why": "model of packages/cw3/src/proposal.rs != implementation outputs", "case": case, "src": label})

    if replay:
        d = fresh_dir("C04_replay")
        harness(["c04", "replay", "--file", replay, "--out", d])
        absorb(d, "replay")
    else:
        corpus = sorted(glob.glob(os.path.join(VERIF, "corpus", "c04", "*.jsonl")))
        for i, cf in enumerate(corpus):
            d = fresh_dir("C04_corpus%d" % i)
            harness(["c04", "replay", "--file", cf, "--out", d])
            absorb(d, "corpus:" + os.path.basename(cf))
        n = 32000 if tier == "quick" else 320000
        d = fresh_dir("C04_gen")
        harness(["c04", "gen", "--seed", str(seed), "--count", str(n), "--out", d, "--shard", "2000" if tier == "quick" else "5000"])
        absorb(d, "gen seed=%d" % seed)
        d = fresh_dir("C04_exh")
        tmax = 4 if tier == "quick" else 8
        harness(["c04", "exhaustive", "--tmax", str(tmax), "--out", d, "--shard", "2500" if tier == "quick" else "6000"])
        absorb(d, "exhaustive T<=%d" % tmax)
        coverage["exhaustive_small_scope"] = "all totals <= %d x all tallies x rule grid x expired/not (a test, not a proof)" % tmax
    coverage.update({
        "evaluations": total_cases,
        "distinct_nontrivial": len(classes),
        "rule": "cases = (rule, total, yes/no/abstain/veto, expired) run through cw3::Proposal::{is_passed,is_rejected,current_status}; "
                "distinct = (rule kind, expired, impl passed, impl rejected, yes=0, abstain=0, votes outstanding) classes; "
                "each case: S_C04 evaluated on the implementation's outputs and model outputs compared, in Coq by vm_compute",
        "samples": samples[:6],
        "traces_validated_against_impl": total_cases,
        "disagreements_checked": len(divergent),
        "distribution": classes,
    })
    return {"failing": failing, "divergent": divergent, "errors": errors}


PROPS = {
    "C04": {
        "id": "C04",
        "props_file": "Props/C04.v",
        "coq_targets": ["Props/C04.v", "Cw3ThresholdContract.v"],
        "exec_targets": ["Cw3ThresholdContract.v"],
        "run": run_c04,
        "level_text": "15 axiom-free Coq theorems over the transliterated threshold library settle, for every total <= 2^64-1, "
                      "every tally within it, every validated rule and both expiry states: no abort, exact rounded-up decision "
                      "for <= 9 decimals, one-vote never-stricter bracket for 18 decimals, never Passed without Yes, early "
                      "Passed iff all completions pass, early Rejected only if none passes, never both, sticky decisions stay "
                      "valid. The model is tied to packages/cw3/src/proposal.rs by running the Rust functions on generated and "
                      "small-scope-exhaustive tuples and evaluating S_C04 + model equality in Coq on each (measured, not proved).",
        "design_ref": "DESIGN.md section 6 C04",
        "assumptions": [
            "theorems are about the Gallina transliteration of packages/cw3/src/proposal.rs (Cw3Threshold.v); "
            "agreement with the Rust is measured on the explored tuples only",
            "Decimal is modelled as atomics over 10^18, Uint128::mul_floor as full product / 10^18 with range check",
        ],
    },
}
