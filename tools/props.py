"""Per-property configuration and differential runs used by tools/check.py."""
import glob
import json
import os
import shutil
import subprocess

VERIF = os.path.dirname(os.path.dirname(os.path.abspath(__file__)))
CACHE = os.path.join(VERIF, ".cache")
HBIN = os.environ.get("VERIF_HBIN", os.path.join(VERIF, "harness", "target", "debug", "verif-harness"))


def _check():
    import check  # late import (check imports props)
    return check


HARNESS_FAILURES = {}   # output directory -> what the harness said when it did not finish


def harness(args, timeout=3000):
    env = dict(os.environ, RUST_BACKTRACE="0")
    p = subprocess.run([HBIN] + args, stdout=subprocess.PIPE, stderr=subprocess.STDOUT, timeout=timeout, env=env)
    out = p.stdout.decode("utf-8", "replace")
    if p.returncode != 0 and "--out" in args:
        # the harness itself stopped (a panic of the implementation inside a query is not caught by the chain)
        HARNESS_FAILURES[args[args.index("--out") + 1]] = "harness %s exited with code %d: %s" % (" ".join(args[:2]), p.returncode, out[-1500:])
    return p.returncode, out


def fresh_dir(name):
    d = os.path.join(CACHE, "run", name)
    shutil.rmtree(d, ignore_errors=True)
    os.makedirs(d)
    return d


def eval_dir(d, prefix):
    ck = _check()
    if d in HARNESS_FAILURES or not os.path.exists(os.path.join(d, "cases.jsonl")):
        return {}, [HARNESS_FAILURES.get(d, "the harness produced no cases in %s" % d)], [], {}
    shards = sorted(glob.glob(os.path.join(d, prefix + "_*.v")))
    results, errors = ck.eval_shards(shards)
    cases = [l for l in open(os.path.join(d, "cases.jsonl")).read().splitlines() if l.strip()]
    stats = json.load(open(os.path.join(d, "stats.json")))
    return results, errors, cases, stats


# ------------------------------------------------------------------------------------------
# C04: one case = one input tuple of the threshold library
C04_CLAUSES = {
    1: "abort (panic) on an in-range input", 2: "Passed without Yes weight", 3: "both passed and rejected",
    4: "after expiry stricter than the exact documented formula", 5: "after expiry passes more than one vote below the exact formula",
    6: "after expiry differs from the exact formula (<= 9 decimals)", 7: "before expiry: certain pass not reported",
    8: "before expiry: Passed although a completion fails", 9: "before expiry differs from exact certain-pass (<= 9 decimals)",
    10: "before expiry: Rejected although a completion passes", 11: "current_status inconsistent with is_passed/is_rejected/expiry",
}


def run_c04(prop, tier, seed, replay, coverage):
    failing, divergent, errors = [], [], []
    total_cases, classes, samples = 0, {}, []

    def absorb(d, label):
        nonlocal total_cases
        results, errs, cases, stats = eval_dir(d, "c04")
        errors.extend(errs)
        total_cases += len(cases)
        for k, v in stats.get("classes", {}).items():
            classes[k] = classes.get(k, 0) + v
        if cases and len(samples) < 6:
            samples.extend(json.loads(c) for c in cases[:3])
        for idx, code in results.get(0, []):
            case = cases[idx] if idx < len(cases) else "{}"
            if code >= 100:
                failing.append({"why": "%d (%s)" % (code - 100, C04_CLAUSES.get(code - 100, "?")), "case": case, "src": label})
            else:
                divergent.append({"why": "model of packages/cw3/src/proposal.rs != implementation outputs", "case": case, "src": label})

    if replay:
        d = fresh_dir("C04_replay")
        harness(["c04", "replay", "--file", replay, "--out", d])
        absorb(d, "replay")
    else:
        corpus = sorted(glob.glob(os.path.join(VERIF, "corpus", "c04", "*.jsonl")))
        for i, cf in enumerate(corpus):
            d = fresh_dir("C04_corpus%d" % i)
            harness(["c04", "replay", "--file", cf, "--out", d])
            absorb(d, "corpus:" + os.path.basename(cf))
        n = 32000 if tier == "quick" else 320000
        d = fresh_dir("C04_gen")
        harness(["c04", "gen", "--seed", str(seed), "--count", str(n), "--out", d, "--shard", "2000" if tier == "quick" else "5000"])
        absorb(d, "gen seed=%d" % seed)
        d = fresh_dir("C04_exh")
        tmax = 4 if tier == "quick" else 8
        harness(["c04", "exhaustive", "--tmax", str(tmax), "--out", d, "--shard", "2500" if tier == "quick" else "6000"])
        absorb(d, "exhaustive T<=%d" % tmax)
        coverage["exhaustive_small_scope"] = "all totals <= %d x all tallies x rule grid x expired/not (a test, not a proof)" % tmax
    coverage.update({
        "evaluations": total_cases,
        "distinct_nontrivial": len(classes),
        "rule": "cases = (rule, total, yes/no/abstain/veto, expired) run through cw3::Proposal::{is_passed,is_rejected,current_status}; "
                "distinct = (rule kind, expired, impl passed, impl rejected, yes=0, abstain=0, votes outstanding) classes; "
                "each case: S_C04 evaluated on the implementation's outputs and model outputs compared, in Coq by vm_compute",
        "samples": samples[:6],
        "traces_validated_against_impl": total_cases,
        "disagreements_checked": len(divergent),
        "distribution": classes,
    })
    return {"failing": failing, "divergent": divergent, "errors": errors}



# ------------------------------------------------------------------------------------------
# trace families: one case = one history (instantiate + calls) run on the real contract

def _replay_one(family, prefix, eval_index, trace_json, tag):
    d = fresh_dir("%s_%s" % (family, tag))
    f = os.path.join(d, "in.jsonl")
    with open(f, "w") as fh:
        fh.write(trace_json + "\n")
    harness([family, "replay", "--file", f, "--out", d])
    results, errs, cases, stats = eval_dir(d, prefix)
    return results.get(eval_index, []), errs


def shrink_trace(family, prefix, eval_index, trace_json, budget=45):
    """delta debugging over the steps of a failing trace; keeps candidates that still make the
    step contract fail (code >= 100) on the implementation"""
    try:
        t = json.loads(trace_json)
    except ValueError:
        return trace_json
    steps = t.get("steps", [])

    def fails(cand_steps):
        c = dict(t, steps=cand_steps)
        res, errs = _replay_one(family, prefix, eval_index, json.dumps(c), "shrink")
        return any(code % 1000 >= 100 for _, code in res)

    n = 2
    tries = 0
    while len(steps) >= 1 and tries < budget:
        chunk = max(1, len(steps) // n)
        reduced = False
        for i in range(0, len(steps), chunk):
            cand = steps[:i] + steps[i + chunk:]
            tries += 1
            if tries > budget:
                break
            if fails(cand):
                steps = cand
                n = max(n - 1, 2)
                reduced = True
                break
        if not reduced:
            if chunk == 1:
                break
            n = min(n * 2, len(steps))
    return json.dumps(dict(t, steps=steps))


def open_findings(pid):
    """open known findings of known_findings.json that list this property: {finding id: entry}"""
    try:
        kf = json.load(open(os.path.join(VERIF, "known_findings.json")))
    except (OSError, ValueError):
        return {}
    return {f["id"]: f for f in kf.get("findings", []) if pid in f.get("properties", [])}


def run_trace_family(family, prefix, eval_index, clauses, proj_text, prop, tier, seed, replay, coverage,
                     quick_n=640, thorough_n=4000, steps=40, known_codes=None):
    failing, divergent, errors = [], [], []
    known_codes = known_codes or {}
    listed = open_findings(prop["id"])
    known_hits = {}
    total_traces, total_steps, classes, samples = 0, 0, {}, []

    def absorb(d, label):
        nonlocal total_traces, total_steps
        results, errs, cases, stats = eval_dir(d, prefix)
        errors.extend(errs)
        total_traces += len(cases)
        total_steps += stats.get("steps", 0)
        for k, v in stats.get("classes", {}).items():
            classes[k] = classes.get(k, 0) + v
        if cases and len(samples) < 2:
            samples.append(json.loads(cases[0]))
        for idx, code in results.get(eval_index, []):
            case = cases[idx] if idx < len(cases) else "{}"
            step, c = code // 1000, code % 1000
            if c >= 300 and known_codes.get(c - 100) in listed:
                fid = known_codes[c - 100]
                known_hits.setdefault(fid, {"count": 0, "first": {"src": label, "step": step, "clause": c - 100}})["count"] += 1
            elif c >= 100:
                failing.append({"why": "%d (%s) at step %d" % (c - 100, clauses.get(c - 100, "?"), step),
                                "case": case, "src": label})
            else:
                divergent.append({"why": "model != implementation on %s at step %d (code %d)" % (proj_text, step, c),
                                  "case": case, "src": label})

    if replay:
        d = fresh_dir("%s_replay" % prop["id"])
        harness([family, "replay", "--file", replay, "--out", d])
        absorb(d, "replay")
    else:
        corpus = sorted(glob.glob(os.path.join(VERIF, "corpus", family, "*.jsonl")))
        for i, cf in enumerate(corpus):
            d = fresh_dir("%s_corpus%d" % (prop["id"], i))
            harness([family, "replay", "--file", cf, "--out", d])
            absorb(d, "corpus:" + os.path.basename(cf))
        n = quick_n if tier == "quick" else thorough_n
        d = fresh_dir("%s_gen" % prop["id"])
        harness([family, "gen", "--seed", str(seed), "--count", str(n), "--out", d,
                 "--shard", str(max(1, (n + 15) // 16 if tier == "quick" else 64)), "--steps", str(steps)])
        absorb(d, "gen seed=%d" % seed)
        if (divergent or errors) and not failing:
            # the correspondence broke: search further for a concrete failing input
            for extra in range(1, 4):
                d = fresh_dir("%s_search%d" % (prop["id"], extra))
                harness([family, "gen", "--seed", str(seed * 7919 + extra), "--count", str(n), "--out", d,
                         "--shard", str(max(1, (n + 15) // 16)), "--steps", str(steps)])
                absorb(d, "search seed=%d" % (seed * 7919 + extra))
                if failing:
                    break
            coverage["search_after_break"] = "ran %d extra seeds" % extra
    if failing and not replay:
        failing[0]["case"] = shrink_trace(family, prefix, eval_index, failing[0]["case"])
    coverage.update({
        "evaluations": total_steps + total_traces,
        "distinct_nontrivial": len(classes),
        "rule": "case = one generated history (instantiate + <= %d calls, state-aware amounts, 5-6 actors, block advances) "
                "executed on the real contract in cw-multi-test; after every call the full public state is queried; "
                "Coq evaluates (vm_compute) the step contract on every implementation step and the model on the same "
                "inputs; distinct = (operation kind, outcome) classes observed" % steps,
        "samples": samples,
        "traces_validated_against_impl": total_traces,
        "steps_validated_against_impl": total_steps,
        "disagreements_checked": len(divergent),
        "distribution": classes,
    })
    known_lines = ["KNOWN-FINDING: property=%s %s (finding %s; %d step(s) of this run fall in its class, first: %s step %d)" % (
        prop["id"], listed[fid]["what"], fid, h["count"], h["first"]["src"], h["first"]["step"]) for fid, h in sorted(known_hits.items())]
    coverage["known_findings_seen"] = {fid: h["count"] for fid, h in known_hits.items()}
    return {"failing": failing, "divergent": divergent, "errors": errors, "known_lines": known_lines}


C01_CLAUSES = {1: "reported supply differs from the sum of listed balances", 2: "a holder with non-zero balance is not listed",
               3: "supply above 2^128-1", 4: "successful call: supply/balance deltas are not those of the operation",
               5: "failed call changed supply or balances"}
C02_CLAUSES = {1: "a balance decreased without its holder's own call or a valid allowance draw",
               2: "an allowance changed other than by its owner's increase/decrease or its spender's draw",
               3: "Send/SendFrom notification missing, duplicated or with wrong initiator/amount/payload",
               4: "failed call emitted messages",
               5: "a draw did not move exactly the amount (debit of the owner, credit of the recipient, nothing else)"}
C13_CLAUSES = {1: "supply increased other than by a Mint from the current minter", 2: "supply above the cap",
               3: "minter role or cap changed other than by the current minter's UpdateMinter",
               4: "Mint/UpdateMinter by a non-minter succeeded",
               5: "the listed balances add up to more than the cap"}
C19_CLAUSES = {1: "owner listing and single-allowance query disagree", 2: "spender listing has an entry the owner listing lacks or differs from",
               3: "owner listing has an entry the spender listing lacks or differs from"}


def mk_cw20_run(eval_index, clauses, proj):
    def run(prop, tier, seed, replay, coverage):
        return run_trace_family("cw20", "cw20", eval_index, clauses, proj, prop, tier, seed, replay, coverage)
    return run


CW20_ASSUME = [
    "theorems are about the Gallina transliteration of contracts/cw20-base (Cw20Model.v); agreement with the Rust is "
    "measured on the explored histories only",
    "chain atomicity (a failed call leaves no trace) is cw-multi-test's and is written into the model's tx function",
    "name/symbol/decimals validation, marketing info and logos are not modelled",
]

PROPS = {
    "C04": {
        "id": "C04",
        "props_file": "Props/C04.v",
        "coq_targets": ["Props/C04.v", "Cw3ThresholdContract.v"],
        "exec_targets": ["Cw3ThresholdContract.v"],
        "run": run_c04,
        "level_text": "15 axiom-free Coq theorems over the transliterated threshold library settle, for every total <= 2^64-1, "
                      "every tally within it, every validated rule and both expiry states: no abort, exact rounded-up decision "
                      "for <= 9 decimals, one-vote never-stricter bracket for 18 decimals, never Passed without Yes, early "
                      "Passed iff all completions pass, early Rejected only if none passes, never both, sticky decisions stay "
                      "valid. The model is tied to packages/cw3/src/proposal.rs by running the Rust functions on generated and "
                      "small-scope-exhaustive tuples and evaluating S_C04 + model equality in Coq on each (measured, not proved).",
        "design_ref": "DESIGN.md section 6 C04",
        "assumptions": [
            "theorems are about the Gallina transliteration of packages/cw3/src/proposal.rs (Cw3Threshold.v); "
            "agreement with the Rust is measured on the explored tuples only",
            "Decimal is modelled as atomics over 10^18, Uint128::mul_floor as full product / 10^18 with range check",
        ],
    },
}

def _cw20_prop(pid, idx, clauses, proj, text):
    return {
        "id": pid, "props_file": "Props/%s.v" % pid,
        "coq_targets": ["Props/%s.v" % pid, "Cw20Check.v"], "exec_targets": ["Cw20Check.v"],
        "run": mk_cw20_run(idx, clauses, proj), "assumptions": CW20_ASSUME, "level_text": text,
        "design_ref": "DESIGN.md section 6 " + pid,
    }


PROPS["C01"] = _cw20_prop("C01", 0, C01_CLAUSES, "supply and listed balances",
    "Axiom-free Coq theorems over the transliterated cw20-base handlers: for every accepted instantiation and every finite "
    "history of calls (any senders, amounts over the whole u128 range, failures included) supply = sum of balances and "
    "<= 2^128-1 (induction over the history); every successful call has exactly the deltas of its operation (c01_model_delta); "
    "failed calls change nothing; the step contract S_C01 itself is proved never to fire on the model's own transitions "
    "(c01_contract_never_fires_on_model). Tie to the Rust: generated histories on the real contract, S_C01 evaluated in Coq on every "
    "implementation step plus model/implementation equality of supply and balances (measured, not proved).")
PROPS["C02"] = _cw20_prop("C02", 1, C02_CLAUSES, "balances, owner allowance table and emitted messages",
    "Axiom-free Coq theorems: a balance decreases only by its holder's own call or by a draw on a stored, unexpired, sufficient "
    "allowance that is lowered by exactly the amount moved; allowance entries change only by the owner's increase/decrease or "
    "the spender's draw; over every history drawn + remaining <= granted (ghost sums, induction); Send/SendFrom notify exactly "
    "once with the true initiator; the step contract S_C02 (all 5 clauses) is proved never to fire on the model's own transitions "
    "(c02_contract_never_fires_on_model). Tie to the Rust: S_C02 evaluated in Coq on every step of generated histories on the real "
    "contract (expiry at the call's block, decrease-vs-draw races) plus model/implementation equality (measured).")
PROPS["C13"] = _cw20_prop("C13", 2, C13_CLAUSES, "supply and minter/cap",
    "Axiom-free Coq theorems: supply grows only in a Mint by the registered minter; supply <= cap in every reachable state; "
    "the role changes only by the current minter's UpdateMinter and keeps the cap; after renouncing nobody ever mints or "
    "becomes minter again (induction over histories); the balances themselves never add up to more than the cap "
    "(c13_balances_within_cap); S_C13 is proved never to fire on the model (c13_contract_never_fires_on_model). Tie to the Rust as "
    "for C01 (S_C13 + equality of supply and minter).")
PROPS["C19"] = _cw20_prop("C19", 3, C19_CLAUSES, "owner and spender allowance listings",
    "Axiom-free Coq theorems: in every reachable state the owner-keyed and spender-keyed allowance tables mirror each other "
    "(invariant by induction over histories), and migrate establishes the mirror from EVERY pre-0.14 table; any history, then the "
    "upgrade of the legacy layout, then any history keeps the three views in agreement (c19_lifecycle); S_C19 is proved never "
    "to fire on a state satisfying the invariant (c19_contract_never_fires_on_model). Tie to the Rust: "
    "on every step of generated histories (incl. a stripped legacy layout followed by migrate) the three query views are "
    "compared in Coq (S_C19) and both listings are compared with the model's tables (measured).")


# ------------------------------------------------------------------------------------------
# cw1 family
C07_CLAUSES = {1: "relayed messages differ from the submitted ones", 2: "Execute accepted although the caller is neither admin nor covered by its grants",
               3: "a failed Execute relayed messages", 4: "a call other than Execute emitted messages"}
C08_CLAUSES = {1: "a failed call changed an allowance", 2: "an admin's Execute or an Execute without bank sends changed an allowance",
               3: "a subkey's spending changed another subkey's allowance", 4: "spending accepted without a stored, unexpired allowance",
               5: "spending not deducted exactly per denomination (or beyond what remains)", 6: "spending changed the expiry",
               7: "IncreaseAllowance changed another subkey's allowance", 8: "IncreaseAllowance: wrong resulting amounts",
               9: "DecreaseAllowance changed another subkey's allowance", 10: "DecreaseAllowance: wrong resulting amounts (must saturate at zero)",
               11: "a call that may not touch allowances changed one",
               12: "IncreaseAllowance left an expiry other than the requested one / that of the unexpired previous grant",
               13: "DecreaseAllowance left an expiry other than the requested one / the previous one",
               14: "DecreaseAllowance accepted on a missing or expired allowance",
               15: "IncreaseAllowance/DecreaseAllowance accepted with an expiry that is already past"}
C16_CLAUSES = {1: "CanExecute answered differently from the Execute made right after it"}
C17_CLAUSES = {1: "admin list or frozen flag changed other than by UpdateAdmins/Freeze of a current admin while mutable",
               2: "an allowance or permission entry changed without an admin's grant call naming it (or the subkey's own spending)",
               3: "an accepted UpdateAdmins did not install exactly the submitted list (a removed admin stays admin) / an accepted Freeze did not freeze"}


def mk_cw1_run(eval_index, clauses, proj):
    def run(prop, tier, seed, replay, coverage):
        return run_trace_family("cw1", "cw1", eval_index, clauses, proj, prop, tier, seed, replay, coverage)
    return run


CW1_ASSUME = [
    "theorems are about the Gallina transliteration of cw1-whitelist / cw1-subkeys and cw-utils NativeBalance (Cw1Model.v); "
    "agreement with the Rust is measured on the explored histories only",
    "'succeeds' is acceptance by the proxy's handler; the fate of the relayed messages on the chain is the environment's "
    "(a failing relayed message rolls the whole call back: chain atomicity, written into the model's tx)",
    "message payload fields beyond kind/recipient/coins are compared by Rust == on the SubMsg vectors (flag `exact`)",
]


def _cw1_prop(pid, idx, clauses, proj, text):
    return {
        "id": pid, "props_file": "Props/%s.v" % pid,
        "coq_targets": ["Props/%s.v" % pid, "Cw1Check.v"], "exec_targets": ["Cw1Check.v"],
        "run": mk_cw1_run(idx, clauses, proj), "assumptions": CW1_ASSUME, "level_text": text,
        "design_ref": "DESIGN.md section 6 " + pid,
    }


PROPS["C07"] = _cw1_prop("C07", 0, C07_CLAUSES, "acceptance and relayed messages",
    "Axiom-free Coq theorems over the transliterated cw1-whitelist / cw1-subkeys handlers, for every state, block, sender and "
    "message list: an accepted Execute relays exactly the submitted messages in order and no other call emits any; whitelist "
    "accepts exactly admins; subkeys accepts exactly admins or lists whose every message is covered with the allowance "
    "threaded through cumulatively; a failed call (handler error or a relayed message failing) changes nothing. Tie to the "
    "Rust: generated histories on both real proxies, S_C07 evaluated in Coq on every implementation step (relayed SubMsg "
    "vector compared with the submitted one by Rust == and kind-by-kind) plus model/implementation equality (measured).")
PROPS["C08"] = _cw1_prop("C08", 1, C08_CLAUSES, "stored allowances",
    "Axiom-free Coq theorems: an accepted subkey Execute deducts every coin of every bank send exactly, per denomination and "
    "cumulatively, only from a stored unexpired allowance, and touches nobody else's; increase/decrease act only by admins "
    "on the named subkey (expired allowance restarts from zero, decrease saturates); over every history from every "
    "instantiation spent + remaining <= granted per subkey and denomination (ghost sums, induction); the step contract S_C08 "
    "itself (all 13 clauses) is proved never to fire on the model's own transitions (c08_contract_never_fires_on_model; the "
    "same for S_C07, S_C16, S_C17), so a reported clause is always a difference from the proved behaviour. Tie to the Rust: S_C08 "
    "on every implementation step + equality of the stored allowance tables (measured).")
PROPS["C16"] = _cw1_prop("C16", 2, C16_CLAUSES, "CanExecute answer vs acceptance of the following Execute",
    "Axiom-free Coq theorem for EVERY state of either proxy, block, sender and message: can_execute = acceptance of "
    "Execute{[m]} by that sender in that state (two separately transliterated functions proved equal). Tie to the Rust: "
    "every generated Execute of a single message is preceded by the CanExecute query in the same state; the two answers of "
    "the implementation are compared (S_C16) and each with the model's (measured).")
PROPS["C17"] = _cw1_prop("C17", 3, C17_CLAUSES, "admin list, frozen flag, allowances and permissions",
    "Axiom-free Coq theorems: admin list / frozen flag change only in Freeze or UpdateAdmins by a current admin while "
    "mutable; once immutable they never change over any history (induction); allowances and permissions are altered only by "
    "current admins, except a subkey's own accepted spending of its own allowance. Tie to the Rust: S_C17 on every "
    "implementation step of histories on both proxies + equality of admin list/flag/permissions (measured).")


# ------------------------------------------------------------------------------------------
# cw4 family
C09_CLAUSES = {1: "reported total differs from the sum of the listed member weights", 2: "member listing and point query disagree",
               3: "an at-height member answer for a height <= the call's block changed (history not frozen)",
               4: "an at-height member answer for a future height differs from the current weight",
               5: "an at-height total answer for a height <= the call's block changed", 6: "future-height total differs from the current total",
               7: "raw storage read (TOTAL_KEY / member_key) differs from the smart query",
               8: "after an accepted UpdateMembers a removed address is still a member / an added one lacks its weight / a third one changed"}
C10_CLAUSES = {1: "holdings below recorded stakes + unreleased claims", 2: "funded only by bonding, yet holdings differ from stakes + claims",
               3: "reported weight is not floor(stake / tokens_per_weight), or membership differs from stake >= min_bond",
               4: "a call other than Claim paid tokens out", 5: "a failed call changed stakes, claims or holdings",
               6: "bond accepted with a token other than the configured one (or from a non-token caller)",
               7: "bond did not add exactly the amount to the staker's stake (or touched someone else)",
               8: "unbond did not move exactly the amount from stake to a claim maturing after the unbonding period",
               9: "claim changed a stake or another user's claims", 10: "claim did not remove exactly the matured claims",
               11: "claim payout differs from the caller's matured claims", 12: "a call that may not touch stakes/claims/holdings did"}
C14_CLAUSES = {1: "admin, hooks or group membership changed other than by the current admin's own call",
               2: "a failed call emitted messages", 3: "hook notification from a call that changes no membership",
               4: "a registered hook was not notified of a change", 5: "notifications are not exactly one per registered hook",
               6: "hooks received different payloads", 7: "a diff entry reports a wrong previous weight",
               8: "the diff list does not explain the observed change of weights", 9: "cw4-stake: not exactly one real change reported"}


def mk_cw4_run(eval_index, clauses, proj):
    def run(prop, tier, seed, replay, coverage):
        return run_trace_family("cw4", "cw4", eval_index, clauses, proj, prop, tier, seed, replay, coverage, steps=25)
    return run


CW4_ASSUME = [
    "theorems are about the Gallina transliteration of cw4-group / cw4-stake, cw-storage-plus SnapshotMap/SnapshotItem "
    "(EveryBlock) and cw-controllers Admin/Hooks/Claims (Cw4Model.v); agreement with the Rust is measured on the explored histories",
    "block heights never decrease (hypothesis `mono` of the history theorems; invariant of the generator)",
    "the raw-key clause (TOTAL_KEY, member_key) is decided by the differential run only: raw reads are compared with the smart "
    "queries after every call; the byte layout itself is not modelled",
    "C10 backing: the configured cw20 token is honest (calls Receive only from its own Send); holdings are the bank / cw20 "
    "balance of the contract as kept by cw-multi-test",
]


def _cw4_prop(pid, idx, clauses, proj, text):
    return {
        "id": pid, "props_file": "Props/%s.v" % pid,
        "coq_targets": ["Props/%s.v" % pid, "Cw4Check.v"], "exec_targets": ["Cw4Check.v"],
        "run": mk_cw4_run(idx, clauses, proj), "assumptions": CW4_ASSUME, "level_text": text,
        "design_ref": "DESIGN.md section 6 " + pid,
    }


PROPS["C09"] = _cw4_prop("C09", 0, C09_CLAUSES, "member list, total and all at-height answers",
    "Axiom-free Coq theorems over the transliterated cw4-group / cw4-stake handlers and the snapshot changelog of "
    "cw-storage-plus: in every state reachable from every instantiation by every history in non-decreasing blocks the total is "
    "the sum of the listed weights; Member{a, at_height=h} for EVERY address and height equals the weight after the last call "
    "in a block < h (nothing up to the instantiation block), likewise TotalWeight{at_height} of cw4-group (induction over "
    "histories on a per-key changelog invariant); plus an abstract soundness theorem turning the per-step contract S_C09 "
    "(answers for h <= block frozen, h > block = current) into that history statement; an accepted UpdateMembers leaves every "
    "removed address without membership, every other added address with its listed weight and nobody else changed "
    "(c09_update_members_pointwise), and clause 8 of the step contract, computed from the submitted lists, is proved never to "
    "fire on the model (c09_update_contract_never_fires_on_model). Tie to the Rust: S_C09 evaluated in Coq "
    "on every implementation step for every pool address and every height 0..H+2, raw reads vs smart queries, and "
    "model/implementation equality of all those answers (measured).")
PROPS["C10"] = _cw4_prop("C10", 1, C10_CLAUSES, "stakes, claims, holdings and payout messages",
    "Axiom-free Coq theorems: over every history holdings = stakes + unreleased claims + outside donations (ghost sum, "
    "induction), so stakes are always backed and exactly backed when funded only by bonding; every accepted call changes stakes "
    "and claims exactly as its operation prescribes (only the configured token, only the caller's own stake, unbond creates one "
    "claim maturing no earlier than the period, claim pays exactly the matured claims once); in every reachable state the "
    "reported weight is calc_weight(stake): member iff stake >= max(min_bond,1), weight = full quotient stake/tokens_per_weight "
    "fitting u64; over every history and for every user, paid out + still claimable = unbonded (c10_claims_ledger: no claim is "
    "paid twice, to somebody else, or dropped); clauses 4..12 of S_C10 are proved never to fire on the model's own accepted or "
    "refused transaction (c10_contract_ops_never_fire_on_model_partial; clauses 1..3 are the state predicates of the history "
    "theorems). Tie to the Rust: S_C10 on every implementation step (native and cw20 configurations, amounts up to 2^100, "
    "tokens_per_weight 0..2^128-1, both duration kinds) + equality of stakes/claims/holdings/payouts (measured).")
PROPS["C14"] = _cw4_prop("C14", 2, C14_CLAUSES, "admin, hooks, member list and hook messages",
    "Axiom-free Coq theorems: admin, hook list and (cw4-group) members change only in a call by the current admin; once the "
    "admin is cleared they never change over any history (induction); every accepted membership call sends exactly one message "
    "per registered hook in order, all with the same diff list, and that list EXPLAINS the change (replayed over the old "
    "weights each `old` is the running weight, the result is the new table, unmentioned addresses are unchanged); cw4-stake "
    "notifies exactly when the weight changed; no other call notifies; only registered addresses are ever told, each at most "
    "once per call (the registry of a reachable state never lists an address twice), and after RemoveHook{x} no call of any "
    "history that does not register x again tells x anything (c14_removed_hook_silent); the step contract S_C14, all 9 clauses, "
    "is proved never to fire on the model from a reachable state (c14_contract_never_fires_on_model). Tie to the Rust: S_C14 on every implementation step with "
    "real hook-receiver contracts (and non-contract hooks that make the call roll back) + equality of messages (measured).")


# ------------------------------------------------------------------------------------------
# cw3 family
C03_CLAUSES = {1: "status Passed although the recorded ballots do not pass the rule", 2: "status Open although the ballots pass the rule",
               3: "status Open although the proposal has expired", 4: "status Rejected although the ballots pass the rule",
               5: "status Rejected although not expired and the proposal can still pass", 6: "status Pending",
               7: "the threshold rule aborts on an in-range tally",
               9: "the single-proposal query or the reverse listing reports a proposal differently from ListProposals",
               10: "Execute refused although the proposal is reported Passed and the caller is authorised",
               200: "ballots outweigh the proposal's total (the rule itself is undefined)"}
C05_CLAUSES = {1: "messages dispatched for a proposal that was not Passed", 2: "a proposal dispatched twice in one transaction",
               3: "dispatched messages differ from refund + the proposed messages", 4: "Execute by an unauthorised caller",
               5: "Close accepted on a passed or executed proposal", 6: "Close accepted before expiry", 7: "Close dispatched messages",
               8: "Propose/Vote emitted proposal messages or refunds", 9: "a failed handler call emitted messages",
               10: "a failed transaction changed proposals", 11: "proposal ids are not 1,2,3,...", 12: "a proposal disappeared",
               13: "content/threshold/total/expiry/proposer/deposit of an existing proposal changed", 14: "a proposal's status moved backwards",
               15: "a new proposal expires later than the maximum voting period",
               16: "the single-proposal query or the reverse listing reports a proposal differently from ListProposals",
               17: "messages dispatched although the recorded ballots do not imply Passed"}
C06_CLAUSES = {1: "ballots of a proposal changed other than by one new ballot of the voting address", 2: "ballot cast after expiry",
               3: "ballot cast on an executed proposal", 4: "ballot weight differs from the voter's weight in the proposal's snapshot",
               5: "zero-weight address voted", 6: "a new proposal does not hold exactly the proposer's Yes ballot",
               7: "proposer's ballot weight differs from the snapshot weight", 8: "proposal total differs from the sum of the snapshot weights",
               9: "ballot weight differs from the voter's weight when the proposal's block began (harness-recorded member list)",
               201: "proposer weight taken after a same-block group change", 202: "total taken after a same-block group change",
               203: "ballots outweigh the total"}
C15_CLAUSES = {1: "an executed proposal's deposit was not returned exactly once to the proposer", 2: "Close: refund missing or not promised",
               3: "a refund emitted by a call other than Execute/Close", 4: "deposit message without a configured deposit",
               5: "recorded deposit differs from the configured one", 6: "Propose accepted with funds other than exactly the deposit",
               7: "deposit not moved exactly from proposer to multisig", 8: "cw20 deposit not pulled by exactly one TransferFrom of the amount",
               204: "Close refused on an expired failed proposal: deposit not recoverable"}
CW3_KNOWN = {200: "D3", 201: "D3", 202: "D3", 203: "D3", 204: "D6"}


def mk_cw3_run(eval_index, clauses, proj):
    def run(prop, tier, seed, replay, coverage):
        return run_trace_family("cw3", "cw3", eval_index, clauses, proj, prop, tier, seed, replay, coverage,
                                quick_n=320, thorough_n=2400, steps=30, known_codes=CW3_KNOWN)
    return run


CW3_ASSUME = [
    "theorems are about the Gallina transliteration of cw3-fixed-multisig / cw3-flex-multisig and packages/cw3 (Cw3Model.v, "
    "Cw3Threshold.v); agreement with the Rust is measured on the explored histories only",
    "what a flex multisig reads from its group during a call (raw member/total now, Member{at_height}) is recorded from the real "
    "cw4-group by the harness and fed to the model; the group's own correctness is C09",
    "chain atomicity and depth-first dispatch are cw-multi-test's; nested self-calls are observed through the wrapped entry point",
    "proposal messages are a small language (bank send, self Execute/Close, accepted/refused target call); titles are opaque ids",
]


def _cw3_prop(pid, idx, clauses, proj, text):
    return {
        "id": pid, "props_file": "Props/%s.v" % pid,
        "coq_targets": ["Props/%s.v" % pid, "Cw3Check.v"], "exec_targets": ["Cw3Check.v"],
        "run": mk_cw3_run(idx, clauses, proj), "assumptions": CW3_ASSUME, "level_text": text,
        "design_ref": "DESIGN.md section 6 " + pid,
    }


PROPS["C03"] = _cw3_prop("C03", 0, C03_CLAUSES, "proposal list (status, ballots, threshold, total)",
    "Axiom-free Coq theorems: in every reachable state of either multisig the tally is the sum of the recorded ballots per "
    "option and a Passed/Executed proposal has Yes weight > 0; the status reported by queries and the status Execute/Close are "
    "admitted on are one function, which for a stored-Open proposal is C04's threshold rule on the present tally, total and "
    "expiry; Execute is admitted only when it says Passed (never with zero Yes); decisions latched before expiry stay valid for "
    "every later tally within the total (C04 stability); on cw3-fixed ballots never outweigh the total (sum over the voter map); "
    "the latch invariant (a stored Passed/Rejected agrees with the rule on the present tally) is kept by time and by every "
    "accepted call, hence every reported status is the outcome the ballots imply (c03_status_is_outcome); the range condition "
    "is discharged over whole histories: c03_fixed_history (cw3-fixed, every history from instantiate with blocks not going "
    "backwards, every later query) and c03_flex_history (cw3-flex composed with the cw4 model, every interleaving of multisig "
    "and group transactions outside the known class D3). Tie to "
    "the Rust: S_C03 recomputes the outcome from ListVotes, threshold, total and expiry for every proposal before and after "
    "every call on both real contracts (measured) + model/implementation equality of every proposal.")
PROPS["C05"] = _cw3_prop("C05", 1, C05_CLAUSES, "proposal list and handler responses",
    "Axiom-free Coq theorems: Execute is accepted only while the (query) status is Passed and only for an authorised caller, "
    "emits refund + exactly the proposed messages and marks Executed; Close only on an expired, not-passed, unsettled proposal "
    "and dispatches nothing but the refund; over EVERY history of handler calls (any callers incl. the multisig itself: "
    "re-entrancy, any blocks, failed calls rolled back) a proposal is settled at most once, so its messages are dispatched at "
    "most once (induction, absorbing finished states); content/threshold/total/expiry/deposit never change; ids are 1,2,3..; "
    "expiry <= max voting period; the reported status only moves Open -> Passed -> Executed | Open -> Rejected across every "
    "accepted call and the passing of time (c05_monotone) and hence between any two points of any history: c05_fixed_history "
    "(cw3-fixed from instantiate) and c05_flex_history (cw3-flex composed with the cw4 model, outside the known class D3). "
    "Tie to the Rust: S_C05 on every transaction incl. nested self-calls logged by the wrapped entry point (measured).")
PROPS["C06"] = _cw3_prop("C06", 2, C06_CLAUSES, "ballots, totals and the group's at-height answers",
    "Axiom-free Coq theorems: a vote adds exactly one ballot, only without a previous one, before expiry, on an unexecuted "
    "proposal, with weight >= 1 from the voter list / the group AT the proposal's start height; ballots and totals of existing "
    "proposals never change; cw3-fixed: total = sum of stored voters, ballots carry the voters' weights and never outweigh the "
    "total in any reachable state; cw3-flex: vote weight = Member{at start height}, which later group changes cannot alter "
    "(C09), and proposer weight/total are the same snapshot PROVIDED no group change earlier in the block; over every "
    "interleaving of multisig and group transactions outside that class the ballots never outweigh the total "
    "(c06_flex_ballots_within_total, both models composed); c06_refuted proves the full statement false otherwise (known finding D3). Tie to the Rust: S_C06 compares every new ballot with the real "
    "group's at-height answer and the start-of-block member list recorded by the harness (measured).")
PROPS["C15"] = _cw3_prop("C15", 3, C15_CLAUSES, "deposit messages and balances",
    "Axiom-free Coq theorems: Propose with a native deposit is accepted only with exactly one coin of exactly the amount; a "
    "cw20 deposit emits exactly one TransferFrom of the amount; refunds are emitted only by Execute (always) and Close (iff "
    "refund_failed_proposals), to the proposer, of the recorded deposit; a proposal is settled at most once over every history "
    "so refunds <= 1; an expired failed proposal still stored Open is always closable with refund; c15_refuted proves that not "
    "every failed proposal is (known finding D6). Tie to the Rust: S_C15 on every transaction incl. balance deltas of "
    "proposer and multisig in bank / cw20 (measured).")


# ------------------------------------------------------------------------------------------
# ics20 family
C11_CLAUSES = {1: "holdings of a token below the sum over channels of its outstanding balance",
               2: "a channel's outstanding balance exceeds what was escrowed on it (paid out more than escrowed)",
               3: "a packet naming a foreign denomination / port / channel or more than the outstanding balance released tokens or changed state"}
C12_CLAUSES = {1: "accepted transfer did not emit exactly one packet with the escrowed amount, key, true sender, receiver, memo and timeout",
               2: "packet amount above 2^64-1", 3: "channel balance / total not raised by exactly the amount (or another entry moved)",
               4: "a failed call moved balances", 5: "transfer accepted without exactly one coin of a plain denom / a well-formed cw20 hook",
               6: "a governance call touched channel balances or emitted messages", 7: "handling an incoming packet aborted",
               8: "error acknowledgement, yet balances / escrow / payouts differ from before the packet",
               9: "success acknowledgement without the balance reduced by exactly the amount", 10: "success acknowledgement without the receiver being paid the amount",
               11: "a success acknowledgement of our packet changed balances", 12: "failed send not taken off the channel balance by exactly its amount",
               13: "refund of a failed send not paid to the original sender", 14: "tokens sent outside the protocol changed channel balances",
               15: "migrated from an old layout, yet a channel's outstanding balance differs from what is actually escrowed",
               16: "a migration of an up-to-date contract rewrote channel balances",
               20: "accounting identity outstanding = sent - failed - redeemed broken"}
C18_CLAUSES = {1: "an allowed token was removed or its gas limit lowered", 2: "allow list / governance / defaults changed other than by the governance address's own call",
               3: "cw20 transfer accepted although the token is not allowed and no default gas limit is set",
               4: "payout / refund issued with a gas limit other than the token's limit or the default",
               5: "migrate touched the allow list or the governance address", 6: "migrate lost the default gas limit"}


def mk_ics20_run(eval_index, clauses, proj):
    def run(prop, tier, seed, replay, coverage):
        return run_trace_family("ics20", "ics20", eval_index, clauses, proj, prop, tier, seed, replay, coverage,
                                quick_n=320, thorough_n=3200, steps=30)
    return run


ICS20_ASSUME = [
    "theorems are about the Gallina transliteration of contracts/cw20-ics20 (Ics20Model.v); agreement with the Rust is measured "
    "on the explored histories only",
    "IBC core: the counterparty endpoint of an incoming packet is genuine, every packet we sent is acknowledged or timed out at "
    "most once and nobody else's is (the generator settles each sent packet at most once); the counterparty itself is arbitrary",
    "honest cw20 tokens call Receive only from their own Send; an address calling Receive directly only creates state under its own key",
    "IBC entry points are driven through a sudo adaptor of the harness; cw-multi-test's IbcAcceptingModule accepts SendPacket; its "
    "bank pays any address string; SubMsg gas limits are recorded, not enforced; JSON wire formats are the crate's own types",
    "migrate's balance queries are a parameter of the model (what the contract actually holds per key; None = the query fails); "
    "in the world model they are the ledger's answers",
]


def _ics20_prop(pid, idx, clauses, proj, text):
    return {
        "id": pid, "props_file": "Props/%s.v" % pid,
        "coq_targets": ["Props/%s.v" % pid, "Ics20Check.v"], "exec_targets": ["Ics20Check.v"],
        "run": mk_ics20_run(idx, clauses, proj), "assumptions": ICS20_ASSUME, "level_text": text,
        "design_ref": "DESIGN.md section 6 " + pid,
    }


PROPS["C11"] = _ics20_prop("C11", 0, C11_CLAUSES, "channel balances and holdings",
    "Axiom-free Coq theorems: for every honest token, over EVERY history of transfers, cw20 sends, incoming packets with "
    "arbitrary contents, acks, timeouts and donations in any order with payouts/refunds failing at arbitrary points, holdings "
    ">= the sum over channels of the outstanding balance (induction over histories on the world = contract state + token "
    "ledger); per channel outstanding <= total_sent in every reachable state; unparsable / foreign-port / foreign-channel / "
    "foreign-denom / over-balance packets yield an error ack and change nothing; the same invariant holds with migrations "
    "anywhere in the history, the balance-rewriting ones from the 0.11-0.13 layouts included (c11_solvent_with_migrations). "
    "Tie to the Rust: S_C11 on every step of generated histories on the real contract incl. IBC "
    "entry points, failing payouts, hostile vouchers, legacy layouts + equality of holdings and channel state (measured).")
PROPS["C12"] = _ics20_prop("C12", 1, C12_CLAUSES, "channel state, messages and acknowledgements",
    "Axiom-free Coq theorems: over every history outstanding + failed + redeemed = sent and total_sent = sent per channel and "
    "key (ghost sums, induction); the receive transaction always yields an acknowledgement (never aborts); an error ack leaves "
    "everything but the scratch reply_args exactly as before (reduce + undo restore the very same table); a success ack only "
    "for a voucher of our counterparty's port/channel, with exactly one payout of the amount and the balance reduced by it; "
    "every accepted transfer emits exactly one packet (0 < amount <= 2^64-1, key, true sender, receiver, memo, block time + "
    "requested-or-default timeout) and raises outstanding and total_sent by the amount; every upgrade path keeps the "
    "accounting invariant and a balance-rewriting migration leaves outstanding = actual escrow per key; a migration raises "
    "outstanding and total_sent by one and the same amount, hence over EVERY history, migrations included, "
    "total_sent - outstanding = refunded + redeemed (c12_released_all_histories, c12_released_from_instantiate). Tie to the Rust: S_C12 + the identity with ghost counters on every step (measured).")
PROPS["C18"] = _ics20_prop("C18", 2, C18_CLAUSES, "allow list, governance address, defaults and payout gas limits",
    "Axiom-free Coq theorems: every accepted execute call only loosens the allow list and changes it or the governance address "
    "only when made by the current governance address; IBC entry points and migrate never touch the allow list; migrate sets "
    "governance only from the pre-allow-list layout and keeps the default gas limit unless asked; a cw20 transfer is accepted "
    "only if the token is allowed or a default limit is set; every payout/refund carries the token's limit or else the default "
    "(none for native); over EVERY history of world operations (calls, cw20 sends, packets with either payout outcome, acks, "
    "timeouts, donations, migrations) the allow list only ever loosens (c18_allow_only_loosens_history, by induction), and a "
    "history without governance calls and migrations changes no governance data. Tie to the Rust: S_C18 on every step incl. gas_limit of the logged sub-messages (measured).")


# ------------------------------------------------------------------------------------------
# C20: one case = one (listing, state size, limit): the pages of a complete walk on the real contract
C20_CLAUSES = {1: "a page exceeds the requested limit (or the default of 10)", 2: "a page exceeds the maximum of 30",
               3: "walking the pages does not return every current item exactly once in key order",
               4: "the walk did not end with an empty page"}


def run_c20(prop, tier, seed, replay, coverage):
    failing, divergent, errors = [], [], []
    d = fresh_dir("C20_replay" if replay else "C20_gen")
    if replay:
        harness(["c20", "replay", "--file", replay, "--out", d])
    else:
        harness(["c20", "gen", "--out", d, "--shard", "120" if tier == "quick" else "500"] + (["--thorough"] if tier != "quick" else []))
    results, errs, cases, stats = eval_dir(d, "c20")
    errors.extend(errs)
    for idx, code in results.get(0, []):
        case = cases[idx] if idx < len(cases) else "{}"
        if code >= 100:
            failing.append({"why": "%d (%s)" % (code - 100, C20_CLAUSES.get(code - 100, "?")), "case": case, "src": "gen"})
        else:
            divergent.append({"why": "pages of the implementation differ from the model's page function", "case": case, "src": "gen"})
    classes = stats.get("classes", {})
    coverage.update({
        "evaluations": len(cases),
        "distinct_nontrivial": len(classes),
        "rule": "case = (listing, number of items in the state, limit): the state is built on the real contract, the listing is walked "
                "from the start with last-key cursors until an empty page; 16 listings x state sizes (0,1,9,10,11,29,30,31,35,64; thorough: "
                "0..42,50,61,64,70) x limits (absent,0,1,2,7,10,29,30,31,100,u32::MAX); subkey allowances include a run of > 30 adjacent "
                "expired entries; Coq evaluates S_C20 on the pages and compares them with the model's walk; distinct = (listing, size "
                "class, limit class)",
        "samples": [json.loads(c) for c in cases[:2]],
        "traces_validated_against_impl": len(cases),
        "disagreements_checked": len(divergent),
        "distribution": classes,
    })
    return {"failing": failing, "divergent": divergent, "errors": errors}


PROPS["C20"] = {
    "id": "C20", "props_file": "Props/C20.v",
    "coq_targets": ["Props/C20.v", "Paging.v"], "exec_targets": ["Paging.v"],
    "run": run_c20,
    "assumptions": [
        "theorems are about the shared list-query model (Paging.v): range from an exclusive cursor in key order, optional filter, "
        "take(min(limit or DEFAULT, MAX)); that every one of the 16 listings of the Rust code is an instance is measured by the "
        "differential walk, not proved",
        "DEFAULT_LIMIT / MAX_LIMIT of the seven source files are re-read on every run (tools/extract_params.py -> Params.v); "
        "c20_constants fails to compile when one of them is not 10 / 30",
        "keys are abstracted to their rank in storage order (address byte order, proposal ids)",
    ],
    "level_text": "Axiom-free Coq theorems over the shared list-query model, for EVERY strictly ordered key set of any size, every "
                  "filter, every cursor reachable by a walk and every limit: no page exceeds 30 or the requested limit, the default "
                  "is 10, limit 0 yields an empty page, and walking with last-key cursors returns every current item exactly once in "
                  "key order (descending for the reverse listings) and ends with an empty page (induction on the remaining suffix); "
                  "the constants of all seven source files are proof obligations (= 10 / 30). Tie to the Rust: all 16 listings are "
                  "walked on the real contracts over states with 0..64 items and 11 limits; Coq evaluates S_C20 on the returned "
                  "pages and compares them with the model's walk (measured).",
    "design_ref": "DESIGN.md section 6 C20",
}
