#!/usr/bin/env python3
"""Entry point of every registered check:  ./check Cxx [--tier quick|thorough] [--replay FILE]

Pipeline (DESIGN.md section 3): constants translator -> Coq build of the property's theorems
(+ gates: no Admitted/Axiom/..., Print Assumptions allow-list) -> cargo build of the harness
against /repo's working tree -> differential run: harness executes generated cases on the real
contracts and writes them (inputs + implementation observations) as Coq source shards; coqc
evaluates, by vm_compute, the step contract S_P on every implementation step and the model's
answer to the same step -> verdict, replay file, evidence."""
import concurrent.futures
import fcntl
import glob
import hashlib
import json
import os
import re
import shutil
import subprocess
import sys
import time

VERIF = os.path.dirname(os.path.dirname(os.path.abspath(__file__)))
COQ = os.path.join(VERIF, "coq")
HARNESS = os.path.join(VERIF, "harness")
CACHE = os.path.join(VERIF, ".cache")
REPO = os.environ.get("VERIF_REPO", "/repo")
HBIN = os.path.join(HARNESS, "target", "debug", "verif-harness")

sys.path.insert(0, os.path.join(VERIF, "tools"))
from props import PROPS  # noqa: E402

FORBIDDEN = re.compile(
    r"\b(Admitted|admit|Axiom|Axioms|Parameter|Parameters|Conjecture|Hypothesis|Variable|Variables|"
    r"Admit Obligations|bypass_check)\b|Unset Guard|Unset Positivity|Unset Universe|type-in-type|impredicative-set")
ENV = dict(os.environ, CARGO_NET_OFFLINE="true", RUST_BACKTRACE="0")


def sh(cmd, cwd=None, timeout=1800, env=None):
    t0 = time.time()
    p = subprocess.run(cmd, cwd=cwd, shell=isinstance(cmd, str), stdout=subprocess.PIPE,
                       stderr=subprocess.STDOUT, timeout=timeout, env=env or ENV)
    return p.returncode, p.stdout.decode("utf-8", "replace"), time.time() - t0


class Lock:
    def __init__(self, name):
        os.makedirs(CACHE, exist_ok=True)
        self.f = open(os.path.join(CACHE, name + ".lock"), "w")

    def __enter__(self):
        fcntl.flock(self.f, fcntl.LOCK_EX)

    def __exit__(self, *a):
        fcntl.flock(self.f, fcntl.LOCK_UN)


def strip_comments(text):
    out, depth, i = [], 0, 0
    while i < len(text):
        if text.startswith("(*", i):
            depth += 1
            i += 2
        elif text.startswith("*)", i) and depth > 0:
            depth -= 1
            i += 2
        else:
            if depth == 0:
                out.append(text[i])
            i += 1
    return "".join(out)


def coq_sources():
    files = []
    for line in open(os.path.join(COQ, "_CoqProject")):
        line = line.strip()
        if line.endswith(".v"):
            files.append(line)
    return files


def grep_gate():
    bad = []
    for rel in coq_sources():
        text = strip_comments(open(os.path.join(COQ, rel)).read())
        for m in FORBIDDEN.finditer(text):
            # Section-local Variable/Hypothesis are allowed by the brief but not used here at all
            bad.append("%s: %s" % (rel, m.group(0)))
    return bad


def theorems_of(prop_file):
    text = strip_comments(open(os.path.join(COQ, prop_file)).read())
    return re.findall(r"^\s*Theorem\s+(\w+)", text, re.M)


def build_coq(prop, tier="quick"):
    """returns (ok, info dict)."""
    info = {}
    with Lock("coq"):
        rc, out, _ = sh(["python3", os.path.join(VERIF, "tools", "extract_params.py"),
                         os.path.join(COQ, "Params.v")])
        try:
            info["params"] = json.loads(out.strip().splitlines()[-1])
        except Exception:
            info["params"] = {"error": out[-500:]}
        if not os.path.exists(os.path.join(COQ, "Makefile")) or \
                os.path.getmtime(os.path.join(COQ, "Makefile")) < os.path.getmtime(os.path.join(COQ, "_CoqProject")):
            sh("coq_makefile -f _CoqProject -o Makefile", cwd=COQ)
        targets = [t[:-2] + ".vo" for t in prop["coq_targets"]]
        rc, out, dt = sh(["timeout", "1500", "make", "-j16"] + targets, cwd=COQ)
        info["coq_build_s"] = round(dt, 1)
        if rc != 0:
            info["coq_error"] = out[-3000:]
            # the executable part (models + contracts) may still build: the search needs it
            rc2, out2, _ = sh(["timeout", "1500", "make", "-j16", "-k"] +
                              [t[:-2] + ".vo" for t in prop["exec_targets"]], cwd=COQ)
            info["exec_build_ok"] = (rc2 == 0)
            return False, info
    bad = grep_gate()
    if bad:
        info["coq_error"] = "forbidden constructs: " + "; ".join(bad)
        return False, info
    # Print Assumptions of every theorem of the property file
    ths = theorems_of(prop["props_file"])
    info["theorems"] = ths
    mod = "CwPlus." + prop["props_file"][:-2].replace("/", ".")
    os.makedirs(CACHE, exist_ok=True)
    pa = os.path.join(CACHE, "pa_%s.v" % prop["id"])
    with open(pa, "w") as f:
        f.write("Require Import %s.\n" % mod)
        for t in ths:
            f.write("Print Assumptions %s.\n" % t)
    rc, out, _ = sh(["timeout", "600", "coqc", "-Q", COQ, "CwPlus", pa], cwd=CACHE)
    closed = out.count("Closed under the global context")
    info["print_assumptions"] = {"theorems": len(ths), "closed": closed}
    if rc != 0 or closed != len(ths) or "Axioms:" in out:
        info["coq_error"] = "Print Assumptions gate: " + out[-2000:]
        return False, info
    if tier == "thorough":
        # independent re-check of the compiled property file and everything it depends on
        with Lock("coq"):
            rc, out, dt = sh(["timeout", "1500", "coqchk", "-silent", "-o", "-Q", COQ, "CwPlus", mod], cwd=COQ)
        flat = " ".join(out.split())
        m = re.search(r"\* Axioms: (.*?) \* Constants/Inductives relying on type-in-type: (.*?) \* Constants/Inductives "
                      r"relying on unsafe \(co\)fixpoints: (.*?) \* Inductives whose positivity is assumed: (.*?)$", flat)
        info["coqchk"] = {"wall_s": round(dt, 1), "rc": rc,
                          "axioms": m.group(1).strip() if m else None,
                          "type_in_type": m.group(2).strip() if m else None,
                          "unsafe_fixpoints": m.group(3).strip() if m else None,
                          "assumed_positivity": m.group(4).strip() if m else None}
        if rc != 0 or not m or any(m.group(k).strip() != "<none>" for k in (1, 2, 3, 4)):
            info["coq_error"] = "coqchk gate: " + out[-2000:]
            return False, info
    return True, info


def build_harness():
    with Lock("cargo"):
        lock_src = os.path.join(REPO, "Cargo.lock")
        rc, out, dt = sh(["cargo", "build", "--offline"], cwd=HARNESS, timeout=3000)
    return rc == 0, out[-4000:], round(dt, 1)


class Slot:
    """one of NSLOTS machine-wide slots for a shard evaluation: several checks started at the same time
    (each with 16 worker threads) still run at most NSLOTS `coqc` processes between them"""
    NSLOTS = 16

    def __enter__(self):
        d = os.path.join(CACHE, "slots")
        os.makedirs(d, exist_ok=True)
        k = os.getpid() % self.NSLOTS
        while True:
            for i in range(self.NSLOTS):
                f = open(os.path.join(d, "slot_%d.lock" % ((k + i) % self.NSLOTS)), "w")
                try:
                    fcntl.flock(f, fcntl.LOCK_EX | fcntl.LOCK_NB)
                    self.f = f
                    return self
                except OSError:
                    f.close()
            time.sleep(0.05)

    def __exit__(self, *a):
        fcntl.flock(self.f, fcntl.LOCK_UN)
        self.f.close()


def run_coqc(path):
    d = os.path.dirname(path)
    with Slot():
        rc, out, dt = sh(["timeout", "1700", "coqc", "-noglob", "-Q", COQ, "CwPlus", os.path.basename(path)], cwd=d,
                         timeout=1800)
    return path, rc, out, dt


PAIR = re.compile(r"\((\d+),\s*(\d+)\)")


def eval_shards(paths):
    """returns (results: per Eval of the shards, list of (index, code)), errors)"""
    results, errors = {}, []
    with concurrent.futures.ThreadPoolExecutor(max_workers=16) as ex:
        for path, rc, out, dt in ex.map(run_coqc, paths):
            if rc != 0:
                errors.append("%s: %s" % (os.path.basename(path), out[-1500:]))
                continue
            flat = " ".join(out.split())
            ms = re.findall(r"=\s*(\[.*?\])\s*:\s*list", flat)
            if not ms:
                errors.append("%s: unparsable output %s" % (os.path.basename(path), flat[-300:]))
                continue
            for k, body in enumerate(ms):
                for a, b in PAIR.findall(body):
                    results.setdefault(k, []).append((int(a), int(b)))
    for p in paths:
        for ext in (".vo", ".vok", ".vos", ".glob"):
            try:
                os.remove(p[:-2] + ext)
            except OSError:
                pass
    return {k: sorted(v) for k, v in results.items()}, errors


def load_known():
    try:
        return json.load(open(os.path.join(VERIF, "known_findings.json")))
    except OSError:
        return {"findings": []}


def write_evidence(prop, tier, seed, coverage, assumptions, wall, violations):
    os.makedirs(os.path.join(VERIF, "evidence"), exist_ok=True)
    ev = {
        "property_id": prop["id"], "tier": tier, "seed": seed, "level": "proof",
        "coverage": coverage, "assumptions": assumptions, "wall_s": round(wall, 1),
        "violations": violations,
    }
    with open(os.path.join(VERIF, "evidence", prop["id"] + ".json"), "w") as f:
        json.dump(ev, f, indent=1)
        f.write("\n")


TRUSTED = [
    "Coq 8.16.1 kernel incl. vm_compute (no native_compute)",
    "no axioms: every property theorem prints 'Closed under the global context'",
    "hand-written Gallina model tied to /repo by the differential run of this check (testing, not proof)",
    "tools/extract_params.py (constants translator), harness/ (Rust, cw-multi-test 2.0.0 as the chain)",
    "cosmwasm-std / cw-storage-plus / cw-utils / cw-controllers semantics are modelled, not verified",
]


def main():
    args = sys.argv[1:]
    if not args:
        print("usage: check Cxx [--tier quick|thorough] [--replay FILE]")
        return 2
    pid = args[0]
    tier = os.environ.get("VERIF_TIER", "quick")
    if "--tier" in args:
        tier = args[args.index("--tier") + 1]
    replay = args[args.index("--replay") + 1] if "--replay" in args else None
    try:
        seed = int(os.environ.get("VERIF_SEED", "1"))
    except ValueError:
        seed = 1
    prop = PROPS[pid]
    t0 = time.time()
    os.makedirs(os.path.join(VERIF, "replays"), exist_ok=True)

    coq_ok, cinfo = build_coq(prop, tier)
    h_ok, h_out, h_dt = build_harness()
    nth = len(cinfo.get("theorems", theorems_of(prop["props_file"])))
    coverage = {
        "obligations": nth, "discharged": nth if coq_ok else 0,
        "checker_cmd": "make -C coq %s.vo (coqc 8.16.1, full .vo build) + Print Assumptions gate" % prop["props_file"][:-2],
        "trusted_base": TRUSTED, "theorems": cinfo.get("theorems", []),
        "print_assumptions": cinfo.get("print_assumptions"), "params": cinfo.get("params"),
        "coq_build_s": cinfo.get("coq_build_s"), "harness_build_s": h_dt,
        "coqchk": cinfo.get("coqchk"),
    }
    violation = None  # (replay_path, suffix)

    def replay_path(tag):
        return os.path.join(VERIF, "replays", "%s_%s_seed%d.txt" % (pid, tag, seed))

    if not h_ok:
        rp = replay_path("harness_build")
        with open(rp, "w") as f:
            f.write("# property %s: broken correspondence = harness build against /repo's working tree\n" % pid)
            f.write(h_out)
        violation = (rp, " no-failing-input-found")
        coverage.update({"evaluations": 1, "distinct_nontrivial": 0, "rule": "harness did not build", "samples": []})
    else:
        run = prop["run"](prop, tier, seed, replay, coverage)
        # run returns dict: failing (list of dict with code, case), divergent, errors, known_lines
        for line in run.get("known_lines", []):
            print(line)
        if run["failing"]:
            first = run["failing"][0]
            rp = replay_path("violation")
            with open(rp, "w") as f:
                f.write("# property %s: step contract clause %s fails on the implementation\n" % (pid, first["why"]))
                f.write("# replay: ./check %s --replay %s\n" % (pid, rp))
                f.write(first["case"] + "\n")
            violation = (rp, "")
        elif run["divergent"] or run["errors"] or not coq_ok:
            rp = replay_path("broken")
            with open(rp, "w") as f:
                if not coq_ok:
                    f.write("# property %s: theorem(s) of %s no longer check\n" % (pid, prop["props_file"]))
                    f.write("# " + cinfo.get("coq_error", "").replace("\n", "\n# ") + "\n")
                if run["divergent"]:
                    d = run["divergent"][0]
                    f.write("# property %s: correspondence model/implementation broken (%s); the step contract "
                            "still holds on every explored implementation step\n" % (pid, d["why"]))
                    f.write(d["case"] + "\n")
                for e in run["errors"][:3]:
                    f.write("# evaluation error: " + e.replace("\n", "\n# ") + "\n")
            violation = (rp, " no-failing-input-found")
        coverage["search_after_break"] = run.get("search")

    if h_ok and not coq_ok and violation is None:
        rp = replay_path("broken")
        with open(rp, "w") as f:
            f.write("# property %s: theorem(s) of %s no longer check\n# %s\n" % (
                pid, prop["props_file"], cinfo.get("coq_error", "").replace("\n", "\n# ")))
        violation = (rp, " no-failing-input-found")

    wall = time.time() - t0
    write_evidence(prop, tier, seed, coverage, prop.get("assumptions", []), wall, 1 if violation else 0)
    if violation:
        print("VIOLATION property=%s replay=%s%s" % (pid, violation[0], violation[1]))
        return 1
    print("OK property=%s tier=%s seed=%d theorems=%d evaluations=%s wall=%.1fs" % (
        pid, tier, seed, nth, coverage.get("evaluations"), wall))
    return 0


if __name__ == "__main__":
    sys.exit(main())
