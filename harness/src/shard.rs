//! writes the differential cases as Coq source shards (one `coqc` call evaluates a shard)
use std::fs;
use std::io::Write;
use std::path::Path;

/// items: one Gallina term per case. Each shard defines `cases` and evaluates `check_fn base cases`.
pub fn write_list_shards(
    dir: &Path,
    prefix: &str,
    header: &str,
    elem_type: &str,
    check_fns: &[String],
    items: &[String],
    shard_size: usize,
) -> Vec<String> {
    fs::create_dir_all(dir).unwrap();
    let mut names = vec![];
    for (k, chunk) in items.chunks(shard_size.max(1)).enumerate() {
        let name = format!("{}_{}.v", prefix, k);
        let mut f = fs::File::create(dir.join(&name)).unwrap();
        writeln!(f, "{}", header).unwrap();
        // one definition per case keeps Coq's parser away from very long list literals
        let base = k * shard_size;
        for (i, it) in chunk.iter().enumerate() {
            writeln!(f, "Definition c{} : {} := {}.", base + i, elem_type, it).unwrap();
        }
        let mut acc = String::from("[]");
        // build the list in blocks of 50 to keep terms shallow
        let idx: Vec<usize> = (0..chunk.len()).map(|i| base + i).collect();
        let mut blocks = vec![];
        for (bi, blk) in idx.chunks(50).enumerate() {
            let body: Vec<String> = blk.iter().map(|i| format!("c{}", i)).collect();
            writeln!(f, "Definition blk{} : list {} := [{}].", bi, elem_type, body.join("; ")).unwrap();
            blocks.push(format!("blk{}", bi));
        }
        if !blocks.is_empty() {
            acc = blocks.join(" ++ ");
        }
        writeln!(f, "Definition cases : list {} := {}.", elem_type, acc).unwrap();
        for cf in check_fns {
            writeln!(f, "Eval vm_compute in ({} {} cases).", cf, base).unwrap();
        }
        names.push(name);
    }
    names
}
