//! C20: every paginated listing of every contract, walked page by page on the real contracts.
use crate::coqfmt::{list, opt};
use crate::world::set_block;
use cosmwasm_std::{coin, Addr, Coin, Empty, Uint128};
use cw20::{Cw20Coin, Cw20ExecuteMsg, Denom};
use cw4::Member;
use cw_multi_test::{App, ContractWrapper, Executor};
use cw_utils::{Duration, Expiration, Threshold};
use serde::{Deserialize, Serialize};
use std::collections::BTreeMap;

pub const LISTINGS: [&str; 16] = [
    "LCw20Accounts", "LCw20OwnerAllowances", "LCw20SpenderAllowances", "LSubkeysAllowances", "LSubkeysPermissions",
    "LFixedProposals", "LFixedReverse", "LFixedVotes", "LFixedVoters", "LFlexProposals", "LFlexReverse", "LFlexVotes",
    "LFlexVoters", "LGroupMembers", "LStakeMembers", "LIcs20Allowed",
];

#[derive(Serialize, Deserialize, Clone, Debug)]
pub struct Case {
    pub listing: usize,
    pub n: usize,
    pub limit: Option<u32>,
    #[serde(default)]
    pub keys: Vec<u64>,
    #[serde(default)]
    pub kept: Vec<u64>,
    #[serde(default)]
    pub pages: Vec<Vec<u64>>,
}

const ANOMALY: u64 = 999_999;
pub const LIMITS: [Option<u32>; 11] = [None, Some(0), Some(1), Some(2), Some(7), Some(10), Some(29), Some(30), Some(31), Some(100), Some(u32::MAX)];

fn addrs(app: &App, prefix: &str, n: usize) -> Vec<Addr> {
    let mut v: Vec<Addr> = (0..n).map(|i| app.api().addr_make(&format!("{}{}", prefix, i))).collect();
    v.sort_by(|a, b| a.as_str().cmp(b.as_str()));
    v
}
fn index_of(sorted: &[Addr]) -> BTreeMap<String, u64> {
    sorted.iter().enumerate().map(|(i, a)| (a.to_string(), i as u64)).collect()
}
fn walk_str(idx: &BTreeMap<String, u64>, limit: Option<u32>, mut q: impl FnMut(Option<String>, Option<u32>) -> Vec<String>) -> Vec<Vec<u64>> {
    let mut pages = vec![];
    let mut cursor: Option<String> = None;
    for _ in 0..400 {
        let p = q(cursor.clone(), limit);
        pages.push(p.iter().map(|s| *idx.get(s).unwrap_or(&ANOMALY)).collect());
        match p.last() {
            Some(l) => cursor = Some(l.clone()),
            None => break,
        }
    }
    pages
}
fn walk_u64(limit: Option<u32>, mut q: impl FnMut(Option<u64>, Option<u32>) -> Vec<u64>) -> Vec<Vec<u64>> {
    let mut pages = vec![];
    let mut cursor: Option<u64> = None;
    for _ in 0..400 {
        let p = q(cursor, limit);
        pages.push(p.clone());
        match p.last() {
            Some(l) => cursor = Some(*l),
            None => break,
        }
    }
    pages
}

fn cw20_code(app: &mut App) -> u64 {
    app.store_code(Box::new(ContractWrapper::new(cw20_base::contract::execute, cw20_base::contract::instantiate, cw20_base::contract::query)))
}

/// builds the state with n items for `listing` and walks it with every limit
pub fn run_listing(listing: usize, n: usize, limits: &[Option<u32>]) -> Vec<Case> {
    let mut out = vec![];
    let mut push = |limit: Option<u32>, keys: Vec<u64>, kept: Vec<u64>, pages: Vec<Vec<u64>>| {
        out.push(Case { listing, n, limit, keys, kept, pages });
    };
    let all = |n: usize| (0..n as u64).collect::<Vec<u64>>();
    match listing {
        0 | 1 | 2 => {
            let mut app = App::default();
            let creator = app.api().addr_make("creator");
            let code = cw20_code(&mut app);
            let accts = addrs(&app, "acct", if listing == 0 { n } else { 1 });
            let msg = cw20_base::msg::InstantiateMsg {
                name: "token".into(),
                symbol: "TOK".into(),
                decimals: 6,
                initial_balances: accts.iter().map(|a| Cw20Coin { address: a.to_string(), amount: Uint128::new(5) }).collect(),
                mint: None,
                marketing: None,
            };
            let tok = app.instantiate_contract(code, creator, &msg, &[], "tok", None).unwrap();
            if listing == 0 {
                let idx = index_of(&accts);
                for l in limits {
                    let pages = walk_str(&idx, *l, |c, lim| {
                        let r: cw20::AllAccountsResponse = app.wrap().query_wasm_smart(&tok, &cw20::Cw20QueryMsg::AllAccounts { start_after: c, limit: lim }).unwrap();
                        r.accounts
                    });
                    push(*l, all(n), all(n), pages);
                }
            } else if listing == 1 {
                let owner = accts[0].clone();
                let sp = addrs(&app, "spender", n);
                // expiry kinds are mixed; every fourth allowance has lapsed by the time of the walk (a lapsed allowance is still a stored item)
                let h0 = app.block_info().height;
                for (i, s) in sp.iter().enumerate() {
                    let e = match i % 4 { 1 => Some(Expiration::AtHeight(h0 + 5)), 2 => Some(Expiration::AtHeight(h0 + 1_000_000)), _ => None };
                    app.execute_contract(owner.clone(), tok.clone(), &Cw20ExecuteMsg::IncreaseAllowance { spender: s.to_string(), amount: Uint128::new(3), expires: e }, &[]).unwrap();
                }
                app.update_block(|b| { b.height += 10; b.time = b.time.plus_seconds(50); });
                let idx = index_of(&sp);
                for l in limits {
                    let pages = walk_str(&idx, *l, |c, lim| {
                        let r: cw20::AllAllowancesResponse = app.wrap().query_wasm_smart(&tok, &cw20::Cw20QueryMsg::AllAllowances { owner: owner.to_string(), start_after: c, limit: lim }).unwrap();
                        r.allowances.into_iter().map(|a| a.spender).collect()
                    });
                    push(*l, all(n), all(n), pages);
                }
            } else {
                // by-spender listing.  Every third owner's allowance is drawn down to exactly zero (the record stays),
                // and for odd n (and the large sizes) the token is a pre-0.14 one migrated just before the walk (the by-spender index is rebuilt)
                let spender = accts[0].clone();
                let ow = addrs(&app, "owner", n);
                let creator = app.api().addr_make("creator");
                let lcode = crate::cw20::legacy_capable_code(&mut app);
                let msg = cw20_base::msg::InstantiateMsg {
                    name: "token".into(),
                    symbol: "TOK".into(),
                    decimals: 6,
                    initial_balances: ow.iter().map(|a| Cw20Coin { address: a.to_string(), amount: Uint128::new(5) }).collect(),
                    mint: None,
                    marketing: None,
                };
                let tok = app.instantiate_contract(lcode, creator.clone(), &msg, &[], "tok2", Some(creator.to_string())).unwrap();
                // every owner grants two spenders (the walked one is the later of the two in key order), and the first owner in
                // key order a third one: an owner's entries then straddle every even position of the owner-keyed table
                let other = app.api().addr_make("other-spender");
                let third = app.api().addr_make("third-spender");
                let (spender, other) = if spender.as_str() > other.as_str() { (spender, other) } else { (other, spender) };
                let first_owner = ow.iter().min_by(|a, b| a.as_str().cmp(b.as_str())).cloned();
                // expiry kinds are mixed; the allowances of every fourth owner have lapsed by the time of the migration and the walk
                let h0 = app.block_info().height;
                let t0 = app.block_info().time;
                for (i, o) in ow.iter().enumerate() {
                    let e = match i % 4 { 1 => Some(Expiration::AtHeight(h0 + 5)), 2 => Some(Expiration::AtTime(t0.plus_seconds(1_000_000))), 3 if i % 8 == 3 => Some(Expiration::AtTime(t0.plus_seconds(20))), _ => None };
                    app.execute_contract(o.clone(), tok.clone(), &Cw20ExecuteMsg::IncreaseAllowance { spender: spender.to_string(), amount: Uint128::new(3), expires: e }, &[]).unwrap();
                    app.execute_contract(o.clone(), tok.clone(), &Cw20ExecuteMsg::IncreaseAllowance { spender: other.to_string(), amount: Uint128::new(2), expires: None }, &[]).unwrap();
                    if Some(o) == first_owner.as_ref() {
                        app.execute_contract(o.clone(), tok.clone(), &Cw20ExecuteMsg::IncreaseAllowance { spender: third.to_string(), amount: Uint128::new(1), expires: None }, &[]).unwrap();
                    }
                }
                for (i, o) in ow.iter().enumerate() {
                    if i % 3 == 0 {
                        app.execute_contract(spender.clone(), tok.clone(), &Cw20ExecuteMsg::TransferFrom { owner: o.to_string(), recipient: spender.to_string(), amount: Uint128::new(3) }, &[]).unwrap();
                    }
                }
                app.update_block(|b| { b.height += 10; b.time = b.time.plus_seconds(50); });
                if n % 2 == 1 || n >= 60 {
                    app.wasm_sudo(tok.clone(), &crate::cw20::SudoMsg::Legacy {}).unwrap();
                    app.migrate_contract(creator.clone(), tok.clone(), &cw20_base::msg::MigrateMsg {}, lcode).unwrap();
                }
                let idx = index_of(&ow);
                for l in limits {
                    let pages = walk_str(&idx, *l, |c, lim| {
                        let r: cw20::AllSpenderAllowancesResponse = app.wrap().query_wasm_smart(&tok, &cw20_base::msg::QueryMsg::AllSpenderAllowances { spender: spender.to_string(), start_after: c, limit: lim }).unwrap();
                        r.allowances.into_iter().map(|a| a.owner).collect()
                    });
                    push(*l, all(n), all(n), pages);
                }
            }
        }
        3 | 4 => {
            use cw1_subkeys::msg::{AllAllowancesResponse, AllPermissionsResponse, ExecuteMsg, QueryMsg};
            let mut app = App::default();
            set_block(&mut app, 100, 1_000_000_000);
            let admin = app.api().addr_make("admin");
            let code = app.store_code(Box::new(ContractWrapper::new(cw1_subkeys::contract::execute, cw1_subkeys::contract::instantiate, cw1_subkeys::contract::query)));
            let proxy = app
                .instantiate_contract(code, admin.clone(), &cw1_whitelist::msg::InstantiateMsg { admins: vec![admin.to_string()], mutable: true }, &[], "proxy", None)
                .unwrap();
            let sk = addrs(&app, "subkey", n);
            // which allowances will have expired by query time: a long adjacent run (longer than any page) plus scattered ones
            let expired = |i: usize| -> bool { (n >= 12 && i >= n / 4 && i < n / 4 + 35.min(n / 2)) || i % 7 == 3 };
            let mut kept = vec![];
            for (i, s) in sk.iter().enumerate() {
                if listing == 3 {
                    let e = if expired(i) { Some(Expiration::AtHeight(150)) } else if i % 2 == 0 { Some(Expiration::AtHeight(100_000)) } else { None };
                    app.execute_contract(admin.clone(), proxy.clone(), &ExecuteMsg::<Empty>::IncreaseAllowance { spender: s.to_string(), amount: coin(1, "uatom"), expires: e }, &[]).unwrap();
                    if !expired(i) {
                        kept.push(i as u64);
                    }
                } else {
                    app.execute_contract(
                        admin.clone(),
                        proxy.clone(),
                        &ExecuteMsg::<Empty>::SetPermissions { spender: s.to_string(), permissions: cw1_subkeys::state::Permissions { delegate: true, redelegate: false, undelegate: i % 2 == 0, withdraw: false } },
                        &[],
                    )
                    .unwrap();
                    kept.push(i as u64);
                }
            }
            set_block(&mut app, 200, 2_000_000_000);
            let idx = index_of(&sk);
            for l in limits {
                let pages = walk_str(&idx, *l, |c, lim| {
                    if listing == 3 {
                        let r: AllAllowancesResponse = app.wrap().query_wasm_smart(&proxy, &QueryMsg::<Empty>::AllAllowances { start_after: c, limit: lim }).unwrap();
                        r.allowances.into_iter().map(|a| a.spender).collect()
                    } else {
                        let r: AllPermissionsResponse = app.wrap().query_wasm_smart(&proxy, &QueryMsg::<Empty>::AllPermissions { start_after: c, limit: lim }).unwrap();
                        r.permissions.into_iter().map(|a| a.spender).collect()
                    }
                });
                push(*l, all(n), kept.clone(), pages);
            }
        }
        5..=12 => {
            let flex = listing >= 9;
            let kind = (listing - 5) % 4; // 0 proposals, 1 reverse, 2 votes, 3 voters
            let mut app = App::default();
            set_block(&mut app, 100, 1_000_000_000);
            let creator = app.api().addr_make("creator");
            let nvoters = match kind {
                0 | 1 => 2,
                _ => n,
            };
            if nvoters == 0 && (!flex || kind == 2) {
                return out; // a fixed multisig needs a voter; votes need a proposer
            }
            let voters = addrs(&app, "voter", nvoters);
            let threshold = if flex {
                Threshold::AbsolutePercentage { percentage: cosmwasm_std::Decimal::percent(50) }
            } else {
                Threshold::AbsoluteCount { weight: 1 }
            };
            let period = Duration::Height(1_000_000);
            let ms = if flex {
                let gcode = app.store_code(Box::new(ContractWrapper::new(cw4_group::contract::execute, cw4_group::contract::instantiate, cw4_group::contract::query)));
                let group = app
                    .instantiate_contract(
                        gcode,
                        creator.clone(),
                        &cw4_group::msg::InstantiateMsg { admin: None, members: voters.iter().map(|v| Member { addr: v.to_string(), weight: 1 }).collect() },
                        &[],
                        "group",
                        None,
                    )
                    .unwrap();
                set_block(&mut app, 101, 1_001_000_000);
                let code = app.store_code(Box::new(ContractWrapper::new(cw3_flex_multisig::contract::execute, cw3_flex_multisig::contract::instantiate, cw3_flex_multisig::contract::query)));
                let r = app.instantiate_contract(
                    code,
                    creator.clone(),
                    &cw3_flex_multisig::msg::InstantiateMsg { group_addr: group.to_string(), threshold, max_voting_period: period, executor: None, proposal_deposit: None },
                    &[],
                    "flex",
                    None,
                );
                match r {
                    Ok(a) => a,
                    Err(_) => return out, // (an empty group cannot back an absolute-count threshold)
                }
            } else {
                let code = app.store_code(Box::new(ContractWrapper::new(cw3_fixed_multisig::contract::execute, cw3_fixed_multisig::contract::instantiate, cw3_fixed_multisig::contract::query)));
                app.instantiate_contract(
                    code,
                    creator.clone(),
                    &cw3_fixed_multisig::msg::InstantiateMsg { voters: voters.iter().map(|v| cw3_fixed_multisig::msg::Voter { addr: v.to_string(), weight: 1 }).collect(), threshold, max_voting_period: period },
                    &[],
                    "fixed",
                    None,
                )
                .unwrap()
            };
            set_block(&mut app, 102, 1_002_000_000);
            let propose = |app: &mut App, who: &Addr| {
                if flex {
                    app.execute_contract(who.clone(), ms.clone(), &cw3_flex_multisig::msg::ExecuteMsg::Propose { title: "t".into(), description: "d".into(), msgs: vec![], latest: None }, &[]).unwrap();
                } else {
                    app.execute_contract(who.clone(), ms.clone(), &cw3_fixed_multisig::msg::ExecuteMsg::Propose { title: "t".into(), description: "d".into(), msgs: vec![], latest: None }, &[]).unwrap();
                }
            };
            match kind {
                0 | 1 => {
                    for _ in 0..n {
                        propose(&mut app, &voters[0]);
                    }
                    let keys: Vec<u64> = (1..=n as u64).collect();
                    for l in limits {
                        let pages = walk_u64(*l, |c, lim| {
                            let r: cw3::ProposalListResponse = match (flex, kind) {
                                (true, 0) => app.wrap().query_wasm_smart(&ms, &cw3_flex_multisig::msg::QueryMsg::ListProposals { start_after: c, limit: lim }).unwrap(),
                                (true, _) => app.wrap().query_wasm_smart(&ms, &cw3_flex_multisig::msg::QueryMsg::ReverseProposals { start_before: c, limit: lim }).unwrap(),
                                (false, 0) => app.wrap().query_wasm_smart(&ms, &cw3_fixed_multisig::msg::QueryMsg::ListProposals { start_after: c, limit: lim }).unwrap(),
                                (false, _) => app.wrap().query_wasm_smart(&ms, &cw3_fixed_multisig::msg::QueryMsg::ReverseProposals { start_before: c, limit: lim }).unwrap(),
                            };
                            r.proposals.into_iter().map(|p| p.id).collect()
                        });
                        push(*l, keys.clone(), keys.clone(), pages);
                    }
                }
                2 => {
                    propose(&mut app, &voters[0]);
                    for v in voters.iter().skip(1) {
                        if flex {
                            app.execute_contract(v.clone(), ms.clone(), &cw3_flex_multisig::msg::ExecuteMsg::Vote { proposal_id: 1, vote: cw3::Vote::Yes }, &[]).unwrap();
                        } else {
                            app.execute_contract(v.clone(), ms.clone(), &cw3_fixed_multisig::msg::ExecuteMsg::Vote { proposal_id: 1, vote: cw3::Vote::Yes }, &[]).unwrap();
                        }
                    }
                    let idx = index_of(&voters);
                    for l in limits {
                        let pages = walk_str(&idx, *l, |c, lim| {
                            let r: cw3::VoteListResponse = if flex {
                                app.wrap().query_wasm_smart(&ms, &cw3_flex_multisig::msg::QueryMsg::ListVotes { proposal_id: 1, start_after: c, limit: lim }).unwrap()
                            } else {
                                app.wrap().query_wasm_smart(&ms, &cw3_fixed_multisig::msg::QueryMsg::ListVotes { proposal_id: 1, start_after: c, limit: lim }).unwrap()
                            };
                            r.votes.into_iter().map(|v| v.voter).collect()
                        });
                        push(*l, all(n), all(n), pages);
                    }
                }
                _ => {
                    let idx = index_of(&voters);
                    for l in limits {
                        let pages = walk_str(&idx, *l, |c, lim| {
                            let r: cw3::VoterListResponse = if flex {
                                app.wrap().query_wasm_smart(&ms, &cw3_flex_multisig::msg::QueryMsg::ListVoters { start_after: c, limit: lim }).unwrap()
                            } else {
                                app.wrap().query_wasm_smart(&ms, &cw3_fixed_multisig::msg::QueryMsg::ListVoters { start_after: c, limit: lim }).unwrap()
                            };
                            r.voters.into_iter().map(|v| v.addr).collect()
                        });
                        push(*l, all(n), all(n), pages);
                    }
                }
            }
        }
        13 => {
            let mut app = App::default();
            let creator = app.api().addr_make("creator");
            let ms = addrs(&app, "member", n);
            let code = app.store_code(Box::new(ContractWrapper::new(cw4_group::contract::execute, cw4_group::contract::instantiate, cw4_group::contract::query)));
            let g = app
                .instantiate_contract(code, creator, &cw4_group::msg::InstantiateMsg { admin: None, members: ms.iter().map(|v| Member { addr: v.to_string(), weight: 2 }).collect() }, &[], "group", None)
                .unwrap();
            let idx = index_of(&ms);
            for l in limits {
                let pages = walk_str(&idx, *l, |c, lim| {
                    let r: cw4::MemberListResponse = app.wrap().query_wasm_smart(&g, &cw4_group::msg::QueryMsg::ListMembers { start_after: c, limit: lim }).unwrap();
                    r.members.into_iter().map(|m| m.addr).collect()
                });
                push(*l, all(n), all(n), pages);
            }
        }
        14 => {
            let mut app = App::default();
            let creator = app.api().addr_make("creator");
            let ms = addrs(&app, "staker", n);
            let us = ms.clone();
            app.init_modules(|router, _, storage| {
                for u in &us {
                    router.bank.init_balance(storage, u, vec![coin(100, "uatom")]).unwrap();
                }
            });
            let code = app.store_code(Box::new(ContractWrapper::new(cw4_stake::contract::execute, cw4_stake::contract::instantiate, cw4_stake::contract::query)));
            let g = app
                .instantiate_contract(
                    code,
                    creator,
                    &cw4_stake::msg::InstantiateMsg { denom: Denom::Native("uatom".into()), tokens_per_weight: Uint128::new(1), min_bond: Uint128::new(1), unbonding_period: Duration::Height(5), admin: None },
                    &[],
                    "stake",
                    None,
                )
                .unwrap();
            for u in &ms {
                app.execute_contract(u.clone(), g.clone(), &cw4_stake::msg::ExecuteMsg::Bond {}, &[Coin { denom: "uatom".into(), amount: Uint128::new(10) }]).unwrap();
            }
            let idx = index_of(&ms);
            for l in limits {
                let pages = walk_str(&idx, *l, |c, lim| {
                    let r: cw4::MemberListResponse = app.wrap().query_wasm_smart(&g, &cw4_stake::msg::QueryMsg::ListMembers { start_after: c, limit: lim }).unwrap();
                    r.members.into_iter().map(|m| m.addr).collect()
                });
                push(*l, all(n), all(n), pages);
            }
        }
        _ => {
            use cw20_ics20::msg::{AllowMsg, InitMsg, ListAllowedResponse, QueryMsg};
            let mut app = App::default();
            let creator = app.api().addr_make("creator");
            let toks = addrs(&app, "token", n);
            let code = app.store_code(Box::new(ContractWrapper::new(cw20_ics20::contract::execute, cw20_ics20::contract::instantiate, cw20_ics20::contract::query)));
            let ics = app
                .instantiate_contract(
                    code,
                    creator.clone(),
                    &InitMsg { default_timeout: 100, gov_contract: creator.to_string(), allowlist: toks.iter().map(|t| AllowMsg { contract: t.to_string(), gas_limit: None }).collect(), default_gas_limit: None },
                    &[],
                    "ics20",
                    None,
                )
                .unwrap();
            let idx = index_of(&toks);
            for l in limits {
                let pages = walk_str(&idx, *l, |c, lim| {
                    let r: ListAllowedResponse = app.wrap().query_wasm_smart(&ics, &QueryMsg::ListAllowed { start_after: c, limit: lim }).unwrap();
                    r.allow.into_iter().map(|a| a.contract).collect()
                });
                push(*l, all(n), all(n), pages);
            }
        }
    }
    out
}

pub fn sizes(thorough: bool) -> Vec<usize> {
    if thorough {
        let mut v: Vec<usize> = (0..=42).collect();
        v.extend([50, 61, 64, 70]);
        v
    } else {
        vec![0, 1, 9, 10, 11, 29, 30, 31, 35, 64]
    }
}

pub fn generate(thorough: bool) -> Vec<Case> {
    let mut out = vec![];
    for listing in 0..16 {
        for n in sizes(thorough) {
            out.extend(run_listing(listing, n, &LIMITS));
        }
    }
    out
}

pub fn replay(c: &Case) -> Vec<Case> {
    run_listing(c.listing, c.n, &[c.limit])
}

pub fn to_coq(c: &Case) -> String {
    format!(
        "mkCase {} {} {} {} {}",
        LISTINGS[c.listing],
        list(&c.keys, |k| k.to_string()),
        list(&c.kept, |k| k.to_string()),
        opt(&c.limit, |l| l.to_string()),
        list(&c.pages, |p| list(p, |k| k.to_string()))
    )
}

pub const COQ_HEADER: &str = "Require Import CwPlus.Base CwPlus.Paging.\nOpen Scope N_scope.\n";

pub fn class(c: &Case) -> String {
    format!(
        "{}|n={}|limit={}",
        LISTINGS[c.listing],
        match c.n {
            0 => "0",
            1..=10 => "1-10",
            11..=30 => "11-30",
            _ => ">30",
        },
        match c.limit {
            None => "none".to_string(),
            Some(0) => "0".to_string(),
            Some(x) if x <= 30 => "1-30".to_string(),
            _ => ">30".to_string(),
        }
    )
}
