//! shared pieces of the trace families: address pool, handler-response log, block control
use cosmwasm_std::{Addr, BlockInfo, Response, Timestamp};
use cw_multi_test::App;
use std::cell::RefCell;

thread_local! {
    /// Responses (or errors) returned by the wrapped entry points of the contract under test,
    /// in call order, for the transaction being executed.
    pub static LOG: RefCell<Vec<Result<Response, String>>> = RefCell::new(vec![]);
}

pub fn log_clear() {
    LOG.with(|l| l.borrow_mut().clear());
}
pub fn log_push(r: Result<Response, String>) {
    LOG.with(|l| l.borrow_mut().push(r));
}
pub fn log_take() -> Vec<Result<Response, String>> {
    LOG.with(|l| std::mem::take(&mut *l.borrow_mut()))
}

/// Pool of real bech32 addresses, sorted as byte strings: the index of an address is its id in
/// the model, so the model's N order is the storage key order.
#[derive(Clone)]
pub struct Pool {
    pub addrs: Vec<Addr>,
}

impl Pool {
    pub fn new(mut addrs: Vec<Addr>) -> Self {
        addrs.sort_by(|a, b| a.as_str().cmp(b.as_str()));
        addrs.dedup();
        Pool { addrs }
    }
    pub fn id(&self, a: &str) -> Option<usize> {
        self.addrs.iter().position(|x| x.as_str() == a)
    }
    pub fn addr(&self, i: usize) -> Addr {
        self.addrs[i].clone()
    }
    pub fn len(&self) -> usize {
        self.addrs.len()
    }
}

pub const INVALID_ADDR: &str = "!not-an-address";

pub fn set_block(app: &mut App, height: u64, time_ns: u64) {
    app.set_block(BlockInfo {
        height,
        time: Timestamp::from_nanos(time_ns),
        chain_id: "verif".to_string(),
    });
}
