//! C04: differential cases for packages/cw3 threshold arithmetic.
use crate::coqfmt::{b, opt};
use crate::rng::Rng;
use cosmwasm_std::{Addr, BlockInfo, Decimal, Timestamp, Uint128};
use cw3::{Proposal, Status, Votes};
use cw_utils::{Expiration, Threshold};
use serde::{Deserialize, Serialize};
use std::panic::{catch_unwind, AssertUnwindSafe};

#[derive(Serialize, Deserialize, Clone, Debug, PartialEq)]
pub enum Th {
    Count(u64),
    Pct(u128),
    Quorum(u128, u128),
}

#[derive(Serialize, Deserialize, Clone, Debug)]
pub struct Case {
    pub th: Th,
    pub total: u64,
    pub yes: u64,
    pub no: u64,
    pub abstain: u64,
    pub veto: u64,
    pub expired: bool,
    // implementation outputs; None = panic
    pub passed: Option<bool>,
    pub rejected: Option<bool>,
    pub status: Option<String>,
}

const DEN: u128 = 1_000_000_000_000_000_000;

fn dec(atomics: u128) -> Decimal {
    Decimal::new(Uint128::new(atomics))
}

pub fn run_impl(c: &mut Case) {
    let threshold = match c.th {
        Th::Count(w) => Threshold::AbsoluteCount { weight: w },
        Th::Pct(p) => Threshold::AbsolutePercentage { percentage: dec(p) },
        Th::Quorum(t, q) => Threshold::ThresholdQuorum {
            threshold: dec(t),
            quorum: dec(q),
        },
    };
    // "expired" is realised in several ways, chosen by the case's own numbers: by height, and by time with the
    // expiry inside the block's own second (before / after the block's sub-second part), or far away
    let now = Timestamp::from_nanos(1_600_000_000_700_000_000);
    let block = BlockInfo { height: 1000, time: now, chain_id: "verif".to_string() };
    let expires = match ((c.yes ^ c.total ^ c.no) % 4, c.expired) {
        (0, true) => Expiration::AtHeight(1000),
        (0, false) => Expiration::AtHeight(1001),
        (1, true) => Expiration::AtTime(now),
        (1, false) => Expiration::AtTime(now.plus_nanos(1)),
        (2, true) => Expiration::AtTime(now.minus_nanos(400_000_000)),
        (2, false) => Expiration::AtTime(now.plus_nanos(200_000_000)),
        (_, true) => Expiration::AtTime(now.minus_seconds(1)),
        (_, false) => Expiration::Never {},
    };
    let prop = Proposal {
        title: "t".into(),
        description: "d".into(),
        start_height: 1,
        expires,
        msgs: vec![],
        status: Status::Open,
        threshold,
        total_weight: c.total,
        votes: Votes {
            yes: c.yes,
            no: c.no,
            abstain: c.abstain,
            veto: c.veto,
        },
        proposer: Addr::unchecked("proposer"),
        deposit: None,
    };
    c.passed = catch_unwind(AssertUnwindSafe(|| prop.is_passed(&block))).ok();
    c.rejected = catch_unwind(AssertUnwindSafe(|| prop.is_rejected(&block))).ok();
    c.status = catch_unwind(AssertUnwindSafe(|| prop.current_status(&block)))
        .ok()
        .map(|s| format!("{:?}", s));
}

fn pick_pct(r: &mut Rng) -> u128 {
    // valid thresholds: [0.5, 1]
    match r.below(10) {
        0 => DEN / 2,
        1 => DEN / 2 + 1_000_000_000,
        2 => 666_666_666_666_666_667,
        3 => 999_999_999_999_999_999,
        4 => DEN,
        5 => DEN / 2 + 1,
        6 | 7 => (500_000_000 + r.below(500_000_001) as u128) * 1_000_000_000, // 9 decimals
        _ => DEN / 2 + (r.u128() % (DEN / 2 + 1)),
    }
}

fn pick_quorum(r: &mut Rng) -> u128 {
    match r.below(9) {
        0 => 1,
        1 => DEN,
        2 => DEN / 2,
        3 => 333_333_333_333_333_333,
        4 => 1_000_000_000,
        5 | 6 => (1 + r.below(1_000_000_000) as u128) * 1_000_000_000,
        _ => 1 + (r.u128() % DEN),
    }
}

fn pick_total(r: &mut Rng) -> u64 {
    match r.below(14) {
        0 => 0,
        1 => 1,
        2 => 2,
        3 => 3,
        4 => 15,
        5 => 999_999_999,
        6 => 1_000_000_001,
        7 => 1u64 << 32,
        8 => 1u64 << 63,
        9 => u64::MAX,
        10 | 11 => r.below(40),
        12 => r.below(100_000),
        _ => r.next(),
    }
}

/// ceil(p*w/DEN) in exact arithmetic (reference aim point, not the oracle)
fn ceil_mul(w: u64, p: u128) -> u64 {
    let prod = (w as u128).checked_mul(p);
    match prod {
        Some(x) => ((x + DEN - 1) / DEN) as u64,
        None => {
            // w*p overflows u128 only for huge w; split
            let hi = (w as u128 / 1_000_000_000) * p / 1_000_000_000;
            hi as u64
        }
    }
}

pub fn gen_case(r: &mut Rng) -> Case {
    let total = pick_total(r);
    let th = match r.below(3) {
        0 => {
            let w = match r.below(6) {
                0 => 1,
                1 => total,
                2 => total.saturating_add(1 + r.below(5)),
                3 => total / 2 + 1,
                4 => r.next(),
                _ => {
                    if total > 0 {
                        1 + r.below(total)
                    } else {
                        1
                    }
                }
            };
            Th::Count(w)
        }
        1 => Th::Pct(pick_pct(r)),
        _ => Th::Quorum(pick_pct(r), pick_quorum(r)),
    };
    // split the total
    let mut left = total;
    let abstain = match r.below(5) {
        0 => 0,
        1 => left,
        2 => left / 3,
        _ => {
            if left > 0 {
                r.below(left.min(u64::MAX - 1) + 1)
            } else {
                0
            }
        }
    };
    left -= abstain;
    let base = total - abstain;
    // aim yes at the boundary of the rule
    let aim = match &th {
        Th::Count(w) => *w,
        Th::Pct(p) => ceil_mul(base, *p),
        Th::Quorum(t, _) => ceil_mul(base, *t),
    };
    let yes = match r.below(8) {
        0 => 0,
        1 => left,
        2 => aim.min(left),
        3 => aim.saturating_sub(1).min(left),
        4 => aim.saturating_add(1).min(left),
        5 => (left / 2).min(left),
        _ => {
            if left > 0 {
                r.below(left.min(u64::MAX - 1) + 1)
            } else {
                0
            }
        }
    };
    left -= yes;
    let aim_no = match &th {
        Th::Count(w) => total.saturating_sub(*w),
        Th::Pct(p) => ceil_mul(base, DEN - *p),
        Th::Quorum(t, _) => ceil_mul(base, DEN - *t),
    };
    let no = match r.below(7) {
        0 => 0,
        1 => left,
        2 => aim_no.min(left),
        3 => aim_no.saturating_add(1).min(left),
        4 => aim_no.saturating_sub(1).min(left),
        _ => {
            if left > 0 {
                r.below(left.min(u64::MAX - 1) + 1)
            } else {
                0
            }
        }
    };
    left -= no;
    let veto = match r.below(4) {
        0 => 0,
        1 => left,
        _ => {
            if left > 0 {
                r.below(left.min(u64::MAX - 1) + 1)
            } else {
                0
            }
        }
    };
    let mut c = Case {
        th,
        total,
        yes,
        no,
        abstain,
        veto,
        expired: r.chance(1, 2),
        passed: None,
        rejected: None,
        status: None,
    };
    run_impl(&mut c);
    c
}

/// exhaustive small scope: all totals <= tmax, all tallies, a grid of rules, both expiry flags
pub fn exhaustive(tmax: u64) -> Vec<Case> {
    let pcts: [u128; 6] = [
        DEN / 2,
        DEN / 2 + 1,
        600_000_000_000_000_000,
        666_666_666_666_666_667,
        999_999_999_999_999_999,
        DEN,
    ];
    let quorums: [u128; 5] = [1, 333_333_333_333_333_333, DEN / 2, 800_000_000_000_000_000, DEN];
    let mut out = vec![];
    for total in 0..=tmax {
        let mut ths = vec![];
        for w in 1..=(total + 2) {
            ths.push(Th::Count(w));
        }
        for p in pcts {
            ths.push(Th::Pct(p));
        }
        for t in [pcts[0], pcts[3], pcts[5]] {
            for q in quorums {
                ths.push(Th::Quorum(t, q));
            }
        }
        for y in 0..=total {
            for n in 0..=(total - y) {
                for a in 0..=(total - y - n) {
                    for v in 0..=(total - y - n - a) {
                        for th in &ths {
                            for expired in [false, true] {
                                let mut c = Case {
                                    th: th.clone(),
                                    total,
                                    yes: y,
                                    no: n,
                                    abstain: a,
                                    veto: v,
                                    expired,
                                    passed: None,
                                    rejected: None,
                                    status: None,
                                };
                                run_impl(&mut c);
                                out.push(c);
                            }
                        }
                    }
                }
            }
        }
    }
    out
}

pub fn to_coq(c: &Case) -> String {
    let th = match &c.th {
        Th::Count(w) => format!("(AbsCount {})", w),
        Th::Pct(p) => format!("(AbsPct {})", p),
        Th::Quorum(t, q) => format!("(ThQuorum {} {})", t, q),
    };
    format!(
        "mkC04 {} {} (mkVotes {} {} {} {}) {} {} {} {}",
        th,
        c.total,
        c.yes,
        c.no,
        c.abstain,
        c.veto,
        b(c.expired),
        opt(&c.passed, |x| b(*x).to_string()),
        opt(&c.rejected, |x| b(*x).to_string()),
        opt(&c.status, |s| s.clone()),
    )
}

/// a coarse class used to count distinct non-trivial cases
pub fn class(c: &Case) -> String {
    let k = match c.th {
        Th::Count(_) => "count",
        Th::Pct(_) => "pct",
        Th::Quorum(_, _) => "quorum",
    };
    format!(
        "{}|exp={}|p={:?}|r={:?}|yes0={}|abs0={}|out={}",
        k,
        c.expired,
        c.passed,
        c.rejected,
        c.yes == 0,
        c.abstain == 0,
        c.yes + c.no + c.abstain + c.veto < c.total
    )
}

pub const COQ_HEADER: &str = "Require Import CwPlus.Base CwPlus.Cw3Threshold CwPlus.Cw3ThresholdContract.\nOpen Scope N_scope.\n";
